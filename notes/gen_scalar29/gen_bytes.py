def v(p,n=9,s=0): return " ".join(f"{p}{i}" for i in range(s,s+n))
def l(p,n=9,s=0): return ", ".join(f"{p}{i}" for i in range(s,s+n))
def wa(j): return " ".join(f"x{i}" for i in range(4*j,4*j+4))
sh=[3,6,9,12,15,18,21]
rs=[29,26,23,20,17,14,11]
limbs=["w0 % 2 ^ 29"]
for k in range(7):
    limbs.append(f"((w{k} / 2 ^ {rs[k]}) + ((w{k+1} * {2**sh[k]}) % 2 ^ 32)) % 2 ^ 29")
limbs.append("w7 / 2 ^ 8")
xs32=v('x',32); xl32=l('x',32)
words=" ".join(f"(word32 {wa(j)})" for j in range(8))
wsum=" + ".join((f"2 ^ {32*j} * " if j else "")+f"word32 {wa(j)}" for j in range(8))
wsumv=" + ".join((f"2 ^ {32*j} * " if j else "")+f"w{j}" for j in range(8))
out=f'''import Dalek.Proofs.Scalar29.Compose
import Dalek.Model.FieldBytes
/-! # Scalar29: the byte codecs `from_bytes` and `as_bytes` -/
set_option exponentiation.threshold 600
set_option maxRecDepth 100000

namespace Dalek.Proofs.Scalar29
open Dalek.IR Dalek.Gen.Norm.Scalar29 Dalek.Gen.Consts Dalek.Model.FieldBytes
open Dalek.Proofs.Scalar52 (Lim toZ_cons toZ_nil)

/-- little-endian `u32` from four bytes, in the shape produced by the translator -/
def word32 (b0 b1 b2 b3 : Int) : Int := ((((0 + b0 * 1) + b1 * 256) + b2 * 65536) + b3 * 16777216)

theorem word32_bd {{b0 b1 b2 b3 : Int}} (h : Lim 256 [b0, b1, b2, b3]) :
    0 ≤ word32 b0 b1 b2 b3 ∧ word32 b0 b1 b2 b3 < 2 ^ 32 := by
  simp only [Lim, word32] at *
  omega

theorem Lim_split4 {{B : Int}} {{a0 a1 a2 a3 : Int}} {{rest : List Int}}
    (h : Lim B (a0 :: a1 :: a2 :: a3 :: rest)) : Lim B [a0, a1, a2, a3] ∧ Lim B rest := by
  simp only [Lim] at h ⊢
  exact ⟨⟨h.1, h.2.1, h.2.2.1, h.2.2.2.1, trivial⟩, h.2.2.2.2⟩

/-- the nine limbs of `from_bytes` as functions of the eight words -/
def limbs8 ({v('w',8)} : Int) : List Int :=
  [{(","+chr(10)+"   ").join(limbs)}]

theorem from_bytes_fn_eq ({xs32} : Int) :
    from_bytes_fn {xs32} = limbs8 {words} := rfl

theorem limbs8_spec ({v('w',8)} : Int)
{chr(10).join(f"    (h{j} : 0 ≤ w{j} ∧ w{j} < 2 ^ 32)" for j in range(8))} :
    ∃ {v('o')}, limbs8 {v('w',8)} = [{l('o')}] ∧ Lim (2 ^ 29) [{l('o',8)}] ∧
      (0 ≤ o8 ∧ o8 < 2 ^ 24) ∧
      repZ [{l('o')}] = {wsumv} := by
  refine ⟨{", ".join(["_"]*9)}, rfl, ?_, ?_, ?_⟩
  · simp only [Lim, and_true]; omega
  · omega
  · simp only [repZ]; omega

theorem leValZ32_words ({xs32} : Int) :
    leValZ [{xl32}] = {wsum} := by
  simp only [leValZ, word32]; ring

theorem from_bytes_fn_spec ({xs32} : Int) (h : Lim 256 [{xl32}]) :
    ∃ {v('o')}, from_bytes_fn {xs32} = [{l('o')}] ∧ Lim (2 ^ 29) [{l('o',8)}] ∧
      (0 ≤ o8 ∧ o8 < 2 ^ 24) ∧ repZ [{l('o')}] = leValZ [{xl32}] := by
{chr(10).join(f"  obtain ⟨hb{j}, h⟩ := Lim_split4 h" for j in range(8))}
  rw [from_bytes_fn_eq, leValZ32_words]
  exact limbs8_spec {" ".join(["_"]*8)} {" ".join(f"(word32_bd hb{j})" for j in range(8))}

/-! ## `as_bytes` -/

theorem as_bytes_fn_spec ({v('a')} : Int) (ha : Lim (2 ^ 29) [{l('a',8)}]) (h8 : 0 ≤ a8 ∧ a8 < 2 ^ 24) :
    leValZ (as_bytes_fn {v('a')}) = repZ [{l('a')}] := by
  unfold as_bytes_fn
  simp only [leValZ, repZ, Lim] at *
  omega

theorem top_limb_lt_of_lt ({v('a')} : Int) (ha : Lim (2 ^ 29) [{l('a',8)}])
    (h : repZ [{l('a')}] < 2 ^ 256) : a8 < 2 ^ 24 := by
  simp only [Lim, repZ] at *
  omega

end Dalek.Proofs.Scalar29
'''
open('/verif/lean/Dalek/Proofs/Scalar29/Bytes.lean','w').write(out)

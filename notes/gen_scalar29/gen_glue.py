def v(p,n=9,s=0): return " ".join(f"{p}{i}" for i in range(s,s+n))
def l(p,n=9,s=0): return ", ".join(f"{p}{i}" for i in range(s,s+n))
def nested(n): 
    parts=[]; pre="h"
    for i in range(n): parts.append(pre+".1"); pre=pre+".2"
    return parts, pre
p9,rest9=nested(9)
p8,rest8=nested(8)
out=f'''import Dalek.Proofs.Scalar29.Bytes
/-! # Scalar29: glue between the `Nat`-level property statements and the `Int`-level kernel lemmas -/
set_option exponentiation.threshold 600

namespace Dalek.Proofs.Scalar29
open Dalek.IR Dalek.Model.FieldBytes
open Dalek.Proofs.Scalar52 (Lim ell ell_eq ell_eqZ toZ_cons toZ_nil lim_of_envIn)

theorem val_of_toZ {{out : List Nat}} {{o : List Int}} (h : toZ out = o) : (val29 out : Int) = repZ o := by
  rw [← repZ_toZ, h]

theorem repZ_cast9 ({v('a')} : Nat) :
    repZ [{", ".join(f"(a{i} : Int)" for i in range(9))}] = (val29 [{l('a')}] : Int) := repZ_toZ [{l('a')}]

theorem repZ_cast17 ({v('a',17)} : Nat) :
    repZ [{", ".join(f"(a{i} : Int)" for i in range(17))}] = (val29 [{l('a',17)}] : Int) :=
  repZ_toZ [{l('a',17)}]

theorem Lim_split9 {{B : Int}} {{{v('a')} : Int}} {{rest : List Int}}
    (h : Lim B ({" :: ".join(f"a{i}" for i in range(9))} :: rest)) : Lim B [{l('a')}] ∧ Lim B rest := by
  simp only [Lim] at h ⊢
  exact ⟨⟨{", ".join(p9)}, trivial⟩, {rest9}⟩

theorem Lim_split8 {{B : Int}} {{{v('a',8)} : Int}} {{rest : List Int}}
    (h : Lim B ({" :: ".join(f"a{i}" for i in range(8))} :: rest)) : Lim B [{l('a',8)}] ∧ Lim B rest := by
  simp only [Lim] at h ⊢
  exact ⟨⟨{", ".join(p8)}, trivial⟩, {rest8}⟩

theorem nat_emod_of_int {{o X : Nat}} (h : (o : Int) = (X : Int) % ell) : o = X % ell := by
  exact_mod_cast h

theorem nat_mont_of_zmod {{o N : Nat}} (h : ((o : Int) : ZMod ell) * 2 ^ 261 = ((N : Int) : ZMod ell)) :
    o * 2 ^ 261 % ell = N % ell := by
  apply (ZMod.natCast_eq_natCast_iff' _ _ ell).1
  rw [Int.cast_natCast, Int.cast_natCast] at h
  rw [Nat.cast_mul, Nat.cast_pow, Nat.cast_ofNat]
  exact h

theorem nat_mont_mul_of_zmod {{o A B : Nat}}
    (h : ((o : Int) : ZMod ell) * 2 ^ 261 = ((A : Int) : ZMod ell) * ((B : Int) : ZMod ell)) :
    o * 2 ^ 261 % ell = A * B % ell := by
  apply nat_mont_of_zmod
  rw [h, Nat.cast_mul, Int.cast_mul]

theorem leValZ_toZ : ∀ l : List Nat, leValZ (toZ l) = (leVal l : Int)
  | [] => rfl
  | b :: bs => by rw [toZ_cons, leValZ, leVal, leValZ_toZ bs]; push_cast; rfl

theorem leVal_of_toZ {{out : List Nat}} {{o : List Int}} (h : toZ out = o) : (leVal out : Int) = leValZ o := by
  rw [← leValZ_toZ, h]

/-- inputs inside `bytes n` are `< 256` -/
theorem limBytes_of_envIn {{n : Nat}} {{xs : List Nat}} (h : EnvIn xs (Dalek.Model.Contracts.bytes n)) :
    Lim 256 (toZ xs) :=
  lim_of_envIn 255 256 (by norm_num) n xs h

/-- a vector of 17 naturals whose `Int` image is within `[0, 9·(2^29-1)^2]` satisfies the `montgomery_reduce`
input contract -/
theorem envIn_wide_of_lim {{xs : List Nat}} (hlen : xs.length = 17) (h : Lim W1 (toZ xs)) :
    EnvIn xs Dalek.Model.Contracts.Scalar29.pre_montgomery_reduce := by
  apply envIn_of_lim _ 17 xs hlen
  have e : ((9 * (2 ^ 29 - 1) * (2 ^ 29 - 1) : Nat) : Int) + 1 = W1 := by norm_num [W1]
  rw [e]; exact h

theorem length_of_toZ {{out : List Nat}} {{o : List Int}} (h : toZ out = o) : out.length = o.length := by
  rw [← h]; exact (List.length_map _).symm

/-! ## destructuring output vectors, joining contracts -/

theorem list_of_length_succ {{α : Type}} {{l : List α}} {{n : Nat}} (h : l.length = n + 1) :
    ∃ a t, l = a :: t ∧ t.length = n := by
  cases l with
  | nil => simp at h
  | cons a t => exact ⟨a, t, rfl, by simpa using h⟩

theorem list9_of_length {{l : List Nat}} (h : l.length = 9) : ∃ {v('o')}, l = [{l('o')}] := by
  obtain ⟨o0, t0, rfl, h0⟩ := list_of_length_succ h
  obtain ⟨o1, t1, rfl, h1⟩ := list_of_length_succ h0
  obtain ⟨o2, t2, rfl, h2⟩ := list_of_length_succ h1
  obtain ⟨o3, t3, rfl, h3⟩ := list_of_length_succ h2
  obtain ⟨o4, t4, rfl, h4⟩ := list_of_length_succ h3
  obtain ⟨o5, t5, rfl, h5⟩ := list_of_length_succ h4
  obtain ⟨o6, t6, rfl, h6⟩ := list_of_length_succ h5
  obtain ⟨o7, t7, rfl, h7⟩ := list_of_length_succ h6
  obtain ⟨o8, t8, rfl, h8⟩ := list_of_length_succ h7
  have h := h8
  generalize t8 = t at *
  have : t = [] := List.eq_nil_of_length_eq_zero h
  subst this
  exact ⟨{l('o')}, rfl⟩

theorem list17_of_length {{l : List Nat}} (h : l.length = 17) : ∃ {v('o',17)}, l = [{l('o',17)}] := by
  obtain ⟨o0, t0, rfl, h0⟩ := list_of_length_succ h
  obtain ⟨o1, t1, rfl, h1⟩ := list_of_length_succ h0
  obtain ⟨o2, t2, rfl, h2⟩ := list_of_length_succ h1
  obtain ⟨o3, t3, rfl, h3⟩ := list_of_length_succ h2
  obtain ⟨o4, t4, rfl, h4⟩ := list_of_length_succ h3
  obtain ⟨o5, t5, rfl, h5⟩ := list_of_length_succ h4
  obtain ⟨o6, t6, rfl, h6⟩ := list_of_length_succ h5
  obtain ⟨o7, t7, rfl, h7⟩ := list_of_length_succ h6
  obtain ⟨o8, t8, rfl, h8⟩ := list_of_length_succ h7
  obtain ⟨o9, t9, rfl, h9⟩ := list_of_length_succ h8
  obtain ⟨o10, t10, rfl, h10⟩ := list_of_length_succ h9
  obtain ⟨o11, t11, rfl, h11⟩ := list_of_length_succ h10
  obtain ⟨o12, t12, rfl, h12⟩ := list_of_length_succ h11
  obtain ⟨o13, t13, rfl, h13⟩ := list_of_length_succ h12
  obtain ⟨o14, t14, rfl, h14⟩ := list_of_length_succ h13
  obtain ⟨o15, t15, rfl, h15⟩ := list_of_length_succ h14
  obtain ⟨o16, t16, rfl, h16⟩ := list_of_length_succ h15
  have h := h16
  generalize t16 = t at *
  have : t = [] := List.eq_nil_of_length_eq_zero h
  subst this
  exact ⟨{l('o',17)}, rfl⟩

theorem envIn_length : ∀ {{xs : List Nat}} {{ts : List Itv}}, EnvIn xs ts → xs.length = ts.length
  | [], [], _ => rfl
  | _ :: xs, _ :: ts, h => by simp [envIn_length (xs := xs) (ts := ts) h.2]
  | [], _ :: _, h => h.elim
  | _ :: _, [], h => h.elim

theorem envIn_append : ∀ {{xs : List Nat}} {{ts : List Itv}} {{ys : List Nat}} {{us : List Itv}},
    EnvIn xs ts → EnvIn ys us → EnvIn (xs ++ ys) (ts ++ us)
  | [], [], _, _, _, h2 => by simpa using h2
  | _ :: xs, _ :: ts, _, _, h1, h2 => ⟨h1.1, envIn_append h1.2 h2⟩
  | [], _ :: _, _, _, h, _ => h.elim
  | _ :: _, [], _, _, h, _ => h.elim

/-! ## Montgomery arithmetic on naturals (through `ZMod l`) -/

theorem zmod_of_nat_mod {{a b : Nat}} (h : a % ell = b % ell) : (a : ZMod ell) = (b : ZMod ell) :=
  (ZMod.natCast_eq_natCast_iff' a b ell).2 h

theorem nat_of_zmod_lt {{o X : Nat}} (ho : o < ell) (h : (o : ZMod ell) = (X : ZMod ell)) : o = X % ell := by
  have := (ZMod.natCast_eq_natCast_iff' o X ell).1 h
  rwa [Nat.mod_eq_of_lt ho] at this

/-- two Montgomery reductions with the constant `RR = R² mod l` in between give the plain product -/
theorem mont_twice {{A B C O RRv : Nat}} (h1 : C * 2 ^ 261 % ell = A * B % ell)
    (h2 : O * 2 ^ 261 % ell = C * RRv % ell) (hRR : RRv = (2 ^ 261) ^ 2 % ell) (hO : O < ell) :
    O = A * B % ell := by
  apply nat_of_zmod_lt hO
  have e1 := zmod_of_nat_mod h1
  have e2 := zmod_of_nat_mod h2
  have eR : (RRv : ZMod ell) = (2 ^ 261) ^ 2 := by
    rw [hRR, ZMod.natCast_mod, Nat.cast_pow, Nat.cast_pow, Nat.cast_ofNat]
  rw [Nat.cast_mul, Nat.cast_pow, Nat.cast_ofNat] at e1 e2
  rw [Nat.cast_mul] at e1 e2
  rw [eR] at e2
  rw [Nat.cast_mul]
  apply mul_right_cancel₀ two_pow_ne_zero
  apply mul_right_cancel₀ two_pow_ne_zero
  rw [e2, ← e1]; ring

/-- one Montgomery reduction of `a·RR` gives `a·R` -/
theorem mont_as {{A O RRv : Nat}} (h : O * 2 ^ 261 % ell = A * RRv % ell) (hRR : RRv = (2 ^ 261) ^ 2 % ell)
    (hO : O < ell) : O = A * 2 ^ 261 % ell := by
  apply nat_of_zmod_lt hO
  have e := zmod_of_nat_mod h
  have eR : (RRv : ZMod ell) = (2 ^ 261) ^ 2 := by
    rw [hRR, ZMod.natCast_mod, Nat.cast_pow, Nat.cast_pow, Nat.cast_ofNat]
  rw [Nat.cast_mul, Nat.cast_pow, Nat.cast_ofNat, Nat.cast_mul, eR] at e
  rw [Nat.cast_mul, Nat.cast_pow, Nat.cast_ofNat]
  apply mul_right_cancel₀ two_pow_ne_zero
  rw [e]; ring

theorem list18_of_length {{l : List Nat}} (h : l.length = 18) : ∃ o0 o1 o2 o3 o4 o5 o6 o7 o8 o9 o10 o11 o12 o13 o14 o15 o16 o17, l = [o0, o1, o2, o3, o4, o5, o6, o7, o8, o9, o10, o11, o12, o13, o14, o15, o16, o17] := by
  obtain ⟨a, t, rfl, ht⟩ := list_of_length_succ h
  obtain ⟨o0, o1, o2, o3, o4, o5, o6, o7, o8, o9, o10, o11, o12, o13, o14, o15, o16, rfl⟩ := list17_of_length ht
  exact ⟨a, o0, o1, o2, o3, o4, o5, o6, o7, o8, o9, o10, o11, o12, o13, o14, o15, o16, rfl⟩

/-- one Montgomery reduction of `a·R` gives `a` -/
theorem mont_R {{A O Rv : Nat}} (h : O * 2 ^ 261 % ell = A * Rv % ell) (hR : Rv = 2 ^ 261 % ell)
    (hO : O < ell) : O = A % ell := by
  apply nat_of_zmod_lt hO
  have e := zmod_of_nat_mod h
  have eR : (Rv : ZMod ell) = 2 ^ 261 := by
    rw [hR, ZMod.natCast_mod, Nat.cast_pow, Nat.cast_ofNat]
  rw [Nat.cast_mul, Nat.cast_pow, Nat.cast_ofNat, Nat.cast_mul, eR] at e
  exact mul_right_cancel₀ two_pow_ne_zero e

end Dalek.Proofs.Scalar29
'''
open('/verif/lean/Dalek/Proofs/Scalar29/Glue.lean','w').write(out)

def v(p,n=9): return " ".join(f"{p}{i}" for i in range(n))
def l(p,n=9): return ", ".join(f"{p}{i}" for i in range(n))
def coef(k):
    ts=[f"a{i} * b{k-i}" for i in range(9) if 0<=k-i<9]
    return " + ".join(ts)
school=",\n   ".join(coef(k) for k in range(17))
def mkb(ind): return "\n".join(ind+"; ".join(f"have := mul_bd ha{i} hb{j}" for j in range(9)) for i in range(9))
bds2=mkb("  "); bds=mkb("    ")
out=f'''import Dalek.Proofs.Scalar29.Basic
import Mathlib.Data.ZMod.Basic
/-! # Scalar29: `mul_internal` (one-level Karatsuba with `wrapping_sub`) and `square_internal` compute the nine-by-nine
schoolbook coefficients, each within the `montgomery_reduce` input contract.

The normal form of `mul_internal` keeps `% 2^64` around the eight middle coefficients (the interval analyser cannot see
that the Karatsuba differences do not wrap).  Each of them is shown to be the true coefficient: equal in `ZMod (2^64)`
by `ring` after erasing every `% 2^64`, and the coefficient is in `[0, 2^64)`. -/
set_option exponentiation.threshold 600
set_option maxRecDepth 100000

namespace Dalek.Proofs.Scalar29
open Dalek.IR Dalek.Gen.Norm.Scalar29 Dalek.Gen.Consts
open Dalek.Proofs.Scalar52 (Lim ell ell_eq ell_eqZ toZ_cons toZ_nil)

theorem mul_bd {{x y : Int}} (hx : 0 ≤ x ∧ x < 2 ^ 29) (hy : 0 ≤ y ∧ y < 2 ^ 29) :
    0 ≤ x * y ∧ x * y ≤ 288230375077969921 := by
  refine ⟨Int.mul_nonneg hx.1 hy.1, ?_⟩
  have h1 : x ≤ 536870911 := by omega
  have h2 : y ≤ 536870911 := by omega
  calc x * y ≤ 536870911 * 536870911 := Int.mul_le_mul h1 h2 hy.1 (by norm_num)
    _ = 288230375077969921 := by norm_num

theorem emod_cast64 (x : Int) : ((x % 2 ^ 64 : Int) : ZMod (2 ^ 64)) = (x : ZMod (2 ^ 64)) := by
  have h := ZMod.intCast_mod x (2 ^ 64)
  rw [Nat.cast_pow, Nat.cast_ofNat] at h
  exact h

/-- a `u64`-wrapped expression equals the true value `c` if they agree modulo `2^64` and `c` is a `u64` -/
theorem wrap_eq {{E c : Int}} (h0 : 0 ≤ c) (h1 : c < 2 ^ 64)
    (hz : ((E : Int) : ZMod (2 ^ 64)) = ((c : Int) : ZMod (2 ^ 64))) : E % 2 ^ 64 = c := by
  have h := (ZMod.intCast_eq_intCast_iff' E c (2 ^ 64)).1 hz
  rw [Nat.cast_pow, Nat.cast_ofNat] at h
  rw [h]
  exact Int.emod_eq_of_lt h0 h1

/-- the seventeen schoolbook coefficients -/
def school ({v('a')} {v('b')} : Int) : List Int :=
  [{school}]

/-- erase the wrapping: push the cast to `ZMod (2^64)` through and finish by `ring` -/
macro "wrap_ring" : tactic =>
  `(tactic| (simp only [Int.cast_add, Int.cast_sub, Int.cast_mul, emod_cast64]; ring))

set_option maxHeartbeats 1000000 in
theorem mul_internal_fn_eq_school ({v('a')} {v('b')} : Int)
    (ha : Lim (2 ^ 29) [{l('a')}]) (hb : Lim (2 ^ 29) [{l('b')}]) :
    mul_internal_fn {v('a')} {v('b')} = school {v('a')} {v('b')} := by
  simp only [Lim, and_true] at ha hb
  obtain ⟨{", ".join(f"ha{i}" for i in range(9))}⟩ := ha
  obtain ⟨{", ".join(f"hb{i}" for i in range(9))}⟩ := hb
{bds2}
  simp only [mul_internal_fn, school, List.cons.injEq, and_true]
  and_intros
  all_goals first
    | rfl
    | trivial
    | (refine wrap_eq ?h0 ?h1 ?hz
       case h0 => omega
       case h1 => omega
       case hz => wrap_ring)

theorem school_spec ({v('a')} {v('b')} : Int)
    (ha : Lim (2 ^ 29) [{l('a')}]) (hb : Lim (2 ^ 29) [{l('b')}]) :
    ∃ {v('z',17)}, school {v('a')} {v('b')} = [{l('z',17)}] ∧
      Lim W1 [{l('z',17)}] ∧
      repZ [{l('z',17)}] = repZ [{l('a')}] * repZ [{l('b')}] := by
  refine ⟨{", ".join(["_"]*17)}, rfl, ?_, ?_⟩
  · simp only [Lim, and_true] at ha hb ⊢
    obtain ⟨{", ".join(f"ha{i}" for i in range(9))}⟩ := ha
    obtain ⟨{", ".join(f"hb{i}" for i in range(9))}⟩ := hb
{bds}
    simp only [W1]
    omega
  · simp only [repZ]; ring

theorem mul_internal_fn_spec ({v('a')} {v('b')} : Int)
    (ha : Lim (2 ^ 29) [{l('a')}]) (hb : Lim (2 ^ 29) [{l('b')}]) :
    ∃ {v('z',17)}, mul_internal_fn {v('a')} {v('b')} = [{l('z',17)}] ∧
      Lim W1 [{l('z',17)}] ∧
      repZ [{l('z',17)}] = repZ [{l('a')}] * repZ [{l('b')}] := by
  rw [mul_internal_fn_eq_school _ _ _ _ _ _ _ _ _ _ _ _ _ _ _ _ _ _ ha hb]
  exact school_spec _ _ _ _ _ _ _ _ _ _ _ _ _ _ _ _ _ _ ha hb

/-- `square_internal(a)` computes the schoolbook coefficients of `a·a` (no wrapping terms here) -/
theorem square_internal_fn_eq ({v('a')} : Int) :
    square_internal_fn {v('a')} = school {v('a')} {v('a')} := by
  simp only [square_internal_fn, school]
  ring_nf

end Dalek.Proofs.Scalar29
'''
open('/verif/lean/Dalek/Proofs/Scalar29/Mul.lean','w').write(out)

def v(p,n=9,s=0): return " ".join(f"{p}{i}" for i in range(s,s+n))
def l(p,n=9,s=0): return ", ".join(f"{p}{i}" for i in range(s,s+n))
def wa(j): return " ".join(f"x{i}" for i in range(4*j,4*j+4))
lo=["w0 % 2 ^ 29"]
for k,(rs,sh) in enumerate([(29,3),(26,6),(23,9),(20,12),(17,15),(14,18),(11,21),(8,24)]):
    lo.append(f"((w{k} / 2 ^ {rs}) + ((w{k+1} * {2**sh}) % 2 ^ 32)) % 2 ^ 29")
hi=["((w8 / 2 ^ 5) + ((w9 * 134217728) % 2 ^ 32)) % 2 ^ 29", "(w9 / 2 ^ 2) % 2 ^ 29"]
for k,(rs,sh) in zip(range(9,15),[(31,1),(28,4),(25,7),(22,10),(19,13),(16,16)]):
    hi.append(f"((w{k} / 2 ^ {rs}) + ((w{k+1} * {2**sh}) % 2 ^ 32)) % 2 ^ 29")
hi.append("w15 / 2 ^ 13")
xs=v('x',64); xl=l('x',64)
words=" ".join(f"(word32 {wa(j)})" for j in range(16))
wsum=" + ".join((f"2 ^ {32*j} * " if j else "")+f"word32 {wa(j)}" for j in range(16))
wsumv=" + ".join((f"2 ^ {32*j} * " if j else "")+f"w{j}" for j in range(16))
sep=",\n   "
out=f'''import Dalek.Proofs.Scalar29.Glue
import Dalek.Gen.Scalar29
/-! # Scalar29: the limb-extraction prefix of `from_bytes_wide`

`from_bytes_wide` is `add(montgomery_mul(hi, RR), montgomery_mul(lo, R))` applied to the eighteen limbs `lo, hi` cut
out of the 64 input bytes.  That first part is not a separate function of the source; it is isolated here as the
program `widePrefix` (the first 82 statements of the translated `from_bytes_wide`), analysed by the normaliser INSIDE
the kernel (`widePrefix_norm_ok`), and specified.  That the rest of `from_bytes_wide` is the inlined sequence of its
callees applied to these limbs is checked in `Dalek/Props/C02/Scalar29Composed.lean` (`from_bytes_wide_is_script`). -/
set_option exponentiation.threshold 600
set_option maxRecDepth 100000

namespace Dalek.Proofs.Scalar29
open Dalek.IR Dalek.Gen.Consts Dalek.Model.FieldBytes Dalek.Model.Contracts
open Dalek.Proofs.Scalar52 (Lim toZ_cons toZ_nil)

/-- the statements of `from_bytes_wide` that assemble the sixteen words and cut them into `lo[0..9]`, `hi[0..9]` -/
def widePrefix : Prog := ⟨64, Dalek.Gen.Scalar29.from_bytes_wide.body.take 82, List.range' 128 18⟩

def widePrefixNorm : Option (NProg × List Itv) := Prog.norm widePrefix (bytes 64)

theorem widePrefixNorm_isSome : widePrefixNorm.isSome = true := by decide +kernel

def widePrefix_nprog : NProg := (widePrefixNorm.get widePrefixNorm_isSome).1
def widePrefix_post : List Itv := (widePrefixNorm.get widePrefixNorm_isSome).2

theorem widePrefix_norm_ok : Prog.norm widePrefix (bytes 64) = some (widePrefix_nprog, widePrefix_post) := by
  show widePrefixNorm = some ((widePrefixNorm.get widePrefixNorm_isSome).1, (widePrefixNorm.get widePrefixNorm_isSome).2)
  simp

theorem widePrefix_post_le : itvsLe widePrefix_post (rep 18 (ub (2 ^ 29 - 1))) = true := by decide +kernel

/-- the eighteen limbs as functions of the sixteen words -/
def limbs16 ({v('w',16)} : Int) : List Int :=
  [{sep.join(lo+hi)}]

theorem widePrefix_fn_ok ({xs} : Int) :
    widePrefix_nprog.evalZ [{xl}] = limbs16 {words} := by
  kernel_rfl

theorem limbs16_spec ({v('w',16)} : Int)
{chr(10).join(f"    (h{j} : 0 ≤ w{j} ∧ w{j} < 2 ^ 32)" for j in range(16))} :
    ∃ {v('p')} {v('q')}, limbs16 {v('w',16)} = [{l('p')}, {l('q')}] ∧
      Lim (2 ^ 29) [{l('p')}] ∧ Lim (2 ^ 29) [{l('q')}] ∧
      repZ [{l('p')}] + 2 ^ 261 * repZ [{l('q')}] = {wsumv} := by
  refine ⟨{", ".join(["_"]*18)}, rfl, ?_, ?_, ?_⟩
  · simp only [Lim, and_true]; omega
  · simp only [Lim, and_true]; omega
  · simp only [repZ]; omega

theorem leValZ64_words ({xs} : Int) :
    leValZ [{xl}] = {wsum} := by
  simp only [leValZ, word32]; ring

theorem widePrefix_fn_spec ({xs} : Int) (h : Lim 256 [{xl}]) :
    ∃ {v('p')} {v('q')}, widePrefix_nprog.evalZ [{xl}] = [{l('p')}, {l('q')}] ∧
      Lim (2 ^ 29) [{l('p')}] ∧ Lim (2 ^ 29) [{l('q')}] ∧
      repZ [{l('p')}] + 2 ^ 261 * repZ [{l('q')}] = leValZ [{xl}] := by
{chr(10).join(f"  obtain ⟨hb{j}, h⟩ := Lim_split4 h" for j in range(16))}
  rw [widePrefix_fn_ok, leValZ64_words]
  exact limbs16_spec {" ".join(["_"]*16)} {" ".join(f"(word32_bd hb{j})" for j in range(16))}

end Dalek.Proofs.Scalar29
'''
open('/verif/lean/Dalek/Proofs/Scalar29/Wide.lean','w').write(out)

L=[485872621, 9640146, 501691798, 502512965, 333, 0, 0, 0, 1048576]
R=[290322925, 442594051, 259787148, 377041255, 536700270, 536870911, 536870911, 536870911, 1048575]
RR=[190815506, 504634135, 361594685, 339687255, 426956673, 70249340, 485410621, 504909086, 328813]
LF=307527195
def v(p,n=9): return " ".join(f"{p}{i}" for i in range(n))
def l(p,n=9): return ", ".join(f"{p}{i}" for i in range(n))
def fn(n): return " → ".join(["Int"]*n)+" → List Int"
RRs=" ".join(map(str,RR)); RRl=", ".join(map(str,RR)); Rs=" ".join(map(str,R)); Rl=", ".join(map(str,R))
zv=v('z',17); zl=l('z',17)
canon=lambda o: f"(0 ≤ repZ [{l(o)}] ∧ repZ [{l(o)}] < ell)"
out=f'''import Dalek.Proofs.Scalar29.Montgomery
import Dalek.Proofs.Primes
/-! # Scalar29: compositions `montgomery_reduce ∘ mul_internal` (shallow-function level), `montgomery_square`,
`from_montgomery`, and the arithmetic in `ZMod l` with `R = 2^261` -/
set_option exponentiation.threshold 600
set_option maxRecDepth 100000

namespace Dalek.Proofs.Scalar29
open Dalek.IR Dalek.Gen.Norm.Scalar29 Dalek.Gen.Consts
open Dalek.Proofs.Scalar52 (Lim ell ell_eq ell_eqZ toZ_cons toZ_nil)

/-- apply a 17-argument function to a 17-element list -/
def ap17 (f : {fn(17)}) : List Int → List Int
  | [{zl}] => f {zv}
  | _ => []

/-- apply a 9-argument function to a 9-element list -/
def ap9 (f : {fn(9)}) : List Int → List Int
  | [{l('a')}] => f {v('a')}
  | _ => []

/-- `mul_internal(·, RR)` with the literal limbs of `constants::RR` -/
def mulRR ({v('c')} : Int) : List Int := mul_internal_fn {v('c')} {RRs}
/-- `mul_internal(·, R)` with the literal limbs of `constants::R` -/
def mulR ({v('c')} : Int) : List Int := mul_internal_fn {v('c')} {Rs}

theorem RR_literal : toZ U32.RR = [{RRl}] := rfl
theorem R_literal : toZ U32.R = [{Rl}] := rfl

/-! ## structural equalities (by `rfl`) -/

/-- `montgomery_reduce` with the standard first factor and a parameter for the final `carry as u32` -/
def mrStd (top : Int → Int) ({zv} : Int) : List Int :=
  mrTail {zv} ((((z0 % 2 ^ 32) * {LF}) % 2 ^ 32) % 2 ^ 29) top

theorem mrStd_spec (top : Int → Int) (htop : ∀ c : Int, 0 ≤ c → c < 2 ^ 29 → top c = c) ({zv} : Int)
    (hz : Lim W1 [{zl}])
    (hN : repZ [{zl}] < 2 ^ 261 * ell) :
    ∃ {v('o')}, mrStd top {zv} = [{l('o')}] ∧
      Lim (2 ^ 29) [{l('o')}] ∧
      (0 ≤ repZ [{l('o')}] ∧ repZ [{l('o')}] < ell) ∧
      (ell : Int) ∣ repZ [{l('o')}] * 2 ^ 261 - repZ [{zl}] :=
  mrTail_spec {" ".join(["_"]*18)} top htop rfl hz hN

/-- in `montgomery_square` the translator knows that the last carry fits in a `u32` (no truncation emitted) -/
theorem montgomery_square_fn_eq ({v('a')} : Int) :
    montgomery_square_fn {v('a')} = ap17 (mrStd (fun c => c)) (square_internal_fn {v('a')}) := rfl

/-- in `from_montgomery` the translator knows `limbs[0] < 2^32` and drops the first `as u32`, and it knows that
the last carry fits in a `u32` -/
theorem from_montgomery_fn_eq ({v('a')} : Int) :
    from_montgomery_fn {v('a')}
      = mrTail {v('a')} 0 0 0 0 0 0 0 0 (((a0 * {LF}) % 2 ^ 32) % 2 ^ 29) (fun c => c) := rfl

/-! ## arithmetic in `ZMod l` -/

theorem two_pow_ne_zero : ((2 : ZMod ell) ^ 261) ≠ 0 := by
  apply pow_ne_zero
  have h : ((2 : Nat) : ZMod ell) ≠ 0 := by
    rw [Ne, ZMod.natCast_eq_zero_iff]
    exact Nat.not_dvd_of_pos_of_lt (by norm_num) (by norm_num [ell])
  exact_mod_cast h

theorem zmod_of_dvd {{o N : Int}} (h : (ell : Int) ∣ o * 2 ^ 261 - N) :
    (o : ZMod ell) * 2 ^ 261 = (N : ZMod ell) := by
  have := (ZMod.intCast_eq_intCast_iff_dvd_sub N (o * 2 ^ 261) ell).2 h
  rw [this]; push_cast; ring

theorem eq_emod_of_zmod {{o X : Int}} (h0 : 0 ≤ o) (h1 : o < ell) (h : (o : ZMod ell) = (X : ZMod ell)) :
    o = X % ell := by
  have := (ZMod.intCast_eq_intCast_iff' o X ell).1 h
  rwa [Int.emod_eq_of_lt h0 h1] at this

theorem repZ_RR : repZ [{RRl}] = (((2 ^ 261) ^ 2 % ell : Nat) : Int) := by
  rw [← val29_RR, ← repZ_toZ, RR_literal]

theorem repZ_R : repZ [{Rl}] = ((2 ^ 261 % ell : Nat) : Int) := by
  rw [← val29_R, ← repZ_toZ, R_literal]

theorem RR_zmod : ((repZ [{RRl}] : Int) : ZMod ell) = (2 ^ 261) ^ 2 := by
  rw [repZ_RR, Int.cast_natCast, ZMod.natCast_mod]; push_cast; rfl

theorem R_zmod : ((repZ [{Rl}] : Int) : ZMod ell) = 2 ^ 261 := by
  rw [repZ_R, Int.cast_natCast, ZMod.natCast_mod]; push_cast; rfl

theorem RR_lim_lit : Lim (2 ^ 29) [{RRl}] := by simp only [Lim]; norm_num
theorem R_lim_lit : Lim (2 ^ 29) [{Rl}] := by simp only [Lim]; norm_num

theorem RR_canon : (0 : Int) ≤ repZ [{RRl}] ∧ repZ [{RRl}] < ell := by
  rw [repZ_RR]
  exact ⟨Int.natCast_nonneg _, by exact_mod_cast Nat.mod_lt _ (by norm_num [ell])⟩

theorem R_canon : (0 : Int) ≤ repZ [{Rl}] ∧ repZ [{Rl}] < ell := by
  rw [repZ_R]
  exact ⟨Int.natCast_nonneg _, by exact_mod_cast Nat.mod_lt _ (by norm_num [ell])⟩

theorem mul_lt_of_lt_pow {{A B : Int}} (hA : A < 2 ^ 261) (hB0 : 0 ≤ B) (hB : B < ell) :
    A * B < 2 ^ 261 * ell := by
  rcases hB0.eq_or_lt with h | h
  · rw [← h]; norm_num [ell]
  · exact Int.mul_lt_mul hA (le_of_lt hB) h (by norm_num)

/-! ## `montgomery_reduce ∘ mul_internal` -/

/-- `montgomery_reduce(mul_internal(a, b))` for `a·b < 2^261·l`: canonical `o` with `o·2^261 = a·b` in `ZMod l` -/
theorem mr_mi_spec ({v('a')} {v('b')} : Int)
    (ha : Lim (2 ^ 29) [{l('a')}]) (hb : Lim (2 ^ 29) [{l('b')}])
    (hab : repZ [{l('a')}] * repZ [{l('b')}] < 2 ^ 261 * ell) :
    ∃ {v('o')}, ap17 montgomery_reduce_fn (mul_internal_fn {v('a')} {v('b')}) = [{l('o')}] ∧
      Lim (2 ^ 29) [{l('o')}] ∧ {canon('o')} ∧
      ((repZ [{l('o')}] : Int) : ZMod ell) * 2 ^ 261
        = ((repZ [{l('a')}] : Int) : ZMod ell) * ((repZ [{l('b')}] : Int) : ZMod ell) := by
  obtain ⟨{l('z',17)}, hz, hzl, hzv⟩ := mul_internal_fn_spec {v('a')} {v('b')} ha hb
  rw [hz]
  obtain ⟨{l('o')}, he, hl, hc, hd⟩ := montgomery_reduce_fn_spec {zv} hzl (by rw [hzv]; exact hab)
  refine ⟨{l('o')}, he, hl, hc, ?_⟩
  rw [zmod_of_dvd hd, hzv]; push_cast; rfl

/-- `montgomery_reduce(mul_internal(c, RR))`: canonical representative of `c·2^261` (any 29-bit limbs `c`) -/
theorem mr_mulRR_spec ({v('c')} : Int) (hc : Lim (2 ^ 29) [{l('c')}]) :
    ∃ {v('o')}, ap17 montgomery_reduce_fn (mulRR {v('c')}) = [{l('o')}] ∧
      Lim (2 ^ 29) [{l('o')}] ∧ {canon('o')} ∧
      ((repZ [{l('o')}] : Int) : ZMod ell) = ((repZ [{l('c')}] : Int) : ZMod ell) * 2 ^ 261 := by
  obtain ⟨_, hC⟩ := repZ9_bd {v('c')} hc
  obtain ⟨{l('o')}, he, hl, hcan, hv⟩ := mr_mi_spec {v('c')} {" ".join(["_"]*9)} hc RR_lim_lit
    (mul_lt_of_lt_pow hC RR_canon.1 RR_canon.2)
  refine ⟨{l('o')}, he, hl, hcan, ?_⟩
  rw [RR_zmod] at hv
  apply mul_right_cancel₀ two_pow_ne_zero
  rw [hv]; ring

/-- `montgomery_reduce(mul_internal(c, R))`: the canonical representative of `c` (any 29-bit limbs `c`) -/
theorem mr_mulR_spec ({v('c')} : Int) (hc : Lim (2 ^ 29) [{l('c')}]) :
    ∃ {v('o')}, ap17 montgomery_reduce_fn (mulR {v('c')}) = [{l('o')}] ∧
      Lim (2 ^ 29) [{l('o')}] ∧ {canon('o')} ∧
      ((repZ [{l('o')}] : Int) : ZMod ell) = ((repZ [{l('c')}] : Int) : ZMod ell) := by
  obtain ⟨_, hC⟩ := repZ9_bd {v('c')} hc
  obtain ⟨{l('o')}, he, hl, hcan, hv⟩ := mr_mi_spec {v('c')} {" ".join(["_"]*9)} hc R_lim_lit
    (mul_lt_of_lt_pow hC R_canon.1 R_canon.2)
  refine ⟨{l('o')}, he, hl, hcan, ?_⟩
  rw [R_zmod] at hv
  exact mul_right_cancel₀ two_pow_ne_zero hv

/-! ## registered composed kernels -/

theorem montgomery_square_fn_spec ({v('a')} : Int) (ha : Lim (2 ^ 29) [{l('a')}])
    (hab : repZ [{l('a')}] * repZ [{l('a')}] < 2 ^ 261 * ell) :
    ∃ {v('o')}, montgomery_square_fn {v('a')} = [{l('o')}] ∧
      Lim (2 ^ 29) [{l('o')}] ∧ {canon('o')} ∧
      ((repZ [{l('o')}] : Int) : ZMod ell) * 2 ^ 261
        = ((repZ [{l('a')}] : Int) : ZMod ell) * ((repZ [{l('a')}] : Int) : ZMod ell) := by
  rw [montgomery_square_fn_eq, square_internal_fn_eq]
  obtain ⟨{l('z',17)}, hz, hzl, hzv⟩ := school_spec {v('a')} {v('a')} ha ha
  rw [hz]
  obtain ⟨{l('o')}, he, hl, hc, hd⟩ := mrStd_spec (fun c => c) (fun _ _ _ => rfl) {zv} hzl (by rw [hzv]; exact hab)
  refine ⟨{l('o')}, he, hl, hc, ?_⟩
  rw [zmod_of_dvd hd, hzv]; push_cast; rfl

theorem from_montgomery_fn_spec ({v('a')} : Int) (ha : Lim (2 ^ 29) [{l('a')}]) :
    ∃ {v('o')}, from_montgomery_fn {v('a')} = [{l('o')}] ∧
      Lim (2 ^ 29) [{l('o')}] ∧ {canon('o')} ∧
      ((repZ [{l('o')}] : Int) : ZMod ell) * 2 ^ 261 = ((repZ [{l('a')}] : Int) : ZMod ell) := by
  rw [from_montgomery_fn_eq]
  obtain ⟨hA0, hA⟩ := repZ9_bd {v('a')} ha
  have hrep : repZ [{l('a')}, 0, 0, 0, 0, 0, 0, 0, 0] = repZ [{l('a')}] := by simp only [repZ]; ring
  obtain ⟨{l('o')}, he, hl, hcan, hd⟩ := mrTail_spec {v('a')} 0 0 0 0 0 0 0 0 (((a0 * {LF}) % 2 ^ 32) % 2 ^ 29) (fun c => c)
    (fun _ _ _ => rfl)
    (by simp only [Lim] at ha; rw [Int.emod_eq_of_lt ha.1.1 (by omega)])
    (by simp only [Lim, W1, and_true] at ha ⊢; omega)
    (by rw [hrep]; have : (0:Int) < ell := by norm_num [ell]
        nlinarith)
  refine ⟨{l('o')}, he, hl, hcan, ?_⟩
  rw [zmod_of_dvd hd, hrep]

end Dalek.Proofs.Scalar29
'''
open('/verif/lean/Dalek/Proofs/Scalar29/Compose.lean','w').write(out)

def v(p,n=9,s=0): return " ".join(f"{p}{i}" for i in range(s,s+n))
def l(p,n=9,s=0): return ", ".join(f"{p}{i}" for i in range(s,s+n))
A=l('a'); B=l('b'); AB=A+", "+B; Z=l('z',17); X32=l('x',32)
u9=" ".join(["_"]*9); u18=" ".join(["_"]*18); u17=" ".join(["_"]*17); u32=" ".join(["_"]*32)
O=l('o')
def head(name, ins, pre, extra=""):
    return f'''(hin : EnvIn [{ins}] Scalar29.{pre}){extra} :
    ∃ out, Dalek.Gen.Scalar29.{name}.evalC [{ins}] = some out ∧
      Dalek.Gen.Scalar29.{name}.evalW [{ins}] = out ∧'''
def start(name, lim="lim29_of_envIn"):
    return f'''  obtain ⟨out, hC, hW, hpost, hZ⟩ := Prog.norm_sound _ _ _ _ {name}_norm_ok _ hin
  have hl := {lim} hin
  simp only [toZ_cons, toZ_nil] at hZ hl
  rw [{name}_fn_ok] at hZ'''
out=f'''import Dalek.IR.LimbSound
import Dalek.Proofs.Scalar29
/-!
# C02 — scalar arithmetic is exact arithmetic modulo `l` (serial u32 backend, 29-bit limbs; property theorems)

Statements are about `Dalek.Gen.Scalar29.*`: the LimbIR programs REGENERATED from
`curve25519-dalek/src/backend/serial/u32/scalar.rs` (constants `L`, `R`, `RR`, `LFACTOR` from `u32/constants.rs`).
Same shape as `Dalek/Props/C02/Scalar52.lean`: for inputs inside the bound contract (`Dalek.Model.Contracts.Scalar29`:
limbs `< 2^29`; `montgomery_reduce` words `≤ 9·(2^29-1)^2`) and satisfying the value hypothesis, the debug build
(`evalC`) does not panic, the release build (`evalW`) returns the same limbs, the output limbs are `< 2^29`, and
`val29 out` is the stated function of the input values.  The Montgomery radix is `2^261`.

`mul_internal` is the one-level Karatsuba with `wrapping_sub`; `mul_internal_spec` states that its 17 outputs are
nevertheless the schoolbook coefficients and lie inside the `montgomery_reduce` contract (this bound is NOT an
interval fact; it is proved from the value statement).

The composed items `montgomery_mul, mul, square, as_montgomery, from_bytes_wide` are not registered kernels (that the
inlined Karatsuba output stays inside the `montgomery_reduce` contract is not an interval fact).  Their theorems — about
the translated composed PROGRAMS, with the same statement shape — are in `Dalek/Props/C02/Scalar29Composed.lean`.
-/
set_option exponentiation.threshold 600

namespace Dalek.Props.C02.Scalar29
open Dalek.IR Dalek.Proofs.Scalar29 Dalek.Gen.Norm.Scalar29 Dalek.Model.Contracts Dalek.Gen.Consts
open Dalek.Proofs.Scalar52 (ell_eq toZ_cons toZ_nil)
open Dalek.Model.FieldBytes (leVal)

/-- the group order -/
abbrev l : Nat := 2 ^ 252 + 27742317777372353535851937790883648493

/-- output contract: nine limbs `< 2^29` -/
abbrev limbs29 : List Itv := rep 9 (ub (2 ^ 29 - 1))

/-! ## the constants -/

theorem L_value : val29 U32.L = l := val29_L
theorem R_value : val29 U32.R = 2 ^ 261 % l := val29_R
theorem RR_value : val29 U32.RR = (2 ^ 261) ^ 2 % l := val29_RR
theorem LFACTOR_value : U32.LFACTOR * U32.L.getD 0 0 % 2 ^ 29 = 2 ^ 29 - 1 := lfactor_spec

section
variable ({v('a')} {v('b')} : Nat)

/-- `Scalar29::sub(a, b)` on canonical inputs: `(a - b) mod l`, canonical -/
theorem sub_spec {head('sub',AB,'pre_sub',f"""
    (ha : val29 [{A}] < l) (hb : val29 [{B}] < l)""")}
      EnvIn out limbs29 ∧ val29 out < l ∧
      val29 out = (val29 [{A}] + l - val29 [{B}]) % l := by
{start('sub')}
  refine ⟨out, hC, hW, EnvIn_of_itvsLe hpost (by decide +kernel), ?_⟩
  obtain ⟨hla, hlb⟩ := Lim_split9 hl
  obtain ⟨{O}, he, -, hv⟩ := sub_fn_canon {u18} hla hlb
    (by rw [repZ_cast9]; exact_mod_cast ha) (by rw [repZ_cast9]; exact_mod_cast hb)
  rw [he] at hZ
  have h := val_of_toZ hZ.symm
  rw [hv, repZ_cast9, repZ_cast9] at h
  simp only [l, ell_eq] at *
  omega

/-- `Scalar29::sub(a, L)` for `a < 2l`: the canonical representative `a mod l` -/
theorem sub_L_spec (hin : EnvIn ([{A}] ++ U32.L) Scalar29.pre_sub)
    (ha : val29 [{A}] < 2 * l) :
    ∃ out, Dalek.Gen.Scalar29.sub.evalC ([{A}] ++ U32.L) = some out ∧
      Dalek.Gen.Scalar29.sub.evalW ([{A}] ++ U32.L) = out ∧
      EnvIn out limbs29 ∧ val29 out = val29 [{A}] % l := by
  obtain ⟨out, hC, hW, hpost, hZ⟩ := Prog.norm_sound _ _ _ _ sub_norm_ok _ hin
  refine ⟨out, hC, hW, EnvIn_of_itvsLe hpost (by decide +kernel), ?_⟩
  have hl := lim29_of_envIn hin
  simp only [U32.L, List.cons_append, List.nil_append, toZ_cons, toZ_nil] at hZ hl
  obtain ⟨hla, -⟩ := Lim_split9 hl
  rw [sub_fn_ok] at hZ
  obtain ⟨{O}, he, -, hv⟩ := sub_fn_L_spec {u9} hla
    (by rw [repZ_cast9]; exact_mod_cast ha)
  norm_num only at hZ
  rw [he] at hZ
  have h := val_of_toZ hZ.symm
  rw [hv, repZ_cast9] at h
  exact nat_emod_of_int h

/-- `Scalar29::add(a, b)` on canonical inputs: `(a + b) mod l`, canonical -/
theorem add_spec {head('add',AB,'pre_add',f"""
    (ha : val29 [{A}] < l) (hb : val29 [{B}] < l)""")}
      EnvIn out limbs29 ∧
      val29 out = (val29 [{A}] + val29 [{B}]) % l := by
{start('add')}
  refine ⟨out, hC, hW, EnvIn_of_itvsLe hpost (by decide +kernel), ?_⟩
  obtain ⟨hla, hlb⟩ := Lim_split9 hl
  obtain ⟨{O}, he, -, hv⟩ := add_fn_spec {u18} hla hlb
    (by rw [repZ_cast9]; exact_mod_cast ha) (by rw [repZ_cast9]; exact_mod_cast hb)
  rw [he] at hZ
  have h := val_of_toZ hZ.symm
  rw [hv, repZ_cast9, repZ_cast9] at h
  exact nat_emod_of_int (by exact_mod_cast h)

/-- `Scalar29::mul_internal(a, b)` (Karatsuba with wrapping subtractions): the seventeen outputs are the schoolbook
coefficients — their radix-2^29 value is the integer product — and each is within the `montgomery_reduce` contract -/
theorem mul_internal_spec {head('mul_internal',AB,'pre_mul_internal')}
      EnvIn out Scalar29.pre_montgomery_reduce ∧
      val29 out = val29 [{A}] * val29 [{B}] := by
{start('mul_internal')}
  obtain ⟨hla, hlb⟩ := Lim_split9 hl
  obtain ⟨{Z}, he, hzl, hv⟩ := mul_internal_fn_spec {u18} hla hlb
  rw [he] at hZ
  refine ⟨out, hC, hW, envIn_wide_of_lim (length_of_toZ hZ.symm) (by rw [← hZ]; exact hzl), ?_⟩
  have h := val_of_toZ hZ.symm
  rw [hv, repZ_cast9, repZ_cast9] at h
  exact_mod_cast h

/-- `Scalar29::square_internal(a)`: the seventeen coefficients of the integer square -/
theorem square_internal_spec {head('square_internal',A,'pre_square_internal')}
      EnvIn out Scalar29.pre_montgomery_reduce ∧
      val29 out = val29 [{A}] * val29 [{A}] := by
{start('square_internal')}
  rw [square_internal_fn_eq] at hZ
  obtain ⟨{Z}, he, hzl, hv⟩ := school_spec {u18} hl hl
  rw [he] at hZ
  refine ⟨out, hC, hW, envIn_wide_of_lim (length_of_toZ hZ.symm) (by rw [← hZ]; exact hzl), ?_⟩
  have h := val_of_toZ hZ.symm
  rw [hv, repZ_cast9] at h
  exact_mod_cast h

/-- `Scalar29::montgomery_square(a)` for `a² < 2^261·l`: canonical `out` with `out·2^261 ≡ a² (mod l)` -/
theorem montgomery_square_spec {head('montgomery_square',A,'pre_montgomery_square',f"""
    (haa : val29 [{A}] * val29 [{A}] < 2 ^ 261 * l)""")}
      EnvIn out limbs29 ∧ val29 out < l ∧
      val29 out * 2 ^ 261 % l = val29 [{A}] * val29 [{A}] % l := by
{start('montgomery_square')}
  refine ⟨out, hC, hW, EnvIn_of_itvsLe hpost (by decide +kernel), ?_⟩
  obtain ⟨{O}, he, -, hcan, hv⟩ := montgomery_square_fn_spec {u9} hl
    (by rw [repZ_cast9]; exact_mod_cast haa)
  rw [he] at hZ
  have h := val_of_toZ hZ.symm
  rw [← h, repZ_cast9] at hv
  rw [← h] at hcan
  exact ⟨by exact_mod_cast hcan.2, nat_mont_mul_of_zmod hv⟩

/-- `Scalar29::from_montgomery(a)` for ANY nine 29-bit limbs: canonical `out` with `out·2^261 ≡ a (mod l)` -/
theorem from_montgomery_spec {head('from_montgomery',A,'pre_from_montgomery')}
      EnvIn out limbs29 ∧ val29 out < l ∧
      val29 out * 2 ^ 261 % l = val29 [{A}] % l := by
{start('from_montgomery')}
  refine ⟨out, hC, hW, EnvIn_of_itvsLe hpost (by decide +kernel), ?_⟩
  obtain ⟨{O}, he, -, hcan, hv⟩ := from_montgomery_fn_spec {u9} hl
  rw [he] at hZ
  have h := val_of_toZ hZ.symm
  rw [← h, repZ_cast9] at hv
  rw [← h] at hcan
  exact ⟨by exact_mod_cast hcan.2, nat_mont_of_zmod hv⟩

/-- `Scalar29::as_bytes`: for limbs `< 2^29` with value `< 2^256` the 32 output bytes are the little-endian
encoding of the value -/
theorem as_bytes_spec {head('as_bytes',A,'pre_as_bytes',f"""
    (hv : val29 [{A}] < 2 ^ 256)""")}
      EnvIn out (bytes 32) ∧ leVal out = val29 [{A}] := by
{start('as_bytes')}
  refine ⟨out, hC, hW, EnvIn_of_itvsLe hpost (by decide +kernel), ?_⟩
  obtain ⟨hl8, hl1⟩ := Lim_split8 hl
  have h8 : (a8 : Int) < 2 ^ 24 := top_limb_lt_of_lt {u9} hl8 (by rw [repZ_cast9]; exact_mod_cast hv)
  have h := leVal_of_toZ hZ.symm
  have hs := as_bytes_fn_spec {" ".join(f"(a{i} : Int)" for i in range(9))} hl8 ⟨Int.natCast_nonneg a8, h8⟩
  rw [hs, repZ_cast9] at h
  exact_mod_cast h

end

section
variable ({v('z',17)} : Nat)

/-- `Scalar29::montgomery_reduce(z)` for seventeen words within the contract whose radix-2^29 value `N` is
`< 2^261·l`: canonical `out` with `out·2^261 ≡ N (mod l)` -/
theorem montgomery_reduce_spec {head('montgomery_reduce',Z,'pre_montgomery_reduce',f"""
    (hN : val29 [{Z}] < 2 ^ 261 * l)""")}
      EnvIn out limbs29 ∧ val29 out < l ∧
      val29 out * 2 ^ 261 % l = val29 [{Z}] % l := by
{start('montgomery_reduce','limW_of_envIn')}
  refine ⟨out, hC, hW, EnvIn_of_itvsLe hpost (by decide +kernel), ?_⟩
  obtain ⟨{O}, he, -, hcan, hd⟩ := montgomery_reduce_fn_spec {u17} hl
    (by rw [repZ_cast17]; exact_mod_cast hN)
  rw [he] at hZ
  have h := val_of_toZ hZ.symm
  rw [← h, repZ_cast17] at hd
  rw [← h] at hcan
  exact ⟨by exact_mod_cast hcan.2, nat_mont_of_zmod (zmod_of_dvd hd)⟩

end

section
variable ({v('x',32)} : Nat)

/-- `Scalar29::from_bytes`: the nine limbs (`< 2^29`, top limb `< 2^24`) of the little-endian value of the 32 bytes -/
theorem from_bytes_spec {head('from_bytes',X32,'pre_from_bytes')}
      EnvIn out (rep 8 (ub (2 ^ 29 - 1)) ++ [ub (2 ^ 24 - 1)]) ∧
      val29 out = leVal [{X32}] := by
{start('from_bytes','limBytes_of_envIn')}
  refine ⟨out, hC, hW, EnvIn_of_itvsLe hpost (by decide +kernel), ?_⟩
  obtain ⟨{O}, he, -, -, hv⟩ := from_bytes_fn_spec {u32} hl
  rw [he] at hZ
  have h := val_of_toZ hZ.symm
  rw [hv] at h
  have h2 := leValZ_toZ [{X32}]
  simp only [toZ_cons, toZ_nil] at h2
  rw [h2] at h
  exact_mod_cast h

end

/-! ## non-vacuity of the hypotheses -/

example : EnvIn (List.replicate 18 (2 ^ 29 - 1)) Scalar29.pre_mul_internal := by decide +kernel
/-- `l - 1` is a canonical input inside the limb contract -/
example : EnvIn [485872620, 9640146, 501691798, 502512965, 333, 0, 0, 0, 1048576] (rep 9 Scalar29.lim) ∧
    val29 [485872620, 9640146, 501691798, 502512965, 333, 0, 0, 0, 1048576] < l := by decide +kernel
example : EnvIn (List.replicate 17 (9 * (2 ^ 29 - 1) * (2 ^ 29 - 1))) Scalar29.pre_montgomery_reduce := by decide +kernel
example : EnvIn [1, 2, 3, 4, 5, 6, 7, 8, 9, 10, 11, 12, 13, 14, 15, 16, 17] Scalar29.pre_montgomery_reduce ∧
    val29 [1, 2, 3, 4, 5, 6, 7, 8, 9, 10, 11, 12, 13, 14, 15, 16, 17] < 2 ^ 261 * l := by decide +kernel

end Dalek.Props.C02.Scalar29
'''
open('/verif/lean/Dalek/Props/C02/Scalar29.lean','w').write(out)
open('/verif/lean/Dalek/Proofs/Scalar29.lean','w').write('''import Dalek.Proofs.Scalar29.Basic
import Dalek.Proofs.Scalar29.Mul
import Dalek.Proofs.Scalar29.Montgomery
import Dalek.Proofs.Scalar29.Compose
import Dalek.Proofs.Scalar29.Bytes
import Dalek.Proofs.Scalar29.Glue
''')

L=[485872621, 9640146, 501691798, 502512965, 333, 0, 0, 0, 1048576]
LF=307527195
def v(p,n=9): return " ".join(f"{p}{i}" for i in range(n))
def l(p,n=9): return ", ".join(f"{p}{i}" for i in range(n))
Ls=" ".join(str(x) for x in L)
def nexpr(s): return f"(((({s} % 2 ^ 32) * {LF}) % 2 ^ 32) % 2 ^ 29)"
def sexpr(k):
    e=f"(c{k-1} + z{k})"
    rng = range(0,k) if k<=8 else range(k-8,9)
    for i in rng:
        j=k-i
        if j==0 or L[j]==0: continue
        e=f"({e} + n{i} * {L[j]})"
    return e[1:-1] if e.startswith("((") else e
def sname(k): return "z0" if k==0 else f"s{k}"
def rexp(k): return f"(s{k} % 2 ^ 32) % 2 ^ 29"
lets=[]
lets.append(f"  let c0 := (z0 + n0 * {L[0]}) / 2 ^ 29")
for k in range(1,9):
    lets.append(f"  let s{k} := {sexpr(k)}")
    lets.append(f"  let n{k} := {nexpr('s'+str(k))[1:-1]}")
    lets.append(f"  let c{k} := (s{k} + n{k} * {L[0]}) / 2 ^ 29")
for k in range(9,17):
    lets.append(f"  let s{k} := {sexpr(k)}")
    lets.append(f"  let c{k} := s{k} / 2 ^ 29")
names=["c0"]
for k in range(1,9): names+= [f"s{k}",f"n{k}",f"c{k}"]
for k in range(9,17): names+= [f"s{k}",f"c{k}"]
rargs=" ".join(f"({rexp(k)})" for k in range(9,17))
rlist=", ".join(rexp(k) for k in range(9,17))
zv=v('z',17); zl=l('z',17)
hyps=[f"    (hn0 : n0 = {nexpr('z0')[1:-1]})", f"    (hc0 : c0 = (z0 + n0 * {L[0]}) / 2 ^ 29)"]
for k in range(1,9):
    hyps.append(f"    (hs{k} : s{k} = {sexpr(k)})")
    hyps.append(f"    (hn{k} : n{k} = {nexpr('s'+str(k))[1:-1]})")
    hyps.append(f"    (hc{k} : c{k} = (s{k} + n{k} * {L[0]}) / 2 ^ 29)")
for k in range(9,17):
    hyps.append(f"    (hs{k} : s{k} = {sexpr(k)})")
    hyps.append(f"    (hc{k} : c{k} = s{k} / 2 ^ 29)")
hypnames=["hn0","hc0"]
for k in range(1,9): hypnames+=[f"hs{k}",f"hn{k}",f"hc{k}"]
for k in range(9,17): hypnames+=[f"hs{k}",f"hc{k}"]
corevars="n0 "+" ".join(names)
def pw(k): return "1" if k==0 else f"2 ^ {29*k}"
lc="(-1 : Int) * e0 " + " ".join(f"- {pw(k)} * (e{k} - hs{k})" for k in range(1,17))
steps=["  obtain ⟨b0, e0⟩ := part1_step z0 n0 c0 hn0 hc0"]
for k in range(1,9): steps.append(f"  obtain ⟨b{k}, e{k}⟩ := part1_step s{k} n{k} c{k} hn{k} hc{k}")
for k in range(9,17): steps.append(f"  have e{k} := part2_step s{k} c{k} hc{k}")
out=f'''import Dalek.Proofs.Scalar29.Mul
/-! # Scalar29: `montgomery_reduce` divides by `R = 2^261` modulo `l` and returns the canonical representative -/
set_option exponentiation.threshold 600
set_option maxRecDepth 100000

namespace Dalek.Proofs.Scalar29
open Dalek.IR Dalek.Gen.Norm.Scalar29 Dalek.Gen.Consts
open Dalek.Proofs.Scalar52 (Lim ell ell_eq ell_eqZ toZ_cons toZ_nil)

/-- `part1`: with `p = (sum · LFACTOR mod 2^32) mod 2^29`, `sum + p·L[0]` is divisible by `2^29` -/
theorem part1_div (s : Int) :
    (s + {nexpr('s')} * {L[0]}) % 2 ^ 29 = 0 := by
  omega

theorem part1_step (s n c : Int) (hn : n = {nexpr('s')[1:-1]})
    (hc : c = (s + n * {L[0]}) / 2 ^ 29) :
    (0 ≤ n ∧ n < 2 ^ 29) ∧ s + n * {L[0]} = 2 ^ 29 * c := by
  have d := part1_div s
  rw [← hn] at d
  omega

theorem part2_step (s c : Int) (hc : c = s / 2 ^ 29) : s = (s % 2 ^ 32) % 2 ^ 29 + 2 ^ 29 * c := by
  omega

theorem repZ17_nonneg ({zv} : Int) (h : Lim W1 [{zl}]) : 0 ≤ repZ [{zl}] := by
  simp only [Lim, repZ] at *
  omega

theorem lt_two_ell (R N n : Int) (h : 2 ^ 261 * R = N + n * ell) (hN0 : 0 ≤ N) (hN : N < 2 ^ 261 * ell)
    (hn0 : 0 ≤ n) (hn : n < 2 ^ 261) : 0 ≤ R ∧ R < 2 * ell := by
  rw [ell_eqZ] at *
  omega

theorem top_limb_bd ({v('r')} : Int) (hr : Lim (2 ^ 29) [{l('r',8)}])
    (h0 : 0 ≤ repZ [{l('r')}]) (h : repZ [{l('r')}] < 2 * ell) : 0 ≤ r8 ∧ r8 < 2 ^ 29 := by
  simp only [Lim, repZ] at *
  rw [ell_eqZ] at h
  omega

/-- nine `part1` steps (the first Montgomery factor `n0` is a parameter), eight `part2` steps, the final
`carry as u32` (parameter `top`) and `sub(·, L)` -/
def mrTail ({zv} n0 : Int) (top : Int → Int) : List Int :=
{chr(10).join(lets)}
  sub_fn {rargs} (top c16)
    {Ls}

/-- `montgomery_reduce_fn` has this shape (structural equality, by `rfl`). -/
theorem montgomery_reduce_fn_eq ({zv} : Int) :
    montgomery_reduce_fn {zv} =
      mrTail {zv} {nexpr('z0')} (fun c => c % 2 ^ 32) := rfl

set_option maxHeartbeats 1000000 in
/-- the arithmetic core: the intermediate `r = (N + n·l) / 2^261` -/
theorem montgomery_core ({zv} : Int)
    ({corevars} : Int)
    (hz : Lim W1 [{zl}])
    (hN : repZ [{zl}] < 2 ^ 261 * ell)
{chr(10).join(hyps)} :
    Lim (2 ^ 29) [{rlist}, c16] ∧
    repZ [{rlist}, c16] < 2 * ell ∧
    2 ^ 261 * repZ [{rlist}, c16]
      = repZ [{zl}] + repZ [{l('n')}] * ell := by
{chr(10).join(steps)}
  have hN0 := repZ17_nonneg {zv} hz
  clear {" ".join(h for h in hypnames if not h.startswith("hs"))} hz
  have key : 2 ^ 261 * repZ [{rlist}, c16]
      = repZ [{zl}] + repZ [{l('n')}] * ell := by
    rw [ell_eqZ]
    simp only [repZ]
    linear_combination {lc}
  obtain ⟨hn', hn⟩ := repZ9_bd {v('n')} (by simp only [Lim, and_true]; exact ⟨{", ".join(f"b{i}" for i in range(9))}⟩)
  obtain ⟨hR0, h2l⟩ := lt_two_ell _ _ _ key hN0 hN hn' hn
  refine ⟨?_, h2l, key⟩
  have hlr : Lim (2 ^ 29) [{rlist}] := by
    simp only [Lim, and_true]
    clear key h2l hR0 hN hN0 {" ".join(f"e{k}" for k in range(17))}
    omega
  have ht := top_limb_bd _ _ _ _ _ _ _ _ c16 hlr hR0 h2l
  simp only [Lim, and_true] at hlr ⊢
  exact ⟨hlr.1, hlr.2.1, hlr.2.2.1, hlr.2.2.2.1, hlr.2.2.2.2.1, hlr.2.2.2.2.2.1, hlr.2.2.2.2.2.2.1, hlr.2.2.2.2.2.2.2, ht⟩

/-- `montgomery_reduce` (with the first factor given): canonical output `o` with `o·2^261 ≡ N (mod l)` -/
theorem mrTail_spec ({zv} n0 : Int) (top : Int → Int)
    (htop : ∀ c : Int, 0 ≤ c → c < 2 ^ 29 → top c = c)
    (hn0 : n0 = {nexpr('z0')[1:-1]})
    (hz : Lim W1 [{zl}])
    (hN : repZ [{zl}] < 2 ^ 261 * ell) :
    ∃ {v('o')}, mrTail {zv} n0 top = [{l('o')}] ∧
      Lim (2 ^ 29) [{l('o')}] ∧
      (0 ≤ repZ [{l('o')}] ∧ repZ [{l('o')}] < ell) ∧
      (ell : Int) ∣ repZ [{l('o')}] * 2 ^ 261 - repZ [{zl}] := by
  unfold mrTail
  extract_lets {" ".join(names)}
  obtain ⟨hl, h2l, key⟩ := montgomery_core {zv} {corevars} hz hN hn0
    {" ".join(["rfl"]*(len(hypnames)-1))}
  have hc16 : top c16 = c16 := by
    simp only [Lim, and_true] at hl
    exact htop c16 hl.2.2.2.2.2.2.2.2.1 hl.2.2.2.2.2.2.2.2.2
  rw [hc16]
  obtain ⟨{l('o')}, he, hlo, hv⟩ := sub_fn_L_spec _ _ _ _ _ _ _ _ _ hl h2l
  refine ⟨{l('o')}, he, hlo, ?_, ?_⟩
  · rw [hv]
    exact ⟨Int.emod_nonneg _ (by norm_num [ell]), Int.emod_lt_of_pos _ (by norm_num [ell])⟩
  · rw [hv]
    generalize repZ [{rlist}, c16] = R at *
    have h1 := Int.emod_add_mul_ediv R ell
    exact ⟨repZ [{l('n')}] - 2 ^ 261 * (R / ell), by linear_combination (2 : Int) ^ 261 * h1 + key⟩

theorem montgomery_reduce_fn_spec ({zv} : Int)
    (hz : Lim W1 [{zl}])
    (hN : repZ [{zl}] < 2 ^ 261 * ell) :
    ∃ {v('o')}, montgomery_reduce_fn {zv} = [{l('o')}] ∧
      Lim (2 ^ 29) [{l('o')}] ∧
      (0 ≤ repZ [{l('o')}] ∧ repZ [{l('o')}] < ell) ∧
      (ell : Int) ∣ repZ [{l('o')}] * 2 ^ 261 - repZ [{zl}] := by
  rw [montgomery_reduce_fn_eq]
  exact mrTail_spec {" ".join(["_"]*18)} (fun c => c % 2 ^ 32)
    (fun c h0 h1 => Int.emod_eq_of_lt h0 (by omega)) rfl hz hN

end Dalek.Proofs.Scalar29
'''
open('/verif/lean/Dalek/Proofs/Scalar29/Montgomery.lean','w').write(out)

L=[485872621, 9640146, 501691798, 502512965, 333, 0, 0, 0, 1048576]
def v(p,n=9): return " ".join(f"{p}{i}" for i in range(n))
def l(p,n=9): return ", ".join(f"{p}{i}" for i in range(n))
def horner(terms):
    # t0 + 2^29*(t1 + 2^29*(...))
    s=terms[-1]
    for t in reversed(terms[:-1]):
        s=f"{t} + 2 ^ 29 * ({s})"
    return s
Ls=" ".join(str(x) for x in L)
Ll=", ".join(str(x) for x in L)
out=[]
out.append(r'''import Dalek.Proofs.Scalar52.Basic
import Dalek.Gen.Norm.Scalar29
/-!
# Scalar29: radix-2^29 values, constants, `sub` and `add` of the translated serial-u32 scalar kernels

Same method as `Dalek/Proofs/Scalar52/Basic.lean`: the generated shallow function is shown BY `rfl` to be a
hand-named let-chain (ending in the generated `sub_fn` where `Scalar29::sub` is inlined); the value statements are
linear integer arithmetic, one limb at a time, with the final case analysis in a limb-free lemma (`sub_final`).
-/
set_option exponentiation.threshold 600
set_option maxRecDepth 100000

namespace Dalek.Proofs.Scalar29
open Dalek.IR Dalek.Gen.Norm.Scalar29 Dalek.Gen.Consts
open Dalek.Proofs.Scalar52 (Lim ell ell_eq ell_eqZ toZ_cons toZ_nil lim_of_envIn)

/-- value of a little-endian radix-2^29 limb vector (any length) -/
def val29 : List Nat → Nat
  | [] => 0
  | x :: xs => x + 2 ^ 29 * val29 xs

/-- the same over `Int` -/
def repZ : List Int → Int
  | [] => 0
  | x :: xs => x + 2 ^ 29 * repZ xs

theorem repZ_toZ : ∀ l : List Nat, repZ (toZ l) = (val29 l : Int)
  | [] => rfl
  | x :: xs => by
    rw [toZ_cons, repZ, val29, repZ_toZ xs]; push_cast; rfl

/-- inputs inside `rep n Scalar29.lim` are `< 2^29` -/
theorem lim29_of_envIn {n : Nat} {xs : List Nat} (h : EnvIn xs (Dalek.Model.Contracts.rep n Dalek.Model.Contracts.Scalar29.lim)) :
    Lim (2 ^ 29) (toZ xs) :=
  lim_of_envIn _ _ (by norm_num) n xs h

/-- the `montgomery_reduce` input bound `9·(2^29-1)^2`, plus one -/
abbrev W1 : Int := 2594073375701729290

theorem limW_of_envIn {n : Nat} {xs : List Nat} (h : EnvIn xs (Dalek.Model.Contracts.rep n Dalek.Model.Contracts.Scalar29.wide)) :
    Lim W1 (toZ xs) :=
  lim_of_envIn _ _ (by norm_num [W1]) n xs h

/-- converse: a `Nat` vector of the right length whose `Int` image is in `[0, h]` satisfies `rep n (ub h)` -/
theorem envIn_of_lim (h : Nat) :
    ∀ (n : Nat) (xs : List Nat), xs.length = n → Lim ((h : Int) + 1) (toZ xs) →
      EnvIn xs (Dalek.Model.Contracts.rep n (Dalek.Model.Contracts.ub h))
  | 0, [], _, _ => trivial
  | 0, _ :: _, hl, _ => by simp at hl
  | n + 1, [], hl, _ => by simp at hl
  | n + 1, x :: xs, hl, hx => by
    rw [toZ_cons] at hx
    simp only [Dalek.Model.Contracts.rep, List.replicate_succ, EnvIn]
    refine ⟨⟨Nat.zero_le _, ?_, ?_⟩, envIn_of_lim h n xs (by simpa using hl) hx.2⟩
    · have := hx.1.2
      simp only [Dalek.Model.Contracts.ub]
      omega
    · simp [Dalek.Model.Contracts.ub]

/-! ## the constants (facts about the REGENERATED literals) -/

theorem val29_L : val29 U32.L = ell := by decide +kernel
theorem val29_R : val29 U32.R = 2 ^ 261 % ell := by decide +kernel
theorem val29_RR : val29 U32.RR = (2 ^ 261) ^ 2 % ell := by decide +kernel
theorem lfactor_spec : U32.LFACTOR * U32.L.getD 0 0 % 2 ^ 29 = 2 ^ 29 - 1 := by decide +kernel

theorem repZ9_bd (AV : Int) (h : Lim (2 ^ 29) [AL]) :
    0 ≤ repZ [AL] ∧ repZ [AL] < 2 ^ 261 := by
  simp only [Lim, repZ] at *
  omega

/-! ## `sub` -/

/-- one limb of the borrow chain `borrow = a[i].wrapping_sub(b[i] + (borrow >> 31))` -/
theorem sub_limb (a b c w : Int) (ha0 : 0 ≤ a) (ha : a < 2 ^ 29) (hb0 : 0 ≤ b) (hb : b < 2 ^ 29)
    (hc0 : 0 ≤ c) (hc : c ≤ 1) (hw : w = (a - (b + c)) % 2 ^ 32) :
    0 ≤ w / 2 ^ 31 ∧ w / 2 ^ 31 ≤ 1 ∧ w % 2 ^ 29 + b + c = a + 2 ^ 29 * (w / 2 ^ 31) := by
  omega

/-- limb-free end of the argument -/
theorem sub_final (A B D O m k : Int) (hA : 0 ≤ A ∧ A < 2 ^ 261) (hB : 0 ≤ B ∧ B < 2 ^ 261)
    (hD : 0 ≤ D ∧ D < 2 ^ 261) (hO : 0 ≤ O ∧ O < 2 ^ 261) (hm : 0 ≤ m ∧ m ≤ 1)
    (hd : D + B = A + 2 ^ 261 * m)
    (ho : O + 2 ^ 261 * k = D + (if m = 0 then 0 else (ell : Int))) :
    O = (A - B + (if A < B then (ell : Int) else 0)) % 2 ^ 261 := by
  rw [ell_eqZ] at *
  split_ifs with hlt <;> split_ifs at ho with hm0 <;> omega
''')
# sub_fn_eq
lets=[]
for i in range(9):
    c = "0" if i==0 else f"w{i-1} / 2 ^ 31"
    lets.append(f"     let w{i} := (a{i} - (b{i} + {c})) % 2 ^ 32")
lets.append("     let m := w8 / 2 ^ 31")
for i in range(9):
    c = f"0 + w0 % 2 ^ 29" if i==0 else f"t{i-1} / 2 ^ 29 + w{i} % 2 ^ 29"
    lets.append(f"     let t{i} := ({c}) + (if m = 0 then 0 else {L[i]})")
outl=", ".join(f"t{i} % 2 ^ 29" for i in range(9))
out.append(f'''
/-- `sub_fn` is the borrow chain followed by the conditional addition of the literal `L`
(structural equality, checked by `rfl`). -/
theorem sub_fn_eq ({v('a')} {v('b')} : Int) : sub_fn {v('a')} {v('b')} =
    (
{chr(10).join(lets)[5:]}
     [{outl}]) := rfl
''')
wl=[f"w{i} % 2 ^ 29" for i in range(9)]
tl=[f"t{i} % 2 ^ 29" for i in range(9)]
steps=[]
for i in range(9):
    if i==0:
        steps.append("  obtain ⟨h0a, h0b, h0⟩ := sub_limb a0 b0 0 w0 (by omega) (by omega) (by omega) (by omega) (by omega) (by omega) (by rw [hw0])")
    else:
        steps.append(f"  obtain ⟨h{i}a, h{i}b, h{i}⟩ := sub_limb a{i} b{i} _ w{i} (by omega) (by omega) (by omega) (by omega) h{i-1}a h{i-1}b hw{i}")
def pw(i): return "1" if i==0 else f"2 ^ {29*i}"
lc_h=" + ".join(f"{pw(i)} * h{i}" for i in range(9))
def wdef(i): return f"(a{i} - (b{i} + {'0' if i==0 else f'w{i-1} / 2 ^ 31'})) % 2 ^ 32"
def tdef(i): return f"({'0 + w0 % 2 ^ 29' if i==0 else f't{i-1} / 2 ^ 29 + w{i} % 2 ^ 29'}) + (if m = 0 then 0 else {L[i]})"
hws="\n".join(f"    (hw{i} : w{i} = {wdef(i)})" for i in range(9))
hts="\n".join(f"    (E{i} : t{i} = {tdef(i)})" for i in range(9))
Ds="\n".join(f"    have D{i} := Int.emod_add_mul_ediv t{i} (2 ^ 29)" for i in range(9))
lc_t=" + ".join(f"{pw(i)} * (D{i} + E{i})" for i in range(9))
Eall=" ".join(f"E{i}" for i in range(9))
out.append(f"""
theorem sub_core ({v('a')} {v('b')} {v('w')} m {v('t')} : Int)
    (ha : Lim (2 ^ 29) [{l('a')}]) (hb : Lim (2 ^ 29) [{l('b')}])
{hws}
    (hmdef : m = w8 / 2 ^ 31)
{hts} :
    Lim (2 ^ 29) [{", ".join(tl)}] ∧
    repZ [{", ".join(tl)}] = (repZ [{l('a')}] - repZ [{l('b')}]
        + (if repZ [{l('a')}] < repZ [{l('b')}] then (ell : Int) else 0)) % 2 ^ 261 := by
  have hlo : Lim (2 ^ 29) [{", ".join(tl)}] := by simp only [Lim, and_true]; omega
  have hld : Lim (2 ^ 29) [{", ".join(wl)}] := by simp only [Lim, and_true]; omega
  refine ⟨hlo, ?_⟩
  have hA := repZ9_bd {v('a')} ha
  have hB := repZ9_bd {v('b')} hb
  have hD := repZ9_bd _ _ _ _ _ _ _ _ _ hld
  have hO := repZ9_bd _ _ _ _ _ _ _ _ _ hlo
  have hm : 0 ≤ m ∧ m ≤ 1 ∧
      repZ [{", ".join(wl)}] + repZ [{l('b')}] = repZ [{l('a')}] + 2 ^ 261 * m := by
    clear hlo hld hA hB hD hO {Eall}
    simp only [Lim, repZ] at ha hb ⊢
{chr(10).join("  "+s for s in steps)}
    rw [hmdef]
    refine ⟨h8a, h8b, ?_⟩
    linear_combination {lc_h}
  have ho : repZ [{", ".join(tl)}] + 2 ^ 261 * (t8 / 2 ^ 29)
      = repZ [{", ".join(wl)}] + (if m = 0 then 0 else (ell : Int)) := by
    rw [ell_eqZ]
    simp only [repZ]
{Ds}
    by_cases hm0 : m = 0
    · simp only [if_pos hm0] at {Eall} ⊢
      linear_combination {lc_t}
    · simp only [if_neg hm0] at {Eall} ⊢
      linear_combination {lc_t}
  exact sub_final _ _ _ _ m (t8 / 2 ^ 29) hA hB hD hO ⟨hm.1, hm.2.1⟩ hm.2.2 ho

/-- `sub` on arbitrary 29-bit limb vectors: `a - b`, plus `l` if that is negative, modulo `2^261`. -/
theorem sub_fn_spec ({v('a')} {v('b')} : Int)
    (ha : Lim (2 ^ 29) [{l('a')}]) (hb : Lim (2 ^ 29) [{l('b')}]) :
    ∃ {v('o')}, sub_fn {v('a')} {v('b')} = [{l('o')}] ∧
      Lim (2 ^ 29) [{l('o')}] ∧
      repZ [{l('o')}] = (repZ [{l('a')}] - repZ [{l('b')}]
        + (if repZ [{l('a')}] < repZ [{l('b')}] then (ell : Int) else 0)) % 2 ^ 261 := by
  rw [sub_fn_eq]
  extract_lets {v('w')} m {v('t')}
  exact ⟨{", ".join(["_"]*9)}, rfl, sub_core {v('a')} {v('b')} {v('w')} m {v('t')} ha hb
    {" ".join(["rfl"]*19)}⟩

""")
out.append(f'''theorem L_literal : toZ U32.L = [{Ll}] := rfl

theorem repZ_L : repZ [{Ll}] = (ell : Int) := by
  rw [ell_eqZ]; simp only [repZ]; norm_num

/-- `sub(r, L)` for `r < 2l`: the canonical representative `r mod l`
(the tail of `add` and of `montgomery_reduce`). -/
theorem sub_fn_L_spec ({v('r')} : Int) (hr : Lim (2 ^ 29) [{l('r')}])
    (h2 : repZ [{l('r')}] < 2 * ell) :
    ∃ {v('o')}, sub_fn {v('r')} {Ls}
        = [{l('o')}] ∧ Lim (2 ^ 29) [{l('o')}] ∧
      repZ [{l('o')}] = repZ [{l('r')}] % ell := by
  obtain ⟨{l('o')}, he, hl, hv⟩ := sub_fn_spec {v('r')} {Ls} hr (by simp only [Lim]; norm_num)
  refine ⟨{l('o')}, he, hl, ?_⟩
  rw [hv, repZ_L]
  have h0 := (repZ9_bd {v('r')} hr).1
  generalize repZ [{l('r')}] = R at *
  rw [ell_eqZ] at *
  split_ifs <;> omega

/-- `sub` on canonical inputs is subtraction modulo `l`. -/
theorem sub_fn_canon ({v('a')} {v('b')} : Int)
    (ha : Lim (2 ^ 29) [{l('a')}]) (hb : Lim (2 ^ 29) [{l('b')}])
    (hal : repZ [{l('a')}] < ell) (hbl : repZ [{l('b')}] < ell) :
    ∃ {v('o')}, sub_fn {v('a')} {v('b')} = [{l('o')}] ∧
      Lim (2 ^ 29) [{l('o')}] ∧
      repZ [{l('o')}] = (repZ [{l('a')}] - repZ [{l('b')}]) % ell := by
  obtain ⟨{l('o')}, he, hl, hv⟩ := sub_fn_spec {v('a')} {v('b')} ha hb
  refine ⟨{l('o')}, he, hl, ?_⟩
  rw [hv]
  have h0 := (repZ9_bd {v('a')} ha).1
  have h1 := (repZ9_bd {v('b')} hb).1
  generalize repZ [{l('a')}] = A at *
  generalize repZ [{l('b')}] = B at *
  rw [ell_eqZ] at *
  split_ifs <;> omega
''')
# add
lets=[]
for i in range(9):
    c="0" if i==0 else f"s{i-1} / 2 ^ 29"
    lets.append(f"       let s{i} := (a{i} + b{i}) + {c}")
sl=[f"s{i} % 2 ^ 29" for i in range(9)]
eqh="\n".join(f"    (e{i} : s{i} = (a{i} + b{i}) + {'0' if i==0 else f's{i-1} / 2 ^ 29'})" for i in range(9))
Dsadd="\n".join(f"    have D{i} := Int.emod_add_mul_ediv s{i} (2 ^ 29)" for i in range(9))
lc_s=" + ".join(f"{pw(i)} * (D{i} + e{i})" for i in range(9))
out.append(f'''
/-! ## `add` -/

/-- `add_fn` is the carry chain followed by `sub(·, L)` (structural equality, by `rfl`). -/
theorem add_fn_eq ({v('a')} {v('b')} : Int) :
    add_fn {v('a')} {v('b')} =
      (
{chr(10).join(lets)[7:]}
       sub_fn {" ".join("("+x+")" for x in sl)}
         {Ls}) := rfl

theorem add_core ({v('a')} {v('b')} {v('s')} : Int)
    (ha : Lim (2 ^ 29) [{l('a')}]) (hb : Lim (2 ^ 29) [{l('b')}])
    (hal : repZ [{l('a')}] < ell) (hbl : repZ [{l('b')}] < ell)
{eqh} :
    Lim (2 ^ 29) [{", ".join(sl)}] ∧
    repZ [{", ".join(sl)}] = repZ [{l('a')}] + repZ [{l('b')}] := by
  have hls : Lim (2 ^ 29) [{", ".join(sl)}] := by simp only [Lim, and_true]; omega
  refine ⟨hls, ?_⟩
  have hS := repZ9_bd _ _ _ _ _ _ _ _ _ hls
  have hA := repZ9_bd {v('a')} ha
  have hB := repZ9_bd {v('b')} hb
  have key : repZ [{", ".join(sl)}] + 2 ^ 261 * (s8 / 2 ^ 29)
      = repZ [{l('a')}] + repZ [{l('b')}] := by
    simp only [repZ]
{Dsadd}
    linear_combination {lc_s}
  generalize repZ [{", ".join(sl)}] = S at *
  generalize repZ [{l('a')}] = A at *
  generalize repZ [{l('b')}] = B at *
  generalize s8 / 2 ^ 29 = k at *
  rw [ell_eqZ] at *
  omega

theorem add_fn_spec ({v('a')} {v('b')} : Int)
    (ha : Lim (2 ^ 29) [{l('a')}]) (hb : Lim (2 ^ 29) [{l('b')}])
    (hal : repZ [{l('a')}] < ell) (hbl : repZ [{l('b')}] < ell) :
    ∃ {v('o')}, add_fn {v('a')} {v('b')} = [{l('o')}] ∧
      Lim (2 ^ 29) [{l('o')}] ∧
      repZ [{l('o')}] = (repZ [{l('a')}] + repZ [{l('b')}]) % ell := by
  rw [add_fn_eq]
  extract_lets {v('s')}
  obtain ⟨hls, hs⟩ := add_core {v('a')} {v('b')} {v('s')} ha hb hal hbl {" ".join(["rfl"]*9)}
  obtain ⟨{l('o')}, he, hl, hv⟩ := sub_fn_L_spec _ _ _ _ _ _ _ _ _ hls (by rw [hs]; omega)
  exact ⟨{l('o')}, he, hl, by rw [hv, hs]⟩

end Dalek.Proofs.Scalar29
''')
s="".join(out).replace("AV",v('a')).replace("AL",l('a'))
open('/verif/lean/Dalek/Proofs/Scalar29/Basic.lean','w').write(s)

import Std.Tactic.BVDecide
open BitVec
-- tiny version: 2 limbs of 51 bits -> 13 bytes (102 bits + 2 pad)
def pack2 (l0 l1 : BitVec 64) : BitVec 104 :=
  let s0 := (l0).truncate 8
  let s1 := (l0 >>> 8).truncate 8
  let s2 := (l0 >>> 16).truncate 8
  let s3 := (l0 >>> 24).truncate 8
  let s4 := (l0 >>> 32).truncate 8
  let s5 := (l0 >>> 40).truncate 8
  let s6 := ((l0 >>> 48) ||| (l1 <<< 3)).truncate 8
  let s7 := (l1 >>> 5).truncate 8
  let s8 := (l1 >>> 13).truncate 8
  let s9 := (l1 >>> 21).truncate 8
  let s10 := (l1 >>> 29).truncate 8
  let s11 := (l1 >>> 37).truncate 8
  let s12 := (l1 >>> 45).truncate 8
  (s12 ++ s11 ++ s10 ++ s9 ++ s8 ++ s7 ++ s6 ++ s5 ++ s4 ++ s3 ++ s2 ++ s1 ++ s0 : BitVec 104)
theorem pack2_ok (l0 l1 : BitVec 64) (h0 : l0 < 2251799813685248#64) (h1 : l1 < 2251799813685248#64) :
    pack2 l0 l1 = (l0.zeroExtend 104) + (l1.zeroExtend 104 <<< 51) := by
  unfold pack2
  bv_decide
#print axioms pack2_ok

-- q4 = 1 ↔ h + 19 ≥ 2^255, by telescoping: define s_i = (l_i + q_{i-1}) so that
-- l0 + 19 = q0*M + r0 ; l1 + q0 = q1*M + r1 ; ... ; then h + 19 = q4*M^5 + (r0 + r1 M + ... + r4 M^4), r_i < M
theorem q_iff (l0 l1 l2 l3 l4 r0 r1 r2 r3 r4 q0 q1 q2 q3 q4 : Nat)
    (e0 : l0 + 19 = q0 * 2251799813685248 + r0) (b0 : r0 < 2251799813685248)
    (e1 : l1 + q0 = q1 * 2251799813685248 + r1) (b1 : r1 < 2251799813685248)
    (e2 : l2 + q1 = q2 * 2251799813685248 + r2) (b2 : r2 < 2251799813685248)
    (e3 : l3 + q2 = q3 * 2251799813685248 + r3) (b3 : r3 < 2251799813685248)
    (e4 : l4 + q3 = q4 * 2251799813685248 + r4) (b4 : r4 < 2251799813685248)
    (hq : q4 ≤ 1) :
    let M := 2251799813685248
    let h := l0 + M * l1 + M*M * l2 + M*M*M * l3 + M*M*M*M * l4
    (q4 = 1 ↔ M*M*M*M*M ≤ h + 19) := by
  intro M h
  have key : h + 19 = q4 * (M*M*M*M*M) + (r0 + M * r1 + M*M * r2 + M*M*M * r3 + M*M*M*M * r4) := by
    simp only [h, M]; omega
  have rb : r0 + M * r1 + M*M * r2 + M*M*M * r3 + M*M*M*M * r4 < M*M*M*M*M := by
    simp only [M]; omega
  simp only [M] at key rb ⊢
  omega

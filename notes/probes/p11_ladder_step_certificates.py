from sympy import symbols, together, fraction, expand, Poly, reduced, QQ, Rational
x1,y1,x2,y2,a = symbols('x1 y1 x2 y2 a')   # a = a24 = (A+2)/4 ; d = -(a-1)/a
d = -(a-1)/a
def E(x,y): return expand((-x**2+y**2-1-d*x**2*y**2)*a)   # cleared denominator: polynomial in a
def kap(y): return (1+y, 1-y)
def eadd(P,Q,sign=1):
    (xa,ya),(xb,yb)=P,Q
    xb=sign*xb
    t=d*xa*xb*ya*yb
    return ((xa*yb+ya*xb)/(1+t),(ya*yb+xa*xb)/(1-t))
# xDBL
U,W=kap(y1)
t4=(U+W)**2; t5=(U-W)**2; t6=t4-t5
U2=t4*t5; W2=t6*(t5+a*t6)
yy=eadd((x1,y1),(x1,y1))[1]
n,dn=fraction(together(U2*(1-yy)-W2*(1+yy)))
g=expand(n)
qs,rem=reduced(g,[E(x1,y1)],x1,y1,domain=QQ.frac_field(a))
print('xDBL rem',rem,'terms g',len(Poly(g,x1,y1).terms()),'cof terms',[len(Poly(q,x1,y1).terms()) for q in qs])
# xADD: P=(x1,y1), Q=(x2,y2), D=P-Q with kappa(D)=(UD:WD) ; result kappa(P+Q)
UP,WP=kap(y1); UQ,WQ=kap(y2)
yD=eadd((x1,y1),(x2,y2),-1)[1]; yS=eadd((x1,y1),(x2,y2))[1]
UD,WD=(1+yD),(1-yD)
t0=UP+WP;t1=UP-WP;t2=UQ+WQ;t3=UQ-WQ
t7=t0*t3;t8=t1*t2;t9=t7+t8;t10=t7-t8
U5=WD*t9**2; W5=UD*t10**2
n,dn=fraction(together(U5*(1-yS)-W5*(1+yS)))
g=expand(n)
qs,rem=reduced(g,[E(x1,y1),E(x2,y2)],x1,y1,x2,y2,domain=QQ.frac_field(a))
print('xADD rem',rem,'terms g',len(Poly(g,x1,y1,x2,y2).terms()),'cof terms',[len(Poly(q,x1,y1,x2,y2).terms()) for q in qs])

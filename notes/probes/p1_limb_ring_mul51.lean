import Mathlib.Tactic.Ring
import Mathlib.Tactic.LinearCombination
import Mathlib.Data.ZMod.Basic
import Mathlib.Tactic.Zify
import Mathlib.Tactic.ReduceModChar

abbrev P : Nat := 2^255 - 19

def val5 (a0 a1 a2 a3 a4 : Nat) : Nat := a0 + 2^51 * a1 + 2^102 * a2 + 2^153 * a3 + 2^204 * a4

/-- Nat-semantics transcription of FieldElement51::mul (no overflow assumed) -/
def mulOut (a0 a1 a2 a3 a4 b0 b1 b2 b3 b4 : Nat) : Nat × Nat × Nat × Nat × Nat :=
  let b1_19 := b1 * 19
  let b2_19 := b2 * 19
  let b3_19 := b3 * 19
  let b4_19 := b4 * 19
  let c0 := a0*b0 + a4*b1_19 + a3*b2_19 + a2*b3_19 + a1*b4_19
  let c1 := a1*b0 + a0*b1 + a4*b2_19 + a3*b3_19 + a2*b4_19
  let c2 := a2*b0 + a1*b1 + a0*b2 + a4*b3_19 + a3*b4_19
  let c3 := a3*b0 + a2*b1 + a1*b2 + a0*b3 + a4*b4_19
  let c4 := a4*b0 + a3*b1 + a2*b2 + a1*b3 + a0*b4
  let c1 := c1 + c0 / 2^51
  let o0 := c0 % 2^51
  let c2 := c2 + c1 / 2^51
  let o1 := c1 % 2^51
  let c3 := c3 + c2 / 2^51
  let o2 := c2 % 2^51
  let c4 := c4 + c3 / 2^51
  let o3 := c3 % 2^51
  let carry := c4 / 2^51
  let o4 := c4 % 2^51
  let o0 := o0 + carry * 19
  let o1 := o1 + o0 / 2^51
  let o0 := o0 % 2^51
  (o0, o1, o2, o3, o4)

theorem p255 : ((2:ZMod P)^255) = 19 := by
  have h : ((P + 19 : Nat) : ZMod P) = 19 := by
    rw [Nat.cast_add, ZMod.natCast_self]; simp
  have e : P + 19 = 2^255 := by norm_num [P]
  rw [e] at h; exact_mod_cast h

theorem mul_correct (a0 a1 a2 a3 a4 b0 b1 b2 b3 b4 : Nat) :
    let o := mulOut a0 a1 a2 a3 a4 b0 b1 b2 b3 b4
    ((val5 o.1 o.2.1 o.2.2.1 o.2.2.2.1 o.2.2.2.2 : Nat) : ZMod P)
      = (val5 a0 a1 a2 a3 a4 : ZMod P) * (val5 b0 b1 b2 b3 b4 : ZMod P) := by
  intro o
  simp only [o, mulOut, val5]
  -- generalize quotients
  have hdm : ∀ x : Nat, (x % 2^51 : Nat) = x - 2^51 * (x / 2^51) := fun x => by
    have := Nat.div_add_mod x (2^51); omega
  have hdmc : ∀ x : Nat, ((x % 2^51 : Nat) : ZMod P) = (x : ZMod P) - 2^51 * ((x / 2^51 : Nat) : ZMod P) := by
    intro x
    have := Nat.div_add_mod x (2^51)
    have h2 : ((2^51 * (x / 2^51) + x % 2^51 : Nat) : ZMod P) = (x : ZMod P) := by rw [this]
    push_cast at h2
    linear_combination h2
  simp only [Nat.cast_add, Nat.cast_mul, hdmc, Nat.cast_pow, Nat.cast_ofNat]
  ring_nf
  reduce_mod_char

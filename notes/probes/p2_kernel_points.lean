abbrev P : Nat := 2^255 - 19
def D : Nat := 37095705934669439343138083508754565189542113879843219016388785533085940283555
def L : Nat := 2^252 + 27742317777372353535851937790883648493
structure Pt where (X Y Z T : Nat) deriving DecidableEq, Repr
def fsub (a b : Nat) : Nat := (a + P - b % P) % P
def Pt.add (p q : Pt) : Pt :=
  let A := (fsub p.Y p.X) * (fsub q.Y q.X) % P
  let B := (p.Y + p.X) * (q.Y + q.X) % P
  let C := p.T * (2 * D % P) % P * q.T % P
  let Dd := p.Z * 2 % P * q.Z % P
  let E := fsub B A; let F := fsub Dd C; let G := (Dd + C) % P; let H := (B + A) % P
  ⟨E * F % P, G * H % P, F * G % P, E * H % P⟩
def Pt.id : Pt := ⟨0,1,1,0⟩
def Bx : Nat := 15112221349535400772501151409588531511454012693041857206046113283949847762202
def By : Nat := 46316835694926478169428394003475163141307993866256225615783033603165251855960
def B : Pt := ⟨Bx, By, 1, Bx * By % P⟩
def bits (n : Nat) : (fuel : Nat) → List Bool
  | 0 => []
  | f+1 => (n % 2 == 1) :: bits (n / 2) f
def smulBits (p : Pt) : List Bool → Pt
  | [] => Pt.id
  | b :: bs => let r := smulBits p bs; let r2 := r.add r; if b then r2.add p else r2
def smul (n : Nat) (p : Pt) : Pt := smulBits p (bits n 256)
def Pt.eqv (p q : Pt) : Bool := (p.X * q.Z % P == q.X * p.Z % P) && (p.Y * q.Z % P == q.Y * p.Z % P)
def chain (p : Pt) : Nat → List Pt
  | 0 => []
  | n+1 => p :: (chain (p.add B) n)
-- 2000 additions
def many : Bool := ((chain B 2000).getLast?.map (fun q => q.eqv (smul 2000 B))) == some true
theorem ordL : (smul L B).eqv Pt.id = true := by decide +kernel
theorem manyOk : many = true := by decide +kernel
#print axioms manyOk

from sympy import symbols, together, fraction, expand, Poly, reduced, QQ, ZZ, factor, denom, numer, cancel
x1,y1,x2,y2,x3,y3,d = symbols('x1 y1 x2 y2 x3 y3 d')
def add(P,Q):
    (a,b),(c,e)=P,Q
    t=d*a*c*b*e
    return ((a*e+b*c)/(1+t), (b*e+a*c)/(1-t))
P1,P2,P3=(x1,y1),(x2,y2),(x3,y3)
es=[-v**2+w**2-1-d*v**2*w**2 for v,w in ((x1,y1),(x2,y2),(x3,y3))]
def lean(e):
    return str(expand(e)).replace('**','^')
# explicit numerators/denominators built structurally (not via together) so that Lean side can mirror them
def addND(P,Q):
    # P=(xn,xd,yn,yd) fractions
    (an,ad,bn,bd),(cn,cd,en,ed)=P,Q
    # x = (a e + b c)/(1 + d a c b e), with a=an/ad etc.
    # a e + b c = (an en bd cd + bn cn ad ed)/(ad ed bd cd)
    # 1 + t = (ad cd bd ed + d an cn bn en)/(ad cd bd ed)
    D=ad*cd*bd*ed
    xn=(an*en*bd*cd+bn*cn*ad*ed); xd=(D+d*an*cn*bn*en)
    yn=(bn*en*ad*cd+an*cn*bd*ed); yd=(D-d*an*cn*bn*en)
    return (xn,xd,yn,yd)
A1=(x1,1,y1,1);A2=(x2,1,y2,1);A3=(x3,1,y3,1)
L=addND(addND(A1,A2),A3); R=addND(A1,addND(A2,A3))
out=[]
for name,(ln,ld,rn,rd) in (('x',(L[0],L[1],R[0],R[1])),('y',(L[2],L[3],R[2],R[3]))):
    g=expand(ln*rd-rn*ld)
    qs,rem=reduced(g,es,x1,y1,x2,y2,x3,y3,domain=QQ.frac_field(d),order='grevlex')
    assert rem==0
    print(name,[denom(together(q)) for q in qs], len(Poly(g,x1,y1,x2,y2,x3,y3).terms()))
    out.append((name,[lean(q) for q in qs]))
import json; json.dump(out,open('assoc_cof.json','w'))
# closure: P1+P2 on curve
(xn,xd,yn,yd)=addND(A1,A2)
g=expand((-xn**2*yd**2+yn**2*xd**2 - xd**2*yd**2 - d*xn**2*yn**2))
qs,rem=reduced(g,es[:2],x1,y1,x2,y2,domain=QQ.frac_field(d),order='grevlex')
print('closure rem',rem,[denom(together(q)) for q in qs],[len(Poly(q,x1,y1,x2,y2).terms()) for q in qs])
json.dump([lean(q) for q in qs],open('closure_cof.json','w'))

import Mathlib.Tactic.LinearCombination
import Mathlib.Tactic.Ring
import Mathlib.Data.ZMod.Basic
import Mathlib.Tactic.ReduceModChar

abbrev P : Nat := 2^255 - 19

def val10 (x0 x1 x2 x3 x4 x5 x6 x7 x8 x9 : Nat) : Nat := 2^0 * x0 + 2^26 * x1 + 2^51 * x2 + 2^77 * x3 + 2^102 * x4 + 2^128 * x5 + 2^153 * x6 + 2^179 * x7 + 2^204 * x8 + 2^230 * x9

def mulOut (x0 x1 x2 x3 x4 x5 x6 x7 x8 x9 y0 y1 y2 y3 y4 y5 y6 y7 y8 y9 : Nat) : Nat × Nat × Nat × Nat × Nat × Nat × Nat × Nat × Nat × Nat :=
  let y1_19 := 19 * y1
  let y2_19 := 19 * y2
  let y3_19 := 19 * y3
  let y4_19 := 19 * y4
  let y5_19 := 19 * y5
  let y6_19 := 19 * y6
  let y7_19 := 19 * y7
  let y8_19 := 19 * y8
  let y9_19 := 19 * y9
  let x1_2 := 2 * x1
  let x3_2 := 2 * x3
  let x5_2 := 2 * x5
  let x7_2 := 2 * x7
  let x9_2 := 2 * x9
  let z0 := x0 * y0 + x1_2 * y9_19 + x2 * y8_19 + x3_2 * y7_19 + x4 * y6_19 + x5_2 * y5_19 + x6 * y4_19 + x7_2 * y3_19 + x8 * y2_19 + x9_2 * y1_19
  let z1 := x0 * y1 + x1 * y0 + x2 * y9_19 + x3 * y8_19 + x4 * y7_19 + x5 * y6_19 + x6 * y5_19 + x7 * y4_19 + x8 * y3_19 + x9 * y2_19
  let z2 := x0 * y2 + x1_2 * y1 + x2 * y0 + x3_2 * y9_19 + x4 * y8_19 + x5_2 * y7_19 + x6 * y6_19 + x7_2 * y5_19 + x8 * y4_19 + x9_2 * y3_19
  let z3 := x0 * y3 + x1 * y2 + x2 * y1 + x3 * y0 + x4 * y9_19 + x5 * y8_19 + x6 * y7_19 + x7 * y6_19 + x8 * y5_19 + x9 * y4_19
  let z4 := x0 * y4 + x1_2 * y3 + x2 * y2 + x3_2 * y1 + x4 * y0 + x5_2 * y9_19 + x6 * y8_19 + x7_2 * y7_19 + x8 * y6_19 + x9_2 * y5_19
  let z5 := x0 * y5 + x1 * y4 + x2 * y3 + x3 * y2 + x4 * y1 + x5 * y0 + x6 * y9_19 + x7 * y8_19 + x8 * y7_19 + x9 * y6_19
  let z6 := x0 * y6 + x1_2 * y5 + x2 * y4 + x3_2 * y3 + x4 * y2 + x5_2 * y1 + x6 * y0 + x7_2 * y9_19 + x8 * y8_19 + x9_2 * y7_19
  let z7 := x0 * y7 + x1 * y6 + x2 * y5 + x3 * y4 + x4 * y3 + x5 * y2 + x6 * y1 + x7 * y0 + x8 * y9_19 + x9 * y8_19
  let z8 := x0 * y8 + x1_2 * y7 + x2 * y6 + x3_2 * y5 + x4 * y4 + x5_2 * y3 + x6 * y2 + x7_2 * y1 + x8 * y0 + x9_2 * y9_19
  let z9 := x0 * y9 + x1 * y8 + x2 * y7 + x3 * y6 + x4 * y5 + x5 * y4 + x6 * y3 + x7 * y2 + x8 * y1 + x9 * y0
  let c1 := z0 / 2^26
  let a1 := z1 + c1
  let b1 := z0 % 2^26
  let c2 := z4 / 2^26
  let a2 := z5 + c2
  let b2 := z4 % 2^26
  let c3 := a1 / 2^25
  let a3 := z2 + c3
  let b3 := a1 % 2^25
  let c4 := a2 / 2^25
  let a4 := z6 + c4
  let b4 := a2 % 2^25
  let c5 := a3 / 2^26
  let a5 := z3 + c5
  let b5 := a3 % 2^26
  let c6 := a4 / 2^26
  let a6 := z7 + c6
  let b6 := a4 % 2^26
  let c7 := a5 / 2^25
  let a7 := b2 + c7
  let b7 := a5 % 2^25
  let c8 := a6 / 2^25
  let a8 := z8 + c8
  let b8 := a6 % 2^25
  let c9 := a7 / 2^26
  let a9 := b4 + c9
  let b9 := a7 % 2^26
  let c10 := a8 / 2^26
  let a10 := z9 + c10
  let b10 := a8 % 2^26
  let w0 := b1 + 19 * (a10 / 2^25)
  let w9 := a10 % 2^25
  let c11 := w0 / 2^26
  let a11 := b3 + c11
  let b11 := w0 % 2^26
  (b11, a11, b5, b7, b9, a9, b6, b8, b10, w9)

set_option maxHeartbeats 4000000 in
theorem mul_correct (x0 x1 x2 x3 x4 x5 x6 x7 x8 x9 y0 y1 y2 y3 y4 y5 y6 y7 y8 y9 : Nat) :
    let o := mulOut x0 x1 x2 x3 x4 x5 x6 x7 x8 x9 y0 y1 y2 y3 y4 y5 y6 y7 y8 y9
    ((val10 (o.1) (o.2.1) (o.2.2.1) (o.2.2.2.1) (o.2.2.2.2.1) (o.2.2.2.2.2.1) (o.2.2.2.2.2.2.1) (o.2.2.2.2.2.2.2.1) (o.2.2.2.2.2.2.2.2.1) (o.2.2.2.2.2.2.2.2.2) : Nat) : ZMod P)
      = (val10 x0 x1 x2 x3 x4 x5 x6 x7 x8 x9 : ZMod P) * (val10 y0 y1 y2 y3 y4 y5 y6 y7 y8 y9 : ZMod P) := by
  intro o
  simp only [o, mulOut, val10]
  have hd : ∀ (m x : Nat), ((x % m : Nat) : ZMod P) = (x : ZMod P) - (m : ZMod P) * ((x / m : Nat) : ZMod P) := by
    intro m x
    have := Nat.div_add_mod x m
    have h2 : ((m * (x / m) + x % m : Nat) : ZMod P) = (x : ZMod P) := by rw [this]
    push_cast at h2
    linear_combination h2
  have hdmc25 := hd (2^25)
  have hdmc26 := hd (2^26)
  simp only [Nat.cast_add, Nat.cast_mul, hdmc25, hdmc26, Nat.cast_pow, Nat.cast_ofNat]
  ring_nf
  reduce_mod_char

import Mathlib.Tactic.Ring
import Mathlib.Tactic.FieldSimp
import Mathlib.Tactic.LinearCombination
import Mathlib.Algebra.Field.Basic

variable {F : Type} [Field F]

/-- affine sums for a = -1 -/
theorem add_pniels_refines (d X1 Y1 Z1 T1 X2 Y2 Z2 T2 : F)
    (hZ1 : Z1 ≠ 0) (hZ2 : Z2 ≠ 0) (hT1 : X1 * Y1 = Z1 * T1) (hT2 : X2 * Y2 = Z2 * T2)
    (hden1 : 1 + d * (X1/Z1) * (X2/Z2) * (Y1/Z1) * (Y2/Z2) ≠ 0)
    (hden2 : 1 - d * (X1/Z1) * (X2/Z2) * (Y1/Z1) * (Y2/Z2) ≠ 0) :
    let PP := (Y1 + X1) * (Y2 + X2)
    let MM := (Y1 - X1) * (Y2 - X2)
    let TT2d := T1 * (T2 * (2 * d))
    let ZZ := Z1 * Z2
    let ZZ2 := ZZ + ZZ
    let X3 := PP - MM; let Y3 := PP + MM; let Z3 := ZZ2 + TT2d; let T3 := ZZ2 - TT2d
    Z3 ≠ 0 ∧ T3 ≠ 0 ∧
    X3 / Z3 = ((X1/Z1) * (Y2/Z2) + (Y1/Z1) * (X2/Z2)) / (1 + d * (X1/Z1) * (X2/Z2) * (Y1/Z1) * (Y2/Z2)) ∧
    Y3 / T3 = ((Y1/Z1) * (Y2/Z2) + (X1/Z1) * (X2/Z2)) / (1 - d * (X1/Z1) * (X2/Z2) * (Y1/Z1) * (Y2/Z2)) := by
  intro PP MM TT2d ZZ ZZ2 X3 Y3 Z3 T3
  have hT1' : T1 = X1 * Y1 / Z1 := by field_simp; linear_combination -hT1
  have hT2' : T2 = X2 * Y2 / Z2 := by field_simp; linear_combination -hT2
  have e1 : Z3 = 2 * Z1 * Z2 * (1 + d * (X1/Z1) * (X2/Z2) * (Y1/Z1) * (Y2/Z2)) := by
    simp only [Z3, ZZ2, ZZ, TT2d, hT1', hT2']; field_simp; ring
  have e2 : T3 = 2 * Z1 * Z2 * (1 - d * (X1/Z1) * (X2/Z2) * (Y1/Z1) * (Y2/Z2)) := by
    simp only [T3, ZZ2, ZZ, TT2d, hT1', hT2']; field_simp; ring
  have h2 : (2 : F) ≠ 0 := by sorry
  refine ⟨?_, ?_, ?_, ?_⟩
  · rw [e1]; exact mul_ne_zero (mul_ne_zero (mul_ne_zero h2 hZ1) hZ2) hden1
  · rw [e2]; exact mul_ne_zero (mul_ne_zero (mul_ne_zero h2 hZ1) hZ2) hden2
  · rw [e1]; simp only [X3, PP, MM]; field_simp; ring
  · rw [e2]; simp only [Y3, PP, MM]; field_simp; ring

-- Probe: canonical reduction of FieldElement51::as_bytes (value level), limbs already weakly reduced
-- M = 2^51, limbs l_i < 2^51 + 2^18 (after reduce). h = sum l_i M^i < 2p.
theorem q_chain (l0 l1 l2 l3 l4 : Nat)
    (h0 : l0 < 2251799813685248 + 262144) (h1 : l1 < 2251799813685248 + 262144)
    (h2 : l2 < 2251799813685248 + 262144) (h3 : l3 < 2251799813685248 + 262144)
    (h4 : l4 < 2251799813685248 + 262144)
    (q0 q1 q2 q3 q4 : Nat)
    (e0 : q0 = (l0 + 19) / 2251799813685248)
    (e1 : q1 = (l1 + q0) / 2251799813685248)
    (e2 : q2 = (l2 + q1) / 2251799813685248)
    (e3 : q3 = (l3 + q2) / 2251799813685248)
    (e4 : q4 = (l4 + q3) / 2251799813685248) :
    q0 ≤ 1 ∧ q1 ≤ 1 ∧ q2 ≤ 1 ∧ q3 ≤ 1 ∧ q4 ≤ 1 := by
  omega

-- one carry step: value preserved
theorem carry_step (a b : Nat) :
    (a % 2251799813685248) + 2251799813685248 * (b + a / 2251799813685248) = a + 2251799813685248 * b := by
  omega

#!/usr/bin/env python3
"""seed_regress.py [id-prefix ...]: for every kept seeded change, apply its patch to /repo, run the quick check of the property
it breaks, expect exit 1 with a VIOLATION line, revert.  Prints one line per seed and a summary; writes seeded/REGRESSION.json.
Never leaves /repo dirty (reverts in `finally`).  Not part of any registered command: a self-test of the machinery."""
import json, os, subprocess, sys, time, re
V = os.path.dirname(os.path.dirname(os.path.abspath(__file__)))
REPO = os.environ.get("VERIF_REPO", "/repo")   # an isolated mirror sets VERIF_REPO (and points harness/Cargo.toml, harness/build.sh at its copies)
sel = sys.argv[1:]
res = {}
assert subprocess.run(["git", "-C", REPO, "status", "--porcelain"], capture_output=True, text=True).stdout.strip() == "", "/repo dirty"
for d in sorted(os.listdir(os.path.join(V, "seeded"))):
    p = os.path.join(V, "seeded", d)
    if not os.path.isdir(p) or (sel and not any(d.startswith(s) for s in sel)):
        continue
    meta = json.load(open(os.path.join(p, "meta.json")))
    pid = re.match(r"C\d\d", meta.get("breaks_property", d)).group(0)
    t0 = time.time()
    subprocess.check_call(["git", "-C", REPO, "apply", os.path.join(p, "patch.diff")])
    try:
        r = subprocess.run(["./check", pid, "--tier", "quick"], cwd=V, capture_output=True, text=True, timeout=7200)
    finally:
        subprocess.check_call(["git", "-C", REPO, "checkout", "--", "."])
        subprocess.run(["git", "-C", REPO, "clean", "-fdq"])
    vio = [l for l in r.stdout.splitlines() if l.startswith("VIOLATION")]
    concrete = any("no-failing-input-found" not in l for l in vio)
    ok = r.returncode == 1 and bool(vio)
    # what broke: read the replay file(s) named on the VIOLATION lines
    kinds, infra = {}, False
    for l in vio:
        m = re.search(r"replay=(\S+)", l)
        if m and os.path.exists(m.group(1)):
            for v in json.load(open(m.group(1))).get("violations", []):
                k = v.get("kind", "?")
                kinds[k] = kinds.get(k, 0) + 1
                if "failed to build" in str(v.get("detail", "")) and "driver" in str(v.get("detail", "")):
                    infra = True
    res[d] = {"property": pid, "rc": r.returncode, "violations": len(vio), "concrete_input": concrete, "kinds": kinds,
              "driver_build_failed": infra, "wall_s": round(time.time() - t0)}
    # merge into the committed record after every seed (a run may be interrupted)
    rp = os.path.join(V, "seeded", "REGRESSION.json")
    allres = json.load(open(rp)) if os.path.exists(rp) else {}
    allres[d] = dict(res[d], when=time.strftime("%Y-%m-%dT%H:%MZ", time.gmtime()))
    json.dump(allres, open(rp, "w"), indent=1, sort_keys=True)
    print("%-40s %s rc=%d concrete=%s kinds=%s%s %ds" % (d, "CAUGHT" if ok else "MISSED", r.returncode, concrete, kinds,
                                                       " DRIVER-BUILD-FAILED(check the harness!)" if infra else "", time.time() - t0), flush=True)
print("caught %d / %d" % (sum(1 for v in res.values() if v["rc"] == 1 and v["violations"]), len(res)))

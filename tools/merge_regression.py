#!/usr/bin/env python3
"""merge_regression.py <other REGRESSION.json>...: merge seed-regression records produced in isolated mirrors into
seeded/REGRESSION.json (per seed the record with the latest `when` wins)."""
import json, sys, os
dst = "/verif/seeded/REGRESSION.json"
cur = json.load(open(dst)) if os.path.exists(dst) else {}
for p in sys.argv[1:]:
    if not os.path.exists(p):
        continue
    for k, v in json.load(open(p)).items():
        if k not in cur or str(v.get("when", "")) >= str(cur[k].get("when", "")):
            cur[k] = v
json.dump(cur, open(dst, "w"), indent=1, sort_keys=True)
ok = sum(1 for v in cur.values() if v.get("rc") == 1 and v.get("violations"))
print(len(cur), "records;", ok, "caught;", sum(1 for v in cur.values() if v.get("concrete_input")), "with a concrete input")
missed = [k for k, v in cur.items() if not (v.get("rc") == 1 and v.get("violations"))]
print("not caught in their latest recorded run:", missed)

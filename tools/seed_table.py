#!/usr/bin/env python3
"""seed_table.py: rewrite the seeded-changes table of DESIGN.md (between the table header and the self-test rows) from seeded/*/meta.json"""
import json, os, re
V = "/verif"
rows = []
for d in sorted(os.listdir(os.path.join(V, "seeded"))):
    mp = os.path.join(V, "seeded", d, "meta.json")
    if not os.path.exists(mp):
        continue
    m = json.load(open(mp))
    cl = lambda t: re.sub(r"\s+", " ", str(t)).replace("|", "/")
    rows.append("| %s | %s | %s |" % (d, cl(m.get("needs_to_manifest", "")), cl(m.get("caught_by", ""))))
p = os.path.join(V, "DESIGN.md")
s = open(p).read()
head = "| seeded change | needs | caught by |\n|---|---|---|\n"
i = s.index(head) + len(head)
j = s.index("| self-test:", i)
s = s[:i] + "\n".join(rows) + "\n" + s[j:]
s = re.sub(r"About a third of the \d+ were", "About a third of the %d were" % len(rows), s)
open(p, "w").write(s)
print(len(rows), "rows")

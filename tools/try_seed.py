#!/usr/bin/env python3
"""try_seed.py <patch> <PID> [cfg...] : apply patch to /repo, run the property's quick request stream on the given drivers vs the model, revert."""
import sys, subprocess, os
sys.path.insert(0, '/verif/lib')
patch, pid = sys.argv[1], sys.argv[2]
cfgs = sys.argv[3:] or ["serial64"]
subprocess.check_call(["git", "-C", "/repo", "apply", patch])
try:
    from common import *
    import props, checks
    from pyref import SplitMix64
    spec = checks.REGISTRY[pid]
    r = SplitMix64(1).fork(pid)
    reqs = spec["req"](r, "quick")
    lines = [l for _, l in reqs]
    mo = run_model(lines)
    drv, bad = build_drivers(cfgs)
    print("build errors:", {k: v[-300:] for k, v in bad.items()})
    for c, p in drv.items():
        do = run_lines(p, lines)
        mism, ev = checks.compare(reqs, {c: do}, mo)
        print(c, "evals", ev, "mismatches", len(mism))
        seen = set()
        for i, cfg, d, m in mism:
            if reqs[i][0] in seen: continue
            seen.add(reqs[i][0])
            if len(seen) > 6: break
            print("   ", reqs[i][0], lines[i][:140], "\n      D:", d[:90], "\n      M:", m[:90])
finally:
    subprocess.check_call(["git", "-C", "/repo", "checkout", "--", "."])

#!/usr/bin/env python3
"""keep_seed.py <worktree> <seed-id> <property> <demo-rel-path> <crate> "<needs>" "<caught_by>" """
import sys, os, shutil, json, subprocess
wt, sid, pid, demo, crate, needs, caught = sys.argv[1:8]
d = os.path.join("/verif/seeded", sid)
os.makedirs(d, exist_ok=True)
shutil.copyfile(os.path.join(wt, "seeded.patch"), os.path.join(d, "patch.diff"))
shutil.copyfile(os.path.join(wt, demo), os.path.join(d, os.path.basename(demo)))
meta = {"id": sid, "breaks_property": pid, "demo_file": os.path.basename(demo), "demo_location_in_repo": demo,
        "demo_cmd": "cargo test -p %s --offline --test %s" % (crate, os.path.basename(demo)[:-3]),
        "needs_to_manifest": needs,
        "confirmed_by": "tools/verify_seed.sh in a scratch worktree: suite 138/138 passes with the change (demo aside); demo fails with the change; demo passes without it",
        "caught_by": caught}
json.dump(meta, open(os.path.join(d, "meta.json"), "w"), indent=1)
print("kept", d)

#!/usr/bin/env python3
"""Writes lean/Dalek/Props/C01/VecFormulas.lean (the property statements `<item>_lanes`, `<item>_limb_spec`,
`history_limb_spec`, `program_limb_spec` for both vector backends) to stdout.  The output is a STATIC hand-owned file: this
script does not read any generated code; it only spares typing the 2 x 26 uniform statements.

usage: python3 tools/gen_vecformulas.py Avx2 Ifma > lean/Dalek/Props/C01/VecFormulas.lean
"""
import sys
backends = sys.argv[1:] or ["Avx2", "Ifma"]
out = []
w = out.append
imports = []
ITEMS_A = ["ExtendedPoint_from_EdwardsPoint","EdwardsPoint_from_ExtendedPoint","CachedPoint_from_ExtendedPoint","ExtendedPoint_double","ExtendedPoint_mul_by_pow_2_body","ExtendedPoint_add_CachedPoint","ExtendedPoint_sub_CachedPoint","CachedPoint_neg","ExtendedPoint_identity","CachedPoint_identity","ExtendedPoint_conditional_select","ExtendedPoint_conditional_assign","CachedPoint_conditional_select","CachedPoint_conditional_assign"]
ITEMS_I = [x for x in ITEMS_A if x not in ("ExtendedPoint_conditional_select","ExtendedPoint_conditional_assign")]
items = {"Avx2": ITEMS_A, "Ifma": ITEMS_I}
for b in backends:
    for it in items[b]:
        imports.append(f"import Dalek.Proofs.KLane.{b}_{it}")
w("\n".join(imports))
w('''import Dalek.Proofs.KLane.Bridge
import Dalek.Proofs.KLane.Programs
import Dalek.Props.C03.Vector
import Dalek.Props.C11.VecChain
/-!
# C01 — the parallel point formulas, as the sequences of calls of the real limb kernels, compute their lane formulas
# (and hence the group law) down to the machine words

For every point formula of `backend/vector/{avx2,ifma}/edwards.rs` the translator emits (regenerated on every run)
* a `KProg` `Dalek.Gen.K{Avx2,Ifma}Edwards.<item>`: the straight-line sequence of CALLS of the translated limb kernels
  (`Dalek.Gen.{Avx2,Ifma}Field.*`, programs over u32 / u64 machine words), and
* an AlgIR program `Dalek.Gen.Alg{Avx2,Ifma}Edwards.<item>` over FIELD values, one variable per lane, produced with a
  table "method name ↦ lane meaning" inside the translator; the group-law theorems of `Props/C03/Vector.lean` are about
  these.

`<item>_lanes` (REFINEMENT): for ALL machine-word inputs inside the representation invariants (`Dalek.Model.VecInv`, the same
pre-intervals as in `Props/C11/VecChain`: `<item>_safe`), the overflow-checked run of the kernel calls succeeds, equals the
wrapping (release) run, the result is inside the invariant, and EVERY LANE VALUE of the result (`vecVal k out` resp.
`vecVal51 k out`: the field value `Σ 2^⌈25.5 m⌉·limb_m` resp. `Σ 2^(51 m)·limb_m` of the limbs of element `k`) is the
corresponding output of the AlgIR item run in the field `Fp` (`zmodOpsV`) on the lane values of the inputs.  So the
translator's lane-meaning table is no longer trusted: it is replaced by the PROVED table `Dalek.Proofs.KLane.{Avx2,Ifma}.table`
(every entry a theorem about the kernel, from `Props/C01/{Avx2,Ifma}.lean`) and the verified scalariser `KProg.scal`
(`Dalek/Proofs/KLane.lean`).

`<item>_limb_spec` (GROUP LAW ON MACHINE WORDS): combined with `Props/C03/Vector.lean`: if the lane values of the input
words represent curve points, the lane values of the output words of the kernel calls represent the result of the group
operation.  `RepExtW P x` : the words `x` of a vector `ExtendedPoint` represent `P` (`RepExt` of its four lane values
`(A,B,C,D) = (X,Y,Z,T)`); `RepCachedW Q x` likewise for a vector `CachedPoint` (`RepCached`).
-/
set_option maxRecDepth 100000
namespace Dalek.Props.C01.VecFormulas
open Dalek.IR Dalek.Gen Dalek.Model.VecInv Dalek.Proofs Dalek.Proofs.KLane Dalek.Proofs.Avx2Field Dalek.Proofs.IfmaField
open Dalek.Edwards
open Dalek.Bridge (Ed)
open Dalek.Props.C11.VecChain (Step Formulas Backend VOp Ty Typed wellTyped runWith avx2Backend ifmaBackend)

/-- four serial `FieldElement51` (limb lists `X, Y, Z, T`) are extended coordinates of `P` -/
def RepFe (P : Ed) (X Y Z T : List Nat) : Prop := RepExt P (feVal X) (feVal Y) (feVal Z) (feVal T)

/-- the 20 limbs `l` (four serial `FieldElement51` `X, Y, Z, T`, 5 limbs each) are extended coordinates of `P` -/
def RepSer (P : Ed) (l : List Nat) : Prop := RepExt P (elemVal .A l) (elemVal .B l) (elemVal .C l) (elemVal .D l)

/-- the group element reached by a history of steps from `P`: `dbl` doubles, `add q` / `sub q` add / subtract the point
`pt q` denoted by the cached-point words `q` -/
def histPoint (pt : List Nat → Ed) : Ed → List Step → Ed
  | P, [] => P
  | P, .dbl :: ss => histPoint pt (2 • P) ss
  | P, .add q :: ss => histPoint pt (P + pt q) ss
  | P, .sub q :: ss => histPoint pt (P - pt q) ss

/-- the cached operands of a history denote the points given by `pt` -/
def stepsRep (RepC : Ed → List Nat → Prop) (pt : List Nat → Ed) : List Step → Prop
  | [] => True
  | .dbl :: ss => stepsRep RepC pt ss
  | .add q :: ss => RepC (pt q) q ∧ stepsRep RepC pt ss
  | .sub q :: ss => RepC (pt q) q ∧ stepsRep RepC pt ss
''')

def backend(b):
    vv = "vecVal" if b == "Avx2" else "vecVal51"
    vs = ".v26" if b == "Avx2" else ".v51"
    br = "bridge_v26" if b == "Avx2" else "bridge_v51"
    K = f"K{b}Edwards"; A = f"Alg{b}Edwards"
    bk = b.upper()
    words = "40 u32" if b == "Avx2" else "20 u64"
    def lanes(x): return f"{vv} .A {x}, {vv} .B {x}, {vv} .C {x}, {vv} .D {x}"
    w(f"/-! ## The {bk} backend (`backend/vector/{b.lower()}/edwards.rs`) -/\n")
    w(f"namespace {b}\n")
    w(f"/-- the {words} words `x` of an `{b.lower()}::ExtendedPoint` represent the curve point `P` -/")
    w(f"def RepExtW (P : Ed) (x : List Nat) : Prop := RepExt P ({vv} .A x) ({vv} .B x) ({vv} .C x) ({vv} .D x)\n")
    w(f"/-- the {words} words `x` of an `{b.lower()}::CachedPoint` represent the curve point `Q` -/")
    w(f"def RepCachedW (Q : Ed) (x : List Nat) : Prop := RepCached Q ({vv} .A x) ({vv} .B x) ({vv} .C x) ({vv} .D x)\n")
    S = f"Dalek.Props.C11.VecChain.{b}"
    R = f"Dalek.Proofs.KLane.{b}"
    C = f"Dalek.Props.C03.Vector.{b}"
    def BR(br_, it_, hin_, ins_, pre_):
        return (f"by\n  have hin : EnvIn2 {ins_} {pre_} := {hin_}\n  have h := {R}.{it_}_refines _ hin\n  lanes_simp at h\n  exact {br_} {S}.{it_}_safe hin h")
    def head(it, args, ins, post):
        return (f"    ∃ out, {K}.{it}.evalC {ins} = some [out] ∧ {K}.{it}.evalW {ins} = some [out] ∧\n"
                f"      EnvIn out {post} ∧")
    # --- from_EdwardsPoint
    it = "ExtendedPoint_from_EdwardsPoint"
    w(f"/-- `ExtendedPoint::from(EdwardsPoint)` (one call of `new`): lanes of the result = AlgIR item on the values of `X, Y, Z, T` -/")
    w(f"theorem {it}_lanes (X Y Z T : List Nat) (hX : EnvIn X fe54) (hY : EnvIn Y fe54) (hZ : EnvIn Z fe54) (hT : EnvIn T fe54) :")
    w(head(it, "", "[X, Y, Z, T]", f"{b}.invExt"))
    w(f"      ∀ k : Lane, {vv} k out = (AProg.run zmodOpsV {A}.{it} [feVal X, feVal Y, feVal Z, feVal T]).getD k.idx 0 :=")
    w(f"  {BR(br, it, '⟨hX, hY, hZ, hT, trivial⟩', '[X, Y, Z, T]', '[fe54, fe54, fe54, fe54]')}\n")
    w(f"/-- … hence the result words represent the same point as the serial coordinates -/")
    w(f"theorem {it}_limb_spec {{P : Ed}} (X Y Z T : List Nat) (hX : EnvIn X fe54) (hY : EnvIn Y fe54) (hZ : EnvIn Z fe54) (hT : EnvIn T fe54)")
    w(f"    (hP : RepFe P X Y Z T) :")
    w(head(it, "", "[X, Y, Z, T]", f"{b}.invExt") + " RepExtW P out := by")
    w(f"  obtain ⟨out, h1, h2, h3, hv⟩ := {it}_lanes X Y Z T hX hY hZ hT")
    w(f"  exact ⟨out, h1, h2, h3, rep_of_lanes (Rp := RepExt P) (f := fun k => {vv} k out) hv ({C}.{it}_spec hP)⟩\n")
    # --- EdwardsPoint_from_ExtendedPoint
    it = "EdwardsPoint_from_ExtendedPoint"
    w(f"/-- `EdwardsPoint::from(ExtendedPoint)`: the values of the four serial `FieldElement51` of the result = AlgIR item on the lanes -/")
    w(f"theorem {it}_lanes (x : List Nat) (hx : EnvIn x {b}.invExt) :")
    w(head(it, "", "[x]", f"{b}.splitOut"))
    w(f"      ∀ k : Lane, elemVal k out = (AProg.run zmodOpsV {A}.{it} [{lanes('x')}]).getD k.idx 0 :=")
    w(f"  {BR('bridge_ser', it, '⟨hx, trivial⟩', '[x]', f'[{b}.invExt]')}\n")
    w(f"/-- … hence the serial coordinates represent the same point -/")
    w(f"theorem {it}_limb_spec {{P : Ed}} (x : List Nat) (hx : EnvIn x {b}.invExt) (hP : RepExtW P x) :")
    w(head(it, "", "[x]", f"{b}.splitOut") + " RepSer P out := by")
    w(f"  obtain ⟨out, h1, h2, h3, hv⟩ := {it}_lanes x hx")
    w(f"  exact ⟨out, h1, h2, h3, rep_of_lanes (Rp := RepExt P) (f := fun k => elemVal k out) hv ({C}.{it}_spec hP)⟩\n")
    # --- unary vector items
    un = [("CachedPoint_from_ExtendedPoint", "invExt", "invCached", "RepExtW P x", "RepCachedW P out", "RepCached P", "`CachedPoint::from(ExtendedPoint)`", "a valid cached point for the same group element"),
          ("ExtendedPoint_double", "invExt", "invExt", "RepExtW P x", "RepExtW (2 • P) out", "RepExt (2 • P)", "`ExtendedPoint::double`", "`2 • P`"),
          ("ExtendedPoint_mul_by_pow_2_body", "invExt", "invExt", "RepExtW P x", "RepExtW (2 • P) out", "RepExt (2 • P)", "one iteration of the loop of `ExtendedPoint::mul_by_pow_2`", "`2 • P`"),
          ("CachedPoint_neg", "invCached", "invCached", "RepCachedW P x", "RepCachedW (-P) out", "RepCached (-P)", "`-&CachedPoint`", "a valid cached point for `-P`")]
    for it, pre, post, hyp, concl, rp, doc, what in un:
        w(f"/-- {doc}: lanes of the result of the kernel calls = AlgIR item on the lanes of the input -/")
        w(f"theorem {it}_lanes (x : List Nat) (hx : EnvIn x {b}.{pre}) :")
        w(head(it, "", "[x]", f"{b}.{post}"))
        w(f"      ∀ k : Lane, {vv} k out = (AProg.run zmodOpsV {A}.{it} [{lanes('x')}]).getD k.idx 0 :=")
        w(f"  {BR(br, it, '⟨hx, trivial⟩', '[x]', f'[{b}.{pre}]')}\n")
        w(f"/-- {doc} on machine words: the result words represent {what} -/")
        w(f"theorem {it}_limb_spec {{P : Ed}} (x : List Nat) (hx : EnvIn x {b}.{pre}) (hP : {hyp}) :")
        w(head(it, "", "[x]", f"{b}.{post}") + f" {concl} := by")
        w(f"  obtain ⟨out, h1, h2, h3, hv⟩ := {it}_lanes x hx")
        w(f"  exact ⟨out, h1, h2, h3, rep_of_lanes (Rp := {rp}) (f := fun k => {vv} k out) hv ({C}.{it}_spec hP)⟩\n")
    # --- add / sub
    for it, op, sym in [("ExtendedPoint_add_CachedPoint", "+", "`&ExtendedPoint + &CachedPoint`"), ("ExtendedPoint_sub_CachedPoint", "-", "`&ExtendedPoint - &CachedPoint`")]:
        w(f"/-- {sym}: lanes of the result of the kernel calls = AlgIR item on the lanes of the inputs -/")
        w(f"theorem {it}_lanes (x y : List Nat) (hx : EnvIn x {b}.invExt) (hy : EnvIn y {b}.invCached) :")
        w(head(it, "", "[x, y]", f"{b}.invExt"))
        w(f"      ∀ k : Lane, {vv} k out = (AProg.run zmodOpsV {A}.{it}\n        [{lanes('x')}, {lanes('y')}]).getD k.idx 0 :=")
        w(f"  {BR(br, it, '⟨hx, hy, trivial⟩', '[x, y]', f'[{b}.invExt, {b}.invCached]')}\n")
        w(f"/-- **{sym} computes `P {op} Q` on machine words**: if the lane values of the words `x` represent `P` and those of `y`")
        w(f"(a cached point) represent `Q`, the words returned by the sequence of kernel calls represent `P {op} Q` (and are inside the invariant again) -/")
        w(f"theorem {it}_limb_spec {{P Q : Ed}} (x y : List Nat) (hx : EnvIn x {b}.invExt) (hy : EnvIn y {b}.invCached)")
        w(f"    (hP : RepExtW P x) (hQ : RepCachedW Q y) :")
        w(head(it, "", "[x, y]", f"{b}.invExt") + f" RepExtW (P {op} Q) out := by")
        w(f"  obtain ⟨out, h1, h2, h3, hv⟩ := {it}_lanes x y hx hy")
        w(f"  exact ⟨out, h1, h2, h3, rep_of_lanes (Rp := RepExt (P {op} Q)) (f := fun k => {vv} k out) hv ({C}.{it}_spec hP hQ)⟩\n")
    # --- identities
    for it, post, concl, rp in [("ExtendedPoint_identity", "invExt", "RepExtW 0 out", "RepExt (0 : Ed)"), ("CachedPoint_identity", "invCached", "RepCachedW 0 out", "RepCached (0 : Ed)")]:
        w(f"/-- `{it.replace('_', '::')}()` (a literal constant vector): its lane values = the constants of the AlgIR item -/")
        w(f"theorem {it}_lanes :")
        w(head(it, "", "[]", f"{b}.{post}"))
        w(f"      ∀ k : Lane, {vv} k out = (AProg.run zmodOpsV {A}.{it} []).getD k.idx 0 :=")
        w(f"  {BR(br, it, 'trivial', '[]', '[]')}\n")
        w(f"/-- the constant words represent the neutral element -/")
        w(f"theorem {it}_limb_spec :")
        w(head(it, "", "[]", f"{b}.{post}") + f" {concl} := by")
        w(f"  obtain ⟨out, h1, h2, h3, hv⟩ := {it}_lanes")
        w(f"  exact ⟨out, h1, h2, h3, rep_of_lanes (Rp := {rp}) (f := fun k => {vv} k out) hv {C}.{it}_spec⟩\n")
    # --- conditional
    conds = []
    if b == "Avx2":
        conds += [("ExtendedPoint_conditional_select", "invExt", "RepExtW", "RepExt"), ("ExtendedPoint_conditional_assign", "invExt", "RepExtW", "RepExt")]
    conds += [("CachedPoint_conditional_select", "invCached", "RepCachedW", "RepCached"), ("CachedPoint_conditional_assign", "invCached", "RepCachedW", "RepCached")]
    for it, inv, repw, rep in conds:
        w(f"/-- `{it}` (`choice` word `c ∈ {{0,1}}`): lanes of the result = AlgIR item (`csel`) on the lanes of the inputs -/")
        w(f"theorem {it}_lanes (x y : List Nat) (c : Nat) (hx : EnvIn x {b}.{inv}) (hy : EnvIn y {b}.{inv}) (hc : EnvIn [c] choice) :")
        w(head(it, "", "[x, y, [c]]", f"{b}.{inv}"))
        w(f"      ∀ k : Lane, {vv} k out = (AProg.run zmodOpsV {A}.{it}\n        [{lanes('x')}, {lanes('y')}, ((c : Nat) : Fp)]).getD k.idx 0 := by")
        w(f"  have hin : EnvIn2 [x, y, [c]] [{b}.{inv}, {b}.{inv}, choice] := ⟨hx, hy, hc, trivial⟩")
        w(f"  have h := {R}.{it}_refines _ hin")
        w(f"  lanes_simp at h")
        w(f"  exact {br} {S}.{it}_safe hin h\n")
        w(f"/-- … hence the result words represent `P` if `c = 0` and `Q` if `c = 1` -/")
        w(f"theorem {it}_limb_spec {{P Q : Ed}} (x y : List Nat) (c : Nat) (hx : EnvIn x {b}.{inv}) (hy : EnvIn y {b}.{inv}) (hc : EnvIn [c] choice)")
        w(f"    (hP : {repw} P x) (hQ : {repw} Q y) :")
        w(head(it, "", "[x, y, [c]]", f"{b}.{inv}") + f" {repw} (if c = 0 then P else Q) out := by")
        w(f"  obtain ⟨out, h1, h2, h3, hv⟩ := {it}_lanes x y c hx hy hc")
        w(f"  have e : (if ((c : Nat) : Fp) = 0 then P else Q) = (if c = 0 then P else Q) := by")
        w(f"    simp only [choice_cast_eq_zero (choice_cases hc)]")
        w(f"  exact ⟨out, h1, h2, h3, e ▸ rep_of_lanes (Rp := {rep} (if ((c : Nat) : Fp) = 0 then P else Q)) (f := fun k => {vv} k out) hv")
        w(f"    ({C}.{it}_spec ((c : Nat) : Fp) hP hQ)⟩\n")
    # --- history
    F = f"Dalek.Props.C11.VecChain.{b.lower()}"
    w(f"/-- **Histories compute the group law on machine words.**  Any sequence of `double` / `+ cached` / `- cached` steps of the")
    w(f"{bk} backend (the shape of every vector scalar-multiplication loop), from accumulator words representing `P`, with cached operands")
    w(f"inside their invariant representing the points `pt q`: the checked run of all kernel calls succeeds, equals the release run, the")
    w(f"accumulator stays inside the invariant and its final words represent `histPoint pt P steps`. -/")
    w(f"theorem history_limb_spec (pt : List Nat → Ed) : ∀ (steps : List Step) (acc : List Nat) (P : Ed), EnvIn acc {b}.invExt →")
    w(f"    RepExtW P acc → (∀ s ∈ steps, s.ok {b}.invCached) → stepsRep RepCachedW pt steps →")
    w(f"    ∃ r, Dalek.Props.C11.VecChain.runC {F} acc steps = some r ∧ Dalek.Props.C11.VecChain.runW {F} acc steps = some r ∧ EnvIn r {b}.invExt ∧")
    w(f"      RepExtW (histPoint pt P steps) r")
    w(f"  | [], acc, P, h, hP, _, _ => ⟨acc, rfl, rfl, h, hP⟩")
    VC = "Dalek.Props.C11.VecChain"
    w(f"  | .dbl :: ss, acc, P, h, hP, hok, hr => by")
    w(f"    obtain ⟨r, h1, h2, h3, h4⟩ := ExtendedPoint_double_limb_spec acc h hP")
    w(f"    obtain ⟨r', g1, g2, g3, g4⟩ := history_limb_spec pt ss r (2 • P) h3 h4 (fun t ht => hok t (by simp [ht])) hr")
    w(f"    have e1 : {VC}.stepC {F} acc .dbl = some r := by")
    w(f"      show {VC}.one ({K}.ExtendedPoint_double.evalC [acc]) = some r")
    w(f"      rw [h1]; rfl")
    w(f"    have e2 : {VC}.stepW {F} acc .dbl = some r := by")
    w(f"      show {VC}.one ({K}.ExtendedPoint_double.evalW [acc]) = some r")
    w(f"      rw [h2]; rfl")
    w(f"    exact ⟨r', by simp only [{VC}.runC, e1, g1], by simp only [{VC}.runW, e2, g2], g3, g4⟩")
    for ctor, itn, op in [("add", "ExtendedPoint_add_CachedPoint", "+"), ("sub", "ExtendedPoint_sub_CachedPoint", "-")]:
        w(f"  | .{ctor} q :: ss, acc, P, h, hP, hok, hr => by")
        w(f"    have hq : EnvIn q {b}.invCached := hok (.{ctor} q) (by simp)")
        w(f"    obtain ⟨r, h1, h2, h3, h4⟩ := {itn}_limb_spec acc q h hq hP hr.1")
        w(f"    obtain ⟨r', g1, g2, g3, g4⟩ := history_limb_spec pt ss r (P {op} pt q) h3 h4 (fun t ht => hok t (by simp [ht])) hr.2")
        w(f"    have e1 : {VC}.stepC {F} acc (.{ctor} q) = some r := by")
        w(f"      show {VC}.one ({K}.{itn}.evalC [acc, q]) = some r")
        w(f"      rw [h1]; rfl")
        w(f"    have e2 : {VC}.stepW {F} acc (.{ctor} q) = some r := by")
        w(f"      show {VC}.one ({K}.{itn}.evalW [acc, q]) = some r")
        w(f"      rw [h2]; rfl")
        w(f"    exact ⟨r', by simp only [{VC}.runC, e1, g1], by simp only [{VC}.runW, e2, g2], g3, g4⟩")
    w("")
    BK = f"{b.lower()}Backend"
    w(f"/-- the nine formulas of the {bk} backend that make up the vector scalar-multiplication code compute the group law on")
    w(f"machine words (the `_limb_spec` theorems above, packaged) -/")
    w(f"theorem groupLaw : GroupLaw {BK} RepExtW RepCachedW where")
    w(f"  dbl := fun x hx hP => ExtendedPoint_double_limb_spec x hx hP")
    w(f"  add := fun x y hx hy hP hQ => ExtendedPoint_add_CachedPoint_limb_spec x y hx hy hP hQ")
    w(f"  sub := fun x y hx hy hP hQ => ExtendedPoint_sub_CachedPoint_limb_spec x y hx hy hP hQ")
    w(f"  toCached := fun x hx hP => CachedPoint_from_ExtendedPoint_limb_spec x hx hP")
    w(f"  negC := fun x hx hP => CachedPoint_neg_limb_spec x hx hP")
    w(f"  selC := fun x y c hx hy hc hP hQ => CachedPoint_conditional_select_limb_spec x y c hx hy hc hP hQ")
    w(f"  asgC := fun x y c hx hy hc hP hQ => CachedPoint_conditional_assign_limb_spec x y c hx hy hc hP hQ")
    w(f"  idE := ExtendedPoint_identity_limb_spec")
    w(f"  idC := CachedPoint_identity_limb_spec")
    w("")
    w(f"/-- **{bk}: every well-typed program of vector point operations computes the group law on machine words.**  For any")
    w(f"straight-line program `ops` over registers holding `ExtendedPoint`s, `CachedPoint`s and `Choice` words (double, ± cached,")
    w(f"`CachedPoint::from`, cached negation, conditional select / assign = the body of `LookupTable::select`, identities), well typed")
    w(f"in `Γ`, from registers `env` inside their invariants that represent the curve points `den` (choice words `cv`): the")
    w(f"overflow-checked run of ALL kernel calls succeeds, equals the release run, every register is inside the invariant of its type")
    w(f"and REPRESENTS ITS DENOTATION `denRun den cv ops` in the curve group. -/")
    w(f"theorem program_limb_spec (ops : List VOp) (Γ : List Ty) (den : List Ed) (cv : List Nat) (env : List (List Nat))")
    w(f"    (ht : Typed {BK} Γ env) (hr : Reps RepExtW RepCachedW Γ den cv env) (hw : wellTyped {BK} Γ ops = true) :")
    w(f"    ∃ env', runWith KProg.evalC {BK} env ops = some env' ∧ runWith KProg.evalW {BK} env ops = some env' ∧")
    w(f"      Typed {BK} (tyRun {BK} Γ ops) env' ∧")
    w(f"      Reps RepExtW RepCachedW (tyRun {BK} Γ ops) (denRun den cv ops) (cv ++ List.replicate ops.length 0) env' :=")
    w(f"  program_group groupLaw ops Γ den cv env ht hr hw")
    w("")
    w(f"end {b}\n")

for b in backends:
    backend(b)

w('''/-! ### The hypotheses are satisfiable -/

/-- the all-zero words are inside the invariants (so the `_lanes` theorems are not vacuous) -/
example : EnvIn (List.replicate 40 0) Avx2.invExt ∧ EnvIn (List.replicate 40 0) Avx2.invCached := by decide +kernel
''')
if "Ifma" in backends:
    w('''example : EnvIn (List.replicate 20 0) Ifma.invExt ∧ EnvIn (List.replicate 20 0) Ifma.invCached := by decide +kernel
''')
w('''/-- the words of the identity constants represent the neutral element and are inside the invariants: the hypotheses of the
`_limb_spec` theorems (`EnvIn … ∧ RepExtW …`, `EnvIn … ∧ RepCachedW …`) are satisfiable -/
example : ∃ x y, EnvIn x Avx2.invExt ∧ Avx2.RepExtW 0 x ∧ EnvIn y Avx2.invCached ∧ Avx2.RepCachedW 0 y := by
  obtain ⟨x, _, _, hx, hP⟩ := Avx2.ExtendedPoint_identity_limb_spec
  obtain ⟨y, _, _, hy, hQ⟩ := Avx2.CachedPoint_identity_limb_spec
  exact ⟨x, y, hx, hP, hy, hQ⟩
''')
if "Ifma" in backends:
    w('''example : ∃ x y, EnvIn x Ifma.invExt ∧ Ifma.RepExtW 0 x ∧ EnvIn y Ifma.invCached ∧ Ifma.RepCachedW 0 y := by
  obtain ⟨x, _, _, hx, hP⟩ := Ifma.ExtendedPoint_identity_limb_spec
  obtain ⟨y, _, _, hy, hQ⟩ := Ifma.CachedPoint_identity_limb_spec
  exact ⟨x, y, hx, hP, hy, hQ⟩
''')
w('''/-- the denotation of one window step of the vector `variable_base::mul` (table entry selected by conditional assignment
from `Q1`, `Q2` with choice `c`, conditionally negated with the same choice, four doublings of the accumulator `P`, one
addition): register 11 denotes `16 P ± Qc` -/
example (P Q1 Q2 : Ed) (c : Nat) :
    (denRun [P, Q1, Q2, 0] [0, 0, 0, c]
      [.asgC 1 2 3, .negC 4, .selC 4 5 3, .dbl 0, .dbl 7, .dbl 8, .dbl 9, .add 10 6]).getD 11 0
    = 2 • (2 • (2 • (2 • P))) + (if c = 0 then (if c = 0 then Q1 else Q2) else -(if c = 0 then Q1 else Q2)) := rfl
''')
w('''/-- the per-formula check discriminates: the kernel calls of `CachedPoint_neg` are NOT the lane terms of the AlgIR item
`CachedPoint_from_ExtendedPoint` (evaluated by the Lean kernel) -/
example : refOk Dalek.Proofs.KLane.Avx2.table KAvx2Edwards.CachedPoint_neg [Avx2.invCached] [.v26] .v26
    AlgAvx2Edwards.CachedPoint_from_ExtendedPoint = false := by decide +kernel
''')
w("/-! ### Axiom audit -/\n")
for b in backends:
    for it in items[b]:
        for suf in ["lanes", "limb_spec"]:
            w(f"/-- info: 'Dalek.Props.C01.VecFormulas.{b}.{it}_{suf}' depends on axioms: [propext, Classical.choice, Quot.sound] -/")
            w(f"#guard_msgs (whitespace := lax) in #print axioms {b}.{it}_{suf}\n")
    for nm in ["history_limb_spec", "program_limb_spec"]:
        w(f"/-- info: 'Dalek.Props.C01.VecFormulas.{b}.{nm}' depends on axioms: [propext, Classical.choice, Quot.sound] -/")
        w(f"#guard_msgs (whitespace := lax) in #print axioms {b}.{nm}\n")
w("end Dalek.Props.C01.VecFormulas")
print("\n".join(out))

import Lean
/-! `lake env lean --run tools/Audit.lean Mod.A Mod.B …`
For every theorem declared in the given modules print `THM <name> <comma separated axioms>`.
Also prints `DEF <name>` for every non-theorem declaration that depends on `sorryAx`. -/
open Lean

def main (args : List String) : IO UInt32 := do
  initSearchPath (← findSysroot)
  let mods := args.map (fun s => s.toName)
  let env ← importModules (mods.toArray.map (fun m => { module := m })) {} (loadExts := false)
  let mut bad : UInt32 := 0
  let allMods := env.header.moduleNames
  let sel := allMods.filter (fun a => mods.any (fun m => m == a || m.isPrefixOf a))
  for m in sel do
    match env.getModuleIdx? m with
    | none => IO.eprintln s!"module not found: {m}"; bad := 1
    | some idx =>
      IO.println s!"MOD {m}"
      let names := env.header.moduleData[idx.toNat]!.constNames
      for n in names do
        if n.isInternal then continue
        match env.find? n with
        | some (.thmInfo _) =>
          let (axs, _) ← (collectAxioms n : CoreM _).toIO { fileName := "", fileMap := default } { env }
          IO.println s!"THM {n} {String.intercalate "," (axs.toList.map toString)}"
        | some (.defnInfo _) | some (.opaqueInfo _) =>
          let (axs, _) ← (collectAxioms n : CoreM _).toIO { fileName := "", fileMap := default } { env }
          if axs.contains ``sorryAx then
            IO.println s!"THM {n} sorryAx"
        | _ => pure ()
  return bad

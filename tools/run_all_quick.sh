#!/bin/bash
# run every claimed quick check on the current tree; print one line each
cd /verif
for p in $(python3 -c "import json; print(' '.join(c['property_id'] for c in json.load(open('MANIFEST.json'))['checks']))"); do
  s=$(date +%s); out=$(./check $p --tier quick 2>/dev/null | grep -E "VIOLATION|KNOWN" | head -3); rc=$?
  e=$(date +%s); echo "$p $((e-s))s ${out:-ok}"
done

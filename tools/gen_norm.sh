#!/bin/bash
# second translator stage: run the analyser/normaliser on every registered kernel and print Dalek/Gen/Norm/*.lean
# cwd = /verif/lean ; caller holds the lean lock
set -e
lake build Dalek.Model.Contracts >/dev/null 2>&1 || { echo "Contracts (or Gen) does not build" >&2; lake build Dalek.Model.Contracts 2>&1 | grep -i error | head -20 >&2; exit 1; }
lake env lean --run ../tools/GenNorm.lean Dalek/Gen/Norm

#!/bin/bash
# verify_seed.sh <worktree> <demo-file-relative> <crate> [extra cargo test args...]
# confirms: (1) suite passes with the change (demo moved aside), (2) demo fails with the change, (3) demo passes without it.
# leaves the worktree with the change applied.
set -u
WT=$1; DEMO=$2; CRATE=$3; shift 3
cd "$WT" || exit 2
[ -f seeded.patch ] || { echo "no seeded.patch"; exit 2; }
NAME=$(basename "$DEMO" .rs)
mv "$DEMO" /tmp/_demo_aside.rs
SUITE=$(cargo test --workspace --offline --lib --tests 2>&1 | grep "test result" | awk '{p+=$4; f+=$6} END {print p" passed "f" failed"}')
mv /tmp/_demo_aside.rs "$DEMO"
echo "suite with change: $SUITE"
cargo test -p "$CRATE" --offline --test "$NAME" "$@" > /tmp/_demo_with.log 2>&1; RC_WITH=$?
echo "demo with change: rc=$RC_WITH $(grep 'test result' /tmp/_demo_with.log | head -1)"
git apply -R seeded.patch || { echo "cannot revert"; exit 2; }
cargo test -p "$CRATE" --offline --test "$NAME" "$@" > /tmp/_demo_without.log 2>&1; RC_WITHOUT=$?
echo "demo without change: rc=$RC_WITHOUT $(grep 'test result' /tmp/_demo_without.log | head -1)"
git apply seeded.patch
if [ "$SUITE" = "138 passed 0 failed" ] && [ $RC_WITH -ne 0 ] && [ $RC_WITHOUT -eq 0 ]; then echo CONFIRMED; exit 0; else echo NOT-CONFIRMED; exit 1; fi

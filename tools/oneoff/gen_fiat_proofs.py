#!/usr/bin/env python3
"""One-off generator (kept for reference) of the boiler-plate in Dalek/Proofs/FiatField{51,26}.lean and
Dalek/Props/C01/Fiat{51,26}.lean: one `*_correct` + one `*_spec` per translated fiat wrapper kernel.
The emitted files are ordinary hand-maintained sources afterwards."""
import sys
W = {51: dict(n=5, mod='FiatField51', rep='rep51', base='Field51', val='val51'),
     26: dict(n=10, mod='FiatField26', rep='rep26', base='Field26', val='val26')}
UN = [('neg', '- {a}', '`-&a`: `fiat_25519_opp` then `fiat_25519_carry`'),
      ('square', '{a} ^ 2', '`square()`: relax, `fiat_25519_carry_square`'),
      ('square2', '2 * {a} ^ 2', '`square2()`: carry_square, `add(sq, sq)`, carry'),
      ('pow2k_body', '{a} ^ 2', 'one iteration of the `pow2k` loop (tight in, tight out: it iterates)')]
BIN = [('add', '{a} + {b}', '`+=`: `fiat_25519_add` then `fiat_25519_carry`'),
       ('add_ref', '{a} + {b}', '`&a + &b`'),
       ('sub', '{a} - {b}', '`&a - &b`: `fiat_25519_sub` (adds 2p) then carry'),
       ('sub_assign', '{a} - {b}', '`-=`'),
       ('mul', '{a} * {b}', '`&a * &b`: relax both, `fiat_25519_carry_mul`'),
       ('mul_assign', '{a} * {b}', '`*=`')]

def gen(w):
    c = W[w]; n = c['n']; mod = c['mod']; rep = c['rep']
    xs = ['x%d' % i for i in range(n)]; ys = ['y%d' % i for i in range(n)]
    P = []
    P.append('import Dalek.Proofs.%s\nimport Dalek.Gen.Norm.%s' % (c['base'], mod))
    P.append('/-! Functional correctness in `ZMod p` of the translated fiat wrapper kernels (`backend/serial/fiat_u%d/field.rs`\n'
             'with the called `fiat_crypto::curve25519_%d` functions inlined), for ALL integer inputs. -/' % (64 if w == 51 else 32, 64 if w == 51 else 32))
    P.append('namespace Dalek.Proofs.%s\nopen Dalek Dalek.Gen.Norm.%s Dalek.Proofs.%s\n' % (mod, mod, c['base']))
    def cast(v): return '((%s [%s] : Int) : ZMod P)' % (rep, ', '.join(v))
    HB = 'set_option maxHeartbeats 4000000 in\n' if w == 26 else ''
    for name, rhs, _ in UN + ([('reduce', '{a}', '')] if w == 51 else []):
        P.append((HB if name != 'neg' else '') + 'theorem %s_correct (%s : Int) :\n    ((%s (%s_fn %s) : Int) : ZMod P) = %s := by\n  limb_lets %s_fn\n  cast_eqs (ZMod P)\n  limb_finish\n'
                 % (name, ' '.join(xs), rep, name, ' '.join(xs), rhs.format(a=cast(xs)), name))
    for name, rhs, _ in BIN:
        P.append((HB if name.startswith('mul') else '') + 'theorem %s_correct (%s : Int) :\n    ((%s (%s_fn %s) : Int) : ZMod P)\n      = %s := by\n  limb_lets %s_fn\n  cast_eqs (ZMod P)\n  limb_finish\n'
                 % (name, ' '.join(xs + ys), rep, name, ' '.join(xs + ys), rhs.format(a=cast(xs), b=cast(ys)), name))
    for name in ('conditional_select', 'conditional_assign'):
        P.append('theorem %s_correct (%s c : Int) :\n    %s_fn %s c = if c = 0 then [%s] else [%s] := by\n  unfold %s_fn\n  split <;> simp_all\n'
                 % (name, ' '.join(xs + ys), name, ' '.join(xs + ys), ', '.join(xs), ', '.join(ys), name))
    P.append('theorem conditional_swap_correct (%s c : Int) :\n    conditional_swap_fn %s c = if c = 0 then [%s] else [%s] := by\n  unfold conditional_swap_fn\n  split <;> simp_all\n'
             % (' '.join(xs + ys), ' '.join(xs + ys), ', '.join(xs + ys), ', '.join(ys + xs)))
    P.append('end Dalek.Proofs.%s' % mod)
    open('/verif/lean/Dalek/Proofs/%s.lean' % mod, 'w').write('\n'.join(P) + '\n')

    # Props
    a = ['a%d' % i for i in range(n)]; b = ['b%d' % i for i in range(n)]
    val = c['val']
    Q = []
    Q.append('import Dalek.IR.LimbSound\nimport Dalek.Proofs.%s\nimport Dalek.Props.C01.%s\nimport Dalek.Proofs.MontClamp' % (mod, c['base']))
    bits = 64 if w == 51 else 32
    Q.append('''/-!
# C01 / C11 / C05 — the fiat u%(bits)d backend: field arithmetic is exact arithmetic modulo 2^255-19 (property theorems)

Statements are about `Dalek.Gen.%(mod)s.*`: LimbIR programs REGENERATED on every run from the wrapper methods of
`curve25519-dalek/src/backend/serial/fiat_u%(bits)d/field.rs` with the `fiat_crypto::curve25519_%(bits)d` functions they call
INLINED (source: the cargo-registry copy of the fiat-crypto version pinned by /repo/Cargo.lock).  For every input inside
fiat's documented *tight* bounds (`Dalek.Model.Contracts.%(mod)s.tight`) the debug build (`evalC`: overflow checks) does not
panic, the release build (`evalW`) returns the same limbs, the result is again *tight* (so every composition of these
operations stays inside the contracts: the C11 invariant of this backend is one interval vector), and its value in `ZMod p`
is the field operation applied to the values of the inputs.
-/''' % dict(bits=bits, mod=mod))
    Q.append('namespace Dalek.Props.C01.Fiat%d\nopen Dalek.IR Dalek.Model.Contracts\nopen Dalek.Proofs.%s (P %s)\nopen Dalek.Props.C01.%s (%s toZ_cons toZ_nil)\n'
             % (w, c['base'], c['rep'], c['base'], c['val']))
    tight = 'rep 5 FiatField51.tight' if w == 51 else 'FiatField26.tight'
    Q.append('/-- the output contract of every fiat wrapper operation: fiat\'s tight bounds -/\nabbrev tightOut : List Itv := %s\n' % tight)
    Q.append('section\nvariable (%s : Nat)\n' % ' '.join(a + b))
    def lst(v): return '[' + ', '.join(v) + ']'
    def spec(name, ins, pre, post, concl, doc):
        return ('''/-- %s -/
theorem %s_spec (hin : EnvIn %s %s.pre_%s) :
    ∃ out, Dalek.Gen.%s.%s.evalC %s = some out ∧
      Dalek.Gen.%s.%s.evalW %s = out ∧
      EnvIn out %s ∧ %s := by
  obtain ⟨out, hC, hW, hpost, hZ⟩ := Prog.norm_sound _ _ _ _ Dalek.Gen.Norm.MOD.%s_norm_ok _ hin
  refine ⟨out, hC, hW, EnvIn_of_itvsLe hpost (by decide +kernel), ?_⟩
  have h := Dalek.Proofs.MOD.%s_correct %s
  rw [← Dalek.Gen.Norm.MOD.%s_fn_ok] at h
  simp only [toZ_cons, toZ_nil] at hZ
  rw [hZ] at h
  simpa [%s, toZ_cons, toZ_nil] using h
''' % (doc, name, lst(ins), mod, name, mod, name, lst(ins), mod, name, lst(ins), post, concl, name, name, ' '.join(ins), name, val))
    for name, rhs, doc in UN:
        Q.append(spec(name, a, None, 'tightOut', '%s out = %s' % (val, rhs.format(a='%s %s' % (val, lst(a)))), doc))
    if w == 51:
        Q.append(spec('reduce', a, None, 'tightOut', '%s out = %s %s' % (val, val, lst(a)), 'the private `reduce` (= `fiat_25519_carry`): any LOOSE limbs'))
    for name, rhs, doc in BIN:
        Q.append(spec(name, a + b, None, 'tightOut', '%s out = %s' % (val, rhs.format(a='%s %s' % (val, lst(a)), b='%s %s' % (val, lst(b)))), doc))
    Q.append('end\n')
    # select
    Q.append('section\nvariable (%s c : Nat)\n' % ' '.join(a + b))
    for name, doc in (('conditional_select', '`conditional_select(a, b, c)` (`fiat_25519_selectznz`): limb-for-limb `a` if `c = 0`, `b` if `c = 1`'),
                      ('conditional_assign', '`a.conditional_assign(b, c)` (five/ten `fiat_25519_cmovznz`)')):
        ins = a + b + ['c']
        Q.append('''/-- %s -/
theorem %s_spec (hin : EnvIn %s %s.pre_%s) :
    ∃ out, Dalek.Gen.%s.%s.evalC %s = some out ∧
      Dalek.Gen.%s.%s.evalW %s = out ∧
      out = if c = 0 then %s else %s := by
  obtain ⟨out, hC, hW, hpost, hZ⟩ := Prog.norm_sound _ _ _ _ Dalek.Gen.Norm.MOD.%s_norm_ok _ hin
  refine ⟨out, hC, hW, ?_⟩
  have h := Dalek.Proofs.MOD.%s_correct %s
  rw [← Dalek.Gen.Norm.MOD.%s_fn_ok] at h
  simp only [toZ_cons, toZ_nil] at hZ
  rw [hZ] at h
  apply Dalek.Proofs.Mont.toZ_inj
  rw [h]
  split <;> simp_all [toZ_cons, toZ_nil]
''' % (doc, name, lst(ins), mod, name, mod, name, lst(ins), mod, name, lst(ins), lst(a), lst(b), name, name, ' '.join(ins), name))
    ins = a + b + ['c']
    Q.append('''/-- `conditional_swap(a, b, c)` (five/ten `u64::conditional_swap` on the limbs): the pair unchanged if `c = 0`, exchanged if `c = 1` -/
theorem conditional_swap_spec (hin : EnvIn %s MOD.pre_conditional_swap) :
    ∃ out, Dalek.Gen.MOD.conditional_swap.evalC %s = some out ∧
      Dalek.Gen.MOD.conditional_swap.evalW %s = out ∧
      out = if c = 0 then %s else %s := by
  obtain ⟨out, hC, hW, hpost, hZ⟩ := Prog.norm_sound _ _ _ _ Dalek.Gen.Norm.MOD.conditional_swap_norm_ok _ hin
  refine ⟨out, hC, hW, ?_⟩
  have h := Dalek.Proofs.MOD.conditional_swap_correct %s
  rw [← Dalek.Gen.Norm.MOD.conditional_swap_fn_ok] at h
  simp only [toZ_cons, toZ_nil] at hZ
  rw [hZ] at h
  apply Dalek.Proofs.Mont.toZ_inj
  rw [h]
  split <;> simp_all [toZ_cons, toZ_nil]
''' % (lst(ins), lst(ins), lst(ins), lst(a + b), lst(b + a), ' '.join(ins)))
    Q.append('end\n')
    Q.append('/-- non-vacuity: all limbs at the tight bound satisfy the contract of `mul` -/\nexample : EnvIn (%s ++ %s) %s.pre_mul := by decide +kernel\n'
             % ((('List.replicate 5 0x8000000000000', 'List.replicate 5 0x8000000000000') if w == 51 else
                 ('[0x4000000, 0x2000000, 0x4000000, 0x2000000, 0x4000000, 0x2000000, 0x4000000, 0x2000000, 0x4000000, 0x2000000]',) * 2) + (mod,)))
    Q.append('end Dalek.Props.C01.Fiat%d' % w)
    open('/verif/lean/Dalek/Props/C01/Fiat%d.lean' % w, 'w').write(('\n'.join(Q) + '\n').replace('MOD', mod))

gen(51); gen(26)

"""Kernel-call programs (KProg) for the parallel point formulas: the same source walk as the scalarised AlgIR
translation (algir.AlgTranslator), but every vector-field operation becomes ONE call of the translated LimbIR
kernel of that operation (Dalek.Gen.Avx2Field / Dalek.Gen.IfmaField)."""
import algir
from algir import Val, V4, Struct, Tup, IntC, EnumV, Bytes, UNIT, LANE_NAMES
from limbir import TransErr, Env
import rslex
import rsparse


class KRef(object):
    """a value of the KProg environment (or a literal / a 5-limb piece of a split value)"""
    __slots__ = ('sort', 'arg', 'width')

    def __init__(self, sort, arg, width):
        self.sort = sort        # 'fe' | 'ch'
        self.arg = arg          # ('var', i) | ('lit', [words]) | ('piece', var index, k)
        self.width = width


class KV(V4):
    __slots__ = ('arg', 'width')

    def __init__(self, kind, arg, width):
        self.kind = kind
        self.l = None
        self.arg = arg
        self.width = width


class KBuilder(object):
    def __init__(self):
        self.inputs = []    # (name, width, sort/kind)
        self.stmts = []     # (kernel name, [args])
        self.widths = []    # widths of all env values

    def new_input(self, name, width, what):
        if self.stmts:
            raise TransErr('internal: input created after statements')
        self.inputs.append((name, width, what))
        self.widths.append(width)
        return ('var', len(self.widths) - 1)

    def emit(self, kernel, args, width):
        self.stmts.append((kernel, args))
        self.widths.append(width)
        return ('var', len(self.widths) - 1)


# method tables: (receiver kind class, kernel name pattern, result kind class); kind classes 'U' / 'R'
class Backend(object):
    def __init__(self, name, limb_module, kinds, words, kernels):
        self.name = name
        self.limb_module = limb_module
        self.kinds = kinds          # {'U': type name, 'R': type name or None}
        self.words = words          # 40 / 20
        self.kernels = kernels      # {name: (n_in, n_out, is_identity)}
        self.cls = dict((v, k) for k, v in kinds.items() if v)


class KTranslator(algir.AlgTranslator):
    def __init__(self, ctx, spec, backend):
        algir.AlgTranslator.__init__(self, ctx, spec)
        self.b = KBuilder()
        self.be = backend
        self.used = []

    # -- kernel calls --------------------------------------------------------------------------
    def call(self, kernel, args, ln):
        info = self.be.kernels.get(kernel)
        if info is None:
            raise TransErr('no translated kernel `%s` in Dalek.Gen.%s' % (kernel, self.be.limb_module), ln)
        n_in, n_out, ident = info
        w = 0
        for a in args:
            if a[0] == 'piece':
                raise TransErr('a limb group of a split() value used as a kernel argument', ln)
            w += len(a[1]) if a[0] == 'lit' else self.b.widths[a[1]]
        if w != n_in:
            raise TransErr('kernel %s takes %d words, the arguments have %d' % (kernel, n_in, w), ln)
        if ident and len(args) == 1:
            return args[0]      # pure re-tagging (no arithmetic in the source): no statement
        if kernel not in self.used:
            self.used.append(kernel)
        return self.b.emit(kernel, list(args), n_out)

    def kcls(self, kind):
        return self.be.cls[kind]

    def knd(self, c):
        k = self.be.kinds.get(c) or self.be.kinds['U']
        return k

    def vec(self, cls_, arg):
        return KV(self.knd(cls_), arg, self.be.words)

    def pick(self, table, v, ln, what):
        """table: {receiver class: (kernel, result class)}"""
        c = self.kcls(v.kind)
        if c not in table:
            raise TransErr('%s is not available on %s' % (what, v.kind), ln)
        return table[c]

    def single(self):
        return self.be.kinds.get('R') is None

    # -- inputs --------------------------------------------------------------------------------
    def make_input(self, ty, env, name, line, depth=0):
        n = self.type_name(ty, env)
        if n == algir.FE_TYPE:
            return Val(KRef('fe', self.b.new_input(name, 5, 'FieldElement51 (5 u64 limbs)'), 5))
        if n == 'Choice':
            return Val(KRef('ch', self.b.new_input(name, 1, 'Choice (1 word, 0/1)'), 1))
        if n in self.c.vec_kinds:
            return KV(n, self.b.new_input(name, self.be.words, '%s (%d lanes)' % (n, self.be.words)), self.be.words)
        if n is not None and depth < 4:
            st = self.c.find_struct(n)
            if st is not None and self.is_field_level(st, env, 0):
                fields = {}
                for fname, (a, b) in rslex.struct_fields(st):
                    fty = rsparse.parse_type_range(st.toks, a, b, st.fname)
                    fields[fname] = self.make_input(fty, env, '%s.%s' % (name, fname), line, depth + 1)
                return Struct(n, fields)
        self.note('parameter/value `%s` is byte-level (opaque)' % name)
        return Bytes()

    # -- vector hooks --------------------------------------------------------------------------
    def vec_copy(self, v):
        return KV(v.kind, v.arg, v.width)

    def vec_zero(self, kind, ln):
        return KV(kind, ('lit', [0] * self.be.words), self.be.words)

    def vec_const(self, name, sname, kind, vals, rows, ln):
        words = [x for r in rows for x in r]
        if len(words) != self.be.words:
            raise TransErr('constants::%s has %d words, expected %d' % (name, len(words), self.be.words), ln)
        self.note('constants::%s: literal lanes in the word order of the %s kernels' % (name, self.be.limb_module))
        return Struct(sname, {'0': KV(kind, ('lit', words), self.be.words)})

    def vec_neg(self, v, ln):
        k, rc = self.pick({'U': ('neg', 'U')} if self.single() else {'R': ('neg', 'R')}, v, ln, 'unary -')
        return self.vec(rc, self.call(k, [v.arg], ln))

    def vec_binop(self, op, a, b, ln):
        if isinstance(b, V4):
            if a.kind != b.kind:
                raise TransErr('operator %s on vectors of different types' % op, ln)
            if op == '+':
                k, rc = self.pick({'U': ('add', 'U')}, a, ln, '+')
                return self.vec(rc, self.call(k, [a.arg, b.arg], ln))
            if op == '*':
                k, rc = self.pick({'U': ('mul', 'U')} if self.single() else {'R': ('mul', 'U')}, a, ln, '*')
                return self.vec(rc, self.call(k, [a.arg, b.arg], ln))
        if op == '*' and isinstance(b, Tup) and len(b.el) == 4 and all(isinstance(x, IntC) for x in b.el):
            for x in b.el:
                if not 0 <= x.n < 2 ** 32:
                    raise TransErr('scalar constant does not fit u32', ln)
            k, rc = self.pick({'U': ('mul_consts', 'U')} if self.single() else {'R': ('mul_consts', 'U')}, a, ln,
                              '* (u32, u32, u32, u32)')
            return self.vec(rc, self.call(k, [a.arg, ('lit', [x.n for x in b.el])], ln))
        raise TransErr('operator %s on vector field values has no kernel' % op, ln)

    def convert(self, v, kind, ln):
        """From impls between the vector types"""
        if v.kind == kind:
            return self.vec_copy(v)
        src, dst = self.kcls(v.kind), self.kcls(kind)
        kernel = {('U', 'R'): 'reduce', ('R', 'U'): 'unreduce'}.get((src, dst))
        if kernel is None:
            raise TransErr('no conversion %s -> %s' % (v.kind, kind), ln)
        return KV(kind, self.call(kernel, [v.arg], ln), self.be.words)

    def resolve_into(self, v, ty, env, ln):
        if isinstance(v, tuple) and len(v) == 2 and v[0] == 'into':
            n = self.type_name(ty, env) if ty is not None else None
            if n not in self.c.vec_kinds:
                raise TransErr('`.into()` whose target is not a vector field type', ln)
            return self.convert(v[1], n, ln)
        return v

    def v4_method(self, recv, name, args, e, env, ln):
        single = self.single()
        pre = lambda c: '' if (single or c == 'U') else 'reduced_'
        c = self.kcls(recv.kind)
        if name == 'shuffle':
            if len(args) != 1 or not isinstance(args[0], EnumV) or args[0].enum != 'Shuffle':
                raise TransErr('shuffle expects a constant Shuffle::<variant>', ln)
            return KV(recv.kind, self.call('%sshuffle_%s' % (pre(c), args[0].variant), [recv.arg], ln), recv.width)
        if name == 'blend':
            if len(args) != 2 or not isinstance(args[0], V4) or args[0].kind != recv.kind \
                    or not isinstance(args[1], EnumV) or args[1].enum != 'Lanes':
                raise TransErr('blend expects (same vector type, Lanes::<variant>)', ln)
            return KV(recv.kind, self.call('%sblend_%s' % (pre(c), args[1].variant), [recv.arg, args[0].arg], ln),
                      recv.width)
        if name in ('negate_lazy', 'diff_sum') and not args:
            k, rc = self.pick({'U': (name, 'U')}, recv, ln, name)
            return self.vec(rc, self.call(k, [recv.arg], ln))
        if name == 'square_and_negate_D' and not args and single:
            return self.vec('U', self.call(name, [recv.arg], ln))
        if name == 'square' and not args and not single:
            k, rc = self.pick({'R': ('square', 'U')}, recv, ln, name)
            return self.vec(rc, self.call(k, [recv.arg], ln))
        if name == 'reduce' and not args and single:
            return self.vec('U', self.call('reduce', [recv.arg], ln))
        if name == 'split' and not args:
            k, _ = self.pick({'U': ('split', None)}, recv, ln, name)
            s = self.call(k, [recv.arg], ln)
            return Tup([Val(KRef('fe', ('piece', s[1], i), 5)) for i in range(4)])
        if name == 'into' and not args:
            return ('into', recv)
        if name == 'conditional_assign':
            if len(args) != 2 or not isinstance(args[0], V4) or args[0].kind != recv.kind:
                raise TransErr('conditional_assign expects (same vector type, Choice)', ln)
            ch = self.need(args[1], 'ch', ln, 'conditional_assign')
            k, rc = self.pick({'U': ('conditional_assign', 'U')} if single else {'R': ('conditional_assign', 'R')},
                              recv, ln, name)
            pl = self.place(e[2], env)
            pl.set(self.vec(rc, self.call(k, [recv.arg, args[0].arg, ch.v.arg], ln)))
            return UNIT
        raise TransErr('vector field method %s has no kernel known to the translator' % name, ln)

    def v4_static(self, kind, fn, args, ln):
        c = self.kcls(kind)
        if fn in ('new', 'splat'):
            if fn == 'splat':
                if len(args) != 1:
                    raise TransErr('splat expects one argument', ln)
                args = [args[0]] * 4
            if len(args) != 4 or c != 'U':
                raise TransErr('%s::new expects 4 arguments' % kind, ln)
            xs = [self.need(a, 'fe', ln, 'new').v.arg for a in args]
            return KV(kind, self.call('new', xs, ln), self.be.words)
        if fn == 'from':
            if len(args) != 1 or not isinstance(args[0], V4):
                raise TransErr('%s::from of a non-vector value' % kind, ln)
            return self.convert(args[0], kind, ln)
        if fn == 'conditional_select':
            if len(args) != 3 or not isinstance(args[0], V4) or not isinstance(args[1], V4) \
                    or args[0].kind != kind or args[1].kind != kind:
                raise TransErr('conditional_select expects (vector, vector, Choice)', ln)
            if not (self.single() or c == 'R'):
                raise TransErr('conditional_select is not available on %s' % kind, ln)
            ch = self.need(args[2], 'ch', ln, 'conditional_select')
            return KV(kind, self.call('conditional_select', [args[0].arg, args[1].arg, ch.v.arg], ln), self.be.words)
        raise TransErr('%s::%s has no kernel known to the translator' % (kind, fn), ln)

    # scalar field arithmetic is not part of these formulas
    def op(self, name, args, sort, param=None):
        raise TransErr('scalar field operation `%s` in a kernel-call program' % name)

    # -- outputs -------------------------------------------------------------------------------
    def finish(self, ret, mut_params, has_ret, ln):
        outs = []
        names = []

        def out_arg(arg, path, width):
            if arg[0] == 'lit':
                k = 'litCopy%d' % width
                self.be.kernels.setdefault(k, (width, width, False))
                arg = self.b.emit(k, [arg], width)
                if k not in self.used:
                    self.used.append(k)
                self.note('literal result returned through the local identity kernel %s' % k)
            outs.append(arg[1])
            names.append(path)

        def flat(v, path):
            if isinstance(v, V4):
                out_arg(v.arg, path or 'ret', v.width)
            elif isinstance(v, Struct):
                vals = list(v.f.values())
                if len(vals) == 4 and all(isinstance(x, Val) and x.v.arg[0] == 'piece' for x in vals):
                    base = set(x.v.arg[1] for x in vals)
                    if len(base) == 1 and [x.v.arg[2] for x in vals] == [0, 1, 2, 3]:
                        outs.append(base.pop())
                        names.append('%s = (%s) as one 20-word value (4 x 5 limbs)' % (path or 'ret', ', '.join(v.f.keys())))
                        return
                    raise TransErr('fields are not the four limb groups of one split() value in order', ln)
                for k in v.f:
                    flat(v.f[k], '%s.%s' % (path, k) if path else k)
            elif isinstance(v, Tup):
                for i, x in enumerate(v.el):
                    flat(x, '%s.%d' % (path, i) if path else str(i))
            elif isinstance(v, Val):
                if v.v.arg[0] == 'piece':
                    raise TransErr('a single limb group of a split() value cannot be a KProg output', ln)
                out_arg(v.v.arg, path, v.v.width)
            else:
                raise TransErr('result contains an unsupported kind of value', ln)
        if has_ret:
            flat(ret, 'ret')
        else:
            for name, v in mut_params:
                flat(v, name)
        if not outs:
            raise TransErr('function has no outputs', ln)
        return {'n_in': len(self.b.inputs), 'body': list(self.b.stmts), 'outs': outs,
                'in_names': ['%s: %s' % (n, w) for n, _, w in self.b.inputs],
                'in_widths': [w for _, w, _ in self.b.inputs],
                'in_sorts': ['w%d' % w for _, w, _ in self.b.inputs],
                'out_names': names, 'out_sorts': ['w%d' % self.b.widths[o] for o in outs],
                'out_widths': [self.b.widths[o] for o in outs], 'kernels': list(self.used)}

    def translate_fn(self, item, imp):
        decl = self.parse_fn(item)
        fenv = self.item_env(item)
        self_ty = imp.self_ty if imp is not None else None
        env0 = Env(fenv, barrier=True, self_ty=self_ty)
        ln = item.line
        self_val = None
        mut_params = []
        if decl.self_kind is not None:
            self_val = self.make_input(('tpath', ln, [self_ty], []), env0, 'self', ln)
            if decl.self_kind == 'mut':
                mut_params.append(('self', self_val))
        args = []
        for pat, ty in decl.params:
            pname = pat[2] if pat[0] == 'pid' else '_'
            v = self.make_input(ty, env0, pname, ln)
            args.append(v)
            if ty[0] == 'tref' and ty[2]:
                mut_params.append((pname, v))
        r = self.call_decl(decl, item, self_val, args, fenv, self_ty, ln)
        return self.finish(r, mut_params, decl.ret is not None, ln)

"""Syntactic inventory of the Rust sources (properties C14, C15).

Regenerated from the sources on every run of rs2lean (called from `rs2lean.run`).  Everything here is
*syntactic*: token-level facts about the text of the three crates, no type information.

Output module `Dalek.Gen.Inventory` (Mathlib-free, imports nothing):

 * `dropFacts`     one entry per non-test `struct`: how (if at all) it is erased on drop
 * `zeroizeFacts`  one entry per `impl Zeroize for T` / `derive(Zeroize)`: normalised statements of `fn zeroize`
 * `wipeFacts`     heap-buffer wiping in the Straus multiscalar code and the two `batch_invert`s
 * `panicSites`    every syntactic panic site of the non-test code

Strings are expensive to compare in the Lean kernel (UTF-8 decoding of literals), so every panic site also
carries `key : Nat`, the injective encoding `encode_key(file, func, kind, text)` = the bytes of
`file \\0 func \\0 kind \\0 text` read as a big-endian base-256 number with a leading 1 byte.  The hand-written
discharge table (`Dalek/Model/PanicTable.lean`) computes the same number from its string literals at
elaboration time.
"""
import os
import re

import rslex

CRATE_SRC = ['curve25519-dalek/src', 'ed25519-dalek/src', 'x25519-dalek/src']
EXCLUDE_FILES = {'curve25519-dalek/src/verif_hooks.rs'}
SKIP_DIRS = {'tests', 'benches', 'examples'}

# heap-allocation markers (token level) for the WipeFact inventory: every non-test fn of the three crates
HEAP_TYPES = {'Vec', 'Box', 'String', 'Rc', 'Arc', 'VecDeque', 'BTreeMap', 'BTreeSet', 'HashMap', 'HashSet', 'Cow'}
HEAP_METHODS = {'collect', 'to_vec', 'to_owned', 'into_vec', 'to_string', 'into_boxed_slice', 'into_owned'}
HEAP_MACROS = {'vec', 'format'}

PANIC_MACROS = {'panic', 'assert', 'assert_eq', 'assert_ne', 'debug_assert', 'debug_assert_eq',
                'debug_assert_ne', 'unreachable', 'unimplemented', 'todo'}
UNWRAPS = {'unwrap', 'expect', 'unwrap_err', 'expect_err'}
# methods of std slices / Vec that panic on bad lengths / indices (watch list; kind `call:<name>`)
PANICKING_METHODS = {'copy_from_slice', 'clone_from_slice', 'split_at', 'split_at_mut', 'chunks', 'chunks_mut',
                     'chunks_exact', 'chunks_exact_mut', 'rchunks', 'windows', 'step_by', 'swap_remove',
                     'remove', 'drain', 'split_off', 'copy_within', 'swap_with_slice', 'split_first_chunk',
                     'as_chunks', 'array_chunks'}
KEYWORDS = {'as', 'break', 'const', 'continue', 'crate', 'else', 'enum', 'extern', 'fn', 'for', 'if', 'impl',
            'in', 'let', 'loop', 'match', 'mod', 'move', 'mut', 'pub', 'ref', 'return', 'static', 'struct',
            'trait', 'type', 'unsafe', 'use', 'where', 'while', 'dyn', 'async', 'await'}
TEXT_MAX = 120

_OPEN = {'(': ')', '[': ']', '{': '}'}
_CLOSE = {')': '(', ']': '[', '}': '{'}


# ---------------------------------------------------------------------------------------------
# helpers
# ---------------------------------------------------------------------------------------------

def is_p(t, x):
    return t[0] == 'p' and t[1] == x


def render(toks, a, b):
    """compact, whitespace-independent text of the tokens [a,b)."""
    out = []
    prev = None
    for i in range(a, b):
        t = toks[i]
        x = t[1]
        if t[0] == 'str':
            x = x.replace('\n', ' ')
        if prev is not None:
            pk, px = prev[0], prev[1]
            sp = True
            if pk == 'p' and px in ('(', '[', '.', '::', '!', '#', '$'):
                sp = False
            elif t[0] == 'p' and x in (')', ']', '.', '::', ',', ';', '?', '!'):
                sp = False
            elif t[0] == 'p' and x in ('(', '['):
                sp = not (pk in ('id', 'int') and px not in KEYWORDS or (pk == 'p' and px in (')', ']', '>')))
            elif pk == 'p' and px in ('&', '*', '-') and i - 2 >= a:
                # unary if the token before the operator does not end an expression
                q = toks[i - 2]
                ends = (q[0] in ('id', 'int', 'str', 'chr', 'flt') and q[1] not in KEYWORDS) or \
                       (q[0] == 'p' and q[1] in (')', ']', '?'))
                sp = ends
            elif pk == 'p' and px in ('&', '*', '-') and i - 1 == a:
                sp = False
            if sp:
                out.append(' ')
        out.append(x)
        prev = t
    s = ''.join(out)
    s = ''.join(c if 32 <= ord(c) < 127 else '?' for c in s)
    return s


def clip_head(s):
    return s if len(s) <= TEXT_MAX else s[:TEXT_MAX - 3] + '...'


def clip_tail(s):
    return s if len(s) <= TEXT_MAX else '...' + s[-(TEXT_MAX - 3):]


def match_back(toks, i, lo):
    """toks[i] is a closing delimiter; index of the matching opener (>= lo) or None."""
    depth = 0
    j = i
    while j >= lo:
        t = toks[j]
        if t[0] == 'p':
            if t[1] in _CLOSE:
                depth += 1
            elif t[1] in _OPEN:
                depth -= 1
                if depth == 0:
                    return j
        j -= 1
    return None


_STOP_BACK = {';', '{', '}', ',', '=', '=>', '+=', '-=', '*=', '/=', '%=', '^=', '&=', '|=', '<<=', '>>=',
              '|', '||', '&&', '(', '['}


def expr_start(toks, i, lo):
    """start index of the (approximate) expression that ends just before index i+1, scanning backwards from i
    over balanced groups; stops at statement / argument boundaries."""
    j = i
    while j >= lo:
        t = toks[j]
        if t[0] == 'p':
            x = t[1]
            if x in (')', ']'):
                m = match_back(toks, j, lo)
                if m is None:
                    return j + 1
                j = m - 1
                continue
            if x in _STOP_BACK:
                return j + 1
        elif t[0] == 'id' and t[1] in ('let', 'return', 'in', 'if', 'while', 'match', 'else', 'mut'):
            return j + 1
        j -= 1
    return lo


def expr_end(toks, i, hi):
    """index just past the (approximate) end of the expression containing token i (forward scan)."""
    j = i
    while j < hi:
        t = toks[j]
        if t[0] == 'p':
            x = t[1]
            if x in ('(', '['):
                j = rslex.match_delim(toks, j)
                continue
            if x in (';', ',', '{', '}', ')', ']', '=>'):
                return j
        j += 1
    return hi


def postfix_start(toks, i, lo):
    """start of the postfix chain `a.b::c(..)[..].d` ending at token i (inclusive)."""
    j = i
    while j >= lo:
        t = toks[j]
        if t[0] == 'p' and t[1] in (')', ']'):
            m = match_back(toks, j, lo)
            if m is None:
                return j + 1
            j = m - 1
            # a call / index group must be preceded by something postfix-able, else it is a parenthesised expr
            if j >= lo and not ((toks[j][0] in ('id', 'int') and toks[j][1] not in KEYWORDS)
                                or (toks[j][0] == 'p' and toks[j][1] in (')', ']', '?', '!'))):
                return j + 1
            if j >= lo and is_p(toks[j], '!'):
                j -= 1
            continue
        if t[0] in ('id', 'int') and t[1] not in KEYWORDS:
            j -= 1
            if j >= lo and toks[j][0] == 'p' and toks[j][1] in ('.', '::', '$'):
                j -= 1
                continue
            return j + 1
        if t[0] == 'p' and t[1] == '?':
            j -= 1
            continue
        return j + 1
    return lo


def is_test_item(it):
    for a in it.attrs:
        s = a.replace(' ', '')
        if s in ('test', 'cfg(test)', 'bench'):
            return True
        if re.match(r'^cfg\(all\((.*,)?test[,)]', s):
            return True
    if it.kind == 'mod' and it.name in ('test', 'tests'):
        return True
    return False


def cfg_gate(attrs):
    """the cfg condition(s) of an item, e.g. `feature = "zeroize"`."""
    gs = []
    for a in attrs:
        m = re.match(r'^cfg \( (.*) \)$', a)
        if m:
            gs.append(norm_attr(m.group(1)))
    return ' && '.join(gs)


def norm_attr(s):
    s = re.sub(r'\s+', ' ', s.strip())
    s = re.sub(r'\s*([(),])\s*', lambda m: m.group(1) + (' ' if m.group(1) == ',' else ''), s)
    return s.strip()


def derives(attrs):
    """[(trait name, gate)] for every derive / cfg_attr(.., derive(..)) attribute."""
    out = []
    for a in attrs:
        m = re.match(r'^derive \( (.*) \)$', a)
        if m:
            for nm in m.group(1).split(','):
                nm = nm.strip().split('::')[-1].strip()
                if nm:
                    out.append((nm, ''))
            continue
        m = re.match(r'^cfg_attr \( (.*) , derive \( (.*?) \) \)$', a)
        if m:
            for nm in m.group(2).split(','):
                nm = nm.strip().split('::')[-1].strip()
                if nm:
                    out.append((nm, norm_attr(m.group(1))))
    return out


def struct_fields_attrs(it):
    """[(name, type text, [attrs])] of a struct item."""
    toks = it.toks
    if it.tuple_rng is not None:
        a, b = it.tuple_rng
        named = False
    elif it.brace_rng is not None:
        a, b = it.brace_rng
        named = True
    else:
        return []
    out = []
    i = a
    idx = 0
    while i < b:
        attrs = []
        while i < b and is_p(toks[i], '#'):
            k = rslex.match_delim(toks, i + 1)
            attrs.append(' '.join(t[1] for t in toks[i + 2:k - 1]))
            i = k
        if i >= b:
            break
        if toks[i][0] == 'id' and toks[i][1] == 'pub':
            i += 1
            if i < b and is_p(toks[i], '('):
                i = rslex.match_delim(toks, i)
        if named:
            name = toks[i][1]
            i += 2
        else:
            name = str(idx)
        j = i
        depth = 0
        while j < b:
            x = toks[j]
            if x[0] == 'p':
                if x[1] in ('(', '[', '{', '<'):
                    depth += 1
                elif x[1] in (')', ']', '}', '>'):
                    depth -= 1
                elif x[1] == ',' and depth == 0:
                    break
            j += 1
        out.append((name, render(toks, i, j), attrs))
        idx += 1
        i = j + 1
    return out


def split_stmts(toks, a, b):
    """token ranges of the `;`-separated statements of a block body [a,b) (braces excluded); statement
    attributes (`#[cfg(..)]`) are returned separately: [(attrs, s, e)]."""
    out = []
    i = a
    while i < b:
        attrs = []
        while i < b and is_p(toks[i], '#') and i + 1 < b and is_p(toks[i + 1], '['):
            k = rslex.match_delim(toks, i + 1)
            attrs.append(' '.join(t[1] for t in toks[i + 2:k - 1]))
            i = k
        s = i
        while i < b:
            t = toks[i]
            if t[0] == 'p':
                if t[1] in _OPEN:
                    k = rslex.match_delim(toks, i)
                    if t[1] == '{' and (k >= b or not (toks[k][0] == 'p' and toks[k][1] in ('.', '?', ';'))):
                        # block-like statement (for / if / loop ...) ends at its closing brace unless chained
                        if k < b and toks[k][0] == 'id' and toks[k][1] == 'else':
                            i = k
                            continue
                        i = k
                        break
                    i = k
                    continue
                if t[1] == ';':
                    break
            i += 1
        e = i
        if e > s:
            out.append((attrs, s, e))
        if i < b and is_p(toks[i], ';'):
            i += 1
    return out


# ---------------------------------------------------------------------------------------------
# per-file structure: non-test fns with qualified names
# ---------------------------------------------------------------------------------------------

class FnInfo(object):
    __slots__ = ('name', 'item', 'body', 'toks', 'file', 'slice_params', 'short', 'ret_bool')


class FileScan(object):
    """walks the item tree of one file; collects fns (with qualified names), structs, impls and the token
    ranges that contain executable code."""

    def __init__(self, sf):
        self.sf = sf
        self.toks = sf.toks
        n = len(sf.toks)
        self.owner = [None] * n        # token index -> qualified fn name (innermost)
        self.code = bytearray(n)       # 1 = token belongs to executable non-test code
        self.fns = []
        self.structs = []              # (item, prefix)
        self.impls = []                # (item, prefix)
        self.macros = []               # macro items
        self.test_mod_decls = []       # names of `#[cfg(test)] mod x;`
        self.attr = bytearray(n)       # 1 = token belongs to an attribute `#[..]` / `#![..]`
        toks = sf.toks
        i = 0
        while i < n:
            if is_p(toks[i], '#'):
                j = i + 1
                if j < n and is_p(toks[j], '!'):
                    j += 1
                if j < n and is_p(toks[j], '['):
                    k = rslex.match_delim(toks, j)
                    for q in range(i, k):
                        self.attr[q] = 1
                    i = k
                    continue
            i += 1
        self.visit(sf.items, '', False)

    def mark(self, a, b, name):
        ow = self.owner
        cd = self.code
        for i in range(a, b):
            ow[i] = name
            cd[i] = 1

    def add_fn(self, it, qn):
        if it.body is None:
            return
        a, b = it.body
        self.mark(a, b, qn)
        fi = FnInfo()
        fi.name = qn
        fi.short = it.name
        fi.item = it
        fi.body = (a, b)
        fi.toks = it.toks
        fi.file = self.sf.relname
        fi.slice_params = slice_params(it)
        fi.ret_bool = (it.sig_ret is not None
                       and [t[1] for t in it.toks[it.sig_ret[0]:it.sig_ret[1]]] == ['bool'])
        self.fns.append(fi)
        try:
            nested = rslex.nested_items(it)
        except rslex.ScanError:
            nested = []
        if nested:
            self.visit(nested, qn, False)

    def visit(self, items, prefix, in_test):
        toks = self.toks
        for it in items:
            if in_test or is_test_item(it):
                if it.kind == 'mod' and not it.children:
                    self.test_mod_decls.append(it.name)
                for i in range(it.start, it.end):
                    self.code[i] = 0
                    self.owner[i] = None
                continue
            pre = (prefix + '::') if prefix else ''
            if it.kind == 'fn':
                self.add_fn(it, pre + it.name)
            elif it.kind == 'impl':
                if it.trait:
                    tr = it.trait + ('<%s>' % it.trait_arg if it.trait_arg else '')
                    lab = '<%s%s as %s>' % ('&' if it.self_ref else '', it.self_ty, tr)
                else:
                    lab = str(it.self_ty)
                self.impls.append((it, prefix))
                self.visit(it.children, pre + lab, False)
            elif it.kind == 'mod':
                self.visit(it.children, pre + it.name, False)
            elif it.kind == 'trait':
                b = rslex._find_at_depth0(toks, it.start, it.end, ('{', ';'))
                if b < it.end and is_p(toks[b], '{'):
                    k = rslex.match_delim(toks, b)
                    try:
                        ch = rslex.scan_items(toks, b + 1, k - 1, self.sf.relname, None, False)
                    except rslex.ScanError:
                        ch = []
                        self.mark(b, k, pre + it.name)
                    self.visit(ch, pre + it.name, False)
            elif it.kind in ('const', 'static'):
                if it.init_rng is not None:
                    self.mark(it.init_rng[0], it.init_rng[1], pre + it.kind + ' ' + it.name)
            elif it.kind == 'struct':
                self.structs.append((it, prefix))
            elif it.kind == 'macro':
                self.macros.append((it, prefix))
                nm = pre + it.name
                # body of the invocation / definition
                j = it.start
                while j < it.end and not is_p(toks[j], '!'):      # skip the item's attributes and the macro path
                    if is_p(toks[j], '#') and j + 1 < it.end and is_p(toks[j + 1], '['):
                        j = rslex.match_delim(toks, j + 1)
                        continue
                    j += 1
                while j < it.end and not (toks[j][0] == 'p' and toks[j][1] in _OPEN):
                    j += 1
                if j < it.end:
                    k = rslex.match_delim(toks, j)
                    self.mark(j, k, nm)
                    q = j
                    while q < k - 1:
                        if toks[q][0] == 'id' and toks[q][1] == 'fn' and toks[q + 1][0] == 'id':
                            b = rslex._find_at_depth0(toks, q + 2, k - 1, ('{', ';'))
                            if b < k - 1 and is_p(toks[b], '{'):
                                e = rslex.match_delim(toks, b)
                                self.mark(b, e, nm + '::' + toks[q + 1][1])
                                fi = FnInfo()
                                fi.name = nm + '::' + toks[q + 1][1]
                                fi.short = toks[q + 1][1]
                                fi.item = None
                                fi.body = (b, e)
                                fi.toks = toks
                                fi.file = self.sf.relname
                                fi.slice_params = set()
                                hdr = [t[1] for t in toks[q:b]]
                                fi.ret_bool = hdr[-2:] == ['->', 'bool']
                                self.fns.append(fi)
                        q += 1


def slice_params(it):
    """names of the parameters of fn item `it` whose declared type is a slice reference `&[T]` / `&mut [T]`."""
    out = set()
    if it.sig_params is None:
        return out
    toks = it.toks
    a, b = it.sig_params
    i = a
    while i < b:
        e = rslex._find_at_depth0(toks, i, b, (',',))
        # also stop at ',' inside <> is not handled by _find_at_depth0; parameters with generics containing
        # commas are split wrongly but never look like `name : & [ T ]`
        seg = toks[i:e]
        j = 0
        if j < len(seg) and seg[j][0] == 'id' and seg[j][1] == 'mut':
            j += 1
        if j + 2 < len(seg) and seg[j][0] == 'id' and is_p(seg[j + 1], ':') and is_p(seg[j + 2], '&'):
            q = j + 3
            while q < len(seg) and (seg[q][0] == 'lt' or (seg[q][0] == 'id' and seg[q][1] == 'mut')):
                q += 1
            if q < len(seg) and is_p(seg[q], '['):
                k = rslex.match_delim(seg, q)
                inner = seg[q + 1:k - 1]
                if not any(is_p(t, ';') for t in inner):
                    out.add(seg[j][1])
        i = e + 1
    return out


# ---------------------------------------------------------------------------------------------
# panic sites
# ---------------------------------------------------------------------------------------------

def encode_key(file, func, kind, text):
    data = b'\x01' + '\x00'.join((file, func, kind, text)).encode('utf-8')
    return int.from_bytes(data, 'big')


def literal_index(toks, a, b):
    if a >= b:
        return True
    for i in range(a, b):
        t = toks[i]
        if t[0] == 'int':
            continue
        if t[0] == 'p' and t[1] in ('..', '..='):
            continue
        return False
    return True


def panic_sites_of_file(fs):
    toks = fs.toks
    n = len(toks)
    code = fs.code
    owner = fs.owner
    rel = fs.sf.relname
    fn_slices = {}
    for fi in fs.fns:
        fn_slices[fi.name] = fi.slice_params
    # attribute tokens are never code
    attr = bytearray(n)
    i = 0
    while i < n:
        if is_p(toks[i], '#'):
            j = i + 1
            if j < n and is_p(toks[j], '!'):
                j += 1
            if j < n and is_p(toks[j], '['):
                k = rslex.match_delim(toks, j)
                for q in range(i, k):
                    attr[q] = 1
                i = k
                continue
        i += 1
    sites = []

    def lo_of(i):
        # lower bound for backward scans: start of the owner's region
        j = i
        ow = owner[i]
        lim = max(0, i - 400)
        while j > lim and owner[j - 1] == ow and code[j - 1]:
            j -= 1
        return j

    def add(i, kind, text):
        sites.append({'file': rel, 'line': toks[i][2], 'func': owner[i] or '<top>', 'kind': kind, 'text': text})

    for i in range(n):
        if not code[i] or attr[i]:
            continue
        t = toks[i]
        k0, x = t[0], t[1]
        if k0 == 'id':
            nxt = toks[i + 1] if i + 1 < n else None
            if x in PANIC_MACROS and nxt is not None and is_p(nxt, '!') and i + 2 < n \
                    and toks[i + 2][0] == 'p' and toks[i + 2][1] in _OPEN:
                k = rslex.match_delim(toks, i + 2)
                add(i, x + '!', clip_head(render(toks, i, k)))
            elif i > 0 and is_p(toks[i - 1], '.') and nxt is not None and is_p(nxt, '('):
                if x in UNWRAPS:
                    k = rslex.match_delim(toks, i + 1)
                    s = expr_start(toks, i - 2, lo_of(i))
                    add(i, x, clip_tail(render(toks, s, k)))
                elif x in PANICKING_METHODS:
                    k = rslex.match_delim(toks, i + 1)
                    s = expr_start(toks, i - 2, lo_of(i))
                    add(i, 'call:' + x, clip_tail(render(toks, s, k)))
        elif k0 == 'p':
            if x == '[' and i > 0:
                p = toks[i - 1]
                ends = (p[0] == 'id' and p[1] not in KEYWORDS) or (p[0] == 'int' and i > 1 and is_p(toks[i - 2], '.')) \
                    or (p[0] == 'p' and p[1] in (')', ']', '?'))
                if ends and is_p(p, ')'):
                    # `pub(crate) [T; N]` (a field type inside a macro body) is a visibility, not a receiver
                    m = match_back(toks, i - 1, max(0, i - 8))
                    if m is not None and m > 0 and toks[m - 1][0] == 'id' and toks[m - 1][1] == 'pub':
                        ends = False
                if ends:
                    k = rslex.match_delim(toks, i)
                    s = postfix_start(toks, i - 1, lo_of(i))
                    lit = literal_index(toks, i + 1, k - 1)
                    is_range = any(is_p(toks[q], '..') or is_p(toks[q], '..=')
                                   for q in range(i + 1, k - 1))
                    if not lit:
                        add(i, 'slice' if is_range else 'index', clip_tail(render(toks, s, k)))
                    elif k - 1 > i + 1 and not (k - 1 == i + 2 and is_range):
                        # literal index / range: only a panic site when the receiver is a slice of unknown length
                        if s == i - 1 and toks[s][0] == 'id' and toks[s][1] in fn_slices.get(owner[i], ()):
                            add(i, 'index_lit_slice', clip_tail(render(toks, s, k)))
            elif x in ('/', '%', '/=', '%=') and i + 1 < n:
                nx = toks[i + 1]
                if nx[0] != 'int' and i > 0:
                    p = toks[i - 1]
                    ends = (p[0] in ('id', 'int') and p[1] not in KEYWORDS) or (p[0] == 'p' and p[1] in (')', ']', '?'))
                    if ends:
                        s = expr_start(toks, i - 1, lo_of(i))
                        e = expr_end(toks, i + 1, n)
                        add(i, 'div' if x in ('/', '/=') else 'rem', clip_head(render(toks, s, e)))
    return sites


# ---------------------------------------------------------------------------------------------
# drop / zeroize facts
# ---------------------------------------------------------------------------------------------

def fn_child(imp, name):
    for ch in imp.children:
        if ch.kind == 'fn' and ch.name == name and ch.body is not None:
            return ch
    return None


def body_stmts(it):
    a, b = it.body
    return [(attrs, render(it.toks, s, e)) for attrs, s, e in split_stmts(it.toks, a + 1, b - 1)]


_SELF_FIELD_ZEROIZE = re.compile(r'^self\.([A-Za-z_0-9]+)\.zeroize\(\)$')
_ZOP_PATTERNS = [
    (re.compile(r'^self\.(\w+)\.zeroize\(\)$'), lambda m: ('zeroizeField', m.group(1))),
    (re.compile(r'^\(self\.(\w+)\)\.(\w+)\.zeroize\(\)$'), lambda m: ('zeroizeField', m.group(1) + '.' + m.group(2))),
    (re.compile(r'^self\.(\w+)\.iter_mut\(\)\.zeroize\(\)$'), lambda m: ('zeroizeElems', m.group(1))),
    (re.compile(r'^self\.(\w+)\[(\d+)\] = (\d+)$'), lambda m: ('setByte', m.group(1), int(m.group(2)), int(m.group(3)))),
    (re.compile(r'^self\.(\w+) = (.+)$'), lambda m: ('assignConst', m.group(1), m.group(2))),
    (re.compile(r'^\*self = (.+)$'), lambda m: ('assignSelf', m.group(1))),
]


def zops(body):
    """structured form of the normalised statements of a `fn zeroize` body."""
    out = []
    for st in body:
        for rx, f in _ZOP_PATTERNS:
            m = rx.match(st)
            if m:
                out.append(f(m))
                break
        else:
            out.append(('other', st))
    return out


def drop_and_zeroize_facts(scans):
    structs = []           # (name, rel, item)
    drops = {}             # (rel, ty) -> (gate, zeroized, stmts)
    markers = set()        # (rel, ty) with impl ZeroizeOnDrop for T {}
    zfacts = []
    for fs in scans:
        rel = fs.sf.relname
        for it, prefix in fs.structs:
            structs.append((it.name, rel, it))
        for imp, prefix in fs.impls:
            if imp.trait == 'Drop':
                f = fn_child(imp, 'drop')
                stmts = body_stmts(f) if f is not None else []
                zs = []
                for _, s in stmts:
                    m = _SELF_FIELD_ZEROIZE.match(s)
                    if m:
                        zs.append(m.group(1))
                    elif s == 'self.zeroize()':
                        zs.append('*')
                drops[(rel, imp.self_ty)] = (cfg_gate(imp.attrs), zs, [s for _, s in stmts])
            elif imp.trait == 'ZeroizeOnDrop':
                markers.add((rel, imp.self_ty))
            elif imp.trait == 'Zeroize':
                f = fn_child(imp, 'zeroize')
                if f is not None:
                    zfacts.append({'ty': imp.self_ty, 'file': rel, 'gate': cfg_gate(imp.attrs), 'derived': False,
                                   'body': [s for _, s in body_stmts(f)]})
        # impls inside macro definitions (window.rs: `impl<T> Zeroize for $name<T>`), instantiated per invocation
        macro_defs = {}
        for it, prefix in fs.macros:
            toks = it.toks
            if it.name.startswith('macro_rules!'):
                mname = it.name.split('!', 1)[1]
                found = []
                for q in range(it.start, it.end - 2):
                    if toks[q][0] == 'id' and toks[q][1] == 'Zeroize' and toks[q + 1][0] == 'id' \
                            and toks[q + 1][1] == 'for' and is_p(toks[q + 2], '$'):
                        # find the enclosing `impl` and its attributes
                        s = q
                        while s > it.start and not (toks[s][0] == 'id' and toks[s][1] == 'impl'):
                            s -= 1
                        gate = ''
                        if s >= 2 and is_p(toks[s - 1], ']'):
                            m = match_back(toks, s - 1, it.start)
                            if m is not None:
                                gate = cfg_gate([' '.join(t[1] for t in toks[m + 1:s - 1])])
                        b = rslex._find_at_depth0(toks, q, it.end, ('{',))
                        if b < it.end:
                            e = rslex.match_delim(toks, b)
                            try:
                                ch = rslex.scan_items(toks, b + 1, e - 1, rel, None, False)
                            except rslex.ScanError:
                                ch = []
                            for c in ch:
                                if c.kind == 'fn' and c.name == 'zeroize' and c.body is not None:
                                    found.append((toks[q + 3][1], gate, [x for _, x in body_stmts(c)]))
                if found:
                    macro_defs[mname] = found
        if macro_defs:
            # invocations anywhere in the file (also inside cfg_if!): `mname ! { Name = X , ...`
            toks = fs.toks
            for q in range(len(toks) - 5):
                if toks[q][0] == 'id' and toks[q][1] in macro_defs and is_p(toks[q + 1], '!') \
                        and toks[q + 2][0] == 'p' and toks[q + 2][1] in _OPEN and fs.code[q + 2]:
                    k = rslex.match_delim(toks, q + 2)
                    args = {}
                    j = q + 3
                    while j + 2 < k:
                        if toks[j][0] == 'id' and is_p(toks[j + 1], '='):
                            args[toks[j][1]] = toks[j + 2][1]
                        j += 1
                    for var, gate, body in macro_defs[toks[q][1]]:
                        # the macro parameter `$name` is bound by the `Name = ..` argument (capitalised)
                        inst = args.get(var.capitalize()) or args.get(var)
                        if inst:
                            zfacts.append({'ty': inst, 'file': rel, 'gate': gate, 'derived': False,
                                           'body': body, 'macro': toks[q][1]})
    dfacts = []
    for name, rel, it in structs:
        fields = struct_fields_attrs(it)
        fnames = [f[0] for f in fields]
        ftypes = [f[1] for f in fields]
        ds = derives(it.attrs)
        nonskip = [f[0] for f in fields if not any(a.replace(' ', '') == 'zeroize(skip)' for a in f[2])]
        for nm, gate in ds:
            if nm == 'Zeroize':
                zfacts.append({'ty': name, 'file': rel, 'gate': gate, 'derived': True,
                               'body': ['self.%s.zeroize()' % f for f in nonskip]})
        zod = [g for nm, g in ds if nm == 'ZeroizeOnDrop']
        if (rel, name) in drops:
            gate, zs, stmts = drops[(rel, name)]
            if '*' in zs:
                zs = [z for z in zs if z != '*'] + [f for f in fnames if f not in zs]
            d = {'ty': name, 'file': rel, 'mechanism': 'impl Drop', 'gate': gate, 'zeroized': zs,
                 'fields': fnames, 'fieldTypes': ftypes, 'marker': (rel, name) in markers, 'body': stmts}
        elif zod:
            d = {'ty': name, 'file': rel, 'mechanism': 'derive(ZeroizeOnDrop)', 'gate': zod[0], 'zeroized': nonskip,
                 'fields': fnames, 'fieldTypes': ftypes, 'marker': True, 'body': []}
        else:
            d = {'ty': name, 'file': rel, 'mechanism': 'none', 'gate': '', 'zeroized': [],
                 'fields': fnames, 'fieldTypes': ftypes, 'marker': (rel, name) in markers, 'body': []}
        dfacts.append(d)
    dfacts.sort(key=lambda d: (d['file'], d['ty']))
    zfacts.sort(key=lambda d: (d['file'], d['ty']))
    for z in zfacts:
        z['ops'] = zops(z['body'])
    return dfacts, zfacts


# ---------------------------------------------------------------------------------------------
# heap wiping facts
# ---------------------------------------------------------------------------------------------

def wipe_fact(fi):
    """Vec locals of a function and which of them are wiped (top-level statements of the fn body only)."""
    toks = fi.toks
    a, b = fi.body
    stmts = split_stmts(toks, a + 1, b - 1)
    vec_locals = []
    wiped = []
    mechs = []
    gates = []
    explicit_at = {}      # name -> token index just past the wiping statement
    for attrs, s, e in stmts:
        txt = [t[1] for t in toks[s:e]]
        gate = cfg_gate(attrs)
        if txt and txt[0] == 'let':
            j = s + 1
            if toks[j][0] == 'id' and toks[j][1] == 'mut':
                j += 1
            if toks[j][0] != 'id':
                continue
            name = toks[j][1]
            eq = rslex._find_at_depth0(toks, j, e, ('=',))
            ty = [t[1] for t in toks[j + 1:eq]]
            init = [t[1] for t in toks[eq + 1:e]]
            init_s = ' '.join(init)
            is_vec = 'Vec' in ty or init[:2] == ['vec', '!'] or init[:3] == ['Vec', '::', 'with_capacity'] \
                or init[:3] == ['Vec', '::', 'new'] or re.search(r'collect :: < (Option < |Result < )?Vec\b', init_s) is not None
            wraps = init[:3] == ['Zeroizing', '::', 'new'] or 'Zeroizing' in ty
            if wraps:
                # `let x = Zeroizing::new(y)` : the Vec `y` now lives inside a wrapper that wipes on drop
                inner = [t for t in toks[eq + 1:e] if t[0] == 'id' and t[1] in vec_locals]
                tgt = inner[0][1] if inner else name
                if tgt not in vec_locals and ('Vec' in ty or is_vec or 'collect' in init):
                    vec_locals.append(tgt)
                if tgt in vec_locals and tgt not in wiped:
                    wiped.append(tgt)
                    mechs.append('Zeroizing::new')
                    gates.append(gate)
                continue
            if is_vec and name not in vec_locals:
                vec_locals.append(name)
            continue
        st = render(toks, s, e)
        m = re.match(r'^(?:zeroize::)?Zeroize::zeroize\(&mut ([A-Za-z_0-9]+)\)$', st) or \
            re.match(r'^([A-Za-z_0-9]+)\.zeroize\(\)$', st)
        if m and m.group(1) in vec_locals and m.group(1) not in wiped:
            wiped.append(m.group(1))
            mechs.append('Zeroize::zeroize(&mut _)')
            gates.append(gate)
            explicit_at[m.group(1)] = (s, e)
    # soundness side conditions of an explicit wipe: nothing uses the buffer afterwards, no early exit before
    uses_after = 0
    exits_before = 0
    for name, (s, e) in sorted(explicit_at.items()):
        for q in range(e, b - 1):
            if toks[q][0] == 'id' and toks[q][1] == name:
                uses_after += 1
        for q in range(a + 1, s):
            if (toks[q][0] == 'id' and toks[q][1] == 'return') or is_p(toks[q], '?'):
                exits_before += 1
    return {'func': fi.name, 'file': fi.file, 'vecLocals': vec_locals, 'wiped': wiped,
            'mechanism': '; '.join(sorted(set(mechs))), 'gate': ' && '.join(sorted(set(g for g in gates if g))),
            'usesAfterWipe': uses_after, 'exitsBeforeWipe': exits_before}


def heap_locals(fs, fi):
    """names of the locals of `fi` (at any nesting depth, closures included, nested fn items excluded) whose
    `let` statement contains a heap-allocation marker (`Vec`/`Box`/`String`/.. type or constructor, `vec![]`,
    `format!`, `.collect()`, `.to_vec()`, `.to_owned()`, ..); allocation expressions that are not bound by a `let`
    are reported as `<expr> text`."""
    toks = fi.toks
    a, b = fi.body
    owner = fs.owner
    mine = [i for i in range(a + 1, b - 1) if owner[i] == fi.name]
    lets = []
    for i in mine:
        t = toks[i]
        if t[0] == 'id' and t[1] == 'let':
            if i > 0 and toks[i - 1][0] == 'id' and toks[i - 1][1] in ('if', 'while'):
                continue
            j = i + 1
            if toks[j][0] == 'id' and toks[j][1] == 'mut':
                j += 1
            e = rslex._find_at_depth0(toks, i, b - 1, (';',))
            if toks[j][0] == 'id' and toks[j][1] not in KEYWORDS:
                name = toks[j][1]
            else:
                q = rslex._find_at_depth0(toks, j, e, (':', '='))
                name = render(toks, j, q)
            lets.append((i, e, name))
    out = []
    for i in mine:
        t = toks[i]
        if t[0] != 'id':
            continue
        x = t[1]
        nxt = toks[i + 1] if i + 1 < b else None
        hit = False
        if x in HEAP_TYPES:
            hit = True
        elif x in HEAP_MACROS and nxt is not None and is_p(nxt, '!'):
            hit = True
        elif x in HEAP_METHODS and i > 0 and is_p(toks[i - 1], '.') and nxt is not None \
                and (is_p(nxt, '(') or is_p(nxt, '::')):
            hit = True
        if not hit:
            continue
        best = None
        for (ls, le, name) in lets:
            if ls <= i < le and (best is None or ls > best[0]):
                best = (ls, le, name)
        if best is not None:
            nm = best[2]
        else:
            s0 = expr_start(toks, i, a + 1)
            e0 = expr_end(toks, i, b - 1)
            nm = '<expr> ' + clip_head(render(toks, s0, e0))
        if nm not in out:
            out.append(nm)
    return out


def wipe_facts(scans):
    """one WipeFact for every non-test fn (macro-body fns included) of the three crates that has at least one
    heap-allocating local / expression."""
    out = []
    for fs in scans:
        for fi in fs.fns:
            hl = heap_locals(fs, fi)
            if not hl:
                continue
            w = wipe_fact(fi)
            for v in w['vecLocals']:
                if v not in hl:
                    hl.append(v)
            w['vecLocals'] = hl
            out.append(w)
    out.sort(key=lambda w: (w['file'], w['func']))
    return out


def scanned_fns(scans):
    """[(file, [qualified names of the non-test fns with a body])] : what the WipeFact inventory looked at."""
    out = []
    for fs in scans:
        names = []
        for fi in fs.fns:
            if fi.name not in names:
                names.append(fi.name)
        if names:
            out.append((fs.sf.relname, names))
    return out


# ---------------------------------------------------------------------------------------------
# branch sites (property C10: no secret-dependent control flow)
# ---------------------------------------------------------------------------------------------

CD = 'curve25519-dalek/src/'
# Scope of the branch-site inventory.  Per file: None = every non-test fn of the file; otherwise a regex, and
# the fns whose qualified name matches it (`re.search`) are EXCLUDED, everything else is scanned -- so a new fn in
# one of these files is in scope by default.  The excluded fns are emitted (`branchExcludedFns`) and pinned by a
# Lean theorem against a hand-reviewed list.
_VT = (r'Vartime|vartime|optional_|Debug>::fmt|::fmt$|Serialize|Deserialize|Visitor|::expecting$|::visit_|'
       r'non_adjacent_form|NafLookupTable|to_radix_2w_size_hint|Pippenger|Precomput')
BRANCH_SCOPE = {
    CD + 'field.rs': _VT,
    CD + 'backend/serial/u64/field.rs': _VT,
    CD + 'backend/serial/u32/field.rs': _VT,
    CD + 'backend/serial/u64/scalar.rs': _VT,
    CD + 'backend/serial/u32/scalar.rs': _VT,
    CD + 'backend/serial/fiat_u64/field.rs': _VT,
    CD + 'backend/serial/fiat_u32/field.rs': _VT,
    CD + 'backend/serial/curve_models/mod.rs': _VT,
    CD + 'backend/vector/avx2/field.rs': _VT,
    CD + 'backend/vector/avx2/edwards.rs': _VT,
    CD + 'backend/vector/ifma/field.rs': _VT,
    CD + 'backend/vector/ifma/edwards.rs': _VT,
    CD + 'backend/vector/packed_simd.rs': _VT,
    CD + 'backend/mod.rs': _VT + r'|get_selected_backend',
    CD + 'backend/serial/scalar_mul/variable_base.rs': _VT,
    CD + 'backend/serial/scalar_mul/straus.rs': _VT,
    CD + 'backend/vector/scalar_mul/variable_base.rs': _VT,
    CD + 'backend/vector/scalar_mul/straus.rs': _VT,
    CD + 'window.rs': _VT,
    CD + 'montgomery.rs': _VT,
    CD + 'ristretto.rs': _VT,
    CD + 'edwards.rs': _VT,
    CD + 'scalar.rs': _VT,
    CD + 'traits.rs': _VT,
    'ed25519-dalek/src/signing.rs': _VT + r'|::verify|Verifier',
    'ed25519-dalek/src/hazmat.rs': _VT + r'|raw_verify',
    'x25519-dalek/src/x25519.rs': _VT,
}
_INT_TYS = {'as', 'usize', 'u8', 'u16', 'u32', 'u64', 'u128', 'i8', 'i16', 'i32', 'i64', 'isize'}
_DATA_DEP_ITER = {'skip_while', 'take_while', 'map_while', 'filter', 'filter_map', 'find', 'find_map', 'position', 'rposition',
                  'any', 'all', 'contains', 'starts_with', 'ends_with', 'binary_search', 'binary_search_by', 'sort', 'sort_by',
                  'sort_unstable', 'sort_by_key', 'dedup', 'retain', 'max', 'min', 'max_by', 'min_by', 'max_by_key', 'min_by_key',
                  'trim_start_matches', 'trim_end_matches', 'is_sorted'}
_ITER_METHODS = {'rev', 'iter', 'iter_mut', 'into_iter', 'zip', 'enumerate', 'len', 'step_by', 'chunks',
                 'chunks_exact', 'skip', 'take', 'by_ref'}


def _expr_ends(p):
    return (p[0] in ('id', 'int', 'str', 'chr', 'flt') and p[1] not in KEYWORDS) or \
           (p[0] == 'p' and p[1] in (')', ']', '?'))


def _public_iter(toks, a, b):
    """the iterator expression [a,b) of a `for` is a literal range or walks slices / arrays (`x.iter()`, `.len()`)."""
    for i in range(a, b):
        t = toks[i]
        if t[0] == 'int':
            continue
        if t[0] == 'p':
            if t[1] in ('..', '..=', '(', ')', '.', '&', ','):
                continue
            return False
        if t[0] == 'id':
            if t[1] in ('self', 'mut'):
                continue
            if t[1] in _ITER_METHODS and i > a and is_p(toks[i - 1], '.'):
                continue
            if i + 1 < b and is_p(toks[i + 1], '.'):
                continue
            return False
        return False
    return True


def branch_sites_of_fn(fs, fi):
    toks = fi.toks
    a, b = fi.body
    owner = fs.owner
    attr = fs.attr
    rel = fs.sf.relname
    mine = [i for i in range(a + 1, b - 1) if owner[i] == fi.name and not attr[i]]
    # loop variables of all `for` loops, `let .. : bool` statements
    loopvars = set()
    bool_lets = []
    for i in mine:
        t = toks[i]
        if t[0] == 'id' and t[1] == 'for':
            j = i + 1
            while j < b and not (toks[j][0] == 'id' and toks[j][1] == 'in'):
                if toks[j][0] == 'id' and toks[j][1] not in KEYWORDS:
                    loopvars.add(toks[j][1])
                j += 1
        elif t[0] == 'id' and t[1] == 'let' and not (toks[i - 1][0] == 'id' and toks[i - 1][1] in ('if', 'while')):
            e = rslex._find_at_depth0(toks, i, b - 1, (';',))
            eq = rslex._find_at_depth0(toks, i, e, ('=',))
            c = rslex._find_at_depth0(toks, i, eq, (':',))
            if c < eq and [x[1] for x in toks[c + 1:eq]] == ['bool']:
                bool_lets.append((i, e))
    sites = []

    def add(i, kind, text):
        sites.append({'file': rel, 'line': toks[i][2], 'func': fi.name, 'kind': kind, 'text': text})

    def brace(i):
        return rslex._find_at_depth0(toks, i, b - 1, ('{',))

    for i in mine:
        t = toks[i]
        k0, x = t[0], t[1]
        nxt = toks[i + 1] if i + 1 < b else ('p', '', 0, None)
        prv = toks[i - 1]
        if k0 == 'id':
            if x in ('if', 'while'):
                e = brace(i + 1)
                if nxt[0] == 'id' and nxt[1] == 'let':
                    add(i, x + ' let', clip_head(render(toks, i + 2, e)))
                else:
                    add(i, x, clip_head(render(toks, i + 1, e)))
            elif x == 'match':
                add(i, 'match', clip_head(render(toks, i + 1, brace(i + 1))))
            elif x == 'for':
                j = i + 1
                while j < b and not (toks[j][0] == 'id' and toks[j][1] == 'in'):
                    j += 1
                e = brace(j + 1)
                if not _public_iter(toks, j + 1, e):
                    add(i, 'for', clip_head(render(toks, i + 1, e)))
            elif x in ('return', 'break', 'continue'):
                add(i, x, clip_head(render(toks, i, expr_end(toks, i, b - 1))))
            elif x == 'bool' and is_p(nxt, '::') and toks[i + 2][1] == 'from' and is_p(toks[i + 3], '('):
                add(i, 'bool::from', clip_head(render(toks, i, rslex.match_delim(toks, i + 3))))
            elif is_p(prv, '.') and is_p(nxt, '('):
                if x == 'into' and is_p(toks[i + 2], ')'):
                    s0 = expr_start(toks, i - 2, a + 1)
                    txt = clip_tail(render(toks, s0, i + 3))
                    if i >= 5 and toks[i - 4][1] in ('is_some', 'is_none') and is_p(toks[i - 5], '.'):
                        add(i, 'is_some_into', txt)
                    elif fi.ret_bool or any(ls <= i < le for ls, le in bool_lets):
                        add(i, 'into_bool', txt)
                elif x == 'unwrap_u8':
                    add(i, 'unwrap_u8', clip_tail(render(toks, expr_start(toks, i - 2, a + 1), i + 3)))
                elif x in UNWRAPS:
                    kk = rslex.match_delim(toks, i + 1)
                    add(i, x, clip_tail(render(toks, expr_start(toks, i - 2, a + 1), kk)))
                elif x in _DATA_DEP_ITER:
                    # iterator adaptors / consumers whose control flow depends on the ELEMENTS (closure predicate,
                    # short-circuit comparison, search): as much a branch as an `if`
                    kk = rslex.match_delim(toks, i + 1)
                    add(i, 'iter:' + x, clip_tail(render(toks, expr_start(toks, i - 2, a + 1), kk)))
            elif x in PANIC_MACROS and is_p(nxt, '!') and toks[i + 2][0] == 'p' and toks[i + 2][1] in _OPEN:
                add(i, x + '!', clip_head(render(toks, i, rslex.match_delim(toks, i + 2))))
        elif k0 == 'p':
            if x in ('&&', '||') and _expr_ends(prv):
                s0 = expr_start(toks, i - 1, a + 1)
                add(i, x, clip_head(render(toks, s0, expr_end(toks, i + 1, b - 1))))
            elif x == '?' and _expr_ends(prv):
                add(i, '?', clip_tail(render(toks, expr_start(toks, i - 1, a + 1), i + 1)))
            elif x == '[' and (_expr_ends(prv) or (prv[0] == 'int' and is_p(toks[i - 2], '.'))):
                if is_p(prv, ')'):
                    m = match_back(toks, i - 1, max(0, i - 8))
                    if m is not None and m > 0 and toks[m - 1][0] == 'id' and toks[m - 1][1] == 'pub':
                        continue
                kk = rslex.match_delim(toks, i)
                ids = [q[1] for q in toks[i + 1:kk - 1] if q[0] == 'id' and q[1] not in _INT_TYS]
                macro_param = any(is_p(q, '$') for q in toks[i + 1:kk - 1])
                if (ids and not all(v in loopvars for v in ids)) or (macro_param and not ids):
                    s0 = postfix_start(toks, i - 1, a + 1)
                    add(i, 'index', clip_tail(render(toks, s0, kk)))
    return sites


def branch_inventory(scans):
    """(sites, scanned [(file, [fn])], excluded [(file, [fn])]) for the files of BRANCH_SCOPE."""
    sites = []
    scanned = []
    excluded = []
    missing = []
    seen_files = set()
    for fs in scans:
        rel = fs.sf.relname
        if rel not in BRANCH_SCOPE:
            continue
        seen_files.add(rel)
        rx = BRANCH_SCOPE[rel]
        sc, ex = [], []
        for fi in fs.fns:
            if rx is not None and re.search(rx, fi.name):
                if fi.name not in ex:
                    ex.append(fi.name)
                continue
            if fi.name not in sc:
                sc.append(fi.name)
            sites.extend(branch_sites_of_fn(fs, fi))
        scanned.append((rel, sc))
        if ex:
            excluded.append((rel, ex))
    for rel in sorted(BRANCH_SCOPE):
        if rel not in seen_files:
            missing.append('%s: file in the branch-site scope was not found / not scanned' % rel)
    occ = {}
    for s in sites:
        k = (s['file'], s['func'], s['kind'], s['text'])
        s['occ'] = occ.get(k, 0)
        occ[k] = s['occ'] + 1
        s['key'] = encode_key(*k)
    return sites, scanned, excluded, missing


def emit_branch_lean(header, binv):
    sites, scanned, excluded, missing = binv
    o = [header,
         '/-! Branch-site inventory (property C10): every control-flow construct and every data-to-control conversion\n'
         'in the functions of the constant-time scope.  See `/verif/tools/rs2lean/inventory.py` (`BRANCH_SCOPE`). -/\n',
         'namespace Dalek.Gen.BranchInventory\n',
         '/-- A syntactic control-flow / declassification site.  `kind`: `if`, `if let`, `while`, `while let`, `match`,\n'
         '`for` (only when the iterator is not a literal range / slice walk), `return`, `break`, `continue`, `?`, `&&`, `||`,\n'
         '`bool::from`, `into_bool`, `is_some_into`, `unwrap_u8`, `unwrap`, `expect`, `assert!`, `debug_assert!`, ..., `index`\n'
         '(index that mentions something other than literals and `for`-loop variables).  `text`: the condition /\n'
         'scrutinee / expression.  `key`: injective numeric encoding of `(file, func, kind, text)` as for panic sites;\n'
         '`occ` numbers equal keys in source order. -/',
         'structure BranchSite where\n  file : String\n  line : Nat\n  func : String\n  kind : String\n'
         '  text : String\n  occ : Nat\n  key : Nat\n']
    chunk = 100
    names = []
    for c in range(0, len(sites), chunk):
        nm = 'branchSites%d' % (c // chunk)
        names.append(nm)
        o.append('def %s : List BranchSite := [' % nm)
        o.append(',\n'.join(
            '  ⟨%s, %d, %s, %s,\n   %s, %d, 0x%x⟩'
            % (lstr(s['file']), s['line'], lstr(s['func']), lstr(s['kind']), lstr(s['text']), s['occ'], s['key'])
            for s in sites[c:c + chunk]) + ']\n')
    o.append('/-- every branch site of the constant-time scope, in source order -/')
    o.append('def branchSites : List BranchSite :=\n  %s\n' % (' ++ '.join(names) if names else '[]'))
    o.append('/-- the functions that were scanned, per file -/')
    o.append('def branchScannedFns : List (String × List String) := [')
    o.append(',\n'.join('  (%s, %s)' % (lstr(f), llist(ns)) for f, ns in scanned) + ']\n')
    o.append('/-- the functions of the scoped files that were NOT scanned (variable-time by contract, formatting, serde) -/')
    o.append('def branchExcludedFns : List (String × List String) := [')
    o.append(',\n'.join('  (%s, %s)' % (lstr(f), llist(ns)) for f, ns in excluded) + ']\n')
    o.append('/-- scope files that were not found (must be empty) -/')
    o.append('def branchScopeErrors : List String := %s\n' % llist(missing))
    o.append('end Dalek.Gen.BranchInventory\n')
    return '\n'.join(o)


# ---------------------------------------------------------------------------------------------
# driver
# ---------------------------------------------------------------------------------------------

def list_files(repo):
    out = []
    for src in CRATE_SRC:
        root = os.path.join(repo, src)
        for dp, dns, fns in os.walk(root):
            dns[:] = sorted(d for d in dns if d not in SKIP_DIRS)
            for fn in sorted(fns):
                if fn.endswith('.rs'):
                    rel = os.path.relpath(os.path.join(dp, fn), repo).replace(os.sep, '/')
                    if rel not in EXCLUDE_FILES:
                        out.append(rel)
    return sorted(out)


def collect(repo, srcs=None):
    """returns dict(drop_facts, zeroize_facts, wipe_facts, panic_sites, errors)."""
    scans = []
    errors = []
    for rel in list_files(repo):
        try:
            if srcs is not None:
                sf = srcs.get(rel)
            else:
                sf = rslex.SourceFile(os.path.join(repo, rel), rel)
            scans.append(FileScan(sf))
        except Exception as ex:  # a file that cannot be scanned is an error of the inventory, never silently skipped
            errors.append('%s: %s' % (rel, str(ex).replace('\n', ' ')))
    # files that are only compiled under cfg(test) (`#[cfg(test)] mod x;`)
    test_files = set()
    for fs in scans:
        d = os.path.dirname(fs.sf.relname)
        for nm in fs.test_mod_decls:
            test_files.add('%s/%s.rs' % (d, nm))
            test_files.add('%s/%s/mod.rs' % (d, nm))
    scans = [fs for fs in scans if fs.sf.relname not in test_files]
    dfacts, zfacts = drop_and_zeroize_facts(scans)
    wfacts = wipe_facts(scans)
    sfns = scanned_fns(scans)
    sites = []
    for fs in scans:
        sites.extend(panic_sites_of_file(fs))
    occ = {}
    for s in sites:
        k = (s['file'], s['func'], s['kind'], s['text'])
        s['occ'] = occ.get(k, 0)
        occ[k] = s['occ'] + 1
        s['key'] = encode_key(*k)
    return {'drop_facts': dfacts, 'zeroize_facts': zfacts, 'wipe_facts': wfacts, 'panic_sites': sites,
            'errors': errors, 'files': [fs.sf.relname for fs in scans], 'scanned_fns': sfns,
            'branch': branch_inventory(scans), 'scans': scans}


def lstr(s):
    out = ['"']
    for c in s:
        if c == '"':
            out.append('\\"')
        elif c == '\\':
            out.append('\\\\')
        elif c == '\n':
            out.append('\\n')
        elif 32 <= ord(c) < 127:
            out.append(c)
        else:
            out.append('?')
    out.append('"')
    return ''.join(out)


def llist(xs):
    return '[' + ', '.join(lstr(x) for x in xs) + ']'


def lzop(o):
    return '.' + o[0] + ''.join(' ' + (str(x) if isinstance(x, int) else lstr(x)) for x in o[1:])


def lbool(b):
    return 'true' if b else 'false'


def emit_lean(header, inv):
    o = [header,
         '/-! Syntactic inventory of `curve25519-dalek`, `ed25519-dalek`, `x25519-dalek` (non-test code):\n'
         'erasure facts (C14) and panic sites (C15).  See `/verif/tools/rs2lean/inventory.py`. -/\n',
         'namespace Dalek.Gen.Inventory\n',
         '/-- How a struct is erased when dropped.  `zeroized`: fields overwritten by the drop glue written in the\n'
         'source (`impl Drop`: the `self.f.zeroize()` statements of `fn drop`; `derive(ZeroizeOnDrop)`: every field\n'
         'without `#[zeroize(skip)]`).  `marker`: an `impl ZeroizeOnDrop for T {}` exists (or is derived). -/',
         'structure DropFact where\n  ty : String\n  file : String\n  mechanism : String\n  gate : String\n'
         '  zeroized : List String\n  fields : List String\n  fieldTypes : List String\n  marker : Bool\n'
         '  body : List String\n',
         '/-- structured form of one statement of a `fn zeroize` body (`f` is a field path such as `X`, `0`, `0.0`) -/',
         'inductive ZOp where\n'
         '  | zeroizeField (f : String)              -- `self.f.zeroize()`\n'
         '  | zeroizeElems (f : String)              -- `self.f.iter_mut().zeroize()`\n'
         '  | setByte (f : String) (i v : Nat)       -- `self.f[i] = v`\n'
         '  | assignConst (f : String) (c : String)  -- `self.f = C`\n'
         '  | assignSelf (c : String)                -- `*self = C`\n'
         '  | other (s : String)                     -- anything else\n',
         '/-- `impl Zeroize for T` (or `derive(Zeroize)`): the normalised statements of `fn zeroize` (`body`) and\n'
         'their structured form (`ops`). -/',
         'structure ZeroizeFact where\n  ty : String\n  file : String\n  gate : String\n  derived : Bool\n'
         '  body : List String\n  ops : List ZOp\n',
         '/-- Heap buffers of a function (one fact for every non-test fn of the three crates that has any):\n'
         '`vecLocals` = locals, at any nesting depth, whose `let` contains a heap-allocation marker (`Vec`/`Box`/`String`/..\n'
         'type or constructor, `vec![..]`, `format!`, `.collect()`, `.to_vec()`, `.to_owned()`, ..); an allocation that is\n'
         'not bound by a `let` appears as `<expr> text`.\n'
         '`wiped` = those that are zeroised by a top-level statement of the function body\n'
         '(`Zeroize::zeroize(&mut v)` / `v.zeroize()`) or moved into a `Zeroizing::new(..)` wrapper.\n'
         '`usesAfterWipe` = occurrences of an explicitly wiped local after its wiping statement;\n'
         '`exitsBeforeWipe` = `return` / `?` tokens before an explicit wiping statement. -/',
         'structure WipeFact where\n  func : String\n  file : String\n  vecLocals : List String\n'
         '  wiped : List String\n  mechanism : String\n  gate : String\n  usesAfterWipe : Nat\n'
         '  exitsBeforeWipe : Nat\n',
         '/-- A syntactic panic site.  `key` is the injective numeric encoding of `(file, func, kind, text)` (bytes of\n'
         '`file\\0func\\0kind\\0text` as a big-endian number with a leading 1 byte); `occ` numbers the sites with equal\n'
         '`key` in source order.  `line` is informational only. -/',
         'structure PanicSite where\n  file : String\n  line : Nat\n  func : String\n  kind : String\n'
         '  text : String\n  occ : Nat\n  key : Nat\n']
    o.append('def dropFacts : List DropFact := [')
    o.append(',\n'.join(
        '  { ty := %s, file := %s, mechanism := %s, gate := %s,\n    zeroized := %s, fields := %s,\n'
        '    fieldTypes := %s, marker := %s, body := %s }'
        % (lstr(d['ty']), lstr(d['file']), lstr(d['mechanism']), lstr(d['gate']), llist(d['zeroized']),
           llist(d['fields']), llist(d['fieldTypes']), lbool(d['marker']), llist(d['body']))
        for d in inv['drop_facts']) + ']\n')
    o.append('def zeroizeFacts : List ZeroizeFact := [')
    o.append(',\n'.join(
        '  { ty := %s, file := %s, gate := %s, derived := %s,\n    body := %s,\n    ops := [%s] }'
        % (lstr(z['ty']), lstr(z['file']), lstr(z['gate']), lbool(z['derived']), llist(z['body']),
           ', '.join(lzop(o) for o in z['ops']))
        for z in inv['zeroize_facts']) + ']\n')
    o.append('def wipeFacts : List WipeFact := [')
    o.append(',\n'.join(
        '  { func := %s, file := %s,\n    vecLocals := %s, wiped := %s,\n    mechanism := %s, gate := %s, '
        'usesAfterWipe := %d, exitsBeforeWipe := %d }'
        % (lstr(w['func']), lstr(w['file']), llist(w['vecLocals']), llist(w['wiped']), lstr(w['mechanism']),
           lstr(w['gate']), w['usesAfterWipe'], w['exitsBeforeWipe'])
        for w in inv['wipe_facts']) + ']\n')
    # panic sites in chunks (long list literals elaborate slowly)
    sites = inv['panic_sites']
    chunk = 100
    names = []
    for c in range(0, len(sites), chunk):
        nm = 'panicSites%d' % (c // chunk)
        names.append(nm)
        o.append('def %s : List PanicSite := [' % nm)
        o.append(',\n'.join(
            '  ⟨%s, %d, %s, %s,\n   %s, %d, 0x%x⟩'
            % (lstr(s['file']), s['line'], lstr(s['func']), lstr(s['kind']), lstr(s['text']), s['occ'], s['key'])
            for s in sites[c:c + chunk]) + ']\n')
    o.append('/-- every syntactic panic site of the non-test code, in source order -/')
    o.append('def panicSites : List PanicSite :=\n  %s\n' % (' ++ '.join(names) if names else '[]'))
    o.append('/-- every non-test fn with a body that the inventory looked at, per file (fns inside `macro_rules!` bodies\n'
             'appear as `macro_rules!name::fn`); a fn listed here and absent from `wipeFacts` has no heap-allocation marker -/')
    o.append('def scannedFns : List (String × List String) := [')
    o.append(',\n'.join('  (%s, %s)' % (lstr(f), llist(ns)) for f, ns in inv['scanned_fns']) + ']\n')
    o.append('/-- files scanned for panic sites -/')
    o.append('def scannedFiles : List String := [\n  %s]\n' % ',\n  '.join(lstr(f) for f in inv['files']))
    o.append('/-- files that could not be scanned (must be empty) -/')
    o.append('def scanErrors : List String := %s\n' % llist(inv['errors']))
    o.append('end Dalek.Gen.Inventory\n')
    return '\n'.join(o)


def branch_by_kind(sites):
    d = {}
    for s in sites:
        d[s['kind']] = d.get(s['kind'], 0) + 1
    return d


def manifest_part(inv):
    by_kind = {}
    for s in inv['panic_sites']:
        by_kind[s['kind']] = by_kind.get(s['kind'], 0) + 1
    return {
        'drop_facts': [dict((k, d[k]) for k in ('ty', 'file', 'mechanism', 'gate', 'zeroized', 'fields', 'marker'))
                       for d in inv['drop_facts']],
        'zeroize_facts': [dict((k, z[k]) for k in ('ty', 'file', 'gate', 'derived', 'body'))
                          for z in inv['zeroize_facts']],
        'wipe_facts': inv['wipe_facts'],
        'panic_sites_count': len(inv['panic_sites']),
        'panic_sites_by_kind': by_kind,
        'branch_sites_count': len(inv['branch'][0]),
        'branch_sites_by_kind': branch_by_kind(inv['branch'][0]),
        'branch_excluded_fns': dict(inv['branch'][2]),
        'inventory_errors': inv['errors'] + inv['branch'][3],
    }


def generate(repo, outdir, header, write_if_changed, srcs=None):
    """writes `<outdir>/Inventory.lean`; returns (manifest dict, [paths written])."""
    inv = collect(repo, srcs)
    p = os.path.join(outdir, 'Inventory.lean')
    written = []
    if write_if_changed(p, emit_lean(header, inv)):
        written.append(p)
    p = os.path.join(outdir, 'BranchInventory.lean')
    if write_if_changed(p, emit_branch_lean(header, inv['branch'])):
        written.append(p)
    return manifest_part(inv), written, inv


if __name__ == '__main__':
    import json
    import sys
    import time
    t0 = time.time()
    inv = collect(sys.argv[1] if len(sys.argv) > 1 else '/repo')
    sys.stderr.write('inventory: %d drop facts, %d zeroize facts, %d wipe facts, %d panic sites, %d errors (%.2fs)\n'
                     % (len(inv['drop_facts']), len(inv['zeroize_facts']), len(inv['wipe_facts']),
                        len(inv['panic_sites']), len(inv['errors']), time.time() - t0))
    if len(sys.argv) > 2 and sys.argv[2] == '--dump':
        for s in inv['panic_sites']:
            print('%s:%d\t%s\t%s\t%s' % (s['file'], s['line'], s['func'], s['kind'], s['text']))
    elif len(sys.argv) > 2 and sys.argv[2] == '--json':
        json.dump(manifest_part(inv), sys.stdout, indent=1, sort_keys=True)

"""cfginv: inventory of FEATURE-GATED code inside function bodies (`Gen/CfgInventory.lean`).

The correspondence runs and the hand models see the crates under a few cargo-feature sets.  A statement, block or match arm
inside a function body that carries `#[cfg(feature = ..)]` / `#[cfg(not(feature = ..))]` exists in some feature sets and not in
others, so it is a place where behaviour can depend on a feature that no driver configuration exercises (e.g. `zeroize` off).
This inventory lists every such site of the non-test code with the enclosing function, the attribute, the gated text and a
SYNTACTIC shape:

  `zeroize-call`   the gated element is a single statement `x.zeroize();` / `Zeroize::zeroize(&mut x);` / `zeroize::Zeroize::zeroize(..)`
  `zeroizing-wrap` a rebinding `let x = Zeroizing::new(x);`
  `allow-attr`     a `cfg_attr(.., allow(..))` lint attribute
  `other`          anything else (must be classified by hand in Dalek/Model/CfgTable.lean)

`cfg` conditions that do not mention a cargo feature (backend / word-size / target selection: `curve25519_dalek_backend`,
`curve25519_dalek_bits`, `target_*`, `nightly`, `docsrs`) are the configuration dimension of property C05 and are exercised by
the twelve driver builds; they are listed with shape `backend-select` for completeness.
"""
import rslex
import inventory
from inventory import is_p, render, encode_key


KEY_TEXT = 100          # the key identifies a site by (file, func, attr, first KEY_TEXT characters of the gated text)
SHAPE_CODE = {'backend-select': 0, 'zeroize-call': 1, 'zeroizing-wrap': 2, 'allow-attr': 3, 'other': 4}


def _shape(attr_name, attr_txt, toks, s, e):
    if attr_name == 'cfg_attr':
        flat = ''.join(t[1] for t in toks if t[0] != 'ws') if False else attr_txt.replace(' ', '')
        if 'allow(' in flat or 'doc(' in flat:
            return 'allow-attr'
        return 'other'
    words = [t[1] for t in toks[s:e]]
    txt = ' '.join(str(w) for w in words)
    # single statement forms
    if words and words[-1] == ';':
        body = words[:-1]
        # x.zeroize()   /  self.f.zeroize()
        if len(body) >= 4 and body[-3:] == ['zeroize', '(', ')'] and body[-4] == '.' and '(' not in body[:-3] and '=' not in body:
            return 'zeroize-call'
        # [zeroize ::] Zeroize :: zeroize ( & mut x )
        b = list(body)
        if b[:2] == ['zeroize', '::']:
            b = b[2:]
        if b[:4] == ['Zeroize', '::', 'zeroize', '('] and b[-1] == ')' and b[4:6] == ['&', 'mut'] and '(' not in b[6:-1]:
            return 'zeroize-call'
        # let x = Zeroizing :: new ( x ) ;
        if len(body) == 9 and body[0] == 'let' and body[2] == '=' and body[3:7] == ['Zeroizing', '::', 'new', '('] \
                and body[8] == ')' and body[1] == body[7]:
            return 'zeroizing-wrap'
    return 'other'


def cfg_sites(scans):
    sites = []
    for fs in scans:
        toks = fs.toks
        n = len(toks)
        i = 0
        while i < n:
            if is_p(toks[i], '#') and fs.attr[i] and fs.owner[i] is not None and fs.code[i]:
                j = i + 1
                if is_p(toks[j], '!'):
                    j += 1
                k = rslex.match_delim(toks, j)
                name = toks[j + 1][1] if j + 1 < k else ''
                if name in ('cfg', 'cfg_attr'):
                    attr_txt = render(toks, i, k)
                    s = k
                    while s < n and is_p(toks[s], '#'):
                        s = rslex.match_delim(toks, s + 1)
                    if is_p(toks[s], '{'):
                        e = rslex.match_delim(toks, s)
                    else:
                        e = rslex._find_at_depth0(toks, s, n, (';', '{', ','))
                        if e < n and is_p(toks[e], '{'):
                            e = rslex.match_delim(toks, e)
                        else:
                            e = min(e + 1, n)
                    feature = 'feature' in [t[1] for t in toks[i:k]]
                    shape = _shape(name, attr_txt, toks, s, e) if feature else 'backend-select'
                    sites.append({'file': fs.sf.relname, 'line': toks[i][2], 'func': fs.owner[i], 'attr': attr_txt,
                                  'text': render(toks, s, e), 'shape': shape, 'feature': feature})
                i = k
                continue
            i += 1
    occ = {}
    for x in sites:
        kk = (x['file'], x['func'], x['attr'], x['text'][:KEY_TEXT])
        x['occ'] = occ.get(kk, 0)
        occ[kk] = x['occ'] + 1
        x['key'] = encode_key(*kk)
        x['code'] = SHAPE_CODE[x['shape']]
        x['tables'] = 'precomputed-tables' in x['attr']
    return sites


def emit_lean(header, sites, files):
    lstr = inventory.lstr
    o = [header,
         '/-! Inventory of `#[cfg(..)]`-gated statements, blocks and match arms INSIDE function bodies of the three crates\n'
         '(non-test code).  See `/verif/tools/rs2lean/cfginv.py`. -/\n',
         'namespace Dalek.Gen.CfgInventory\n',
         '/-- `attr`: the attribute; `text`: the gated element; `shape`: syntactic classification (`zeroize-call`,\n'
         '`zeroizing-wrap`, `allow-attr`, `other`, `backend-select`); `feature`: the condition mentions a cargo feature. -/',
         'structure CfgSite where\n  file : String\n  line : Nat\n  func : String\n  attr : String\n  text : String\n'
         '  shape : String\n  feature : Bool\n  occ : Nat\n  key : Nat\n'
         '  /-- numeric shape: 0 backend-select, 1 zeroize-call, 2 zeroizing-wrap, 3 allow-attr, 4 other -/\n  code : Nat\n'
         '  /-- the condition mentions the `precomputed-tables` feature -/\n  tables : Bool\n',
         'def cfgSites : List CfgSite := [',
         ',\n'.join('  ⟨%s, %d, %s, %s,\n   %s, %s, %s, %d, 0x%x, %d, %s⟩'
                    % (lstr(s['file']), s['line'], lstr(s['func']), lstr(s['attr']), lstr(s['text'][:KEY_TEXT]), lstr(s['shape']),
                       'true' if s['feature'] else 'false', s['occ'], s['key'], s['code'],
                       'true' if s['tables'] else 'false') for s in sites) + ']\n',
         '/-- number of files scanned -/',
         'def cfgScannedFiles : Nat := %d\n' % files,
         'end Dalek.Gen.CfgInventory\n']
    return '\n'.join(o)


def generate(inv_scans, outdir, header, write_if_changed):
    import os
    sites = cfg_sites(inv_scans)
    p = os.path.join(outdir, 'CfgInventory.lean')
    written = []
    if write_if_changed(p, emit_lean(header, sites, len(inv_scans))):
        written.append(p)
    return sites, written

"""Recursive-descent / precedence-climbing parser for the Rust expression + statement subset.

AST nodes are tuples `(kind, line, ...)`:

 expressions
  ('int', ln, value, suffix)           ('bool', ln, b)            ('str', ln, s)
  ('path', ln, [seg...], generics)     generics: None | list of ('gconst', expr) / ('gtype', ty)
  ('call', ln, fexpr, [args])          ('mcall', ln, recv, name, [args], generics)
  ('field', ln, e, name)               ('index', ln, e, idx)
  ('unary', ln, op, e)   op in '-', '!'
  ('ref', ln, is_mut, e)               ('deref', ln, e)
  ('bin', ln, op, l, r)                ('cast', ln, e, ty)
  ('assign', ln, op|None, lhs, rhs)
  ('array', ln, [elems])               ('repeat', ln, elem, count)
  ('tuple', ln, [elems])               ('paren', ln, e)
  ('struct', ln, path_segs, [(field, expr)], base|None)
  ('closure', ln, [(pat, ty|None)], ret|None, body)
  ('block', ln, [stmts], tail|None)    ('unsafe', ln, block)
  ('if', ln, cond, then_block, else|None)
  ('range', ln, lo|None, hi|None, inclusive)
  ('macro', ln, name, (toks, a, b))
  ('for', ln, pat, iter, body)         ('loop', ln, body)       ('while', ln, cond, body)
  ('break', ln)  ('continue', ln)      ('return', ln, e|None)

 statements
  ('let', ln, pat, ty|None, init|None)
  ('expr', ln, e, has_semi)
  ('fn', ln, FnDecl)                   ('const', ln, name, ty, init)

 patterns
  ('pid', ln, name, is_mut)   ('pwild', ln)   ('ptuple', ln, [pats])   ('pref', ln, is_mut, pat)

 types
  ('tpath', ln, [segs], [generic types])   ('tref', ln, is_mut, ty)   ('tarr', ln, ty, len_expr)
  ('tslice', ln, ty)   ('ttuple', ln, [tys])   ('tinfer', ln)
"""


class ParseError(Exception):
    pass


class FnDecl(object):
    __slots__ = ('name', 'line', 'self_kind', 'params', 'ret', 'body', 'item')

    def __init__(self):
        self.name = None
        self.line = 0
        self.self_kind = None   # None | 'val' | 'ref' | 'mut'
        self.params = []        # [(pat, ty)]
        self.ret = None
        self.body = None
        self.item = None


_BINPREC = {
    '*': 11, '/': 11, '%': 11,
    '+': 10, '-': 10,
    '<<': 9, '>>': 9,
    '&': 8,
    '^': 7,
    '|': 6,
    '==': 5, '!=': 5, '<': 5, '>': 5, '<=': 5, '>=': 5,
    '&&': 4,
    '||': 3,
}
_ASSIGN_OPS = {'=': None, '+=': '+', '-=': '-', '*=': '*', '/=': '/', '%=': '%', '^=': '^',
               '&=': '&', '|=': '|', '<<=': '<<', '>>=': '>>'}
_EXPR_END = {')', ']', '}', ',', ';', '=>'}


class Parser(object):
    def __init__(self, toks, a, b, fname='<src>'):
        self.t = toks
        self.i = a
        self.end = b
        self.fname = fname

    # -- helpers -------------------------------------------------------------------------------
    def peek(self, k=0):
        j = self.i + k
        if j < self.end:
            return self.t[j]
        return ('eof', '<eof>', self.t[self.end - 1][2] if self.end > 0 else 0, None)

    def line(self):
        return self.peek()[2]

    def err(self, msg):
        t = self.peek()
        raise ParseError('%s:%d: %s (at %r)' % (self.fname, t[2], msg, t[1]))

    def at_p(self, text):
        t = self.peek()
        return t[0] == 'p' and t[1] == text

    def at_id(self, text=None):
        t = self.peek()
        return t[0] == 'id' and (text is None or t[1] == text)

    def eat_p(self, text):
        if self.at_p(text):
            self.i += 1
            return True
        return False

    def eat_id(self, text):
        if self.at_id(text):
            self.i += 1
            return True
        return False

    def expect_p(self, text):
        if not self.eat_p(text):
            self.err('expected %r' % text)

    def expect_ident(self):
        t = self.peek()
        if t[0] != 'id':
            self.err('expected identifier')
        self.i += 1
        return t[1]

    def at_end(self):
        return self.i >= self.end

    def skip_attrs(self):
        while self.at_p('#'):
            j = self.i + 1
            if j < self.end and self.t[j][1] == '!':
                j += 1
            if j < self.end and self.t[j][1] == '[':
                depth = 0
                while j < self.end:
                    x = self.t[j][1]
                    if self.t[j][0] == 'p' and x == '[':
                        depth += 1
                    elif self.t[j][0] == 'p' and x == ']':
                        depth -= 1
                        if depth == 0:
                            break
                    j += 1
                self.i = j + 1
            else:
                self.err('stray #')

    # -- types ---------------------------------------------------------------------------------
    def parse_type(self):
        ln = self.line()
        if self.at_p('&') or self.at_p('&&'):
            double = self.at_p('&&')
            self.i += 1
            if self.peek()[0] == 'lt':
                self.i += 1
            m = self.eat_id('mut')
            inner = ('tref', ln, m, self.parse_type())
            if double:
                inner = ('tref', ln, False, inner)
            return inner
        if self.at_p('*'):
            self.err('raw pointer types are outside the supported subset')
        if self.eat_p('['):
            el = self.parse_type()
            if self.eat_p(';'):
                n = self.parse_expr()
                self.expect_p(']')
                return ('tarr', ln, el, n)
            self.expect_p(']')
            return ('tslice', ln, el)
        if self.eat_p('('):
            tys = []
            while not self.at_p(')'):
                tys.append(self.parse_type())
                if not self.eat_p(','):
                    break
            self.expect_p(')')
            return ('ttuple', ln, tys)
        if self.at_id('_'):
            self.i += 1
            return ('tinfer', ln)
        if self.at_id('impl') or self.at_id('dyn') or self.at_id('fn'):
            self.err('impl/dyn/fn types are outside the supported subset')
        if self.peek()[0] != 'id':
            self.err('expected a type')
        segs = [self.expect_ident()]
        gens = []
        while True:
            if self.at_p('<'):
                gens = self.parse_generic_args()
            if self.at_p('::'):
                self.i += 1
                if self.at_p('<'):
                    gens = self.parse_generic_args()
                    continue
                segs.append(self.expect_ident())
                continue
            break
        return ('tpath', ln, segs, gens)

    def parse_generic_args(self):
        """at '<'; returns list of ('gtype', ty) / ('gconst', expr)."""
        self.expect_p('<')
        out = []
        while True:
            if self.at_p('>'):
                break
            if self.at_p('>>'):
                break
            t = self.peek()
            if t[0] == 'lt':
                self.i += 1
            elif t[0] == 'int' or self.at_p('{') or self.at_p('-'):
                if self.at_p('{'):
                    out.append(('gconst', self.parse_block()))
                else:
                    out.append(('gconst', self.parse_unary()))
            else:
                ty = self.parse_type()
                if self.eat_p('='):      # associated type binding
                    ty = self.parse_type()
                out.append(('gtype', ty))
            if not self.eat_p(','):
                break
        if self.at_p('>>'):
            # split the token
            t = self.t[self.i]
            self.t = list(self.t)
            self.t[self.i] = ('p', '>', t[2], None)
            self.t.insert(self.i, ('p', '>', t[2], None))
            self.end += 1
        self.expect_p('>')
        return out

    # -- patterns ------------------------------------------------------------------------------
    def parse_pat(self):
        ln = self.line()
        if self.eat_p('('):
            ps = []
            while not self.at_p(')'):
                ps.append(self.parse_pat())
                if not self.eat_p(','):
                    break
            self.expect_p(')')
            return ('ptuple', ln, ps)
        if self.at_p('&'):
            self.i += 1
            m = self.eat_id('mut')
            return ('pref', ln, m, self.parse_pat())
        if self.at_id('_'):
            self.i += 1
            return ('pwild', ln)
        m = False
        if self.eat_id('ref'):
            self.err('ref patterns are outside the supported subset')
        if self.eat_id('mut'):
            m = True
        name = self.expect_ident()
        if self.at_p('::') or self.at_p('(') or self.at_p('{') or self.at_p('@'):
            self.err('enum/struct patterns are outside the supported subset')
        return ('pid', ln, name, m)

    # -- expressions ---------------------------------------------------------------------------
    def parse_expr(self, no_struct=False):
        return self.parse_assign(no_struct)

    def parse_assign(self, no_struct):
        lhs = self.parse_range(no_struct)
        t = self.peek()
        if t[0] == 'p' and t[1] in _ASSIGN_OPS:
            self.i += 1
            rhs = self.parse_assign(no_struct)
            return ('assign', t[2], _ASSIGN_OPS[t[1]], lhs, rhs)
        return lhs

    def starts_expr(self, no_struct):
        t = self.peek()
        if t[0] == 'eof':
            return False
        if t[0] == 'p':
            if t[1] in _EXPR_END:
                return False
            if t[1] == '{' and no_struct:
                return False
            return t[1] in ('(', '[', '{', '-', '!', '*', '&', '&&', '|', '||')
        return True

    def parse_range(self, no_struct):
        ln = self.line()
        if self.at_p('..') or self.at_p('..='):
            inc = self.peek()[1] == '..='
            self.i += 1
            hi = self.parse_bin(3, no_struct) if self.starts_expr(no_struct) else None
            return ('range', ln, None, hi, inc)
        lo = self.parse_bin(3, no_struct)
        if self.at_p('..') or self.at_p('..='):
            inc = self.peek()[1] == '..='
            self.i += 1
            hi = self.parse_bin(3, no_struct) if self.starts_expr(no_struct) else None
            return ('range', ln, lo, hi, inc)
        return lo

    def parse_bin(self, minprec, no_struct):
        lhs = self.parse_cast(no_struct)
        while True:
            t = self.peek()
            if t[0] != 'p':
                break
            prec = _BINPREC.get(t[1])
            if prec is None or prec < minprec:
                break
            self.i += 1
            rhs = self.parse_bin(prec + 1, no_struct)
            if prec == 5:
                n = self.peek()
                if n[0] == 'p' and _BINPREC.get(n[1]) == 5:
                    self.err('comparison operators cannot be chained')
            lhs = ('bin', t[2], t[1], lhs, rhs)
        return lhs

    def parse_cast(self, no_struct):
        e = self.parse_unary(no_struct)
        while self.at_id('as'):
            ln = self.line()
            self.i += 1
            ty = self.parse_type()
            e = ('cast', ln, e, ty)
        return e

    def parse_unary(self, no_struct=False):
        t = self.peek()
        ln = t[2]
        if t[0] == 'p':
            if t[1] == '-' or t[1] == '!':
                self.i += 1
                return ('unary', ln, t[1], self.parse_unary(no_struct))
            if t[1] == '*':
                self.i += 1
                return ('deref', ln, self.parse_unary(no_struct))
            if t[1] == '&' or t[1] == '&&':
                self.i += 1
                m = self.eat_id('mut')
                inner = ('ref', ln, m, self.parse_unary(no_struct))
                if t[1] == '&&':
                    inner = ('ref', ln, False, inner)
                return inner
        return self.parse_postfix(self.parse_primary(no_struct), no_struct)

    def parse_args(self):
        """after '(' ... consumes ')'."""
        args = []
        while not self.at_p(')'):
            args.append(self.parse_expr())
            if not self.eat_p(','):
                break
        self.expect_p(')')
        return args

    def parse_postfix(self, e, no_struct):
        while True:
            t = self.peek()
            if t[0] != 'p':
                break
            x = t[1]
            if x == '(':
                self.i += 1
                e = ('call', t[2], e, self.parse_args())
            elif x == '[':
                self.i += 1
                idx = self.parse_expr()
                self.expect_p(']')
                e = ('index', t[2], e, idx)
            elif x == '.':
                n = self.peek(1)
                if n[0] == 'int':
                    if n[3][1] is not None:
                        self.err('suffixed tuple index')
                    self.i += 2
                    e = ('field', t[2], e, n[1])
                elif n[0] == 'id':
                    if n[1] == 'await':
                        self.err('await is outside the supported subset')
                    self.i += 2
                    gens = None
                    if self.at_p('::'):
                        self.i += 1
                        gens = self.parse_generic_args()
                    if self.at_p('('):
                        self.i += 1
                        e = ('mcall', t[2], e, n[1], self.parse_args(), gens)
                    else:
                        e = ('field', t[2], e, n[1])
                else:
                    self.err('unexpected token after "."')
            elif x == '?':
                self.err('the ? operator is outside the supported subset')
            else:
                break
        return e

    def parse_block(self):
        ln = self.line()
        self.expect_p('{')
        stmts = []
        tail = None
        while not self.at_p('}'):
            if self.at_end():
                self.err('unterminated block')
            self.skip_attrs()
            if self.at_p('}'):
                break
            if self.eat_p(';'):
                continue
            st = self.parse_stmt()
            if st[0] == 'expr' and not st[3]:
                # expression without semicolon: tail if block ends, else must be block-like
                if self.at_p('}'):
                    tail = st[2]
                    break
                if st[2][0] not in ('if', 'for', 'loop', 'while', 'block', 'unsafe', 'macro', 'match'):
                    self.err('expected ; after expression statement')
            stmts.append(st)
        self.expect_p('}')
        return ('block', ln, stmts, tail)

    def parse_stmt(self):
        t = self.peek()
        ln = t[2]
        if t[0] == 'id':
            kw = t[1]
            if kw == 'let':
                self.i += 1
                pat = self.parse_pat()
                ty = None
                if self.eat_p(':'):
                    ty = self.parse_type()
                init = None
                if self.eat_p('='):
                    init = self.parse_expr()
                if self.at_id('else'):
                    self.err('let-else is outside the supported subset')
                self.expect_p(';')
                return ('let', ln, pat, ty, init)
            if kw == 'const' and self.peek(1)[0] == 'id' and self.peek(1)[1] not in ('fn', 'unsafe'):
                self.i += 1
                name = self.expect_ident()
                self.expect_p(':')
                ty = self.parse_type()
                self.expect_p('=')
                init = self.parse_expr()
                self.expect_p(';')
                return ('const', ln, name, ty, init)
            if kw == 'fn' or (kw in ('const', 'unsafe', 'pub') and self._fn_ahead()):
                return ('fn', ln, self.parse_fn_item())
            if kw == 'use':
                texts = []
                self.i += 1
                while not self.at_p(';'):
                    if self.at_end():
                        self.err('unterminated use')
                    texts.append(self.peek()[1])
                    self.i += 1
                self.i += 1
                return ('use', ln, texts)
            if kw in ('struct', 'impl'):
                # nested item declaration: skipped here (see rslex.nested_items)
                depth = 0
                while True:
                    if self.at_end():
                        self.err('unterminated nested item')
                    t2 = self.peek()
                    self.i += 1
                    if t2[0] == 'p':
                        if t2[1] in ('(', '[', '{'):
                            depth += 1
                        elif t2[1] in (')', ']', '}'):
                            depth -= 1
                            if depth == 0 and t2[1] == '}':
                                break
                        elif t2[1] == ';' and depth == 0:
                            break
                return ('nested', ln, kw)
            if kw in ('enum', 'trait', 'static', 'mod', 'type'):
                self.err('nested %s item is outside the supported subset' % kw)
        if (t[0] == 'id' and t[1] in ('if', 'for', 'loop', 'while', 'unsafe', 'match')) or \
                (t[0] == 'p' and t[1] == '{'):
            # block-like expression statement: it ends at its closing brace (unless a method call follows)
            e = self.parse_primary(False)
            if self.at_p('.') or self.at_p('?'):
                e = self.parse_postfix(e, False)
            semi = self.eat_p(';')
            return ('expr', ln, e, semi)
        e = self.parse_expr()
        semi = self.eat_p(';')
        return ('expr', ln, e, semi)

    def _fn_ahead(self):
        k = 0
        while self.peek(k)[0] == 'id' and self.peek(k)[1] in ('const', 'unsafe', 'pub', 'async'):
            k += 1
        return self.peek(k)[0] == 'id' and self.peek(k)[1] == 'fn'

    def parse_fn_item(self):
        while self.peek()[0] == 'id' and self.peek()[1] in ('const', 'unsafe', 'pub', 'async'):
            self.i += 1
        ln = self.line()
        self.expect_ident()  # fn
        d = FnDecl()
        d.line = ln
        d.name = self.expect_ident()
        if self.at_p('<'):
            self.err('generic nested fn is outside the supported subset')
        self.expect_p('(')
        self.parse_params(d)
        if self.eat_p('->'):
            d.ret = self.parse_type()
        if self.at_id('where'):
            self.err('where clauses are outside the supported subset')
        d.body = self.parse_block()
        return d

    def parse_params(self, d):
        """after '(' ... consumes ')'."""
        first = True
        while not self.at_p(')'):
            self.skip_attrs()
            if first:
                # self forms
                j = self.i
                k = j
                isref = False
                ismut = False
                if self.t[k][1] == '&' and self.t[k][0] == 'p':
                    isref = True
                    k += 1
                    if k < self.end and self.t[k][0] == 'lt':
                        k += 1
                if k < self.end and self.t[k][0] == 'id' and self.t[k][1] == 'mut':
                    ismut = True
                    k += 1
                if k < self.end and self.t[k][0] == 'id' and self.t[k][1] == 'self':
                    self.i = k + 1
                    if self.eat_p(':'):
                        self.err('typed self parameter is outside the supported subset')
                    d.self_kind = ('mut' if ismut else 'ref') if isref else 'val'
                    first = False
                    if not self.eat_p(','):
                        break
                    continue
            first = False
            pat = self.parse_pat()
            self.expect_p(':')
            ty = self.parse_type()
            d.params.append((pat, ty))
            if not self.eat_p(','):
                break
        self.expect_p(')')

    def parse_primary(self, no_struct):
        t = self.peek()
        ln = t[2]
        k = t[0]
        if k == 'int':
            self.i += 1
            return ('int', ln, t[3][0], t[3][1])
        if k == 'str':
            self.i += 1
            return ('str', ln, t[3])
        if k in ('flt', 'chr'):
            self.err('float/char literals are outside the supported subset')
        if k == 'p':
            x = t[1]
            if x == '(':
                self.i += 1
                if self.eat_p(')'):
                    return ('tuple', ln, [])
                e = self.parse_expr()
                if self.eat_p(')'):
                    return ('paren', ln, e)
                els = [e]
                while self.eat_p(','):
                    if self.at_p(')'):
                        break
                    els.append(self.parse_expr())
                self.expect_p(')')
                return ('tuple', ln, els)
            if x == '[':
                self.i += 1
                if self.eat_p(']'):
                    return ('array', ln, [])
                e = self.parse_expr()
                if self.eat_p(';'):
                    n = self.parse_expr()
                    self.expect_p(']')
                    return ('repeat', ln, e, n)
                els = [e]
                while self.eat_p(','):
                    if self.at_p(']'):
                        break
                    els.append(self.parse_expr())
                self.expect_p(']')
                return ('array', ln, els)
            if x == '{':
                return self.parse_block()
            if x == '|' or x == '||':
                return self.parse_closure()
            self.err('unexpected token in expression')
        if k != 'id':
            self.err('unexpected token in expression')
        kw = t[1]
        if kw == 'true' or kw == 'false':
            self.i += 1
            return ('bool', ln, kw == 'true')
        if kw == 'if':
            return self.parse_if()
        if kw == 'for':
            self.i += 1
            pat = self.parse_pat()
            if not self.eat_id('in'):
                self.err('expected "in"')
            it = self.parse_expr(no_struct=True)
            body = self.parse_block()
            return ('for', ln, pat, it, body)
        if kw == 'loop':
            self.i += 1
            return ('loop', ln, self.parse_block())
        if kw == 'while':
            self.i += 1
            if self.at_id('let'):
                self.err('while-let is outside the supported subset')
            c = self.parse_expr(no_struct=True)
            return ('while', ln, c, self.parse_block())
        if kw == 'match':
            return self.parse_match()
        if kw == 'unsafe':
            self.i += 1
            return ('unsafe', ln, self.parse_block())
        if kw == 'break':
            self.i += 1
            if self.peek()[0] == 'lt' or self.starts_expr(no_struct):
                self.err('break with label/value is outside the supported subset')
            return ('break', ln)
        if kw == 'continue':
            self.i += 1
            return ('continue', ln)
        if kw == 'return':
            self.i += 1
            e = self.parse_expr() if self.starts_expr(no_struct) else None
            return ('return', ln, e)
        if kw == 'move':
            self.i += 1
            return self.parse_closure()
        if kw in ('let', 'fn', 'struct', 'impl', 'as', 'in', 'else', 'mut', 'ref', 'where', 'async',
                  'await', 'dyn', 'enum', 'trait', 'type', 'use', 'mod', 'static', 'const', 'pub'):
            self.err('unexpected keyword %r in expression' % kw)
        # path
        segs = [kw]
        self.i += 1
        gens = None
        while self.at_p('::'):
            self.i += 1
            if self.at_p('<'):
                gens = self.parse_generic_args()
                continue
            segs.append(self.expect_ident())
        if self.at_p('!'):
            # macro invocation
            n = self.peek(1)
            if n[0] == 'p' and n[1] in ('(', '[', '{'):
                self.i += 1
                a = self.i
                depth = 0
                j = a
                while j < self.end:
                    y = self.t[j]
                    if y[0] == 'p':
                        if y[1] in ('(', '[', '{'):
                            depth += 1
                        elif y[1] in (')', ']', '}'):
                            depth -= 1
                            if depth == 0:
                                break
                    j += 1
                if j >= self.end:
                    self.err('unterminated macro invocation')
                self.i = j + 1
                return ('macro', ln, '::'.join(segs), (self.t, a + 1, j))
        if self.at_p('{') and not no_struct and (segs[-1][:1].isupper()):
            return self.parse_struct_lit(ln, segs)
        return ('path', ln, segs, gens)

    def parse_struct_lit(self, ln, segs):
        self.expect_p('{')
        fields = []
        base = None
        while not self.at_p('}'):
            if self.eat_p('..'):
                base = self.parse_expr()
                break
            t = self.peek()
            if t[0] == 'int':
                name = t[1]
                self.i += 1
            else:
                name = self.expect_ident()
            if self.eat_p(':'):
                val = self.parse_expr()
            else:
                val = ('path', t[2], [name], None)
            fields.append((name, val))
            if not self.eat_p(','):
                break
        self.expect_p('}')
        return ('struct', ln, segs, fields, base)

    def parse_if(self):
        ln = self.line()
        self.i += 1  # if
        if self.at_id('let'):
            self.err('if-let is outside the supported subset')
        c = self.parse_expr(no_struct=True)
        then = self.parse_block()
        els = None
        if self.eat_id('else'):
            if self.at_id('if'):
                els = self.parse_if()
            else:
                els = self.parse_block()
        return ('if', ln, c, then, els)

    def parse_match(self):
        """('match', ln, scrutinee, [(pattern, body)]) with patterns ('ppath', ln, segs) | ('pwild', ln) |
        ('plit', ln, value)"""
        ln = self.line()
        self.i += 1
        scrut = self.parse_expr(no_struct=True)
        self.expect_p('{')
        arms = []
        while not self.at_p('}'):
            self.skip_attrs()
            t = self.peek()
            pl = t[2]
            if t[0] == 'id' and t[1] == '_':
                self.i += 1
                pat = ('pwild', pl)
            elif t[0] == 'int':
                self.i += 1
                pat = ('plit', pl, t[3][0])
            elif t[0] == 'id':
                segs = [self.expect_ident()]
                while self.eat_p('::'):
                    segs.append(self.expect_ident())
                if self.at_p('(') or self.at_p('{'):
                    self.err('enum patterns with fields are outside the supported subset')
                pat = ('ppath', pl, segs)
            else:
                self.err('unsupported match pattern')
            if self.at_p('|') or self.at_id('if'):
                self.err('or-patterns / match guards are outside the supported subset')
            self.expect_p('=>')
            body = self.parse_expr()
            arms.append((pat, body))
            if not self.eat_p(','):
                if not self.at_p('}') and body[0] != 'block':
                    self.err('expected , after match arm')
        self.expect_p('}')
        return ('match', ln, scrut, arms)

    def parse_closure(self):
        ln = self.line()
        params = []
        if self.eat_p('||'):
            pass
        else:
            self.expect_p('|')
            while not self.at_p('|'):
                pat = self.parse_pat()
                ty = None
                if self.eat_p(':'):
                    ty = self.parse_type()
                params.append((pat, ty))
                if not self.eat_p(','):
                    break
            self.expect_p('|')
        ret = None
        if self.eat_p('->'):
            ret = self.parse_type()
            body = self.parse_block()
        else:
            body = self.parse_expr()
        return ('closure', ln, params, ret, body)


def parse_fn(item):
    """Parse the signature + body of an `rslex.Item` of kind 'fn' into a FnDecl (cached)."""
    if item.parsed is not None:
        return item.parsed
    if item.generics is not None:
        raise ParseError('%s:%d: generic fn %s is outside the supported subset'
                         % (item.fname, item.line, item.name))
    d = FnDecl()
    d.name = item.name
    d.line = item.line
    d.item = item
    p = Parser(item.toks, item.sig_params[0], item.sig_params[1] + 1, item.fname)
    # parse_params expects to consume ')'
    p.parse_params(d)
    if item.sig_ret is not None:
        q = Parser(item.toks, item.sig_ret[0], item.sig_ret[1], item.fname)
        d.ret = q.parse_type()
        if not q.at_end():
            q.err('trailing tokens in return type')
    if item.body is None:
        raise ParseError('%s:%d: fn %s has no body' % (item.fname, item.line, item.name))
    b = Parser(item.toks, item.body[0], item.body[1], item.fname)
    d.body = b.parse_block()
    if not b.at_end():
        b.err('trailing tokens after fn body')
    item.parsed = d
    return d


def parse_expr_range(toks, a, b, fname):
    p = Parser(toks, a, b, fname)
    e = p.parse_expr()
    if not p.at_end():
        p.err('trailing tokens after expression')
    return e


def parse_type_range(toks, a, b, fname):
    p = Parser(toks, a, b, fname)
    t = p.parse_type()
    if not p.at_end():
        p.err('trailing tokens after type')
    return t


def parse_macro_args(mac, fname):
    """comma separated expressions of a ('macro', ...) node."""
    toks, a, b = mac[3]
    p = Parser(toks, a, b, fname)
    args = []
    while not p.at_end():
        args.append(p.parse_expr())
        if not p.eat_p(','):
            break
    if not p.at_end():
        p.err('trailing tokens in macro arguments')
    return args

"""hashinv: inventory of HASH / TRANSCRIPT INPUT SEQUENCES (`Gen/HashInventory.lean`).

For every non-test function of the listed files that builds a digest or a merlin transcript, the ordered list of the
hash-relevant calls it makes, each with the text of its arguments:

  new            `X::new()` / `X::default()`                     (a fresh digest / `Transcript::new(label)`)
  update         `.update(e)` / `.chain_update(e)`               (bytes absorbed, in program order)
  append         `.append_message(label, e)` / `.append_u64(..)` (merlin)
  finalize       `.finalize()` / `.finalize_xof()` / `.build_rng()` / `.rekey_with_witness_bytes(..)` / `.fill_bytes(..)`
  from_hash      `Scalar::from_hash(h)` / `X::from_hash(h)` / `hash_from_bytes::<D>(e)` / `from_bytes_mod_order_wide(e)`
  digest_arg     `helper::<CtxDigest>(..)` / `raw_sign::<Sha512>(..)`: the digest type arguments of generic calls
  cond           `if let Some(c) = context` / `if`-guards in front of updates are listed as `cond` events with their condition

What gets hashed, and in which order, IS the specification of Ed25519 (RFC 8032 5.1.5-5.1.7, dom2), of batch verification's
transcript and of the hash-to-group / hash-to-scalar maps.  `Dalek/Model/HashTable.lean` holds the reviewed expected sequences;
`Props/C08/HashInputs.lean` proves that the regenerated inventory equals them.
"""
import rslex
import inventory
from inventory import is_p, render, encode_key

FILES = ['ed25519-dalek/src/signing.rs', 'ed25519-dalek/src/verifying.rs', 'ed25519-dalek/src/hazmat.rs',
         'ed25519-dalek/src/batch.rs', 'ed25519-dalek/src/context.rs',
         'curve25519-dalek/src/scalar.rs', 'curve25519-dalek/src/ristretto.rs', 'curve25519-dalek/src/edwards.rs',
         'x25519-dalek/src/x25519.rs']

UPDATES = ('update', 'chain_update')
APPENDS = ('append_message', 'append_u64')
FINALS = ('finalize', 'finalize_xof', 'build_rng', 'rekey_with_witness_bytes', 'finalize_reset', 'finalize_fixed')
FROMS = ('from_hash', 'hash_from_bytes', 'from_bytes_mod_order_wide', 'from_uniform_bytes', 'hash_to_curve')
DIGESTS = ('CtxDigest', 'MsgDigest', 'Sha512', 'D', 'Transcript', 'Sha256')


def events_of_fn(fs, fi):
    toks = fi.toks
    a, b = fi.body
    ev = []
    rel = fs.sf.relname
    for i in range(a + 1, b - 1):
        if fs.owner[i] != fi.name or fs.attr[i]:
            continue
        t = toks[i]
        if t[0] != 'id':
            continue
        x = t[1]
        nxt = toks[i + 1]
        prv = toks[i - 1]
        if is_p(prv, '.') and is_p(nxt, '(') and x in UPDATES + APPENDS + FINALS:
            k = rslex.match_delim(toks, i + 1)
            kind = 'update' if x in UPDATES else ('append' if x in APPENDS else 'finalize')
            ev.append((toks[i][2], kind, x + render(toks, i + 1, k)))
        elif x in FROMS and (is_p(nxt, '(') or is_p(nxt, '::')):
            j = i + 1
            if is_p(toks[j], '::'):      # turbofish
                j += 1
                if is_p(toks[j], '<'):
                    d = 0
                    while True:
                        if is_p(toks[j], '<'):
                            d += 1
                        elif is_p(toks[j], '>'):
                            d -= 1
                            if d == 0:
                                break
                        j += 1
                    j += 1
            if is_p(toks[j], '('):
                k = rslex.match_delim(toks, j)
                ev.append((toks[i][2], 'from_hash', x + render(toks, j, k)))
        elif x in ('new', 'default') and is_p(prv, '::') and is_p(nxt, '(') and toks[i - 2][0] == 'id' and toks[i - 2][1] in DIGESTS:
            k = rslex.match_delim(toks, i + 1)
            ev.append((toks[i][2], 'new', toks[i - 2][1] + '::' + x + render(toks, i + 1, k)))
    # digest type arguments handed down through turbofish calls (`recompute_R::<CtxDigest>(..)`, `raw_sign::<Sha512>(..)`): WHICH hash a
    # generic helper is instantiated with is part of the specification as much as what it absorbs
    for i in range(a + 1, b - 1):
        if fs.owner[i] != fi.name or fs.attr[i]:
            continue
        if toks[i][0] == 'id' and is_p(toks[i + 1], '::') and is_p(toks[i + 2], '<') and toks[i][1] not in ('Digest', 'Output'):
            j, d, args = i + 2, 0, []
            while j < b:
                if is_p(toks[j], '<'):
                    d += 1
                elif is_p(toks[j], '>'):
                    d -= 1
                    if d == 0:
                        break
                elif is_p(toks[j], '>>'):
                    d -= 2
                    if d <= 0:
                        break
                args.append(toks[j])
                j += 1
            if any(t[0] == 'id' and t[1] in DIGESTS for t in args) and j + 1 < b and is_p(toks[j + 1], '('):
                ev.append((toks[i][2], 'digest_arg', toks[i][1] + render(toks, i + 1, j + 1)))
    if not any(k in ('update', 'append', 'digest_arg') for _, k, _ in ev):
        return []
    # conditions guarding updates: `if`/`if let` whose block contains an update
    conds = []
    for i in range(a + 1, b - 1):
        if fs.owner[i] != fi.name or fs.attr[i]:
            continue
        if toks[i][0] == 'id' and toks[i][1] == 'if':
            e = rslex._find_at_depth0(toks, i + 1, b - 1, ('{',))
            k = rslex.match_delim(toks, e)
            inner = [q for q in range(e, k) if toks[q][0] == 'id' and toks[q][1] in UPDATES + APPENDS and is_p(toks[q - 1], '.')]
            if inner:
                conds.append((toks[i][2], 'cond', 'if ' + render(toks, i + 1, e) + ' { %d update(s) }' % len(inner)))
    out = sorted(ev + conds, key=lambda z: z[0])
    return [{'file': rel, 'line': ln, 'func': fi.name, 'kind': k, 'text': tx} for ln, k, tx in out]


def hash_events(scans):
    out = []
    for fs in scans:
        if fs.sf.relname not in FILES:
            continue
        for fi in fs.fns:
            out.extend(events_of_fn(fs, fi))
    # position of each event inside its function
    pos = {}
    for e in out:
        kk = (e['file'], e['func'])
        e['pos'] = pos.get(kk, 0)
        pos[kk] = e['pos'] + 1
        e['key'] = encode_key(e['file'], e['func'], e['kind'], e['text'])
    return out


def emit_lean(header, evs):
    lstr = inventory.lstr
    o = [header,
         '/-! Hash / transcript input sequences of the signing, verifying, batch and hash-to-group code.\n'
         'See `/verif/tools/rs2lean/hashinv.py`. -/\n',
         'namespace Dalek.Gen.HashInventory\n',
         '/-- one hash-relevant call: `pos` = position inside the function (program order); `key` = injective numeric encoding of\n'
         '`(file, func, kind, text)` -/',
         'structure HashEvent where\n  file : String\n  line : Nat\n  func : String\n  kind : String\n  text : String\n'
         '  pos : Nat\n  key : Nat\n',
         'def hashEvents : List HashEvent := [',
         ',\n'.join('  ⟨%s, %d, %s, %s,\n   %s, %d, 0x%x⟩'
                    % (lstr(e['file']), e['line'], lstr(e['func']), lstr(e['kind']), lstr(e['text']), e['pos'], e['key'])
                    for e in evs) + ']\n',
         '/-- `(position, key)` pairs in source order: what the classification theorem compares -/',
         'def hashKeys : List (Nat × Nat) := hashEvents.map (fun e => (e.pos, e.key))\n',
         'end Dalek.Gen.HashInventory\n']
    return '\n'.join(o)


def generate(scans, outdir, header, write_if_changed):
    import os
    evs = hash_events(scans)
    p = os.path.join(outdir, 'HashInventory.lean')
    written = []
    if write_if_changed(p, emit_lean(header, evs)):
        written.append(p)
    return evs, written


if __name__ == '__main__':
    import sys
    sys.path.insert(0, '.')
    import rs2lean
    srcs = rs2lean.Sources('/repo')
    inv = inventory.collect('/repo', srcs)
    cur = None
    for e in hash_events(inv['scans']):
        if (e['file'], e['func']) != cur:
            cur = (e['file'], e['func'])
            print('-- %s  %s' % cur)
        print('   %3d %-9s %s' % (e['line'], e['kind'], e['text']))

"""selfcheck for the kernel-call programs (Dalek/Gen/K*Edwards.lean): every KProg is interpreted with the
phase-3 kernel interpreters (checked semantics) on random inputs inside the documented bounds, the lanes are
decoded to field values with the phase-3 lane layouts, and the result is compared, lane by lane, with the
phase-4 scalarised AlgIR item run mod p on the decoded inputs."""
import os
import random
import re

import selfcheck as sc
import selfcheck_vec as sv
import selfcheck_alg as sa

P = sc.P


def parse_k_module(path):
    with open(path, 'r', encoding='utf-8') as f:
        text = f.read()
    text = re.sub(r'/--.*?-/', '', text, flags=re.S)
    text = re.sub(r'/-!.*?-/', '', text, flags=re.S)
    progs = {}
    for m in re.finditer(r'^def (\w+) : KProg where\n  nIn := (\d+)\n  body := (\[\]|\[\n.*?\n  \])\n  outs := \[([^\]]*)\]',
                         text, flags=re.S | re.M):
        body = []
        for line in m.group(3).split('\n'):
            line = line.strip().rstrip(',')
            if not line.startswith('⟨'):
                continue
            sm = re.match(r'^⟨([\w.]+), \[(.*)\]⟩$', line)
            if not sm:
                raise ValueError('cannot parse K statement %r' % line[:80])
            args = []
            for am in re.finditer(r'\.var (\d+)|\.lit \[([^\]]*)\]', sm.group(2)):
                if am.group(1) is not None:
                    args.append(('var', int(am.group(1))))
                else:
                    args.append(('lit', [int(x) for x in am.group(2).split(',') if x.strip()]))
            body.append((sm.group(1).split('.')[-1], args))
        progs[m.group(1)] = (int(m.group(2)), body, [int(x) for x in m.group(4).split(',') if x.strip()])
    return progs


class KRun(object):
    def __init__(self, gen, limbmod):
        self.progs = sc.parse_lean_module(os.path.join(gen, limbmod + '.lean'))
        self.cache = {}

    def kernel(self, name):
        if name not in self.cache:
            if name.startswith('litCopy'):
                self.cache[name] = lambda ins: list(ins)
            else:
                self.cache[name] = sc.compile_prog(self.progs[name], True)
        return self.cache[name]

    def run(self, kprog, ins):
        nin, body, outs = kprog
        if len(ins) != nin:
            raise ValueError('arity')
        env = [list(x) for x in ins]
        for k, args in body:
            a = []
            for t in args:
                a += env[t[1]] if t[0] == 'var' else t[1]
            o = self.kernel(k)(a)
            if o is None:
                return None, k
            env.append(o)
        return [env[i] for i in outs], None


def run_k(gen, n, seed, only):
    fails = 0
    for kmod, amod, limbmod, words in (('KAvx2Edwards', 'AlgAvx2Edwards', 'Avx2Field', 40),
                                       ('KIfmaEdwards', 'AlgIfmaEdwards', 'IfmaField', 20)):
        kp = os.path.join(gen, kmod + '.lean')
        ap = os.path.join(gen, amod + '.lean')
        if not (os.path.exists(kp) and os.path.exists(ap)):
            print('%s / %s missing' % (kmod, amod))
            fails += 1
            continue
        kprogs = parse_k_module(kp)
        names, aprogs = sa.parse_alg_module(ap)
        consts = sa.load_consts(gen, names)
        kr = KRun(gen, limbmod)
        rng = random.Random('k.%s.%d' % (kmod, seed))
        print('--- %s (kernel-call programs run on %s kernels, decoded and compared with %s mod p)' % (kmod, limbmod, amod))

        def dec_vec(v):
            return [x % P for x in (sv.decode(v) if words == 40 else sv.idecode(v))]

        def rand_ext():
            if words == 40:
                return sv.rand_vec(rng, 0.007)
            return [sc.rnd_limb(rng, 2 ** 51 + 2 ** 13) for _ in range(20)]

        def rand_cached():
            c, bad = kr.run(kprogs['CachedPoint_from_ExtendedPoint'], [rand_ext()])
            if c is None:
                raise RuntimeError('CachedPoint_from_ExtendedPoint: kernel %s panicked while generating inputs' % bad)
            c = c[0]
            if rng.random() < 0.3:
                c2, bad = kr.run(kprogs['CachedPoint_neg'], [c])
                if c2 is None:
                    raise RuntimeError('CachedPoint_neg: kernel %s panicked while generating inputs' % bad)
                c = c2[0]
            return c

        def rand_fe():
            return [sc.rnd_limb(rng, 2 ** 52) for _ in range(5)]
        gens = {
            'ExtendedPoint_from_EdwardsPoint': lambda: [rand_fe() for _ in range(4)],
            'EdwardsPoint_from_ExtendedPoint': lambda: [rand_ext()],
            'CachedPoint_from_ExtendedPoint': lambda: [rand_ext()],
            'ExtendedPoint_double': lambda: [rand_ext()],
            'ExtendedPoint_mul_by_pow_2_body': lambda: [rand_ext()],
            'ExtendedPoint_add_CachedPoint': lambda: [rand_ext(), rand_cached()],
            'ExtendedPoint_sub_CachedPoint': lambda: [rand_ext(), rand_cached()],
            'CachedPoint_neg': lambda: [rand_cached()],
            'ExtendedPoint_identity': lambda: [],
            'CachedPoint_identity': lambda: [],
            'ExtendedPoint_conditional_select': lambda: [rand_ext(), rand_ext(), [rng.randrange(2)]],
            'ExtendedPoint_conditional_assign': lambda: [rand_ext(), rand_ext(), [rng.randrange(2)]],
            'CachedPoint_conditional_select': lambda: [rand_cached(), rand_cached(), [rng.randrange(2)]],
            'CachedPoint_conditional_assign': lambda: [rand_cached(), rand_cached(), [rng.randrange(2)]],
        }
        for item in kprogs:
            key = '%s.%s' % (kmod, item)
            if only and key not in only:
                continue
            if item not in aprogs or item not in gens:
                print('%-48s no AlgIR counterpart / generator' % key)
                fails += 1
                continue
            kprog = kprogs[item]
            cnt = n if kprog[0] else 1
            fail = None
            tested = 0
            for _ in range(cnt):
                ins = gens[item]()
                out, bad = kr.run(kprog, ins)
                tested += 1
                if out is None:
                    fail = 'kernel %s: evalC = none on an in-bounds input' % bad
                    break
                a_in = []
                for v in ins:
                    if len(v) == words:
                        a_in += dec_vec(v)
                    elif len(v) == 5:
                        a_in.append(sc.val51(v) % P)
                    elif len(v) == 1:
                        a_in.append(v[0])
                    else:
                        fail = 'unexpected input width %d' % len(v)
                want = sa.run_aprog(aprogs[item], consts, a_in)
                got = []
                for v in out:
                    if len(v) == words:
                        got += dec_vec(v)
                    elif len(v) == 20 and words == 40:
                        got += [sc.val51(v[5 * e:5 * e + 5]) % P for e in range(4)]
                    else:
                        fail = 'unexpected output width %d' % len(v)
                # an IFMA split value is also 20 words: distinguish by the last kernel
                if words == 20 and kprog[1] and kprog[1][-1][0] == 'split':
                    got = [sc.val51(out[0][5 * e:5 * e + 5]) % P for e in range(4)]
                if fail:
                    break
                if got != want:
                    fail = 'decoded result %r differs from the AlgIR item %r' % (got, want)
                    break
            nst = len(kprog[1])
            if fail:
                fails += 1
                print('%-48s %3d in %3d calls %6d  FAIL: %s' % (key, kprog[0], nst, tested, fail[:300]))
            else:
                print('%-48s %3d in %3d calls %6d  ok' % (key, kprog[0], nst, tested))
    return fails

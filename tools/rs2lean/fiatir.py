"""fiatir: LimbIR translation of the fiat wrapper backends (`backend/serial/fiat_u64|fiat_u32/field.rs`).

The wrapper methods are translated with the called `fiat_crypto::curve25519_{64,32}` functions INLINED (their source is
read from the cargo registry copy pinned by /repo/Cargo.lock), so each generated program is the complete integer
kernel a fiat build executes for that method.

On top of `limbir.Translator` this adds
  * `&mut` references to scalars (`&mut x1`, `&mut out[0]`, `*out1 = ..`), used by every fiat out-parameter;
  * type aliases (`fiat_25519_u1 = u8`), glob-imported free functions of the fiat crate file;
  * `Choice::unwrap_u8`, `copy_from_slice`, `u64::conditional_swap`, `*self = ..`;
  * TWO IDIOMS for helper functions of the fiat crate that are written with signed casts (outside LimbIR):
      fiat_25519_subborrowx_uK(out1, out2, b, x, y)  ->  d = wsub_W(wsub_W(x, b), y); out1 = d & (2^K-1); out2 = d >> (W-1)
      fiat_25519_cmovznz_uW(out, c, z, nz)           ->  out = sel(c, z, nz)
    The body of the helper in the source is compared token-for-token with the template these meanings were derived from
    (any other text is a translation failure).  The idioms agree with the Rust code on the domain
      -2^K <= x - b - y < 2^K   (borrow = sign bit)            and    c in {0,1};
    the second is re-established by the verified analyser at every use (`sel` needs cond < 2), the first is translator
    knowledge, validated (like the translator as a whole) by the limb-exact differential on the fiat drivers.
"""
import re

import limbir
import rsparse
from limbir import (Int, Arr, Struct, Tup, Slice, ElemRef, Opaque, ChoiceV, TransErr, INT_W, UNIT,
                    VarPlace, ElemPlace, FieldPlace)


class PlaceRef(object):
    """`&mut` reference to a scalar place."""
    __slots__ = ('pl',)

    def __init__(self, pl):
        self.pl = pl


def _norm_tokens(item):
    """token text of a fn item from the first `{` of its body, whitespace/comment free."""
    a, b = item.body if item.body is not None else (item.start, item.end)
    toks = [t[1] for t in item.toks[a:b]]
    i = toks.index('{')
    return ' '.join(str(x) for x in toks[i:])


_SUBBORROW_T = ("{ let x1 : %(SW)s = ( ( ( ( ( ( arg2 as %(WW)s ) - ( arg1 as %(WW)s ) ) as %(SW)s ) as %(WW)s ) - "
                "( arg3 as %(WW)s ) ) as %(SW)s ) ; let x2 : fiat_25519_i1 = ( ( x1 >> %(K)d ) as fiat_25519_i1 ) ; "
                "let x3 : %(UW)s = ( ( ( x1 as %(WW)s ) & ( %(MASK)s as %(WW)s ) ) as %(UW)s ) ; * out1 = x3 ; "
                "* out2 = ( ( ( 0x0 as fiat_25519_i2 ) - ( x2 as fiat_25519_i2 ) ) as fiat_25519_u1 ) ; }")
_CMOV_T = ("{ let x1 : fiat_25519_u1 = ( ! ( ! arg1 ) ) ; let x2 : %(UW)s = ( ( ( ( ( ( 0x0 as fiat_25519_i2 ) - "
           "( x1 as fiat_25519_i2 ) ) as fiat_25519_i1 ) as %(WW)s ) & ( %(ONES)s as %(WW)s ) ) as %(UW)s ) ; "
           "let x3 : %(UW)s = ( ( x2 & arg3 ) | ( ( ! x2 ) & arg2 ) ) ; * out1 = x3 ; }")


def _tok_canon(s):
    """canonical spelling of integer literals inside a token string (0x.. -> decimal)."""
    def f(m):
        return str(int(m.group(0), 16))
    return re.sub(r'0x[0-9a-fA-F_]+', f, s)


class FiatTranslator(limbir.Translator):
    def __init__(self, mctx, spec, self_type, fiat_file):
        limbir.Translator.__init__(self, mctx, spec, self_type)
        self.fiat = fiat_file
        self.aliases = {}
        for f in mctx.files:
            toks = f.toks if hasattr(f, 'toks') else None
            for it in f.items:
                if it.kind == 'type':
                    self._alias_of(it)
        self.idioms_used = []

    def translate(self, item, imp, file):
        self.pending_asserts = []
        decl = self.parse_fn(item)
        if decl.ret is None and decl.self_kind is None:
            return self.translate_mut_params(decl, item, imp, file)
        return limbir.Translator.translate(self, item, imp, file)

    def translate_mut_params(self, decl, item, imp, file):
        """a function without receiver and return value (`conditional_swap(a: &mut Self, b: &mut Self, choice)`): the outputs
        are its `&mut` parameters, in declaration order"""
        fenv = self.m.file_env(file)
        self_ty = imp.self_ty if imp is not None else None
        env0 = limbir.Env(fenv, barrier=True, self_ty=self_ty)
        ln = item.line
        args, outs_v = [], []
        for pat, ty in decl.params:
            v = self.make_input(ty, env0, ln)
            args.append(v)
            if ty[0] == 'tref' and ty[2]:
                outs_v.append(v)
        if not outs_v:
            raise TransErr('function has neither a return value nor &mut parameters', ln)
        self.call_decl(decl, item, None, args, fenv, self_ty, ln)
        flat = []
        for v in outs_v:
            self.flatten_value(v, flat, ln)
        outs = []
        for x in flat:
            if x.ty is None or x.ty == 'usize':
                raise TransErr('output of untyped/usize kind', ln)
            if x.e[0] != 'v':
                x = Int(self.b.emit_set(x.e), x.ty)
            outs.append(x.e)
        nin, body, outs = self.b.finalize(outs)
        nin, body, outs = self.post_process(nin, body, outs)
        return nin, body, outs, [x.ty for x in flat]

    def make_input(self, ty, env, line):
        t = ty
        while t[0] == 'tref':
            t = t[3]
        if t[0] == 'tpath' and self.ty_name(t, env) == 'Choice':
            x = Int(self.b.new_input(), 'u8')
            self.pending_asserts.append((x.e, 2))
            return ChoiceV(x)
        return limbir.Translator.make_input(self, ty, env, line)

    # -- type aliases --------------------------------------------------------------------------
    def _alias_of(self, it):
        t = [x[1] for x in it.toks[it.start:it.end]]
        # [pub] type NAME = PRIM ;
        if 'type' in t:
            i = t.index('type')
            if len(t) >= i + 5 and t[i + 2] == '=' and t[i + 4] == ';':
                self.aliases[t[i + 1]] = t[i + 3]

    def ty_name(self, ty, env):
        n = limbir.Translator.ty_name(self, ty, env)
        return self.aliases.get(n, n)

    def cast(self, x, ty, line):
        return limbir.Translator.cast(self, x, self.aliases.get(ty, ty), line)

    # -- references to scalars -----------------------------------------------------------------
    def ev_ref(self, e, env):
        if e[2]:   # &mut
            inner = e[3]
            while inner[0] == 'paren':
                inner = inner[2]
            if inner[0] in ('path', 'index', 'field'):
                try:
                    v = self.eval(inner, env)
                except TransErr:
                    v = None
                if isinstance(v, Int):
                    return PlaceRef(self.place(inner, env))
        return limbir.Translator.ev_ref(self, e, env)

    def ev_deref(self, e, env):
        v = self.eval(e[2], env)
        if isinstance(v, PlaceRef):
            return v.pl.get()
        if isinstance(v, ElemRef):
            return v.arr.el[v.i]
        return v

    def place(self, e, env):
        if e[0] == 'deref':
            v = self.eval(e[2], env)
            if isinstance(v, PlaceRef):
                return v.pl
            if isinstance(v, Struct):
                return _StructPlace(v)
        return limbir.Translator.place(self, e, env)

    def store(self, pl, v, env, line):
        if isinstance(pl, _StructPlace):
            v = self.materialize(v)
            if not isinstance(v, Struct) or v.name != pl.st.name:
                raise TransErr('assignment through *self of a different type', line)
            pl.set(v)
            return
        limbir.Translator.store(self, pl, v, env, line)

    def call_decl(self, decl, item, self_val, args, defenv, self_ty, line):
        if self.depth == 0 and self.pending_asserts:
            for ee, n in self.pending_asserts:
                self.b.emit_assert(ee, n)
            self.pending_asserts = []
        # `&mut` parameters of scalar type: pass the place itself
        if any(isinstance(a, PlaceRef) for a in args):
            self.visit(item)
            env = limbir.Env(defenv, barrier=True, self_ty=self_ty)
            if decl.self_kind is not None or self_val is not None:
                raise TransErr('scalar &mut argument to a method', line)
            if len(args) != len(decl.params):
                raise TransErr('call of %s with %d arguments, expected %d' % (decl.name, len(args), len(decl.params)), line)
            for (pat, ty), a in zip(decl.params, args):
                if isinstance(a, PlaceRef):
                    if not (ty[0] == 'tref' and ty[2]):
                        raise TransErr('scalar place passed to a non-&mut parameter', line)
                    self.bind_pat(pat, a, env)
                elif ty[0] == 'tref' and ty[2]:
                    if not isinstance(a, (Arr, Struct)):
                        raise TransErr('&mut parameter of unsupported kind', line)
                    self.bind_pat(pat, self.coerce(a, ty, env, line), env)
                else:
                    self.bind_pat(pat, self.coerce(self.materialize(a), ty, env, line), env)
            self.depth += 1
            try:
                try:
                    r = self.eval_block(decl.body, env, new_scope=False)
                except limbir.ReturnEx as ex:
                    r = ex.value
            finally:
                self.depth -= 1
            if decl.ret is not None:
                r = self.coerce(r, decl.ret, env, line)
            return r
        return limbir.Translator.call_decl(self, decl, item, self_val, args, defenv, self_ty, line)

    # -- calls ---------------------------------------------------------------------------------
    def fiat_fn(self, name):
        for it in self.fiat.items:
            if it.kind == 'fn' and it.name == name and not it.is_test:
                return it
        return None

    def ev_call(self, e, env):
        ln = e[1]
        f = e[2]
        if f[0] == 'path' and not f[3]:
            segs = f[2]
            if len(segs) == 1 and env.find_var_env(segs[0]) is None and segs[0] not in self.m.structs \
                    and segs[0] != 'Self' and (env.find_item(segs[0])[0] is None
                                               or re.match(r'fiat_25519_(subborrowx|cmovznz)_u\d+$', segs[0])):
                it = self.fiat_fn(segs[0])
                if it is not None:
                    args = [self.eval(a, env) for a in e[3]]
                    m = re.match(r'fiat_25519_(subborrowx|cmovznz)_u(\d+)$', it.name)
                    if m:
                        return self.idiom(m.group(1), int(m.group(2)), it, args, ln)
                    decl = self.parse_fn(it)
                    return self.call_decl(decl, it, None, args, self.m.file_env(self.fiat), None, ln)
            if len(segs) == 2 and segs[0] in ('u64', 'u32') and segs[1] == 'conditional_swap':
                args = [self.eval(a, env) for a in e[3]]
                if len(args) != 3 or not isinstance(args[0], PlaceRef) or not isinstance(args[1], PlaceRef) \
                        or not isinstance(args[2], ChoiceV):
                    raise TransErr('conditional_swap: expected (&mut int, &mut int, Choice)', ln)
                a = self.typed(args[0].pl.get(), segs[0], ln)
                b = self.typed(args[1].pl.get(), segs[0], ln)
                c = args[2].x.e
                na = self.materialize(Int(('sel', c, a.e, b.e), segs[0]))
                nb = self.materialize(Int(('sel', c, b.e, a.e), segs[0]))
                args[0].pl.set(na)
                args[1].pl.set(nb)
                return UNIT
        return limbir.Translator.ev_call(self, e, env)

    def idiom(self, kind, k, it, args, ln):
        body = _tok_canon(_norm_tokens(it))
        if kind == 'subborrowx':
            W = 64 if k > 32 else 32
            par = dict(SW='i%d' % W, WW='i%d' % (2 * W), UW='u%d' % W, K=k, MASK=str((1 << k) - 1))
            want = _tok_canon(_SUBBORROW_T % par)
            if body != want:
                raise TransErr('body of %s differs from the template its idiom was derived from' % it.name, ln)
            if len(args) != 5 or not isinstance(args[0], PlaceRef) or not isinstance(args[1], PlaceRef):
                raise TransErr('%s: unexpected arguments' % it.name, ln)
            uw = 'u%d' % W
            b = self.typed(self.materialize(args[2]), 'u8', ln)
            x = self.typed(self.materialize(args[3]), uw, ln)
            y = self.typed(self.materialize(args[4]), uw, ln)
            bw = b.e if b.e[0] == 'c' else ('cast', W, b.e)
            d = self.materialize(Int(('wsub', W, ('wsub', W, x.e, bw), y.e), uw))
            o1 = self.materialize(Int(('band', d.e, ('c', (1 << k) - 1)), uw))
            o2 = self.materialize(Int(('cast', 8, ('shr', d.e, W - 1)), 'u8'))
            args[0].pl.set(o1)
            args[1].pl.set(o2)
        else:
            W = k
            par = dict(WW='i%d' % (2 * W), UW='u%d' % W, ONES=str((1 << W) - 1))
            want = _tok_canon(_CMOV_T % par)
            if body != want:
                raise TransErr('body of %s differs from the template its idiom was derived from' % it.name, ln)
            if len(args) != 4 or not isinstance(args[0], PlaceRef):
                raise TransErr('%s: unexpected arguments' % it.name, ln)
            uw = 'u%d' % W
            c = self.typed(self.materialize(args[1]), 'u8', ln)
            z = self.typed(self.materialize(args[2]), uw, ln)
            nz = self.typed(self.materialize(args[3]), uw, ln)
            if c.e[0] == 'c':
                if c.e[1] >= 2:
                    raise TransErr('cmovznz with constant condition >= 2', ln)
                r = z if c.e[1] == 0 else nz
            elif z.e[0] == 'c' and nz.e[0] == 'c':
                # a select between two constants stays symbolic so that a following `& constant` folds into the
                # branches (`binop` below): `cmovznz(b, 0, 0xff..f) & k` is `sel b 0 k`, not an opaque bit operation
                r = Int(('sel', c.e, z.e, nz.e), uw)
            else:
                r = self.materialize(Int(('sel', c.e, z.e, nz.e), uw))
            args[0].pl.set(r)
        self.visit(it)
        tag = '%s_u%d' % (kind, k)
        if tag not in self.idioms_used:
            self.idioms_used.append(tag)
            self.notes.append('idiom %s: helper body matched its template; meaning valid on the domain stated in fiatir.py'
                              % tag)
        return UNIT

    def binop(self, op, a, b, line):
        # (sel c k0 k1) & k  =  sel c (k0 & k) (k1 & k)   for constants k0, k1, k
        if op == '&' and isinstance(a, Int) and isinstance(b, Int):
            for x, y in ((a, b), (b, a)):
                if x.e[0] == 'sel' and x.e[2][0] == 'c' and x.e[3][0] == 'c' and y.e[0] == 'c':
                    ty = x.ty if x.ty is not None else y.ty
                    return Int(('sel', x.e[1], ('c', x.e[2][1] & y.e[1]), ('c', x.e[3][1] & y.e[1])), ty)
        return limbir.Translator.binop(self, op, a, b, line)

    def ev_mcall(self, e, env):
        ln = e[1]
        name = e[3]
        if name == 'unwrap_u8' and not e[4]:
            recv = self.eval(e[2], env)
            if isinstance(recv, ChoiceV):
                return Int(recv.x.e, 'u8')
        if name == 'copy_from_slice' and len(e[4]) == 1:
            recv = self.eval(e[2], env)
            src = self.eval(e[4][0], env)
            if isinstance(recv, Arr) and isinstance(src, Arr) and len(recv.el) == len(src.el):
                for i in range(len(src.el)):
                    recv.el[i] = self.materialize(src.el[i])
                return UNIT
            raise TransErr('copy_from_slice on unsupported values', ln)
        return limbir.Translator.ev_mcall(self, e, env)


class _StructPlace(object):
    """`*self` where self is a struct container: assignment replaces the fields in place."""

    def __init__(self, st):
        self.st = st

    def get(self):
        return self.st

    def set(self, v):
        for k in list(self.st.f.keys()):
            self.st.f[k] = v.f[k]

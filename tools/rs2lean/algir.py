"""Symbolic evaluator: Rust AST (rsparse) -> AlgIR straight-line program over abstract field operations.

Field elements and Choices are SSA variables; everything byte-level is an opaque `Bytes` value that only
remembers which field-level variables flowed into it (in order).  `FieldElement::from_bytes(<bytes>)` and
`Choice::from(<bytes>)` create fresh inputs; field values that flow into bytes (`as_bytes`, `unwrap_u8`)
become outputs when the bytes are returned.

Statements: (op, param, [arg vars]) with op in
  add sub mul neg square square2 pow2k const ctEq isNeg isZero cand cor cxor cnot csel copy
"""
import rslex
import rsparse
from rsparse import ParseError
from limbir import TransErr, Env, ReturnEx, VarPlace, FieldPlace

FE_TYPE = 'FieldElement'


class AVar(object):
    __slots__ = ('kind', 'idx', 'sort')

    def __init__(self, kind, idx, sort):
        self.kind = kind    # 'in' | 'st'
        self.idx = idx
        self.sort = sort    # 'fe' | 'ch'


class Val(object):
    """a field element or a choice"""
    __slots__ = ('v',)

    def __init__(self, v):
        self.v = v

    @property
    def sort(self):
        return self.v.sort


class Bytes(object):
    """opaque byte-level value; deps = field-level variables it was computed from"""
    __slots__ = ('deps',)

    def __init__(self, deps=()):
        self.deps = tuple(deps)


class IntC(object):
    __slots__ = ('n',)

    def __init__(self, n):
        self.n = n


class Struct(object):
    __slots__ = ('name', 'f')

    def __init__(self, name, f):
        self.name = name
        self.f = f


class Tup(object):
    __slots__ = ('el',)

    def __init__(self, el):
        self.el = el


class Closure(object):
    __slots__ = ('params', 'ret', 'body', 'env')

    def __init__(self, params, ret, body, env):
        self.params = params
        self.ret = ret
        self.body = body
        self.env = env


class Uninit(object):
    pass


class V4(object):
    """a vector of four field elements (lanes A, B, C, D) of one of the vector field types"""
    __slots__ = ('kind', 'l')

    def __init__(self, kind, lanes):
        self.kind = kind
        self.l = lanes      # 4 Val (sort fe)


class EnumV(object):
    __slots__ = ('enum', 'variant')

    def __init__(self, enum, variant):
        self.enum = enum
        self.variant = variant


LANE_NAMES = 'ABCD'


UNIT = Tup([])


def merge_deps(*vals):
    out = []
    seen = set()
    for v in vals:
        if isinstance(v, Bytes):
            for d in v.deps:
                if id(d) not in seen:
                    seen.add(id(d))
                    out.append(d)
    return tuple(out)


class ABuilder(object):
    def __init__(self):
        self.inputs = []    # (AVar, name)
        self.stmts = []     # (op, param, [AVar])

    def new_input(self, sort, name):
        v = AVar('in', len(self.inputs), sort)
        self.inputs.append((v, name))
        return v

    def emit(self, op, param, args, sort):
        v = AVar('st', len(self.stmts), sort)
        self.stmts.append((op, param, list(args)))
        return v

    def finalize(self, outs):
        nin = len(self.inputs)

        def ix(v):
            return v.idx if v.kind == 'in' else nin + v.idx
        body = [(op, param, [ix(a) for a in args]) for op, param, args in self.stmts]
        return nin, body, [ix(o) for o in outs]


# ---------------------------------------------------------------------------------------------

class AlgCtx(object):
    """source files of one AlgIR module (priority order) + struct / method lookup."""

    def __init__(self, files, const_names):
        self.files = files
        self.const_names = const_names
        self.const_index = dict((n, i) for i, n in enumerate(const_names))
        self._file_env = {}
        self._imports = {}
        self.extra_items = []       # nested items (struct / impl) made visible by the root selector
        # vector (parallel formulas) support; empty for the serial modules
        self.vec_kinds = {}         # vector field type name -> 'unreduced' | 'reduced'
        self.vec_enums = {}         # 'Shuffle' / 'Lanes' -> list of variants (from the backend's field.rs)
        self.vec_const = None       # callable(name) -> (struct type name, [A, B, C, D] lane values mod p)
        self.ext_consts = []        # extension entries of the constant table ('u32:<n>' / 'int:<n>')

    def file_env(self, f):
        env = self._file_env.get(f.relname)
        if env is None:
            env = Env(None, barrier=True, file=f)
            for it in f.walk():
                if it.kind == 'fn' and (it.parent is None or it.parent.kind == 'mod'):
                    env.items.setdefault(it.name, ('fnitem', it))
            self._file_env[f.relname] = env
        return env

    def imports(self, f):
        r = self._imports.get(f.relname)
        if r is None:
            r = rslex.use_imports(f)
            self._imports[f.relname] = r
        return r

    def all_items(self):
        for it in self.extra_items:
            yield it, None
        for f in self.files:
            for it in f.walk():
                yield it, f

    def find_struct(self, name, field_names=None):
        for it, f in self.all_items():
            if it.kind == 'struct' and it.name == name:
                if field_names is None:
                    return it
                fs = [n for n, _ in rslex.struct_fields(it)]
                if sorted(fs) == sorted(field_names):
                    return it
        return None

    def find_methods(self, ty_name, member, all_groups=False):
        """candidate (fn item, impl item) for `ty_name::member`: the first source (nested items,
        then files in priority order) that has any; with all_groups the list of all such groups."""
        groups = []
        cur_key = None
        for it, f in self.all_items():
            if it.kind != 'impl' or it.self_ty != ty_name:
                continue
            key = f.relname if f is not None else '<nested>'
            for ch in it.children:
                if ch.kind == 'fn' and ch.name == member and not ch.is_test:
                    if key != cur_key:
                        groups.append([])
                        cur_key = key
                    groups[-1].append((ch, it))
        if all_groups:
            return groups
        return groups[0] if groups else []


class AlgSpec(object):
    def __init__(self, name, fn, container=None, trait=None, trait_arg=None, self_ref=None, nested_in=None,
                 closure=False, note=None, expect=None, loop_once=False, same_as=None):
        self.name = name
        self.fn = fn
        self.container = container      # impl self type / mod name / None (file level)
        self.trait = trait              # None = inherent impl (or not an impl member)
        self.trait_arg = trait_arg
        self.self_ref = self_ref
        self.nested_in = nested_in      # (container, fn) whose body declares the item
        self.closure = closure          # select the typed closure inside fn
        self.note = note
        self.expect = expect
        self.loop_once = loop_once      # translate one iteration of the (only) run-time loop
        self.same_as = same_as


class AlgTranslator(object):
    def __init__(self, ctx, spec):
        self.c = ctx
        self.spec = spec
        self.b = ABuilder()
        self.visited = []
        self.visited_ids = set()
        self.depth = 0
        self.notes = []
        self.guards = []        # (AVar, description)
        self.consts_used = []

    def visit(self, item):
        if item is not None and id(item) not in self.visited_ids:
            self.visited_ids.add(id(item))
            self.visited.append(item)

    def note(self, s):
        if s not in self.notes:
            self.notes.append(s)

    # -- classification of types ---------------------------------------------------------------
    def type_name(self, ty, env):
        while ty[0] == 'tref':
            ty = ty[3]
        if ty[0] == 'tpath' and len(ty[2]) >= 1:
            n = ty[2][-1]
            if n == 'Self':
                return env.get_self_ty()
            return n
        return None

    def make_input(self, ty, env, name, line, depth=0):
        """symbolic input of Rust type `ty`; non field-level types become opaque Bytes."""
        n = self.type_name(ty, env)
        if n == FE_TYPE:
            return Val(self.b.new_input('fe', name))
        if n == 'Choice':
            return Val(self.b.new_input('ch', name))
        if n in self.c.vec_kinds:
            return V4(n, [Val(self.b.new_input('fe', '%s.%s' % (name, LANE_NAMES[i]))) for i in range(4)])
        if n is not None and depth < 4:
            st = self.c.find_struct(n)
            if st is not None and self.is_field_level(st, env, 0):
                fields = {}
                for fname, (a, b) in rslex.struct_fields(st):
                    fty = rsparse.parse_type_range(st.toks, a, b, st.fname)
                    fields[fname] = self.make_input(fty, env, '%s.%s' % (name, fname), line, depth + 1)
                return Struct(n, fields)
        self.note('parameter/value `%s` is byte-level (opaque)' % name)
        return Bytes()

    def is_field_level(self, st, env, depth):
        if depth > 4:
            return False
        fs = rslex.struct_fields(st)
        if not fs:
            return False
        for fname, (a, b) in fs:
            try:
                fty = rsparse.parse_type_range(st.toks, a, b, st.fname)
            except ParseError:
                return False
            n = self.type_name(fty, env)
            if n in (FE_TYPE, 'Choice') or n in self.c.vec_kinds:
                continue
            sub = self.c.find_struct(n) if n else None
            if sub is None or not self.is_field_level(sub, env, depth + 1):
                return False
        return True

    def check_type(self, v, ty, env, line):
        """loose check of a value against a declared type (catches FE/Choice/struct confusion)."""
        if ty is None or ty[0] == 'tinfer':
            return
        n = self.type_name(ty, env)
        if ty[0] == 'ttuple' or (ty[0] == 'tref' and ty[3][0] == 'ttuple'):
            t = ty if ty[0] == 'ttuple' else ty[3]
            if not isinstance(v, Tup) or len(v.el) != len(t[2]):
                raise TransErr('expected a %d-tuple' % len(t[2]), line)
            for x, tt in zip(v.el, t[2]):
                self.check_type(x, tt, env, line)
            return
        if n in self.c.vec_kinds:
            if not (isinstance(v, V4) and v.kind == n):
                raise TransErr('expected a %s' % n, line)
        elif isinstance(v, V4):
            raise TransErr('vector value where type %s is expected' % (n,), line)
        elif n == FE_TYPE:
            if not (isinstance(v, Val) and v.sort == 'fe'):
                raise TransErr('expected a FieldElement', line)
        elif n == 'Choice' or n == 'bool':
            if not (isinstance(v, Val) and v.sort == 'ch'):
                raise TransErr('expected a Choice/bool', line)
        elif isinstance(v, Val):
            raise TransErr('field-level value where type %s is expected' % (n,), line)
        elif isinstance(v, Struct) and n is not None and n != v.name:
            raise TransErr('struct %s where type %s is expected' % (v.name, n), line)

    # -- small helpers -------------------------------------------------------------------------
    def op(self, name, args, sort, param=None):
        return Val(self.b.emit(name, param, [a.v for a in args], sort))

    def need(self, v, sort, line, what):
        if isinstance(v, Val) and v.sort == sort:
            return v
        raise TransErr('%s: expected a %s' % (what, 'FieldElement' if sort == 'fe' else 'Choice'), line)

    def const(self, path, line):
        i = self.c.const_index.get(path)
        if i is None and (path.startswith('u32:') or path.startswith('int:')):
            if path not in self.c.ext_consts:
                self.c.ext_consts.append(path)
            i = ('ext', path)
        if i is None:
            raise TransErr('`%s` is not a known field constant' % path, line)
        if path not in self.consts_used:
            self.consts_used.append(path)
        return self.op('const', [], 'fe', i)

    def copy_val(self, v):
        if isinstance(v, Struct):
            return Struct(v.name, dict((k, self.copy_val(x)) for k, x in v.f.items()))
        if isinstance(v, Tup):
            return Tup([self.copy_val(x) for x in v.el])
        if isinstance(v, V4):
            return self.vec_copy(v)
        return v

    def vec_copy(self, v):
        return V4(v.kind, list(v.l))

    def vec_zero(self, kind, ln):
        return V4(kind, [self.const('FieldElement::ZERO', ln) for _ in range(4)])

    def vec_const(self, name, sname, kind, vals, rows, ln):
        self.note('constants::%s: lane values %r (mod p) computed from its limb literals' % (name, vals))
        return Struct(sname, {'0': V4(kind, [self.int_const(x, ln) for x in vals])})

    def vec_neg(self, v, ln):
        return V4(v.kind, [self.op('neg', [x], 'fe') for x in v.l])

    def vec_binop(self, op, a, b, ln):
        if isinstance(b, V4):
            if op == '+' and a.kind == b.kind:
                return V4(a.kind, [self.op('add', [x, y], 'fe') for x, y in zip(a.l, b.l)])
            if op == '-' and a.kind == b.kind:
                return V4(a.kind, [self.op('sub', [x, y], 'fe') for x, y in zip(a.l, b.l)])
            if op == '*' and a.kind == b.kind:
                return V4(self.unreduced_kind(a.kind), [self.op('mul', [x, y], 'fe') for x, y in zip(a.l, b.l)])
        if op == '*' and isinstance(b, Tup) and len(b.el) == 4 and all(isinstance(x, IntC) for x in b.el):
            ks = [self.int_const(x.n, ln) for x in b.el]
            for x in b.el:
                if not 0 <= x.n < 2 ** 32:
                    raise TransErr('scalar constant does not fit u32', ln)
            return V4(self.unreduced_kind(a.kind), [self.op('mul', [x, k], 'fe') for x, k in zip(a.l, ks)])
        raise TransErr('operator %s on vector field values of these types' % op, ln)

    # -- vector field API at value level ---------------------------------------------------------
    def int_const(self, n, line):
        n %= (2 ** 255 - 19)
        if n == 0:
            return self.const('FieldElement::ZERO', line)
        if n == 1:
            return self.const('FieldElement::ONE', line)
        return self.const(('u32:%d' % n) if n < 2 ** 32 else ('int:%d' % n), line)

    def lanes_of(self, which, enum, line):
        if not isinstance(which, EnumV) or which.enum != enum:
            raise TransErr('expected a constant %s::<variant>' % enum, line)
        name = which.variant
        if enum == 'Shuffle':
            if len(name) != 4 or any(ch not in LANE_NAMES for ch in name):
                raise TransErr('shuffle pattern %s is not of the form XYZW' % name, line)
            return [LANE_NAMES.index(ch) for ch in name]
        if not name or any(ch not in LANE_NAMES for ch in name):
            raise TransErr('lane set %s is not a subset of ABCD' % name, line)
        return [LANE_NAMES.index(ch) for ch in name]

    def v4_method(self, recv, name, args, e, env, ln):
        k = recv.kind
        if name == 'shuffle':
            if len(args) != 1:
                raise TransErr('shuffle expects one argument', ln)
            idx = self.lanes_of(args[0], 'Shuffle', ln)
            return V4(k, [recv.l[i] for i in idx])
        if name == 'blend':
            if len(args) != 2 or not isinstance(args[0], V4) or args[0].kind != k:
                raise TransErr('blend expects (same vector type, Lanes)', ln)
            take = self.lanes_of(args[1], 'Lanes', ln)
            return V4(k, [args[0].l[i] if i in take else recv.l[i] for i in range(4)])
        if name in ('negate_lazy',) and not args:
            return V4(k, [self.op('neg', [x], 'fe') for x in recv.l])
        if name == 'diff_sum' and not args:
            a, b, c, d = recv.l
            return V4(k, [self.op('sub', [b, a], 'fe'), self.op('add', [a, b], 'fe'),
                          self.op('sub', [d, c], 'fe'), self.op('add', [c, d], 'fe')])
        if name == 'square' and not args:
            return V4(self.unreduced_kind(k), [self.op('square', [x], 'fe') for x in recv.l])
        if name == 'square_and_negate_D' and not args:
            sq = [self.op('square', [x], 'fe') for x in recv.l]
            sq[3] = self.op('neg', [sq[3]], 'fe')
            return V4(k, sq)
        if name == 'reduce' and not args:
            return V4(k, list(recv.l))
        if name == 'split' and not args:
            return Tup(list(recv.l))
        if name == 'into' and not args:
            return ('into', recv)
        if name == 'conditional_assign':
            if len(args) != 2 or not isinstance(args[0], V4) or args[0].kind != k:
                raise TransErr('conditional_assign expects (same vector type, Choice)', ln)
            c = self.need(args[1], 'ch', ln, 'conditional_assign')
            pl = self.place(e[2], env)
            pl.set(V4(k, [self.op('csel', [c, x, y], 'fe') for x, y in zip(recv.l, args[0].l)]))
            return UNIT
        raise TransErr('vector field method %s is outside the value-level API known to the translator' % name, ln)

    def unreduced_kind(self, k):
        # F51x4Reduced::square / mul give F51x4Unreduced; the AVX2 type has a single kind
        for n, r in self.c.vec_kinds.items():
            if r == 'unreduced':
                return n
        return k

    def v4_static(self, kind, fn, args, ln):
        if fn == 'new':
            if len(args) != 4:
                raise TransErr('%s::new expects 4 arguments' % kind, ln)
            return V4(kind, [self.need(a, 'fe', ln, 'new') for a in args])
        if fn == 'splat':
            if len(args) != 1:
                raise TransErr('splat expects one argument', ln)
            x = self.need(args[0], 'fe', ln, 'splat')
            return V4(kind, [x, x, x, x])
        if fn == 'from':
            if len(args) != 1 or not isinstance(args[0], V4):
                raise TransErr('%s::from of a non-vector value' % kind, ln)
            return V4(kind, list(args[0].l))
        if fn == 'conditional_select':
            if len(args) != 3 or not isinstance(args[0], V4) or not isinstance(args[1], V4) \
                    or args[0].kind != kind or args[1].kind != kind:
                raise TransErr('conditional_select expects (vector, vector, Choice)', ln)
            c = self.need(args[2], 'ch', ln, 'conditional_select')
            return V4(kind, [self.op('csel', [c, x, y], 'fe') for x, y in zip(args[0].l, args[1].l)])
        raise TransErr('%s::%s is outside the value-level API known to the translator' % (kind, fn), ln)

    def resolve_into(self, v, ty, env, ln):
        """`.into()` between the reduced / unreduced vector types, fixed by the expected type"""
        if isinstance(v, tuple) and len(v) == 2 and v[0] == 'into':
            n = self.type_name(ty, env) if ty is not None else None
            if n not in self.c.vec_kinds:
                raise TransErr('`.into()` whose target is not a vector field type', ln)
            return V4(n, list(v[1].l))
        return v

    # -- evaluation ----------------------------------------------------------------------------
    def eval(self, e, env):
        m = getattr(self, 'ev_' + e[0], None)
        if m is None:
            raise TransErr('expression kind `%s` is outside the supported subset' % e[0], e[1])
        return m(e, env)

    def ev_int(self, e, env):
        return IntC(e[2])

    def ev_paren(self, e, env):
        return self.eval(e[2], env)

    def ev_ref(self, e, env):
        return self.eval(e[3], env)

    def ev_deref(self, e, env):
        return self.eval(e[2], env)

    def ev_tuple(self, e, env):
        return Tup([self.eval(x, env) for x in e[2]])

    def ev_closure(self, e, env):
        return Closure(e[2], e[3], e[4], env)

    def ev_range(self, e, env):
        for x in (e[2], e[3]):
            if x is not None:
                v = self.eval(x, env)
                if not isinstance(v, (IntC, Bytes)):
                    raise TransErr('range over field-level values', e[1])
        return Bytes()

    def ev_cast(self, e, env):
        v = self.eval(e[2], env)
        if e[3][0] == 'tref':
            self.check_type(v, e[3], env, e[1])
            return v
        if isinstance(v, (Bytes, IntC)):
            return Bytes(merge_deps(v))
        raise TransErr('cast of a field-level value', e[1])

    def ev_path(self, e, env):
        segs = e[2]
        ln = e[1]
        if len(segs) == 1:
            name = segs[0]
            venv = env.find_var_env(name)
            if venv is not None:
                v = venv.vars[name]
                if isinstance(v, Uninit):
                    raise TransErr('use of uninitialised variable %s' % name, ln)
                return v
            f = env.get_file()
            imp = self.c.imports(f).get(name) if f is not None else None
            if imp is not None and len(imp) == 3 and imp[:2] == ['crate', 'constants']:
                return self.const('constants::' + name, ln)
            if name == 'None':
                return Bytes()
            raise TransErr('unknown identifier %s' % name, ln)
        if len(segs) == 2:
            a, b = segs
            if a == 'Self':
                a = env.get_self_ty()
            if a in self.c.vec_enums:
                if b not in self.c.vec_enums[a]:
                    raise TransErr('unknown variant %s::%s' % (a, b), ln)
                return EnumV(a, b)
            if a in self.c.vec_kinds and b == 'ZERO':
                return self.vec_zero(a, ln)
            if a == 'constants' and self.c.vec_const is not None:
                r = self.c.vec_const(b)
                if r is None:
                    raise TransErr('constants::%s is not a known vector constant' % b, ln)
                sname, kind, vals, rows = r
                return self.vec_const(b, sname, kind, vals, rows, ln)
            if a == FE_TYPE or a == 'constants':
                return self.const('%s::%s' % (a, b), ln)
        raise TransErr('unsupported path %s' % '::'.join(segs), ln)

    def ev_field(self, e, env):
        base = self.eval(e[2], env)
        name = e[3]
        if isinstance(base, Struct):
            if name not in base.f:
                raise TransErr('no field %s in %s' % (name, base.name), e[1])
            return base.f[name]
        if isinstance(base, Tup) and name.isdigit() and int(name) < len(base.el):
            return base.el[int(name)]
        if isinstance(base, Bytes):
            return base
        raise TransErr('field access .%s on unsupported value' % name, e[1])

    def ev_index(self, e, env):
        base = self.eval(e[2], env)
        idx = self.eval(e[3], env)
        if isinstance(base, Bytes) and isinstance(idx, (IntC, Bytes)):
            return Bytes(merge_deps(base, idx))
        if isinstance(base, Tup) and isinstance(idx, IntC) and idx.n < len(base.el):
            return base.el[idx.n]
        raise TransErr('indexing a field-level / unsupported value', e[1])

    def ev_struct(self, e, env):
        ln = e[1]
        if e[4] is not None:
            raise TransErr('struct update syntax', ln)
        name = e[2][-1]
        if name == 'Self':
            name = env.get_self_ty()
        vals = [(fn, self.eval(x, env)) for fn, x in e[3]]
        st = self.c.find_struct(name, [fn for fn, _ in vals])
        if st is None:
            if all(isinstance(v, (Bytes, IntC)) for _, v in vals):
                return Bytes(merge_deps(*[v for _, v in vals]))
            raise TransErr('struct literal %s {..}: no struct definition with these fields' % name, ln)
        d = dict(vals)
        if len(d) != len(vals):
            raise TransErr('duplicate field in struct literal', ln)
        fields = {}
        for fname, (a, b) in rslex.struct_fields(st):
            fty = rsparse.parse_type_range(st.toks, a, b, st.fname)
            self.check_type(d[fname], fty, env, ln)
            fields[fname] = self.copy_val(d[fname])
        return Struct(name, fields)

    def ev_unary(self, e, env):
        ln = e[1]
        v = self.eval(e[3], env)
        if e[2] == '-':
            if isinstance(v, Val) and v.sort == 'fe':
                return self.op('neg', [v], 'fe')
            if isinstance(v, Struct):
                return self.dispatch(v, 'Neg', 'neg', None, [], ln)
            if isinstance(v, V4):
                return self.vec_neg(v, ln)
        if e[2] == '!':
            if isinstance(v, Val) and v.sort == 'ch':
                return self.op('cnot', [v], 'ch')
            if isinstance(v, (Bytes, IntC)):
                return Bytes(merge_deps(v))
        raise TransErr('unary %s on unsupported operand' % e[2], ln)

    _FE_BIN = {'+': 'add', '-': 'sub', '*': 'mul'}
    _CH_BIN = {'|': 'cor', '&': 'cand', '^': 'cxor', '||': 'cor', '&&': 'cand'}
    _OP_TRAITS = {'+': ('Add', 'add'), '-': ('Sub', 'sub'), '*': ('Mul', 'mul')}

    def binop(self, op, a, b, ln):
        if isinstance(a, V4):
            return self.vec_binop(op, a, b, ln)
        if isinstance(a, IntC) and isinstance(b, IntC) and op in ('+', '-', '*'):
            r = {'+': a.n + b.n, '-': a.n - b.n, '*': a.n * b.n}[op]
            if r < 0:
                raise TransErr('negative integer constant', ln)
            return IntC(r)
        if isinstance(a, Val) and isinstance(b, Val):
            if a.sort == 'fe' and b.sort == 'fe':
                if op in self._FE_BIN:
                    return self.op(self._FE_BIN[op], [a, b], 'fe')
                if op == '==':
                    self.note('`==` on FieldElements is ct_eq (PartialEq impl); bool modelled as a choice')
                    return self.op('ctEq', [a, b], 'ch')
            if a.sort == 'ch' and b.sort == 'ch' and op in self._CH_BIN:
                if op in ('||', '&&'):
                    self.note('`%s` on bools modelled as %s on choices' % (op, self._CH_BIN[op]))
                return self.op(self._CH_BIN[op], [a, b], 'ch')
            raise TransErr('operator %s on these field-level operands is outside the supported subset' % op, ln)
        if isinstance(a, Struct):
            tr = self._OP_TRAITS.get(op)
            if tr is None:
                raise TransErr('operator %s on struct %s' % (op, a.name), ln)
            arg_name = b.name if isinstance(b, Struct) else (FE_TYPE if isinstance(b, Val) else None)
            return self.dispatch(a, tr[0], tr[1], arg_name, [b], ln)
        if isinstance(a, (Bytes, IntC)) and isinstance(b, (Bytes, IntC)):
            if isinstance(a, IntC) and isinstance(b, IntC):
                raise TransErr('integer arithmetic is outside the AlgIR subset', ln)
            return Bytes(merge_deps(a, b))
        raise TransErr('operator %s mixes field-level and byte-level operands' % op, ln)

    def ev_bin(self, e, env):
        a = self.eval(e[3], env)
        b = self.eval(e[4], env)
        return self.binop(e[2], a, b, e[1])

    def dispatch(self, recv, trait, fn, trait_arg, args, ln):
        cands = []
        for grp in self.c.find_methods(recv.name, fn, all_groups=True):
            g = [(ch, imp) for ch, imp in grp if imp.trait == trait]
            if trait_arg is not None:
                g = [(ch, imp) for ch, imp in g if imp.trait_arg == trait_arg]
            if g:
                cands = g
                break
        if len(cands) != 1:
            raise TransErr('%d candidate impls of %s<%s> for %s' % (len(cands), trait, trait_arg, recv.name), ln)
        ch, imp = cands[0]
        return self.call_item(ch, imp, recv, args, ln)

    # places -----------------------------------------------------------------------------------
    def place(self, e, env):
        k = e[0]
        ln = e[1]
        if k in ('paren', 'deref'):
            return self.place(e[2], env)
        if k == 'ref':
            return self.place(e[3], env)
        if k == 'path' and len(e[2]) == 1:
            venv = env.find_var_env(e[2][0])
            if venv is None:
                raise TransErr('assignment to unknown variable %s' % e[2][0], ln)
            return VarPlace(venv, e[2][0])
        if k == 'field':
            base = self.eval(e[2], env)
            if isinstance(base, Struct) and e[3] in base.f:
                return FieldPlace(base, e[3])
            raise TransErr('assignment to a field of an unsupported value', ln)
        if k == 'index':
            inner = self.place(e[2], env)
            idx = self.eval(e[3], env)
            if not isinstance(inner.get(), Bytes) or not isinstance(idx, (IntC, Bytes)):
                raise TransErr('indexed assignment on a non byte-level value', ln)
            return inner    # coarse: the whole byte string is tainted
        raise TransErr('unsupported assignment target / mutable receiver', ln)

    def ev_assign(self, e, env):
        ln = e[1]
        op = e[2]
        rhs = self.eval(e[4], env)
        pl = self.place(e[3], env)
        cur = pl.get()
        if op is None:
            if isinstance(cur, Bytes) and e[3][0] == 'index':
                if not isinstance(rhs, (Bytes, IntC)):
                    raise TransErr('field-level value stored into bytes', ln)
                pl.set(Bytes(merge_deps(cur, rhs)))
                return UNIT
            if not isinstance(cur, Uninit):
                if isinstance(cur, V4):
                    rhs = self.resolve_into(rhs, ('tpath', ln, [cur.kind], []), env, ln)
                if type(cur) is not type(rhs) or (isinstance(cur, Val) and cur.sort != rhs.sort) \
                        or (isinstance(cur, Struct) and cur.name != rhs.name) \
                        or (isinstance(cur, V4) and cur.kind != rhs.kind):
                    raise TransErr('assignment changes the kind of value', ln)
            pl.set(self.copy_val(rhs))
            return UNIT
        if isinstance(cur, Uninit):
            raise TransErr('compound assignment to uninitialised variable', ln)
        if isinstance(cur, Struct):
            tr = {'+': ('AddAssign', 'add_assign'), '-': ('SubAssign', 'sub_assign'),
                  '*': ('MulAssign', 'mul_assign')}.get(op)
            if tr is None:
                raise TransErr('operator %s= on struct' % op, ln)
            arg_name = rhs.name if isinstance(rhs, Struct) else None
            self.dispatch(cur, tr[0], tr[1], arg_name, [rhs], ln)
            return UNIT
        pl.set(self.binop(op, cur, rhs, ln))
        return UNIT

    # calls ------------------------------------------------------------------------------------
    def parse_fn(self, it):
        try:
            return rsparse.parse_fn(it)
        except ParseError as ex:
            raise TransErr('cannot parse fn %s: %s' % (it.qualname(), ex), it.line)

    def item_env(self, it):
        f = None
        for ff in self.c.files:
            if ff.relname == it.fname:
                f = ff
        if f is None:
            raise TransErr('internal: no file for %s' % it.qualname())
        return self.c.file_env(f)

    def call_item(self, it, imp, self_val, args, ln):
        decl = self.parse_fn(it)
        self_ty = imp.self_ty if imp is not None else None
        return self.call_decl(decl, it, self_val, args, self.item_env(it), self_ty, ln)

    def call_decl(self, decl, item, self_val, args, defenv, self_ty, ln):
        self.visit(item)
        env = Env(defenv, barrier=True, self_ty=self_ty)
        if decl.self_kind is not None:
            if self_val is None:
                raise TransErr('method %s called without receiver' % decl.name, ln)
            if isinstance(self_val, Struct) and self_ty is not None and self_val.name != self_ty:
                raise TransErr('receiver %s for a method of %s' % (self_val.name, self_ty), ln)
            if isinstance(self_val, Val) and self_ty != FE_TYPE:
                raise TransErr('field-level receiver for a method of %s' % self_ty, ln)
            env.vars['self'] = self_val if decl.self_kind == 'mut' else self.copy_val(self_val)
        elif self_val is not None:
            raise TransErr('function %s takes no receiver' % decl.name, ln)
        if len(args) != len(decl.params):
            raise TransErr('call of %s with %d arguments, expected %d' % (decl.name, len(args), len(decl.params)), ln)
        for (pat, ty), a in zip(decl.params, args):
            a = self.resolve_into(a, ty, env, ln)
            self.check_type(a, ty, env, ln)
            if ty[0] == 'tref' and ty[2]:
                v = a
            else:
                v = self.copy_val(a)
            self.bind_pat(pat, v, env)
        self.depth += 1
        try:
            try:
                r = self.eval_block(decl.body, env, new_scope=False)
            except ReturnEx as ex:
                r = ex.value
        finally:
            self.depth -= 1
        if decl.ret is not None:
            r = self.resolve_into(r, decl.ret, env, ln)
            self.check_type(r, decl.ret, env, ln)
        return r

    def ev_call(self, e, env):
        ln = e[1]
        f = e[2]
        if f[0] != 'path':
            raise TransErr('call of a non-path expression', ln)
        segs = f[2]
        if f[3]:
            raise TransErr('generic call arguments are outside the supported subset', ln)
        args = [self.eval(a, env) for a in e[3]]
        if len(segs) == 1:
            name = segs[0]
            venv = env.find_var_env(name)
            if venv is not None:
                c = venv.vars[name]
                if not isinstance(c, Closure):
                    raise TransErr('%s is not callable' % name, ln)
                return self.call_closure(c, args, ln)
            it, ienv = env.find_item(name)
            if it is not None:
                if it[0] == 'fn':
                    return self.call_decl(it[1], None, None, args, ienv, None, ln)
                if it[0] == 'fnitem':
                    return self.call_item(it[1], None, None, args, ln)
            if name == 'Self':
                name = env.get_self_ty()
            if name[:1].isupper():
                st = self.c.find_struct(name)
                if st is not None and st.tuple_rng is not None and self.is_field_level(st, env, 0):
                    fs = rslex.struct_fields(st)
                    if len(fs) != len(args):
                        raise TransErr('tuple struct %s: wrong number of fields' % name, ln)
                    fields = {}
                    for (fname, (a, b)), v in zip(fs, args):
                        fty = rsparse.parse_type_range(st.toks, a, b, st.fname)
                        v = self.resolve_into(v, fty, env, ln)
                        self.check_type(v, fty, env, ln)
                        fields[fname] = self.copy_val(v)
                    return Struct(name, fields)
                if all(isinstance(v, (Bytes, IntC)) for v in args):
                    if self.depth <= 1:
                        self.note('byte-level constructor %s(..) at line %d not modelled' % (name, ln))
                    return Bytes(merge_deps(*args))
            raise TransErr('call of unknown function %s with field-level arguments' % name, ln)
        if len(segs) == 2:
            a, b = segs
            if a == 'Self':
                a = env.get_self_ty()
            if a == FE_TYPE:
                if b == 'from_bytes':
                    if len(args) != 1 or not isinstance(args[0], Bytes) or args[0].deps:
                        raise TransErr('FieldElement::from_bytes of bytes that depend on field-level values', ln)
                    self.note('input: FieldElement::from_bytes(..) at line %d (decoding modelled by hand)' % ln)
                    return Val(self.b.new_input('fe', 'from_bytes@%d' % ln))
                if b == 'conditional_select':
                    if len(args) != 3:
                        raise TransErr('conditional_select expects 3 arguments', ln)
                    x = self.need(args[0], 'fe', ln, 'conditional_select')
                    y = self.need(args[1], 'fe', ln, 'conditional_select')
                    c = self.need(args[2], 'ch', ln, 'conditional_select')
                    return self.op('csel', [c, x, y], 'fe')
            if a in self.c.vec_kinds:
                return self.v4_static(a, b, args, ln)
            if a == 'Choice' and b == 'from':
                if len(args) != 1 or not isinstance(args[0], (Bytes, IntC)) or merge_deps(args[0]):
                    raise TransErr('Choice::from of a value that depends on field-level values', ln)
                self.note('input: Choice::from(<bytes>) at line %d (bit extraction modelled by hand)' % ln)
                return Val(self.b.new_input('ch', 'choice_from@%d' % ln))
            if a == 'bool' and b == 'from' and len(args) == 1 and isinstance(args[0], Val) and args[0].sort == 'ch':
                return args[0]
            cands = self.c.find_methods(a, b)
            if cands:
                inh = [c for c in cands if c[1].trait is None]
                if len(inh) == 1:
                    cands = inh
                if len(cands) != 1:
                    raise TransErr('ambiguous function %s::%s' % (a, b), ln)
                it, imp = cands[0]
                decl = self.parse_fn(it)
                self_val = None
                if decl.self_kind is not None:
                    if not args:
                        raise TransErr('method %s::%s called without receiver' % (a, b), ln)
                    self_val, args = args[0], args[1:]
                return self.call_decl(decl, it, self_val, args, self.item_env(it), imp.self_ty, ln)
        if all(isinstance(v, (Bytes, IntC)) for v in args):
            if self.depth <= 1:
                self.note('byte-level call %s(..) at line %d not modelled' % ('::'.join(segs), ln))
            return Bytes(merge_deps(*args))
        raise TransErr('call of unsupported function %s' % '::'.join(segs), ln)

    def call_closure(self, c, args, ln):
        if len(args) != len(c.params):
            raise TransErr('closure called with wrong number of arguments', ln)
        env = Env(c.env)
        for (pat, ty), a in zip(c.params, args):
            if ty is not None:
                self.check_type(a, ty, env, ln)
            self.bind_pat(pat, self.copy_val(a), env)
        self.depth += 1
        try:
            r = self.eval_block(c.body, env, new_scope=False) if c.body[0] == 'block' else self.eval(c.body, env)
        finally:
            self.depth -= 1
        return r

    def ev_mcall(self, e, env):
        ln = e[1]
        name = e[3]
        if e[5]:
            raise TransErr('generic method call', ln)
        recv = self.eval(e[2], env)
        args = [self.eval(x, env) for x in e[4]]
        if isinstance(recv, V4):
            return self.v4_method(recv, name, args, e, env, ln)
        if isinstance(recv, tuple) and len(recv) == 2 and recv[0] == 'into':
            raise TransErr('method call on an untyped `.into()` value', ln)
        if isinstance(recv, Val) and recv.sort == 'fe':
            if name in ('square', 'square2', 'is_negative', 'is_zero', 'as_bytes', 'to_bytes') and args:
                raise TransErr('%s takes no arguments' % name, ln)
            if name == 'square':
                return self.op('square', [recv], 'fe')
            if name == 'square2':
                return self.op('square2', [recv], 'fe')
            if name == 'pow2k':
                if len(args) != 1 or not isinstance(args[0], IntC) or args[0].n < 1:
                    raise TransErr('pow2k needs a literal count >= 1', ln)
                return self.op('pow2k', [recv], 'fe', args[0].n)
            if name == 'ct_eq':
                if len(args) != 1:
                    raise TransErr('ct_eq expects one argument', ln)
                return self.op('ctEq', [recv, self.need(args[0], 'fe', ln, 'ct_eq')], 'ch')
            if name == 'is_negative':
                return self.op('isNeg', [recv], 'ch')
            if name == 'is_zero':
                return self.op('isZero', [recv], 'ch')
            if name in ('as_bytes', 'to_bytes'):
                if self.depth <= 1:
                    self.note('output: .%s() at line %d (canonical encoding modelled by hand)' % (name, ln))
                return Bytes((recv.v,))
            if name == 'conditional_negate':
                if len(args) != 1:
                    raise TransErr('conditional_negate expects one argument', ln)
                c = self.need(args[0], 'ch', ln, 'conditional_negate')
                pl = self.place(e[2], env)
                n = self.op('neg', [recv], 'fe')
                pl.set(self.op('csel', [c, recv, n], 'fe'))
                return UNIT
            if name == 'conditional_assign':
                if len(args) != 2:
                    raise TransErr('conditional_assign expects two arguments', ln)
                o = self.need(args[0], 'fe', ln, 'conditional_assign')
                c = self.need(args[1], 'ch', ln, 'conditional_assign')
                pl = self.place(e[2], env)
                pl.set(self.op('csel', [c, recv, o], 'fe'))
                return UNIT
            cands = self.c.find_methods(FE_TYPE, name)
            inh = [c for c in cands if c[1].trait is None]
            if len(inh) != 1:
                raise TransErr('FieldElement method %s is not a built-in operation and has %d definitions'
                               % (name, len(inh)), ln)
            it, imp = inh[0]
            decl = self.parse_fn(it)
            if decl.self_kind is None:
                raise TransErr('FieldElement::%s is not a method' % name, ln)
            if decl.self_kind == 'mut':
                raise TransErr('FieldElement::%s takes &mut self' % name, ln)
            return self.call_decl(decl, it, recv, args, self.item_env(it), imp.self_ty, ln)
        if isinstance(recv, Val) and recv.sort == 'ch':
            if name == 'into' and not args:
                return recv
            if name == 'unwrap_u8' and not args:
                if self.depth <= 1:
                    self.note('output: choice .unwrap_u8() at line %d' % ln)
                return Bytes((recv.v,))
            raise TransErr('Choice method %s is outside the supported subset' % name, ln)
        if isinstance(recv, Struct):
            cands = self.c.find_methods(recv.name, name)
            inh = [c for c in cands if c[1].trait is None]
            if len(inh) == 1:
                cands = inh
            if len(cands) != 1:
                raise TransErr('method %s::%s: %d candidates' % (recv.name, name, len(cands)), ln)
            it, imp = cands[0]
            decl = self.parse_fn(it)
            if decl.self_kind is None:
                raise TransErr('%s::%s is not a method' % (recv.name, name), ln)
            if decl.self_kind == 'mut':
                recv = self.place(e[2], env).get()
            return self.call_decl(decl, it, recv, args, self.item_env(it), imp.self_ty, ln)
        if isinstance(recv, Bytes):
            if all(isinstance(v, (Bytes, IntC)) for v in args):
                if self.depth <= 1 and name not in ('as_bytes', 'to_bytes'):
                    self.note('byte-level call .%s(..) at line %d not modelled' % (name, ln))
                return Bytes(merge_deps(recv, *args))
            raise TransErr('field-level argument passed to byte-level method .%s()' % name, ln)
        raise TransErr('method call .%s() on unsupported receiver' % name, ln)

    # statements -------------------------------------------------------------------------------
    def ev_block(self, e, env):
        return self.eval_block(e, env, new_scope=True)

    def eval_block(self, blk, env, new_scope=True):
        if new_scope:
            env = Env(env)
        for st in blk[2]:
            if st[0] == 'fn':
                env.items[st[2].name] = ('fn', st[2])
        for st in blk[2]:
            self.exec_stmt(st, env)
        if blk[3] is not None:
            return self.eval(blk[3], env)
        return UNIT

    def exec_stmt(self, st, env):
        k = st[0]
        if k == 'let':
            _, ln, pat, ty, init = st
            if init is None:
                if pat[0] != 'pid':
                    raise TransErr('let without initializer', ln)
                env.vars[pat[2]] = Uninit()
                return
            v = self.copy_val(self.resolve_into(self.eval(init, env), ty, env, ln))
            if ty is not None:
                self.check_type(v, ty, env, ln)
            self.bind_pat(pat, v, env)
        elif k == 'expr':
            self.eval(st[2], env)
        elif k in ('fn', 'use', 'nested'):
            pass
        else:
            raise TransErr('unsupported statement', st[1])

    def bind_pat(self, pat, v, env):
        k = pat[0]
        if k == 'pid':
            env.vars[pat[2]] = v
        elif k == 'pwild':
            pass
        elif k == 'ptuple':
            if not isinstance(v, Tup) or len(v.el) != len(pat[2]):
                raise TransErr('tuple pattern does not match value', pat[1])
            for p, x in zip(pat[2], v.el):
                self.bind_pat(p, x, env)
        else:
            raise TransErr('unsupported pattern', pat[1])

    def ev_return(self, e, env):
        raise ReturnEx(UNIT if e[2] is None else self.eval(e[2], env))

    def ev_if(self, e, env):
        ln = e[1]
        c = self.eval(e[2], env)
        if isinstance(c, Val) and c.sort == 'ch' and self.depth == 1 and e[4] is None:
            blk = e[3]
            ret = None
            if len(blk[2]) == 1 and blk[3] is None and blk[2][0][0] == 'expr' and blk[2][0][2][0] == 'return':
                ret = blk[2][0][2]
            elif not blk[2] and blk[3] is not None and blk[3][0] == 'return':
                ret = blk[3]
            if ret is not None:
                n0 = len(self.b.stmts)
                v = self.eval(ret[2], Env(env)) if ret[2] is not None else Bytes()
                if len(self.b.stmts) != n0 or not isinstance(v, Bytes) or v.deps:
                    raise TransErr('early return of a value that is not a plain byte-level constant', ln)
                self.guards.append((c.v, 'early-return guard at line %d' % ln))
                self.note('`if <cond> { return .. }` at line %d: the condition is an output; the program '
                          'continues on the fall-through path' % ln)
                return UNIT
        raise TransErr('`if` on a run-time condition is outside the supported subset', ln)

    def ev_for(self, e, env):
        _, ln, pat, it, body = e
        r = self.eval(it, env)
        if not (isinstance(r, Bytes) and not r.deps):
            raise TransErr('for loop over an unsupported iterator', ln)
        if not self.spec.loop_once or self.depth != 1 or getattr(self, 'loop_done', False):
            raise TransErr('loop with a run-time trip count is outside the supported subset', ln)
        if pat[0] != 'pwild':
            raise TransErr('loop over a run-time range uses its index', ln)
        if self.b.stmts:
            raise TransErr('code before the loop emits statements', ln)
        self.loop_done = True
        self.note('one iteration of the `for` loop at line %d (trip count not modelled); loop state = the inputs' % ln)
        self.eval_block(body, Env(env))
        return UNIT

    def ev_macro(self, e, env):
        raise TransErr('macro %s! is outside the supported subset' % e[2], e[1])

    # -- root ----------------------------------------------------------------------------------
    def finish(self, ret, mut_params, has_ret, ln):
        outs = []
        names = []
        for v, desc in self.guards:
            outs.append(v)
            names.append(desc)

        def flat(v, path):
            if isinstance(v, Val):
                outs.append(v.v)
                names.append(path)
            elif isinstance(v, V4):
                for i, x in enumerate(v.l):
                    outs.append(x.v)
                    names.append('%s.%s' % (path, LANE_NAMES[i]) if path else LANE_NAMES[i])
            elif isinstance(v, Struct):
                for k in v.f:
                    flat(v.f[k], '%s.%s' % (path, k) if path else k)
            elif isinstance(v, Tup):
                for i, x in enumerate(v.el):
                    flat(x, '%s.%d' % (path, i) if path else str(i))
            elif isinstance(v, Bytes):
                for i, d in enumerate(v.deps):
                    outs.append(d)
                    names.append('%s<-bytes#%d' % (path, i))
            else:
                raise TransErr('result contains an unsupported kind of value', ln)
        if has_ret:
            flat(ret, 'ret')
        else:
            for name, v in mut_params:
                flat(v, name)
        if not outs:
            raise TransErr('function has no field-level outputs', ln)
        nin, body, oix = self.b.finalize(outs)
        return {'n_in': nin, 'body': body, 'outs': oix, 'in_names': [n for _, n in self.b.inputs],
                'in_sorts': [v.sort for v, _ in self.b.inputs], 'out_names': names,
                'out_sorts': [o.sort for o in outs]}

    def translate_fn(self, item, imp):
        decl = self.parse_fn(item)
        fenv = self.item_env(item)
        self_ty = imp.self_ty if imp is not None else None
        env0 = Env(fenv, barrier=True, self_ty=self_ty)
        ln = item.line
        self_val = None
        mut_params = []
        if decl.self_kind is not None:
            if self_ty == FE_TYPE:
                self_val = Val(self.b.new_input('fe', 'self'))
            else:
                self_val = self.make_input(('tpath', ln, [self_ty], []), env0, 'self', ln)
            if decl.self_kind == 'mut':
                mut_params.append(('self', self_val))
        args = []
        for pat, ty in decl.params:
            pname = pat[2] if pat[0] == 'pid' else '_'
            v = self.make_input(ty, env0, pname, ln)
            args.append(v)
            if ty[0] == 'tref' and ty[2]:
                mut_params.append((pname, v))
        r = self.call_decl(decl, item, self_val, args, fenv, self_ty, ln)
        return self.finish(r, mut_params, decl.ret is not None, ln)

    def translate_closure(self, item, imp):
        """the unique closure with explicitly typed parameters inside the body of `item`."""
        if item.body is None:
            raise TransErr('fn %s has no body' % item.name, item.line)
        try:
            p = rsparse.Parser(item.toks, item.body[0], item.body[1], item.fname)
            body = p.parse_block()
        except ParseError as ex:
            raise TransErr('cannot parse body of %s: %s' % (item.qualname(), ex), item.line)
        found = []

        def walk(n):
            if isinstance(n, tuple):
                if n and n[0] == 'closure' and n[2] and all(t is not None for _, t in n[2]):
                    found.append(n)
                for x in n:
                    if isinstance(x, (tuple, list)):
                        walk(x)
            elif isinstance(n, list):
                for x in n:
                    walk(x)
        walk(body)
        if len(found) != 1:
            raise TransErr('expected exactly one closure with typed parameters in %s, found %d'
                           % (item.name, len(found)), item.line)
        clo = found[0]
        self.visit(item)
        self.note('the closure at line %d of %s (the iterator plumbing around it is modelled by hand)'
                  % (clo[1], item.qualname()))
        fenv = self.item_env(item)
        env = Env(fenv, barrier=True, self_ty=imp.self_ty if imp is not None else None)
        ln = clo[1]

        def bind(pat, ty, prefix):
            t = ty
            while t[0] == 'tref':
                t = t[3]
            if pat[0] == 'ptuple':
                if t[0] != 'ttuple' or len(t[2]) != len(pat[2]):
                    raise TransErr('closure parameter pattern/type mismatch', ln)
                for pp, tt in zip(pat[2], t[2]):
                    bind(pp, tt, prefix)
            elif pat[0] == 'pid':
                env.vars[pat[2]] = self.make_input(ty, env, pat[2], ln)
            else:
                raise TransErr('unsupported closure parameter pattern', ln)
        for pat, ty in clo[2]:
            bind(pat, ty, '')
        self.depth += 1
        try:
            try:
                r = self.eval_block(clo[4], env, new_scope=False) if clo[4][0] == 'block' else self.eval(clo[4], env)
            except ReturnEx as ex:
                r = ex.value
        finally:
            self.depth -= 1
        return self.finish(r, [], True, ln)

"""Tokenizer and item-level scanner for the Rust subset used by rs2lean.

Tokens are tuples (kind, text, line, val):
  kind 'id'   identifier / keyword
       'int'  integer literal, val = (value, suffix or None)
       'flt'  float literal
       'str'  string literal (val = decoded python str where simple)
       'chr'  char literal
       'lt'   lifetime
       'p'    punctuation
Comments (line, nested block, doc) and whitespace are dropped.
"""
import re


class LexError(Exception):
    pass


_PUNCT = [
    '<<=', '>>=', '...', '..=',
    '::', '->', '=>', '==', '!=', '<=', '>=', '&&', '||', '+=', '-=', '*=', '/=', '%=',
    '^=', '&=', '|=', '<<', '>>', '..',
    '+', '-', '*', '/', '%', '^', '!', '&', '|', '=', '<', '>', '@', '.', ',', ';', ':',
    '#', '$', '?', '~', '(', ')', '[', ']', '{', '}',
]
_MASTER = re.compile(
    r'(?P<ws>[ \t\r\n]+)'
    r'|(?P<lc>//[^\n]*)'
    r'|(?P<bc>/\*)'
    r'|(?P<raw>b?r#*")'
    r'|(?P<str>b?"(?:[^"\\]|\\.)*")'
    r"|(?P<chr>b?'(?:[^'\\\n]|\\(?:x[0-9a-fA-F]{2}|u\{[0-9a-fA-F_]+\}|.))')"
    r"|(?P<lt>'[A-Za-z_][A-Za-z0-9_]*)"
    r'|(?P<flt>[0-9][0-9_]*\.[0-9][0-9_]*(?:[eE][+-]?[0-9_]+)?(?:f32|f64)?)'
    r'|(?P<int>(?:0x[0-9a-fA-F_]+|0b[01_]+|0o[0-7_]+|[0-9][0-9_]*)(?:[ui](?:8|16|32|64|128|size))?)'
    r'|(?P<id>(?:r#)?[A-Za-z_][A-Za-z0-9_]*)'
    r'|(?P<p>' + '|'.join(re.escape(p) for p in _PUNCT) + r')',
    re.S)

_INT_RE = re.compile(r'^(0x[0-9a-fA-F_]+|0b[01_]+|0o[0-7_]+|[0-9][0-9_]*)((?:[ui](?:8|16|32|64|128|size))?)$')


def parse_int_text(text):
    m = _INT_RE.match(text)
    if not m:
        raise LexError('bad integer literal %r' % text)
    body = m.group(1).replace('_', '')
    suf = m.group(2) or None
    if body.startswith('0x'):
        v = int(body[2:], 16)
    elif body.startswith('0b'):
        v = int(body[2:], 2)
    elif body.startswith('0o'):
        v = int(body[2:], 8)
    else:
        v = int(body, 10)
    return v, suf


def tokenize(src, fname='<src>'):
    toks = []
    pos = 0
    n = len(src)
    line = 1
    match = _MASTER.match
    while pos < n:
        m = match(src, pos)
        if m is None:
            raise LexError('%s:%d: cannot tokenize near %r' % (fname, line, src[pos:pos + 20]))
        kind = m.lastgroup
        text = m.group()
        end = m.end()
        if kind == 'ws':
            line += text.count('\n')
        elif kind == 'lc':
            pass
        elif kind == 'bc':
            depth = 1
            j = end
            while depth > 0:
                a = src.find('/*', j)
                b = src.find('*/', j)
                if b < 0:
                    raise LexError('%s:%d: unterminated block comment' % (fname, line))
                if 0 <= a < b:
                    depth += 1
                    j = a + 2
                else:
                    depth -= 1
                    j = b + 2
            line += src.count('\n', pos, j)
            end = j
        elif kind == 'raw':
            hashes = text.count('#')
            close = '"' + '#' * hashes
            j = src.find(close, end)
            if j < 0:
                raise LexError('%s:%d: unterminated raw string' % (fname, line))
            body = src[end:j]
            end = j + len(close)
            toks.append(('str', src[pos:end], line, body))
            line += body.count('\n')
        elif kind == 'int':
            toks.append(('int', text, line, parse_int_text(text)))
        elif kind == 'flt':
            # `x.0.1` style tuple access must not become a float
            if toks and toks[-1][0] == 'p' and toks[-1][1] == '.':
                m2 = re.match(r'[0-9][0-9_]*', text)
                text = m2.group()
                end = pos + len(text)
                toks.append(('int', text, line, parse_int_text(text)))
            else:
                toks.append(('flt', text, line, None))
        elif kind == 'str':
            body = text[text.index('"') + 1:-1]
            toks.append(('str', text, line, body))
            line += text.count('\n')
        else:
            toks.append((kind, text, line, None))
        pos = end
    return toks


# ----------------------------------------------------------------------------------------------
# item-level scanner
# ----------------------------------------------------------------------------------------------

class Item(object):
    """A Rust item located in a token list (ranges are half-open token indices)."""
    __slots__ = ('kind', 'name', 'line', 'attrs', 'toks', 'start', 'end', 'children',
                 'trait', 'self_ty', 'parent', 'fname',
                 'sig_params', 'sig_ret', 'body', 'ty_rng', 'init_rng', 'tuple_rng', 'brace_rng',
                 'is_test', 'parsed', 'generics', 'trait_arg', 'self_ref', 'nested')

    def __init__(self, kind, name, line):
        self.kind = kind
        self.name = name
        self.line = line
        self.attrs = []
        self.children = []
        self.trait = None
        self.self_ty = None
        self.parent = None
        self.fname = None
        self.sig_params = None
        self.sig_ret = None
        self.body = None
        self.ty_rng = None
        self.init_rng = None
        self.tuple_rng = None
        self.brace_rng = None
        self.is_test = False
        self.parsed = None
        self.generics = None
        self.trait_arg = None   # impl Trait<Arg> for T: main name of the first generic argument
        self.self_ref = False   # impl ... for &'a T
        self.nested = None      # items declared inside a fn body (lazily scanned)

    def qualname(self):
        p = self.parent
        if p is not None and p.kind == 'impl':
            pre = ''
            if p.parent is not None and p.parent.kind in ('fn', 'mod'):
                pre = p.parent.qualname() + '::'
            if p.trait:
                tr = p.trait + ('<%s>' % p.trait_arg if p.trait_arg else '')
                return '%s<%s%s as %s>::%s' % (pre, '&' if p.self_ref else '', p.self_ty, tr, self.name)
            return '%s%s::%s' % (pre, p.self_ty, self.name)
        if p is not None and p.kind in ('mod', 'fn'):
            return '%s::%s' % (p.qualname(), self.name)
        return self.name

    def token_texts(self):
        return [t[1] for t in self.toks[self.start:self.end]]


_OPEN = {'(': ')', '[': ']', '{': '}'}
_CLOSE = {')', ']', '}'}


class ScanError(Exception):
    pass


def match_delim(toks, i):
    """toks[i] is an opening delimiter; return index just past the matching close."""
    depth = 0
    n = len(toks)
    j = i
    while j < n:
        t = toks[j]
        if t[0] == 'p':
            x = t[1]
            if x in _OPEN:
                depth += 1
            elif x in _CLOSE:
                depth -= 1
                if depth == 0:
                    return j + 1
        j += 1
    raise ScanError('unbalanced delimiter at line %d' % toks[i][2])


def skip_angles(toks, i):
    """toks[i] is '<'; return the index just past the matching '>'."""
    depth = 0
    j = i
    n = len(toks)
    while j < n:
        t = toks[j]
        if t[0] == 'p':
            x = t[1]
            if x == '<':
                depth += 1
            elif x == '<<':
                depth += 2
            elif x == '>':
                depth -= 1
            elif x == '>>':
                depth -= 2
            elif x in _OPEN:
                j = match_delim(toks, j)
                continue
            if depth <= 0 and x in ('>', '>>'):
                return j + 1
        j += 1
    raise ScanError('unbalanced <> at line %d' % toks[i][2])


def _find_at_depth0(toks, i, end, stops):
    """first index j in [i,end) of a punctuation token in `stops` at ()[]{} depth 0 (or end)."""
    j = i
    while j < end:
        t = toks[j]
        if t[0] == 'p':
            x = t[1]
            if x in stops:
                return j
            if x in _OPEN:
                j = match_delim(toks, j)
                continue
        j += 1
    return end


def _type_main_name(toks, a, b):
    """main identifier of a type given by tokens [a,b): skips & 'a mut, takes last path segment
    before generic arguments."""
    name = None
    j = a
    while j < b:
        t = toks[j]
        if t[0] == 'p' and t[1] == '<':
            break
        if t[0] == 'p' and t[1] in _OPEN:
            # array / tuple type: use textual form
            return ''.join(x[1] for x in toks[a:b])
        if t[0] == 'id' and t[1] not in ('mut', 'dyn', 'const'):
            name = t[1]
        j += 1
    return name


def scan_items(toks, i, end, fname, parent=None, in_test=False, max_items=None):
    items = []
    while i < end:
        if max_items is not None and len(items) >= max_items:
            break
        start = i
        attrs = []
        # attributes
        while i < end and toks[i][1] == '#' and toks[i][0] == 'p':
            j = i + 1
            if j < end and toks[j][1] == '!':
                j += 1
            if j < end and toks[j][1] == '[':
                k = match_delim(toks, j)
                attrs.append(' '.join(t[1] for t in toks[j + 1:k - 1]))
                i = k
            else:
                break
        if i >= end:
            break
        t = toks[i]
        # visibility
        if t[0] == 'id' and t[1] == 'pub':
            i += 1
            if i < end and toks[i][1] == '(':
                i = match_delim(toks, i)
            t = toks[i]
        is_test = in_test or any(a.replace(' ', '') in ('cfg(test)',) or a.replace(' ', '') == 'test'
                                 for a in attrs)
        # qualifiers before fn
        q = i
        while q < end and toks[q][0] == 'id' and toks[q][1] in ('const', 'unsafe', 'async', 'extern', 'default'):
            if toks[q][1] == 'extern' and q + 1 < end and toks[q + 1][0] == 'str':
                q += 1
            q += 1
        if q < end and toks[q][0] == 'id' and toks[q][1] == 'fn':
            name_tok = toks[q + 1]
            it = Item('fn', name_tok[1], name_tok[2])
            j = q + 2
            if toks[j][1] == '<':
                g0 = j
                j = skip_angles(toks, j)
                it.generics = (g0, j)
            if toks[j][1] != '(':
                raise ScanError('%s:%d: expected ( in fn signature' % (fname, toks[j][2]))
            k = match_delim(toks, j)
            it.sig_params = (j + 1, k - 1)
            j = k
            # return type / where / body
            b = _find_at_depth0(toks, j, end, ('{', ';'))
            ret_a = ret_b = None
            if toks[j][1] == '->':
                ret_a = j + 1
                ret_b = b
                for w in range(j + 1, b):
                    if toks[w][0] == 'id' and toks[w][1] == 'where':
                        ret_b = w
                        break
                it.sig_ret = (ret_a, ret_b)
            if b < end and toks[b][1] == '{':
                k = match_delim(toks, b)
                it.body = (b, k)
                i = k
            else:
                i = b + 1
            it.attrs = attrs
            it.toks = toks
            it.start = start
            it.end = i
            it.parent = parent
            it.fname = fname
            it.is_test = is_test
            items.append(it)
            continue
        kw = t[1] if t[0] == 'id' else None
        if kw in ('const', 'static'):
            j = i + 1
            if toks[j][0] == 'id' and toks[j][1] == 'mut':
                j += 1
            name_tok = toks[j]
            it = Item(kw, name_tok[1], name_tok[2])
            j += 1
            semi = _find_at_depth0(toks, j, end, (';',))
            eq = _find_at_depth0(toks, j, semi, ('=',))
            if toks[j][1] == ':':
                it.ty_rng = (j + 1, eq)
            if eq < semi:
                it.init_rng = (eq + 1, semi)
            i = semi + 1
        elif kw == 'impl':
            j = i + 1
            if toks[j][1] == '<':
                j = skip_angles(toks, j)
            b = _find_at_depth0(toks, j, end, ('{',))
            # header: [Trait for] Type [where ...]
            hdr_end = b
            for w in range(j, b):
                if toks[w][0] == 'id' and toks[w][1] == 'where':
                    hdr_end = w
                    break
            # locate `for` at angle depth 0
            depth = 0
            for_at = None
            w = j
            while w < hdr_end:
                x = toks[w]
                if x[0] == 'p':
                    if x[1] == '<':
                        depth += 1
                    elif x[1] == '>':
                        depth -= 1
                    elif x[1] == '>>':
                        depth -= 2
                elif x[0] == 'id' and x[1] == 'for' and depth == 0:
                    for_at = w
                    break
                w += 1
            it = Item('impl', None, t[2])
            if for_at is not None:
                it.trait = _type_main_name(toks, j, for_at)
                it.self_ty = _type_main_name(toks, for_at + 1, hdr_end)
                it.self_ref = toks[for_at + 1][0] == 'p' and toks[for_at + 1][1] in ('&', '&&')
                for w in range(j, for_at):
                    if toks[w][0] == 'p' and toks[w][1] == '<':
                        g_end = skip_angles(toks, w) - 1
                        # first generic argument (skip lifetimes)
                        a0 = w + 1
                        depth = 0
                        a1 = g_end
                        for v in range(a0, g_end):
                            x = toks[v]
                            if x[0] == 'p':
                                if x[1] in ('<', '(', '['):
                                    depth += 1
                                elif x[1] in ('>', ')', ']'):
                                    depth -= 1
                                elif x[1] == ',' and depth == 0:
                                    if all(t[0] == 'lt' for t in toks[a0:v]):
                                        a0 = v + 1
                                        continue
                                    a1 = v
                                    break
                        it.trait_arg = _type_main_name(toks, a0, a1)
                        break
            else:
                it.self_ty = _type_main_name(toks, j, hdr_end)
            it.name = it.self_ty
            k = match_delim(toks, b)
            it.children = scan_items(toks, b + 1, k - 1, fname, it, is_test)
            i = k
        elif kw == 'mod':
            name_tok = toks[i + 1]
            it = Item('mod', name_tok[1], name_tok[2])
            j = i + 2
            if toks[j][1] == '{':
                k = match_delim(toks, j)
                it.children = scan_items(toks, j + 1, k - 1, fname, it, is_test)
                i = k
            else:
                i = j + 1
        elif kw in ('struct', 'union'):
            name_tok = toks[i + 1]
            it = Item('struct', name_tok[1], name_tok[2])
            j = i + 2
            if toks[j][1] == '<':
                j = skip_angles(toks, j)
            if toks[j][1] == '(':
                k = match_delim(toks, j)
                it.tuple_rng = (j + 1, k - 1)
                j = k
            b = _find_at_depth0(toks, j, end, ('{', ';'))
            if b < end and toks[b][1] == '{':
                k = match_delim(toks, b)
                it.brace_rng = (b + 1, k - 1)
                i = k
            else:
                i = b + 1
        elif kw in ('enum', 'trait'):
            name_tok = toks[i + 1]
            it = Item(kw, name_tok[1], name_tok[2])
            b = _find_at_depth0(toks, i, end, ('{', ';'))
            if b < end and toks[b][1] == '{':
                i = match_delim(toks, b)
            else:
                i = b + 1
        elif kw in ('use', 'type', 'extern'):
            it = Item(kw, None, t[2])
            if kw == 'type':
                it.name = toks[i + 1][1]
            if kw == 'extern' and toks[i + 1][0] == 'str' and toks[i + 2][1] == '{':
                i = match_delim(toks, i + 2)
            else:
                i = _find_at_depth0(toks, i, end, (';',)) + 1
        elif kw == 'unsafe' and toks[i + 1][1] in ('impl', 'trait'):
            # unsafe impl / unsafe trait: re-scan from the keyword
            sub = scan_items(toks, i + 1, end, fname, parent, in_test)
            # only the first item belongs to this iteration
            it = sub[0]
            it.attrs = attrs + it.attrs
            it.start = start
            i = it.end
            items.append(it)
            for extra in sub[1:]:
                items.append(extra)
                i = extra.end
            continue
        elif t[0] == 'id':
            # macro invocation `path ! [ident] delim ... delim [;]`
            j = i
            while j < end and (toks[j][0] == 'id' or toks[j][1] == '::'):
                j += 1
            if j < end and toks[j][1] == '!':
                it = Item('macro', toks[i][1], t[2])
                j += 1
                if toks[j][0] == 'id':
                    it.name = it.name + '!' + toks[j][1]
                    j += 1
                k = match_delim(toks, j)
                if k < end and toks[k][1] == ';':
                    k += 1
                i = k
            else:
                raise ScanError('%s:%d: unrecognised item starting with %r' % (fname, t[2], t[1]))
        elif t[1] == ';':
            i += 1
            continue
        else:
            raise ScanError('%s:%d: unrecognised item starting with %r' % (fname, t[2], t[1]))
        it.attrs = attrs
        it.toks = toks
        it.start = start
        it.end = i
        it.parent = parent
        it.fname = fname
        it.is_test = is_test
        items.append(it)
    return items


class SourceFile(object):
    def __init__(self, path, relname):
        self.path = path
        self.relname = relname
        with open(path, 'r', encoding='utf-8') as f:
            self.text = f.read()
        self.toks = tokenize(self.text, relname)
        self.items = scan_items(self.toks, 0, len(self.toks), relname)

    def walk(self, include_tests=False):
        """yield every item (depth-first), skipping #[cfg(test)] subtrees by default."""
        stack = list(reversed(self.items))
        while stack:
            it = stack.pop()
            if it.is_test and not include_tests:
                continue
            yield it
            if it.children:
                stack.extend(reversed(it.children))

    def impls(self, self_ty=None, trait=False):
        for it in self.walk():
            if it.kind == 'impl' and (self_ty is None or it.self_ty == self_ty):
                if trait is False or it.trait == trait:
                    yield it


def nested_items(fn_item):
    """struct / impl / fn items declared directly inside the body of `fn_item` (cached)."""
    if fn_item.nested is not None:
        return fn_item.nested
    out = []
    if fn_item.body is not None:
        toks = fn_item.toks
        a, b = fn_item.body
        i = a + 1
        end = b - 1
        stmt_start = True
        while i < end:
            t = toks[i]
            if stmt_start and ((t[0] == 'p' and t[1] == '#') or
                               (t[0] == 'id' and t[1] in ('struct', 'impl', 'fn'))):
                # attributes may precede a non-item statement: look ahead
                j = i
                while j < end and toks[j][0] == 'p' and toks[j][1] == '#':
                    j += 1
                    if j < end and toks[j][1] == '[':
                        j = match_delim(toks, j)
                if j < end and toks[j][0] == 'id' and toks[j][1] in ('struct', 'impl', 'fn'):
                    sub = scan_items(toks, i, end, fn_item.fname, fn_item, fn_item.is_test, max_items=1)
                    if sub:
                        out.append(sub[0])
                        i = sub[0].end
                        stmt_start = True
                        continue
            if t[0] == 'p' and t[1] in _OPEN:
                k = match_delim(toks, i)
                stmt_start = toks[i][1] == '{'
                i = k
                continue
            stmt_start = t[0] == 'p' and t[1] == ';'
            i += 1
    fn_item.nested = out
    return out


def use_imports(sf):
    """{local name: full path list} for every non-glob `use` of a source file (all nesting levels
    of the file's items; `use a::{b, c::d}` trees are expanded)."""
    out = {}

    def tree(toks, i, end, prefix):
        # parses one use-tree starting at i; returns index after it
        path = list(prefix)
        while i < end:
            t = toks[i]
            if t[0] == 'id' and t[1] != 'as':
                path.append(t[1])
                i += 1
                if i < end and toks[i][1] == '::':
                    i += 1
                    continue
                name = path[-1]
                if i < end and toks[i][0] == 'id' and toks[i][1] == 'as':
                    name = toks[i + 1][1]
                    i += 2
                out[name] = path
                return i
            if t[0] == 'p' and t[1] == '{':
                k = match_delim(toks, i)
                j = i + 1
                while j < k - 1:
                    j = tree(toks, j, k - 1, path)
                    if j < k - 1 and toks[j][1] == ',':
                        j += 1
                return k
            if t[0] == 'p' and t[1] == '*':
                return i + 1
            return i + 1
        return i
    for it in sf.walk(include_tests=False):
        if it.kind == 'use':
            a = it.start
            toks = it.toks
            while a < it.end and not (toks[a][0] == 'id' and toks[a][1] == 'use'):
                a += 1
            tree(toks, a + 1, it.end - 1, [])
    return out


def struct_fields(it):
    """[(field name, (tok_a, tok_b) of its type)] of a struct item, in declaration order.
    Tuple structs get field names '0', '1', ..."""
    toks = it.toks
    out = []
    if it.tuple_rng is not None:
        a, b = it.tuple_rng
        named = False
    elif it.brace_rng is not None:
        a, b = it.brace_rng
        named = True
    else:
        return out
    i = a
    idx = 0
    while i < b:
        # attributes
        while i < b and toks[i][0] == 'p' and toks[i][1] == '#':
            i = match_delim(toks, i + 1)
        if i >= b:
            break
        if toks[i][0] == 'id' and toks[i][1] == 'pub':
            i += 1
            if i < b and toks[i][1] == '(':
                i = match_delim(toks, i)
        if named:
            name = toks[i][1]
            if toks[i + 1][1] != ':':
                raise ScanError('%s:%d: bad struct field' % (it.fname, toks[i][2]))
            i += 2
        else:
            name = str(idx)
        j = i
        depth = 0
        while j < b:
            x = toks[j]
            if x[0] == 'p':
                if x[1] in ('(', '[', '{', '<'):
                    depth += 1
                elif x[1] in (')', ']', '}', '>'):
                    depth -= 1
                elif x[1] == ',' and depth == 0:
                    break
            j += 1
        out.append((name, (i, j)))
        idx += 1
        i = j + 1
    return out

"""Scalarisation of the AVX2 / IFMA vector field backends into LimbIR.

A `u32x8` is 8 lanes, a `u64x4` 4 lanes (memory order); `__m256i` values keep whichever lane view they
were produced in.  The thin wrappers of backend/vector/packed_simd.rs (macro generated) and the x86
intrinsics with constant controls are translator knowledge (`PACKED_SIMD_EXPECT` below is checked against
the source of packed_simd.rs on every run).

Lane semantics
  u32x8 + / -            add 32 / sub 32 per lane (checked: the code's bound contract is "never wraps")
  u64x4 + / -            add 64 / sub 64
  & | ^                  band / bor / bxor per lane
  shl::<N> / shr::<N>    shl w / shr per lane
  mul32, _mm256_mul_epu32   lane j: mul 64 (x32[2j]) (y32[2j])   (operands viewed as u32x8)
  u64x4 -> u32x8 view    lane 2j = cast 32 v_j, lane 2j+1 = shr v_j 32 (kept symbolic as halves of v_j, so
                         that viewing the same halves as a u64 lane again gives v_j back)
  u32x8 -> u64x4 view    lane j = bor lo (shl 64 hi 32)   (just `lo` when hi is the constant 0)
  shuffle/blend/permute/unpack with constant controls: lane renamings (Intel semantics, per 128-bit half
  where the instruction says so).
"""
import limbir
from limbir import (TransErr, Int, Arr, Struct, Tup, ChoiceV, Opaque, INT_W, Env)


class Half(object):
    """the low / high 32 bits of an (atomic) u64 lane"""
    __slots__ = ('base', 'hi')

    def __init__(self, base, hi):
        self.base = base    # Int u64 with atomic expression
        self.hi = hi


class MaskOf(object):
    """(-(c as iW)) as uW for a choice byte c in {0,1}: 0 or 2^W - 1   (W = 32 or 64)"""
    __slots__ = ('c', 'stage', 'w')

    def __init__(self, c, stage, w=32):
        self.c = c          # Int (u8) atomic
        self.stage = stage  # 'signed' (c as iW), 'neg' (-(c as iW)), 'mask' ((..) as uW)
        self.w = w


class MaskedXor(object):
    """mask & (a ^ b)"""
    __slots__ = ('c', 'a', 'b')

    def __init__(self, c, a, b):
        self.c = c
        self.a = a
        self.b = b


class XorPair(object):
    """a ^ b of two u32 lanes, kept symbolic until it is used"""
    __slots__ = ('a', 'b')

    def __init__(self, a, b):
        self.a = a
        self.b = b


class Vec(object):
    __slots__ = ('kind', 'rep', 'lanes')

    def __init__(self, kind, rep, lanes):
        self.kind = kind    # 'u32x8' | 'u64x4' | 'm256'
        self.rep = rep      # 32 | 64
        self.lanes = lanes


class Into(object):
    """result of `.into()` / a raw __m256i whose nominal type is fixed by the context"""
    __slots__ = ('v',)

    def __init__(self, v):
        self.v = v


class EnumV(object):
    __slots__ = ('enum', 'variant')

    def __init__(self, enum, variant):
        self.enum = enum
        self.variant = variant


class Uninit(object):
    __slots__ = ('ty',)

    def __init__(self, ty):
        self.ty = ty


VEC_TYPES = {'u32x8': 32, 'u64x4': 64}

# facts about packed_simd.rs the translator relies on: macro invocation arguments and the mul32 body
PACKED_SIMD_EXPECT = {
    'u64x4': ['u64x4', 'u64', '_mm256_add_epi64', '_mm256_sub_epi64', '_mm256_slli_epi64', '_mm256_srli_epi64',
              '_mm256_extract_epi64'],
    'u32x8': ['u32x8', 'u32', '_mm256_add_epi32', '_mm256_sub_epi32', '_mm256_slli_epi32', '_mm256_srli_epi32',
              '_mm256_extract_epi32'],
}


def check_packed_simd(sf):
    """verify that packed_simd.rs still binds the wrapper types to the intrinsics assumed here."""
    toks = sf.toks
    found = {}
    i = 0
    n = len(toks)
    while i < n - 2:
        if toks[i][1] == 'impl_shared' and toks[i + 1][1] == '!' and toks[i + 2][1] == '(':
            j = i + 3
            args = []
            while toks[j][1] != ')':
                if toks[j][0] == 'id':
                    args.append(toks[j][1])
                j += 1
            if args and args[0] != '$ty':
                found[args[0]] = args
            i = j
        i += 1
    for k, exp in PACKED_SIMD_EXPECT.items():
        if found.get(k) != exp:
            raise TransErr('packed_simd.rs: impl_shared!(%s, ..) is %r, the translator assumes %r'
                           % (k, found.get(k), exp))
    text = ' '.join(t[1] for t in toks).replace('$ ', '$')
    needed = [
        'pub fn mul32 ( self , rhs : u32x8 ) -> u64x4 { unsafe { core :: arch :: x86_64 :: _mm256_mul_epu32 ( self . 0 , rhs . 0 ) . into ( ) } }',
        'core :: arch :: x86_64 :: _mm256_set_epi32 ( x7 as i32 , x6 as i32 , x5 as i32 , x4 as i32 , x3 as i32 , x2 as i32 , x1 as i32 , x0 as i32 , )',
        'core :: arch :: x86_64 :: _mm256_set_epi64x ( x3 as i64 , x2 as i64 , x1 as i64 , x0 as i64 , )',
        'core :: arch :: x86_64 :: _mm256_set1_epi32 ( x as i32 )',
        'core :: arch :: x86_64 :: _mm256_set1_epi64x ( x as i64 )',
        'core :: arch :: x86_64 :: _mm256_and_si256 ( self . 0 , rhs . 0 )',
        'core :: arch :: x86_64 :: _mm256_xor_si256 ( self . 0 , rhs . 0 )',
        'core :: arch :: x86_64 :: $shl_intrinsic ( self . 0 , N )',
        'core :: arch :: x86_64 :: $shr_intrinsic ( self . 0 , N )',
        'core :: arch :: x86_64 :: $extract_intrinsic ( self . 0 , N ) as $lane_ty',
        'impl_conv ! ( u64x4 => u32x8 )',
    ]
    for frag in needed:
        if frag not in text:
            raise TransErr('packed_simd.rs no longer contains `%s` (wrapper semantics assumed by the translator)'
                           % frag.replace(' ', ''))


class VecTranslator(limbir.Translator):
    def __init__(self, mctx, spec, self_type, enums, import_files):
        limbir.Translator.__init__(self, mctx, spec, self_type)
        self.enums = enums                  # {enum name: [variants]}
        self.import_files = import_files    # {('crate', ..., 'constants'): SourceFile}
        self._imports = {}

    # -- lanes ---------------------------------------------------------------------------------
    def lane32(self, x, line):
        """an Int of type u32 for a 32-bit lane value"""
        if isinstance(x, Int):
            if x.ty == 'u32':
                return x
            return self.typed(x, 'u32', line)
        if isinstance(x, Half):
            if x.hi:
                return Int(('shr', x.base.e, 32), 'u32')
            return Int(('cast', 32, x.base.e), 'u32')
        if isinstance(x, (MaskOf, XorPair, MaskedXor)):
            return self.lane_int(x, 32, line)
        raise TransErr('unsupported lane value', line)

    def lane_int(self, x, w, line):
        """plain Int for a lane value of width w (resolving the symbolic forms)"""
        ty = 'u%d' % w
        if isinstance(x, Int):
            return x if x.ty == ty else self.typed(x, ty, line)
        if w == 32 and isinstance(x, Half):
            return self.lane32(x, line)
        if isinstance(x, MaskOf) and x.stage == 'mask' and x.w == w:
            return Int(('wsub', w, ('c', 0), ('cast', w, x.c.e)), ty)
        if isinstance(x, XorPair):
            return Int(('bxor', self.lane_int(x.a, w, line).e, self.lane_int(x.b, w, line).e), ty)
        if isinstance(x, MaskedXor):
            m = self.lane_int(MaskOf(x.c, 'mask', w), w, line)
            return Int(('band', ('bxor', self.lane_int(x.a, w, line).e, self.lane_int(x.b, w, line).e), m.e), ty)
        raise TransErr('unsupported lane value', line)

    def to32(self, v, line):
        if v.rep == 32:
            return list(v.lanes)
        out = []
        for L in v.lanes:
            if not isinstance(L, Int):
                L = self.lane_int(L, 64, line)
            if L.e[0] == 'c':
                out.append(Int(('c', L.e[1] & 0xffffffff), 'u32'))
                out.append(Int(('c', L.e[1] >> 32), 'u32'))
            else:
                if L.e[0] != 'v':
                    L = Int(self.b.emit_set(L.e), 'u64')
                out.append(Half(L, False))
                out.append(Half(L, True))
        return out

    def to64(self, v, line):
        if v.rep == 64:
            return list(v.lanes)
        out = []
        for j in range(4):
            a, b = v.lanes[2 * j], v.lanes[2 * j + 1]
            if isinstance(a, Half) and isinstance(b, Half) and a.base is b.base and not a.hi and b.hi:
                out.append(a.base)
                continue
            a = self.lane32(a, line)
            b = self.lane32(b, line)
            if a.e[0] == 'c' and b.e[0] == 'c':
                out.append(Int(('c', a.e[1] | (b.e[1] << 32)), 'u64'))
            elif b.e[0] == 'c' and b.e[1] == 0:
                out.append(Int(a.e, 'u64'))
            else:
                out.append(Int(('bor', a.e, ('shl', 64, b.e, 32)), 'u64'))
        return out

    def as_vec(self, v, kind, line):
        """view value v (Vec / Into) as nominal vector type `kind`"""
        if isinstance(v, Into):
            v = v.v
        if not isinstance(v, Vec):
            raise TransErr('expected a %s value' % kind, line)
        if kind == 'u32x8':
            return Vec('u32x8', 32, self.to32(v, line))
        if kind == 'u64x4':
            return Vec('u64x4', 64, self.to64(v, line))
        return Vec('m256', v.rep, list(v.lanes))

    def raw(self, v, line):
        if isinstance(v, Into):
            v = v.v
        if not isinstance(v, Vec):
            raise TransErr('intrinsic argument is not a vector', line)
        return v

    def imm(self, v, line, what='immediate'):
        return self.const_of(v, line, what)

    # -- overrides: values ---------------------------------------------------------------------
    def materialize(self, v):
        if isinstance(v, Vec):
            lanes = []
            for x in v.lanes:
                if isinstance(x, Int):
                    lanes.append(limbir.Translator.materialize(self, x))
                else:
                    # Half / MaskOf / XorPair / MaskedXor only mention atomic values: keep them symbolic
                    lanes.append(x)
            return Vec(v.kind, v.rep, lanes)
        if isinstance(v, Into):
            return Into(self.materialize(v.v))
        if isinstance(v, (MaskOf, XorPair, MaskedXor, EnumV, Uninit)):
            return v
        return limbir.Translator.materialize(self, v)

    def typed(self, x, ty, line):
        if isinstance(x, (MaskOf, XorPair, MaskedXor, Half)) and ty in ('u32', 'u64'):
            if isinstance(x, MaskOf) and (x.stage != 'mask' or 'u%d' % x.w != ty):
                raise TransErr('signed intermediate value used as %s' % ty, line)
            if isinstance(x, Half) and ty != 'u32':
                raise TransErr('32-bit lane half used as u64', line)
            return x
        return limbir.Translator.typed(self, x, ty, line)

    def coerce(self, v, ty, env, line):
        n = self.ty_name(ty, env) if ty[0] in ('tpath', 'tref') else None
        t = ty
        while t[0] == 'tref':
            t = t[3]
        n = self.ty_name(t, env) if t[0] == 'tpath' else None
        if n in VEC_TYPES:
            r = self.as_vec(v, n, line)
            return r
        if n == '__m256i':
            return self.as_vec(v, 'm256', line)
        if n in self.enums:
            if isinstance(v, EnumV) and v.enum == n:
                return v
            raise TransErr('expected a constant variant of enum %s' % n, line)
        if n == 'Choice' and isinstance(v, ChoiceV):
            return v
        if isinstance(v, Into):
            if isinstance(v.v, Struct) and n is not None and n in self.m.structs:
                if v.v.name == n:
                    return v.v
                r = self.m.find_impl_member(n, 'from', trait='From', trait_arg=v.v.name)
                if r is None:
                    raise TransErr('no `impl From<%s> for %s` for .into()' % (v.v.name, n), line)
                return self.call_item(r[0], r[1], r[2], None, [v.v], line)
            raise TransErr('`.into()` whose target type is not a vector type', line)
        return limbir.Translator.coerce(self, v, ty, env, line)

    def make_input(self, ty, env, line):
        t = ty
        while t[0] == 'tref':
            t = t[3]
        if t[0] == 'tpath':
            n = self.ty_name(t, env)
            if n in VEC_TYPES:
                w = VEC_TYPES[n]
                cnt = 256 // w
                return Vec(n, w, [Int(self.b.new_input(), 'u%d' % w) for _ in range(cnt)])
            if n == 'Choice':
                x = Int(self.b.new_input(), 'u8')
                self.pending_asserts.append((x.e, 2))
                return ChoiceV(x)
        if t[0] == 'ttuple':
            return Tup([self.make_input(x, env, line) for x in t[2]])
        return limbir.Translator.make_input(self, ty, env, line)

    def flatten_value(self, v, out, ln):
        if isinstance(v, Vec):
            for x in v.lanes:
                out.append(x if isinstance(x, Int) else self.lane_int(x, v.rep, ln))
        elif isinstance(v, Arr):
            for x in v.el:
                self.flatten_value(x, out, ln)
        elif isinstance(v, Struct):
            for k in v.f:
                self.flatten_value(v.f[k], out, ln)
        elif isinstance(v, Tup):
            for x in v.el:
                self.flatten_value(x, out, ln)
        else:
            limbir.flatten(v, out, ln)

    def post_process(self, nin, body, outs):
        """remove dead statements that cannot panic (lane halves etc. that are never used)"""
        pure = ('v', 'c', 'wadd', 'wsub', 'wmul', 'shr', 'shl', 'band', 'bor', 'bxor', 'cast')

        def is_pure(e):
            k = e[0]
            if k in ('v', 'c'):
                return True
            if k not in pure:
                return False
            return all(is_pure(x) for x in e[1:] if isinstance(x, tuple))

        def uses(e, acc):
            if e[0] == 'v':
                acc.add(e[1])
            else:
                for x in e[1:]:
                    if isinstance(x, tuple):
                        uses(x, acc)
        # variable index of each set statement
        idx = nin
        var_of = []
        for s in body:
            if s[0] == 'set':
                var_of.append(idx)
                idx += 1
            else:
                var_of.append(None)
        live = set(outs)
        keep = [False] * len(body)
        for k in range(len(body) - 1, -1, -1):
            s = body[k]
            if s[0] == 'assert' or not is_pure(s[1]) or var_of[k] in live:
                keep[k] = True
                uses(s[1], live)
        ren = {}
        for i in range(nin):
            ren[i] = i
        nxt = nin
        nb = []

        def rn(e):
            if e[0] == 'v':
                return ('v', ren[e[1]])
            return tuple(rn(x) if isinstance(x, tuple) else x for x in e)
        for k, s in enumerate(body):
            if not keep[k]:
                continue
            if s[0] == 'set':
                nb.append(('set', rn(s[1])))
                ren[var_of[k]] = nxt
                nxt += 1
            else:
                nb.append(('assert', rn(s[1]), s[2]))
        removed = len(body) - len(nb)
        if removed:
            self.notes.append('%d dead non-panicking statements removed (unused lane halves)' % removed)
        return nin, nb, [ren[o] for o in outs]

    # -- overrides: statements -----------------------------------------------------------------
    def translate(self, item, imp, file):
        self.pending_asserts = []
        return limbir.Translator.translate(self, item, imp, file)

    def call_decl(self, decl, item, self_val, args, defenv, self_ty, line):
        if self.depth == 0 and self.pending_asserts:
            for e, n in self.pending_asserts:
                self.b.emit_assert(e, n)
            self.pending_asserts = []
        return limbir.Translator.call_decl(self, decl, item, self_val, args, defenv, self_ty, line)

    def exec_stmt(self, st, env):
        if st[0] == 'let' and st[4] is None:
            _, ln, pat, ty, init = st
            if pat[0] != 'pid' or ty is None:
                raise TransErr('let without initializer and type', ln)
            env.vars[pat[2]] = Uninit(ty)
            return
        if st[0] == 'let':
            _, ln, pat, ty, init = st
            v = self.eval(init, env)
            if isinstance(v, Into) and ty is None:
                raise TransErr('`.into()` without a type annotation', ln)
            if ty is not None:
                v = self.coerce(v, ty, env, ln)
            v = self.materialize(self.deref_val(v))
            self.bind_pat(pat, v, env)
            return
        if st[0] == 'use':
            # `use core::arch::x86_64::_mm256_xxx [as alias];` makes the intrinsic callable by its (alias) name
            t = st[2] if len(st) > 2 else []
            if 'as' in t and t.index('as') == len(t) - 2 and t[-3].startswith('_mm256_') and '{' not in t:
                env.items[t[-1]] = ('intrinsic', t[-3])
            return
        if st[0] == 'nested':
            raise TransErr('nested item in kernel code', st[1])
        limbir.Translator.exec_stmt(self, st, env)

    def store(self, pl, v, env, line):
        try:
            old = pl.get()
        except KeyError:
            old = None
        if isinstance(old, Uninit):
            v = self.coerce(v, old.ty, env, line)
            pl.set(self.materialize(v))
            return
        if isinstance(old, Vec):
            v = self.as_vec(v, old.kind, line)
            pl.set(self.materialize(v))
            return
        if isinstance(v, Into):
            raise TransErr('`.into()` stored into a non-vector place', line)
        limbir.Translator.store(self, pl, v, env, line)

    def ev_repeat(self, e, env):
        x = self.eval(e[2], env)
        if isinstance(x, Vec) and all(isinstance(l, Int) and l.e[0] == 'c' for l in x.lanes):
            n = self.const_of(self.eval(e[3], env), e[1], 'array length')
            return Arr([Vec(x.kind, x.rep, list(x.lanes)) for _ in range(n)])
        return limbir.Translator.ev_repeat(self, e, env)

    def ev_unsafe(self, e, env):
        return self.eval_block(e[2], env)

    def ev_match(self, e, env):
        ln = e[1]
        s = self.eval(e[2], env)
        if not isinstance(s, EnumV):
            raise TransErr('match on a value that is not a translation-time enum variant', ln)
        for pat, body in e[3]:
            if pat[0] == 'pwild':
                return self.eval(body, env)
            if pat[0] == 'ppath':
                segs = pat[2]
                if len(segs) == 2 and segs[0] == s.enum:
                    if segs[1] not in self.enums.get(s.enum, []):
                        raise TransErr('unknown variant %s::%s' % (segs[0], segs[1]), pat[1])
                    if segs[1] == s.variant:
                        return self.eval(body, env)
                    continue
            raise TransErr('unsupported match pattern', pat[1])
        raise TransErr('no match arm for %s::%s' % (s.enum, s.variant), ln)

    # -- overrides: expressions ----------------------------------------------------------------
    def file_imports(self, f):
        r = self._imports.get(f.relname)
        if r is None:
            import rslex
            r = rslex.use_imports(f)
            self._imports[f.relname] = r
        return r

    def ev_path(self, e, env):
        segs = e[2]
        ln = e[1]
        if len(segs) == 2 and segs[0] in self.enums:
            if segs[1] not in self.enums[segs[0]]:
                raise TransErr('unknown variant %s::%s' % (segs[0], segs[1]), ln)
            return EnumV(segs[0], segs[1])
        if len(segs) == 1:
            name = segs[0]
            if env.find_var_env(name) is None and env.find_item(name)[0] is None:
                f = env.get_file()
                imp = self.file_imports(f).get(name) if f is not None else None
                if imp is not None:
                    src = self.import_files.get(tuple(imp[:-1]))
                    if src is not None:
                        fenv = self.m.file_env(src)
                        it = fenv.items.get(imp[-1])
                        if it is not None and it[0] == 'constitem':
                            return self.eval_const_item(it[1], src)
                    raise TransErr('imported name %s (%s) cannot be resolved to a constant' % (name, '::'.join(imp)), ln)
        v = limbir.Translator.ev_path(self, e, env)
        if isinstance(v, Uninit):
            raise TransErr('use of uninitialised variable %s' % '::'.join(segs), ln)
        return v

    def vec_new(self, kind, args, line):
        w = VEC_TYPES[kind]
        cnt = 256 // w
        if len(args) != cnt:
            raise TransErr('%s::new with %d arguments' % (kind, len(args)), line)
        lanes = []
        for a in args:
            if (isinstance(a, Half) and w == 32) or (isinstance(a, MaskOf) and a.w == w):
                lanes.append(a)
            else:
                lanes.append(self.typed(a, 'u%d' % w, line))
        return Vec(kind, w, lanes)

    def ev_call(self, e, env):
        ln = e[1]
        f = e[2]
        if f[0] == 'path':
            segs = f[2]
            if len(segs) == 1 and segs[0].startswith('_mm256_'):
                args = [self.eval(a, env) for a in e[3]]
                return self.intrinsic(segs[0], args, ln)
            if len(segs) == 1 and env.find_var_env(segs[0]) is None:
                it, _ = env.find_item(segs[0])
                if it is not None and it[0] == 'intrinsic':
                    args = [self.eval(a, env) for a in e[3]]
                    return self.intrinsic(it[1], args, ln)
            if len(segs) >= 2 and segs[-1].startswith('_mm256_') and segs[-2] == 'x86_64':
                args = [self.eval(a, env) for a in e[3]]
                return self.intrinsic(segs[-1], args, ln)
            if len(segs) == 2 and segs[0] in VEC_TYPES:
                kind, fn = segs
                w = VEC_TYPES[kind]
                cnt = 256 // w
                if fn == 'splat_const':
                    if not f[3] or len(f[3]) != 1 or f[3][0][0] != 'gconst' or e[3]:
                        raise TransErr('unsupported splat_const form', ln)
                    x = self.typed(self.eval(f[3][0][1], env), 'u%d' % w, ln)
                    return Vec(kind, w, [x] * cnt)
                if f[3]:
                    raise TransErr('generic call arguments are outside the supported subset', ln)
                args = [self.eval(a, env) for a in e[3]]
                if fn in ('new', 'new_const'):
                    return self.vec_new(kind, args, ln)
                if fn == 'splat':
                    if len(args) != 1:
                        raise TransErr('splat expects one argument', ln)
                    a = args[0]
                    if isinstance(a, MaskOf) and a.w == w:
                        if a.stage != 'mask':
                            raise TransErr('splat of a signed value', ln)
                        return Vec(kind, w, [a] * cnt)
                    a = self.materialize(self.typed(a, 'u%d' % w, ln))
                    return Vec(kind, w, [a] * cnt)
                if fn == 'from':
                    if len(args) != 1:
                        raise TransErr('from expects one argument', ln)
                    return self.as_vec(args[0], kind, ln)
                raise TransErr('%s::%s is not a known wrapper function' % (kind, fn), ln)
        return limbir.Translator.ev_call(self, e, env)

    def ev_mcall(self, e, env):
        ln = e[1]
        name = e[3]
        gens = e[5]
        if name == 'into' and not e[4] and not gens:
            recv = self.eval(e[2], env)
            if isinstance(recv, (Vec, Into)):
                return Into(recv.v if isinstance(recv, Into) else recv)
            if isinstance(recv, Struct):
                return Into(recv)
            raise TransErr('.into() on a non-vector value', ln)
        if name in ('shl', 'shr', 'extract', 'mul32'):
            recv = self.eval(e[2], env)
            if isinstance(recv, limbir.ElemRef):
                recv = recv.arr.el[recv.i]
            if isinstance(recv, Vec) and recv.kind in VEC_TYPES:
                w = recv.rep
                if name == 'mul32':
                    if gens or len(e[4]) != 1 or recv.kind != 'u32x8':
                        raise TransErr('mul32 expects one u32x8 argument', ln)
                    other = self.as_vec(self.eval(e[4][0], env), 'u32x8', ln)
                    return self.mul_epu32(recv, other, ln)
                if not gens or len(gens) != 1 or gens[0][0] != 'gconst' or e[4]:
                    raise TransErr('%s needs one const generic argument' % name, ln)
                k = self.const_of(self.eval(gens[0][1], env), ln, 'const generic argument')
                if name == 'extract':
                    if k >= len(recv.lanes):
                        raise TransErr('extract index out of range', ln)
                    x = recv.lanes[k]
                    return x if isinstance(x, Int) else self.lane_int(x, w, ln)
                lanes = []
                for x in recv.lanes:
                    x = x if isinstance(x, Int) else self.lane_int(x, w, ln)
                    lanes.append(self.binop('<<' if name == 'shl' else '>>', x, Int(('c', k), None), ln))
                return Vec(recv.kind, w, lanes)
        if name == 'unwrap_u8' and not e[4]:
            recv = self.eval(e[2], env)
            if isinstance(recv, ChoiceV):
                return recv.x
            raise TransErr('unwrap_u8 on a non-Choice value', ln)
        return limbir.Translator.ev_mcall(self, e, env)

    def ev_unary(self, e, env):
        if e[2] == '-':
            v = self.eval(e[3], env)
            if isinstance(v, MaskOf) and v.stage == 'signed':
                return MaskOf(v.c, 'neg', v.w)
            raise TransErr('unary - is outside the supported subset', e[1])
        return limbir.Translator.ev_unary(self, e, env)

    def cast(self, x, ty, line):
        if ty in ('i32', 'i64'):
            w = int(ty[1:])
            if isinstance(x, Int) and x.e[0] == 'c':
                if x.e[1] >= (1 << (w - 1)):
                    raise TransErr('constant does not fit %s' % ty, line)
                return Int(('c', x.e[1]), None)
            if isinstance(x, Int) and x.ty == 'u8' and x.e[0] == 'v':
                return MaskOf(x, 'signed', w)
            raise TransErr('cast to %s of a run-time value other than a choice byte' % ty, line)
        if isinstance(x, MaskOf):
            if ty == 'u%d' % x.w and x.stage == 'neg':
                return MaskOf(x.c, 'mask', x.w)
            raise TransErr('unsupported cast of a signed intermediate value', line)
        if isinstance(x, (Half, XorPair, MaskedXor)):
            x = self.lane32(x, line)
        return limbir.Translator.cast(self, x, ty, line)

    def lane_binop(self, op, a, b, w, line):
        # conditional-select idiom  a ^ (mask & (a ^ b))  ->  sel c a b
        if op == '^':
            for p, q in ((a, b), (b, a)):
                if isinstance(q, MaskedXor) and isinstance(p, Int) and isinstance(q.a, Int) \
                        and isinstance(q.b, Int) and p.e == q.a.e:
                    return Int(('sel', q.c.e, q.a.e, q.b.e), 'u%d' % w)
            if isinstance(a, Int) and isinstance(b, Int) and a.e[0] == 'v' and b.e[0] == 'v':
                return XorPair(a, b)
        if op == '&':
            for p, q in ((a, b), (b, a)):
                if isinstance(p, MaskOf) and p.stage == 'mask' and p.w == w and isinstance(q, XorPair):
                    return MaskedXor(p.c, q.a, q.b)
        a = self.lane_int(a, w, line)
        b = self.lane_int(b, w, line)
        return limbir.Translator.binop(self, op, a, b, line)

    def binop(self, op, a, b, line):
        if isinstance(a, Into) or isinstance(b, Into):
            raise TransErr('arithmetic on an untyped `.into()` value', line)
        if isinstance(a, Vec) or isinstance(b, Vec):
            if not (isinstance(a, Vec) and isinstance(b, Vec)) or a.kind != b.kind or a.kind not in VEC_TYPES:
                raise TransErr('vector operator %s with mismatched operand types' % op, line)
            if op not in ('+', '-', '&', '|', '^'):
                raise TransErr('vector operator %s is outside the supported subset' % op, line)
            return Vec(a.kind, a.rep, [self.lane_binop(op, x, y, a.rep, line) for x, y in zip(a.lanes, b.lanes)])
        if isinstance(a, (Half, XorPair, MaskedXor)):
            a = self.lane32(a, line)
        if isinstance(b, (Half, XorPair, MaskedXor)):
            b = self.lane32(b, line)
        if isinstance(a, MaskOf) or isinstance(b, MaskOf):
            raise TransErr('arithmetic on a signed intermediate value', line)
        return limbir.Translator.binop(self, op, a, b, line)

    # -- intrinsics ----------------------------------------------------------------------------
    def mul_epu32(self, a, b, line):
        x = self.to32(a, line)
        y = self.to32(b, line)
        lanes = []
        for j in range(4):
            p, q = x[2 * j], y[2 * j]
            if isinstance(p, Half) and not p.hi:
                pe = ('cast', 32, p.base.e)
            else:
                pe = self.lane32(p, line).e
            if isinstance(q, Half) and not q.hi:
                qe = ('cast', 32, q.base.e)
            else:
                qe = self.lane32(q, line).e
            if pe[0] == 'c' and qe[0] == 'c':
                lanes.append(Int(('c', pe[1] * qe[1]), 'u64'))
            else:
                lanes.append(Int(('mul', 64, pe, qe), 'u64'))
        return Vec('u64x4', 64, lanes)

    def intrinsic(self, name, args, line):
        def v32(i):
            return self.to32(self.raw(args[i], line), line)

        def v64(i):
            return self.to64(self.raw(args[i], line), line)

        def need(n):
            if len(args) != n:
                raise TransErr('%s expects %d arguments' % (name, n), line)
        if name in ('_mm256_unpacklo_epi32', '_mm256_unpackhi_epi32'):
            need(2)
            a, b = v32(0), v32(1)
            o = 0 if name.endswith('lo_epi32') else 2
            out = []
            for h in (0, 4):
                out += [a[h + o], b[h + o], a[h + o + 1], b[h + o + 1]]
            return Vec('m256', 32, out)
        if name == '_mm256_shuffle_epi32':
            need(2)
            a = v32(0)
            imm = self.imm(args[1], line)
            if imm > 255:
                raise TransErr('shuffle immediate out of range', line)
            return Vec('m256', 32, [a[h + ((imm >> (2 * i)) & 3)] for h in (0, 4) for i in range(4)])
        if name == '_mm256_blend_epi32':
            need(3)
            a, b = v32(0), v32(1)
            imm = self.imm(args[2], line)
            if imm > 255:
                raise TransErr('blend immediate out of range', line)
            return Vec('m256', 32, [b[i] if (imm >> i) & 1 else a[i] for i in range(8)])
        if name == '_mm256_permutevar8x32_epi32':
            need(2)
            a = v32(0)
            idx = [self.imm(self.lane32(x, line) if not isinstance(x, Int) else x, line, 'permutation index')
                   for x in v32(1)]
            return Vec('m256', 32, [a[i & 7] for i in idx])
        if name == '_mm256_srlv_epi32':
            need(2)
            a = v32(0)
            cnt = [self.imm(self.lane32(x, line) if not isinstance(x, Int) else x, line, 'shift count')
                   for x in v32(1)]
            out = []
            for x, k in zip(a, cnt):
                if k >= 32:
                    out.append(Int(('c', 0), 'u32'))
                else:
                    x = x if isinstance(x, Int) else self.lane32(x, line)
                    out.append(self.binop('>>', x, Int(('c', k), None), line))
            return Vec('m256', 32, out)
        if name == '_mm256_mul_epu32':
            need(2)
            r = self.mul_epu32(self.raw(args[0], line), self.raw(args[1], line), line)
            return Vec('m256', 64, r.lanes)
        if name == '_mm256_permute4x64_epi64':
            need(2)
            a = v64(0)
            imm = self.imm(args[1], line)
            return Vec('m256', 64, [a[(imm >> (2 * i)) & 3] for i in range(4)])
        if name in ('_mm256_srli_epi64', '_mm256_slli_epi64'):
            need(2)
            k = self.imm(args[1], line)
            op = '>>' if 'srli' in name else '<<'
            return Vec('m256', 64, [self.binop(op, x, Int(('c', k), None), line) if k < 64 else Int(('c', 0), 'u64')
                                    for x in v64(0)])
        if name in ('_mm256_add_epi64', '_mm256_sub_epi64'):
            need(2)
            op = '+' if 'add' in name else '-'
            return Vec('m256', 64, [self.binop(op, x, y, line) for x, y in zip(v64(0), v64(1))])
        if name in ('_mm256_and_si256', '_mm256_or_si256', '_mm256_xor_si256'):
            need(2)
            op = {'and': '&', 'or_': '|', 'xor': '^'}[name[7:10]]
            ra, rb = self.raw(args[0], line), self.raw(args[1], line)
            if ra.rep == 64 and rb.rep == 64:
                return Vec('m256', 64, [self.binop(op, x, y, line) for x, y in zip(ra.lanes, rb.lanes)])
            return Vec('m256', 32, [self.lane_binop(op, x, y, 32, line) for x, y in zip(v32(0), v32(1))])
        if name in ('_mm256_madd52lo_epu64', '_mm256_madd52hi_epu64'):
            need(3)
            z, x, y = v64(0), v64(1), v64(2)
            m52 = (1 << 52) - 1
            out = []
            for zz, xx, yy in zip(z, x, y):
                zz, xx, yy = (self.lane_int(t, 64, line) for t in (zz, xx, yy))
                xe = ('c', xx.e[1] & m52) if xx.e[0] == 'c' else ('band', xx.e, ('c', m52))
                ye = ('c', yy.e[1] & m52) if yy.e[0] == 'c' else ('band', yy.e, ('c', m52))
                if xe[0] == 'c' and ye[0] == 'c':
                    prod = ('c', xe[1] * ye[1])
                    part = ('c', prod[1] & m52) if name.endswith('lo_epu64') else ('c', prod[1] >> 52)
                else:
                    prod = ('mul', 128, xe, ye)
                    part = ('band', prod, ('c', m52)) if name.endswith('lo_epu64') else ('shr', prod, 52)
                out.append(self.binop('+', zz, Int(part, 'u64'), line))
            return Vec('m256', 64, out)
        raise TransErr('intrinsic %s is outside the supported subset' % name, line)

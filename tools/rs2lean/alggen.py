"""AlgIR modules of rs2lean: item configuration, constant table, Lean emission (deep programs and
shallow `_sh` twins) and manifest entries."""
import hashlib
import json

import rslex
import rsparse
import algir
from algir import AlgSpec
from limbir import TransErr

CD = 'curve25519-dalek/src/'
F_FIELD = CD + 'field.rs'
F_CURVE = CD + 'backend/serial/curve_models/mod.rs'
F_EDWARDS = CD + 'edwards.rs'
F_MONT = CD + 'montgomery.rs'
F_RIST = CD + 'ristretto.rs'
F_CONST64 = CD + 'backend/serial/u64/constants.rs'
F_CONST32 = CD + 'backend/serial/u32/constants.rs'
F_FIELD64 = CD + 'backend/serial/u64/field.rs'

ALG_FILES = [F_FIELD, F_CURVE, F_EDWARDS, F_MONT, F_RIST]

BYTES_NOTE = 'field part only; byte packing / unpacking modelled by hand'


class AlgModule(object):
    def __init__(self, name, files, items):
        self.name = name
        self.files = files      # priority order; files[0] is the source of the items
        self.items = items


def S(name, fn, **kw):
    return AlgSpec(name, fn, **kw)


ALG_MODULES = [
    AlgModule('AlgField', [F_FIELD], [
        S('pow22501', 'pow22501', container='FieldElement', expect=(1, 2)),
        S('pow_p58', 'pow_p58', container='FieldElement', expect=(1, 1)),
        S('invert', 'invert', container='FieldElement', expect=(1, 1)),
        S('sqrt_ratio_i', 'sqrt_ratio_i', container='FieldElement', expect=(2, 2)),
        S('invsqrt', 'invsqrt', container='FieldElement', expect=(1, 2)),
    ]),
    AlgModule('AlgCurve', [F_CURVE, F_EDWARDS, F_FIELD], [
        S('ProjectivePoint_identity', 'identity', container='ProjectivePoint', trait='Identity', expect=(0, 3)),
        S('ProjectiveNielsPoint_identity', 'identity', container='ProjectiveNielsPoint', trait='Identity',
          expect=(0, 4)),
        S('AffineNielsPoint_identity', 'identity', container='AffineNielsPoint', trait='Identity', expect=(0, 3)),
        S('ProjectivePoint_is_valid', 'is_valid', container='ProjectivePoint', trait='ValidityCheck',
          expect=(3, 1)),
        S('ProjectiveNielsPoint_conditional_select', 'conditional_select', container='ProjectiveNielsPoint',
          trait='ConditionallySelectable', expect=(9, 4)),
        S('ProjectiveNielsPoint_conditional_assign', 'conditional_assign', container='ProjectiveNielsPoint',
          trait='ConditionallySelectable', expect=(9, 4)),
        S('AffineNielsPoint_conditional_select', 'conditional_select', container='AffineNielsPoint',
          trait='ConditionallySelectable', expect=(7, 3)),
        S('AffineNielsPoint_conditional_assign', 'conditional_assign', container='AffineNielsPoint',
          trait='ConditionallySelectable', expect=(7, 3)),
        S('ProjectivePoint_as_extended', 'as_extended', container='ProjectivePoint', expect=(3, 4)),
        S('CompletedPoint_as_projective', 'as_projective', container='CompletedPoint', expect=(4, 3)),
        S('CompletedPoint_as_extended', 'as_extended', container='CompletedPoint', expect=(4, 4)),
        S('ProjectivePoint_double', 'double', container='ProjectivePoint', expect=(3, 4)),
        S('add_ProjectiveNielsPoint', 'add', container='EdwardsPoint', trait='Add',
          trait_arg='ProjectiveNielsPoint', expect=(8, 4)),
        S('sub_ProjectiveNielsPoint', 'sub', container='EdwardsPoint', trait='Sub',
          trait_arg='ProjectiveNielsPoint', expect=(8, 4)),
        S('add_AffineNielsPoint', 'add', container='EdwardsPoint', trait='Add', trait_arg='AffineNielsPoint',
          expect=(7, 4)),
        S('sub_AffineNielsPoint', 'sub', container='EdwardsPoint', trait='Sub', trait_arg='AffineNielsPoint',
          expect=(7, 4)),
        S('ProjectiveNielsPoint_neg', 'neg', container='ProjectiveNielsPoint', trait='Neg', expect=(4, 4)),
        S('AffineNielsPoint_neg', 'neg', container='AffineNielsPoint', trait='Neg', expect=(3, 3)),
    ]),
    AlgModule('AlgEdwards', [F_EDWARDS, F_CURVE, F_FIELD], [
        S('decompress_step_1', 'step_1', container='decompress', expect=(1, 4),
          note='input 0 is FieldElement::from_bytes(repr); ' + BYTES_NOTE),
        S('decompress_step_2', 'step_2', container='decompress', expect=(4, 4),
          note='inputs X, Y, Z then the sign bit Choice::from(repr[31] >> 7); ' + BYTES_NOTE),
        S('compress', 'compress', container='EdwardsPoint', expect=(4, 2),
          note='outputs: y (the value that is encoded) and is_negative(x) (the sign bit); ' + BYTES_NOTE),
        S('to_montgomery', 'to_montgomery', container='EdwardsPoint', expect=(4, 1),
          note='output: u before as_bytes; ' + BYTES_NOTE),
        S('as_projective_niels', 'as_projective_niels', container='EdwardsPoint', expect=(4, 4)),
        S('as_projective', 'as_projective', container='EdwardsPoint', expect=(4, 3)),
        S('as_affine_niels', 'as_affine_niels', container='EdwardsPoint', expect=(4, 3)),
        S('identity', 'identity', container='EdwardsPoint', trait='Identity', expect=(0, 4)),
        S('ct_eq', 'ct_eq', container='EdwardsPoint', trait='ConstantTimeEq', expect=(8, 1)),
        S('conditional_select', 'conditional_select', container='EdwardsPoint', trait='ConditionallySelectable',
          expect=(9, 4)),
        S('neg', 'neg', container='EdwardsPoint', trait='Neg', self_ref=True, expect=(4, 4)),
        S('double', 'double', container='EdwardsPoint', expect=(4, 4),
          note='composition as_projective -> ProjectivePoint::double -> CompletedPoint::as_extended'),
        S('add', 'add', container='EdwardsPoint', trait='Add', trait_arg='EdwardsPoint', expect=(8, 4),
          note='composition as_projective_niels -> Add<&ProjectiveNielsPoint> -> as_extended'),
        S('sub', 'sub', container='EdwardsPoint', trait='Sub', trait_arg='EdwardsPoint', expect=(8, 4),
          note='composition as_projective_niels -> Sub<&ProjectiveNielsPoint> -> as_extended'),
        S('is_valid', 'is_valid', container='EdwardsPoint', trait='ValidityCheck', expect=(4, 1)),
    ]),
    AlgModule('AlgMontgomery', [F_MONT, F_FIELD], [
        S('differential_add_and_double', 'differential_add_and_double', expect=(5, 4)),
        S('ProjectivePoint_identity', 'identity', container='ProjectivePoint', trait='Identity', expect=(0, 2)),
        S('ProjectivePoint_conditional_select', 'conditional_select', container='ProjectivePoint',
          trait='ConditionallySelectable', expect=(5, 2)),
        S('ProjectivePoint_as_affine', 'as_affine', container='ProjectivePoint', expect=(2, 1),
          note='output: u before as_bytes; ' + BYTES_NOTE),
        S('to_edwards', 'to_edwards', container='MontgomeryPoint', expect=(1, 2),
          note='input: u = from_bytes(self); outputs: the test u == -1 (early return None) and '
               'y = (u-1)/(u+1); the sign bit insertion and the Edwards decompression that follow are not part '
               'of this item; ' + BYTES_NOTE),
        S('elligator_encode', 'elligator_encode', expect=(1, 1), note='output: u before as_bytes; ' + BYTES_NOTE),
        S('ct_eq', 'ct_eq', container='MontgomeryPoint', trait='ConstantTimeEq', expect=(2, 1),
          note='inputs: from_bytes(self), from_bytes(other); ' + BYTES_NOTE),
    ]),
    AlgModule('AlgRistretto', [F_RIST, F_EDWARDS, F_CURVE, F_FIELD], [
        S('decompress_step_2', 'step_2', container='decompress', expect=(1, 7)),
        S('compress', 'compress', container='RistrettoPoint', expect=(4, 1),
          note='output: s before as_bytes; ' + BYTES_NOTE),
        S('elligator_ristretto_flavor', 'elligator_ristretto_flavor', container='RistrettoPoint', expect=(1, 4)),
        S('ct_eq', 'ct_eq', container='RistrettoPoint', trait='ConstantTimeEq', expect=(8, 1)),
        S('batch_state_from', 'from', container='BatchCompressState', trait='From',
          nested_in=('RistrettoPoint', 'double_and_compress_batch'), expect=(4, 6)),
        S('batch_compress_closure', 'double_and_compress_batch', container='RistrettoPoint', closure=True,
          expect=(7, 1),
          note='per-point closure of double_and_compress_batch: inputs the BatchCompressState fields then inv; '
               'output s before as_bytes; batch inversion and iterator plumbing modelled by hand; ' + BYTES_NOTE),
    ]),
]


# ---------------------------------------------------------------------------------------------

def field_const_names(srcs):
    """constant table shared by all Alg modules: FieldElement::{ZERO,ONE,MINUS_ONE} followed by the
    field-element constants of backend/serial/u64/constants.rs in source order."""
    notes = []
    names = []
    f64 = srcs.get(F_FIELD64)
    have = set()
    for it in f64.walk():
        if it.kind == 'const' and it.parent is not None and it.parent.kind == 'impl' \
                and it.parent.self_ty == 'FieldElement51' and it.parent.trait is None:
            have.add(it.name)
    for n in ('ZERO', 'ONE', 'MINUS_ONE'):
        if n in have:
            names.append('FieldElement::' + n)
        else:
            notes.append('FieldElement51::%s not found in %s' % (n, F_FIELD64))

    def fe_consts(rel, tyname):
        out = []
        sf = srcs.get(rel)
        for it in sf.items:
            if it.kind in ('const', 'static') and it.ty_rng is not None and not it.is_test:
                ty = [t[1] for t in it.toks[it.ty_rng[0]:it.ty_rng[1]]]
                if ty == [tyname]:
                    out.append(it.name)
        return out
    c64 = fe_consts(F_CONST64, 'FieldElement51')
    try:
        c32 = fe_consts(F_CONST32, 'FieldElement2625')
        if c32 != c64:
            notes.append('field constants of u32/constants.rs differ from u64/constants.rs: %r vs %r' % (c32, c64))
    except TransErr as ex:
        notes.append(str(ex))
    names += ['constants::' + n for n in c64]
    return names, notes


def find_root(ctx, spec):
    main = ctx.files[0]

    def impl_ok(imp, s=spec):
        if imp.kind != 'impl' or imp.self_ty != s.container:
            return False
        if imp.trait != s.trait:
            return False
        if s.trait_arg is not None and imp.trait_arg != s.trait_arg:
            return False
        if s.self_ref is not None and imp.self_ref != s.self_ref:
            return False
        return True
    cands = []
    if spec.nested_in is not None:
        outer = [(ch, imp) for imp in main.walk() if imp.kind == 'impl' and imp.self_ty == spec.nested_in[0]
                 and imp.trait is None for ch in imp.children if ch.kind == 'fn' and ch.name == spec.nested_in[1]]
        if len(outer) != 1:
            raise TransErr('fn %s::%s not found in %s (missing or renamed)'
                           % (spec.nested_in[0], spec.nested_in[1], main.relname))
        nest = rslex.nested_items(outer[0][0])
        ctx.extra_items = nest
        for imp in nest:
            if impl_ok(imp):
                for ch in imp.children:
                    if ch.kind == 'fn' and ch.name == spec.fn:
                        cands.append((ch, imp))
    elif spec.container is None:
        cands = [(it, None) for it in main.items if it.kind == 'fn' and it.name == spec.fn and not it.is_test]
    else:
        for it in main.walk():
            if it.kind == 'mod' and it.name == spec.container and spec.trait is None:
                for ch in it.children:
                    if ch.kind == 'fn' and ch.name == spec.fn:
                        cands.append((ch, None))
            elif impl_ok(it):
                for ch in it.children:
                    if ch.kind == 'fn' and ch.name == spec.fn:
                        cands.append((ch, it))
        if spec.closure and len(cands) == 1:
            ctx.extra_items = rslex.nested_items(cands[0][0])
    if len(cands) != 1:
        where = spec.container or 'top level'
        if spec.trait:
            where = 'impl %s%s for %s' % (spec.trait, '<%s>' % spec.trait_arg if spec.trait_arg else '', where)
        raise TransErr('fn %s: %d definitions found in `%s` of %s (missing, renamed or ambiguous)'
                       % (spec.fn, len(cands), where, main.relname))
    return cands[0]


def token_hash(items):
    h = hashlib.sha256()
    for it in items:
        h.update(('\x1e' + it.qualname() + '\x1e').encode('utf-8'))
        h.update('\x1f'.join(it.token_texts()).encode('utf-8'))
    return h.hexdigest()


def translate_alg_item(srcs, mod, spec, const_names, item_errors):
    res = {'module': mod.name, 'name': spec.name, 'source': mod.files[0], 'status': 'failed', 'message': '',
           'root': spec.fn, 'line': 0, 'n_in': None, 'n_out': None, 'n_stmts': None, 'sha256': None,
           'covers': [], 'covered_ids': [], 'notes': [], 'note': spec.note, 'constants': []}
    try:
        files = [srcs.get(f) for f in mod.files]
        ctx = algir.AlgCtx(files, const_names)
        item, imp = find_root(ctx, spec)
        res['root'] = item.qualname()
        res['line'] = item.line
        tr = algir.AlgTranslator(ctx, spec)
        if spec.closure:
            r = tr.translate_closure(item, imp)
        else:
            r = tr.translate_fn(item, imp)
        res.update(r)
        res['n_out'] = len(r['outs'])
        res['n_stmts'] = len(r['body'])
        res['covers'] = [(it.fname, it.qualname(), it.line) for it in tr.visited]
        res['covered_ids'] = [(it.fname, it.start) for it in tr.visited]
        res['notes'] = tr.notes
        res['constants'] = tr.consts_used
        res['sha256'] = token_hash(tr.visited)
        if spec.expect is not None and (r['n_in'], len(r['outs'])) != spec.expect:
            raise TransErr('shape mismatch: translated %d in / %d out, expected %d in / %d out'
                           % (r['n_in'], len(r['outs']), spec.expect[0], spec.expect[1]))
        res['status'] = 'ok'
    except item_errors as ex:
        res['status'] = 'failed'
        res['message'] = 'recursion limit exceeded' if isinstance(ex, RecursionError) else str(ex)
    return res


# ---------------------------------------------------------------------------------------------
# Lean emission
# ---------------------------------------------------------------------------------------------

def lean_op(op, param):
    if op in ('pow2k', 'const'):
        return '.%s %d' % (op, param)
    return '.' + op


def lean_aprog(r):
    name = r['name']
    doc = ['`%s` -- translated from `%s` (%s:%d).' % (name, r['root'], r['source'], r['line']),
           'nIn = %d, nOut = %d, statements = %d.' % (r['n_in'], r['n_out'], r['n_stmts']),
           'inputs:  ' + (', '.join('%d=%s:%s' % (i, n, s) for i, (n, s) in
                                    enumerate(zip(r['in_names'], r['in_sorts']))) or '(none)'),
           'outputs: ' + ', '.join('%s:%s' % (n, s) for n, s in zip(r['out_names'], r['out_sorts']))]
    if r.get('note'):
        doc.append(r['note'])
    for n in r['notes']:
        doc.append('note: ' + n)
    lines = ['/-- ' + '\n'.join(doc).replace('-/', '- /') + ' -/',
             'def %s : AProg where' % name,
             '  nIn := %d' % r['n_in']]
    if r['body']:
        lines.append('  body := [')
        lines.append(',\n'.join('    ⟨%s, [%s]⟩' % (lean_op(op, p), ', '.join(str(a) for a in args))
                                for op, p, args in r['body']))
        lines.append('  ]')
    else:
        lines.append('  body := []')
    lines.append('  outs := [%s]' % ', '.join(str(o) for o in r['outs']))
    return '\n'.join(lines) + '\n'


_SH_FMT = {
    'add': 'o.add %s %s', 'sub': 'o.sub %s %s', 'mul': 'o.mul %s %s', 'neg': 'o.neg %s', 'square': 'o.square %s',
    'square2': 'o.square2 %s', 'ctEq': 'o.ctEq %s %s', 'isNeg': 'o.isNeg %s', 'isZero': 'o.isZero %s',
    'cand': 'o.cand %s %s', 'cor': 'o.cor %s %s', 'cxor': 'o.cxor %s %s', 'cnot': 'o.cnot %s',
    'csel': 'o.csel %s %s %s', 'copy': '%s',
}


def lean_sh(r):
    name = r['name']
    nin = r['n_in']
    params = ' '.join('x%d' % i for i in range(nin))
    binder = (' (%s : V)' % params) if nin else ''
    lines = ['/-- shallow twin of `%s`: the same computation as a `let` chain over an arbitrary `FOps V`. -/' % name,
             'def %s_sh {V : Type} (o : FOps V)%s : List V :=' % (name, binder)]
    for j, (op, p, args) in enumerate(r['body']):
        xs = tuple('x%d' % a for a in args)
        if op == 'pow2k':
            rhs = 'o.pow2k %s %d' % (xs[0], p)
        elif op == 'const':
            rhs = 'o.const %d' % p
        else:
            rhs = _SH_FMT[op] % xs
        lines.append('  let x%d : V := %s' % (nin + j, rhs))
    lines.append('  [%s]' % ', '.join('x%d' % o for o in r['outs']))
    lines.append('')
    lines.append('theorem %s_sh_ok {V : Type} (o : FOps V)%s :' % (name, binder))
    lines.append('    AProg.run o %s [%s] = %s_sh o%s := by kernel_rfl'
                 % (name, ', '.join('x%d' % i for i in range(nin)), name, (' ' + params) if nin else ''))
    return '\n'.join(lines) + '\n'


def emit_modules(header, mod, rs, const_names):
    deep = [header, 'import Dalek.IR.Alg\n', 'namespace Dalek.Gen.%s' % mod.name, 'open Dalek.IR\n',
            '/-! source: `%s` (callees inlined from %s) -/\n' % (mod.files[0], ', '.join(mod.files[1:]) or '-'),
            '/-- constant table of the `FOp.const i` operations: index ↦ Rust path (identical in all '
            '`Dalek.Gen.Alg*` modules) -/',
            'def constNames : List String := [%s]\n' % ', '.join(json.dumps(n) for n in const_names)]
    sh = [header, 'import Dalek.IR.Tactics', 'import Dalek.Gen.%s\n' % mod.name,
          'set_option linter.unusedVariables false\n',
          'namespace Dalek.Gen.%s' % mod.name, 'open Dalek.IR\n']
    ok = []
    for r in rs:
        if r['status'] == 'ok':
            deep.append(lean_aprog(r))
            sh.append(lean_sh(r))
            ok.append(r['name'])
        else:
            deep.append('-- FAILED %s: %s\n' % (r['name'], r['message'].replace('\n', ' ')))
            sh.append('-- FAILED %s\n' % r['name'])
    deep.append('/-- names of the successfully translated items of this module -/')
    deep.append('def itemNames : List String := [%s]\n' % ', '.join(json.dumps(n) for n in ok))
    deep.append('/-- the successfully translated items of this module, by name -/')
    deep.append('def items : List (String × AProg) := [%s]\n' % ', '.join('(%s, %s)' % (json.dumps(n), n) for n in ok))
    deep.append('end Dalek.Gen.%s\n' % mod.name)
    sh.append('end Dalek.Gen.%s\n' % mod.name)
    return '\n'.join(deep), '\n'.join(sh)


def manifest_entry(r):
    m = {'module': 'Dalek.Gen.' + r['module'], 'ir': 'AlgIR', 'name': r['name'], 'source': r['source'],
         'root': r['root'], 'line': r['line'], 'status': r['status'], 'message': r['message'],
         'n_in': r['n_in'], 'n_out': r['n_out'], 'n_stmts': r['n_stmts'], 'sha256': r['sha256'],
         'covers': ['%s:%d %s' % (c[0], c[2], c[1]) for c in r['covers']],
         'constants': r['constants'], 'notes': r['notes']}
    if r.get('note'):
        m['description'] = r['note']
    if r['status'] == 'ok':
        m['inputs'] = ['%s:%s' % (n, s) for n, s in zip(r['in_names'], r['in_sorts'])]
        m['outputs'] = ['%s:%s' % (n, s) for n, s in zip(r['out_names'], r['out_sorts'])]
    return m

"""AlgIR modules of rs2lean: item configuration, constant table, Lean emission (deep programs and
shallow `_sh` twins) and manifest entries."""
import hashlib
import json

import rslex
import rsparse
import algir
from algir import AlgSpec
from limbir import TransErr

CD = 'curve25519-dalek/src/'
F_FIELD = CD + 'field.rs'
F_CURVE = CD + 'backend/serial/curve_models/mod.rs'
F_EDWARDS = CD + 'edwards.rs'
F_MONT = CD + 'montgomery.rs'
F_RIST = CD + 'ristretto.rs'
F_CONST64 = CD + 'backend/serial/u64/constants.rs'
F_CONST32 = CD + 'backend/serial/u32/constants.rs'
F_FIELD64 = CD + 'backend/serial/u64/field.rs'

ALG_FILES = [F_FIELD, F_CURVE, F_EDWARDS, F_MONT, F_RIST]

BYTES_NOTE = 'field part only; byte packing / unpacking modelled by hand'


class AlgModule(object):
    def __init__(self, name, files, items, vec=None):
        self.name = name
        self.files = files      # priority order; files[0] is the source of the items
        self.items = items
        self.vec = vec          # parallel formulas: dict(kinds, field, consts, layout)
        self.ext = []           # extension entries of this module's constant table


F_AVX2_EDW = CD + 'backend/vector/avx2/edwards.rs'
F_AVX2_FIELD = CD + 'backend/vector/avx2/field.rs'
F_AVX2_CONST = CD + 'backend/vector/avx2/constants.rs'
F_IFMA_EDW = CD + 'backend/vector/ifma/edwards.rs'
F_IFMA_FIELD = CD + 'backend/vector/ifma/field.rs'
F_IFMA_CONST = CD + 'backend/vector/ifma/constants.rs'

LIT_EVAL = None     # set by rs2lean: (SourceFile, constant name) -> nested list of ints
P25519 = 2 ** 255 - 19
W26 = [0, 26, 51, 77, 102, 128, 153, 179, 204, 230]
AVX2_LANE = {(0, 0): 0, (1, 0): 1, (0, 1): 2, (1, 1): 3, (2, 0): 4, (3, 0): 5, (2, 1): 6, (3, 1): 7}


def lane_values(layout, rows):
    """values mod p of lanes A..D of a vector constant given by its limb rows"""
    if layout == 'avx2':
        if len(rows) != 5 or any(len(r) != 8 for r in rows):
            raise TransErr('vector constant is not 5 x u32x8')
        return [sum(rows[k // 2][AVX2_LANE[(e, k % 2)]] << W26[k] for k in range(10)) % P25519 for e in range(4)]
    if len(rows) != 5 or any(len(r) != 4 for r in rows):
        raise TransErr('vector constant is not 5 x u64x4')
    return [sum(rows[k][e] << (51 * k) for k in range(5)) % P25519 for e in range(4)]


def vec_items(ext_select=True):
    E, C = 'ExtendedPoint', 'CachedPoint'
    items = _vec_items(E, C)
    if not ext_select:      # the IFMA ExtendedPoint has no ConditionallySelectable impl
        items = [i for i in items if not i.name.startswith('ExtendedPoint_conditional_')]
    return items


def _vec_items(E, C):
    return [
        S('ExtendedPoint_from_EdwardsPoint', 'from', container=E, trait='From', trait_arg='EdwardsPoint',
          expect=(4, 4), note='inputs X, Y, Z, T; outputs the lanes A, B, C, D'),
        S('EdwardsPoint_from_ExtendedPoint', 'from', container='EdwardsPoint', trait='From', trait_arg=E,
          expect=(4, 4), note='inputs the lanes A, B, C, D; outputs X, Y, Z, T'),
        S('CachedPoint_from_ExtendedPoint', 'from', container=C, trait='From', trait_arg=E, expect=(4, 4)),
        S('ExtendedPoint_double', 'double', container=E, expect=(4, 4)),
        S('ExtendedPoint_mul_by_pow_2_body', 'mul_by_pow_2', container=E, expect=(4, 4), loop_once=True,
          same_as='ExtendedPoint_double', note='one iteration of the loop of mul_by_pow_2'),
        S('ExtendedPoint_add_CachedPoint', 'add', container=E, trait='Add', trait_arg=C, expect=(8, 4)),
        S('ExtendedPoint_sub_CachedPoint', 'sub', container=E, trait='Sub', trait_arg=C, expect=(8, 4)),
        S('CachedPoint_neg', 'neg', container=C, trait='Neg', expect=(4, 4)),
        S('ExtendedPoint_identity', 'identity', container=E, trait='Identity', expect=(0, 4)),
        S('CachedPoint_identity', 'identity', container=C, trait='Identity', expect=(0, 4)),
        S('ExtendedPoint_conditional_select', 'conditional_select', container=E, trait='ConditionallySelectable',
          expect=(9, 4)),
        S('ExtendedPoint_conditional_assign', 'conditional_assign', container=E, trait='ConditionallySelectable',
          expect=(9, 4)),
        S('CachedPoint_conditional_select', 'conditional_select', container=C, trait='ConditionallySelectable',
          expect=(9, 4)),
        S('CachedPoint_conditional_assign', 'conditional_assign', container=C, trait='ConditionallySelectable',
          expect=(9, 4)),
    ]


VEC_NOTE = ('vector field API abstracted at VALUE level (lane-wise add/neg/mul/square, named shuffles/blends as '
            'renamings, reductions and Reduced/Unreduced conversions as identity); the limb-level behaviour is '
            'covered by Dalek.Gen.%s')


def S(name, fn, **kw):
    return AlgSpec(name, fn, **kw)


ALG_MODULES = [
    AlgModule('AlgField', [F_FIELD], [
        S('pow22501', 'pow22501', container='FieldElement', expect=(1, 2)),
        S('pow_p58', 'pow_p58', container='FieldElement', expect=(1, 1)),
        S('invert', 'invert', container='FieldElement', expect=(1, 1)),
        S('sqrt_ratio_i', 'sqrt_ratio_i', container='FieldElement', expect=(2, 2)),
        S('invsqrt', 'invsqrt', container='FieldElement', expect=(1, 2)),
    ]),
    AlgModule('AlgCurve', [F_CURVE, F_EDWARDS, F_FIELD], [
        S('ProjectivePoint_identity', 'identity', container='ProjectivePoint', trait='Identity', expect=(0, 3)),
        S('ProjectiveNielsPoint_identity', 'identity', container='ProjectiveNielsPoint', trait='Identity',
          expect=(0, 4)),
        S('AffineNielsPoint_identity', 'identity', container='AffineNielsPoint', trait='Identity', expect=(0, 3)),
        S('ProjectivePoint_is_valid', 'is_valid', container='ProjectivePoint', trait='ValidityCheck',
          expect=(3, 1)),
        S('ProjectiveNielsPoint_conditional_select', 'conditional_select', container='ProjectiveNielsPoint',
          trait='ConditionallySelectable', expect=(9, 4)),
        S('ProjectiveNielsPoint_conditional_assign', 'conditional_assign', container='ProjectiveNielsPoint',
          trait='ConditionallySelectable', expect=(9, 4)),
        S('AffineNielsPoint_conditional_select', 'conditional_select', container='AffineNielsPoint',
          trait='ConditionallySelectable', expect=(7, 3)),
        S('AffineNielsPoint_conditional_assign', 'conditional_assign', container='AffineNielsPoint',
          trait='ConditionallySelectable', expect=(7, 3)),
        S('ProjectivePoint_as_extended', 'as_extended', container='ProjectivePoint', expect=(3, 4)),
        S('CompletedPoint_as_projective', 'as_projective', container='CompletedPoint', expect=(4, 3)),
        S('CompletedPoint_as_extended', 'as_extended', container='CompletedPoint', expect=(4, 4)),
        S('ProjectivePoint_double', 'double', container='ProjectivePoint', expect=(3, 4)),
        S('add_ProjectiveNielsPoint', 'add', container='EdwardsPoint', trait='Add',
          trait_arg='ProjectiveNielsPoint', expect=(8, 4)),
        S('sub_ProjectiveNielsPoint', 'sub', container='EdwardsPoint', trait='Sub',
          trait_arg='ProjectiveNielsPoint', expect=(8, 4)),
        S('add_AffineNielsPoint', 'add', container='EdwardsPoint', trait='Add', trait_arg='AffineNielsPoint',
          expect=(7, 4)),
        S('sub_AffineNielsPoint', 'sub', container='EdwardsPoint', trait='Sub', trait_arg='AffineNielsPoint',
          expect=(7, 4)),
        S('ProjectiveNielsPoint_neg', 'neg', container='ProjectiveNielsPoint', trait='Neg', expect=(4, 4)),
        S('AffineNielsPoint_neg', 'neg', container='AffineNielsPoint', trait='Neg', expect=(3, 3)),
    ]),
    AlgModule('AlgEdwards', [F_EDWARDS, F_CURVE, F_FIELD], [
        S('decompress_step_1', 'step_1', container='decompress', expect=(1, 4),
          note='input 0 is FieldElement::from_bytes(repr); ' + BYTES_NOTE),
        S('decompress_step_2', 'step_2', container='decompress', expect=(4, 4),
          note='inputs X, Y, Z then the sign bit Choice::from(repr[31] >> 7); ' + BYTES_NOTE),
        S('compress', 'compress', container='EdwardsPoint', expect=(4, 2),
          note='outputs: y (the value that is encoded) and is_negative(x) (the sign bit); ' + BYTES_NOTE),
        S('to_montgomery', 'to_montgomery', container='EdwardsPoint', expect=(4, 1),
          note='output: u before as_bytes; ' + BYTES_NOTE),
        S('as_projective_niels', 'as_projective_niels', container='EdwardsPoint', expect=(4, 4)),
        S('as_projective', 'as_projective', container='EdwardsPoint', expect=(4, 3)),
        S('as_affine_niels', 'as_affine_niels', container='EdwardsPoint', expect=(4, 3)),
        S('identity', 'identity', container='EdwardsPoint', trait='Identity', expect=(0, 4)),
        S('ct_eq', 'ct_eq', container='EdwardsPoint', trait='ConstantTimeEq', expect=(8, 1)),
        S('conditional_select', 'conditional_select', container='EdwardsPoint', trait='ConditionallySelectable',
          expect=(9, 4)),
        S('neg', 'neg', container='EdwardsPoint', trait='Neg', self_ref=True, expect=(4, 4)),
        S('double', 'double', container='EdwardsPoint', expect=(4, 4),
          note='composition as_projective -> ProjectivePoint::double -> CompletedPoint::as_extended'),
        S('add', 'add', container='EdwardsPoint', trait='Add', trait_arg='EdwardsPoint', expect=(8, 4),
          note='composition as_projective_niels -> Add<&ProjectiveNielsPoint> -> as_extended'),
        S('sub', 'sub', container='EdwardsPoint', trait='Sub', trait_arg='EdwardsPoint', expect=(8, 4),
          note='composition as_projective_niels -> Sub<&ProjectiveNielsPoint> -> as_extended'),
        S('is_valid', 'is_valid', container='EdwardsPoint', trait='ValidityCheck', expect=(4, 1)),
    ]),
    AlgModule('AlgMontgomery', [F_MONT, F_FIELD], [
        S('differential_add_and_double', 'differential_add_and_double', expect=(5, 4)),
        S('ProjectivePoint_identity', 'identity', container='ProjectivePoint', trait='Identity', expect=(0, 2)),
        S('ProjectivePoint_conditional_select', 'conditional_select', container='ProjectivePoint',
          trait='ConditionallySelectable', expect=(5, 2)),
        S('ProjectivePoint_as_affine', 'as_affine', container='ProjectivePoint', expect=(2, 1),
          note='output: u before as_bytes; ' + BYTES_NOTE),
        S('to_edwards', 'to_edwards', container='MontgomeryPoint', expect=(1, 2),
          note='input: u = from_bytes(self); outputs: the test u == -1 (early return None) and '
               'y = (u-1)/(u+1); the sign bit insertion and the Edwards decompression that follow are not part '
               'of this item; ' + BYTES_NOTE),
        S('elligator_encode', 'elligator_encode', expect=(1, 1), note='output: u before as_bytes; ' + BYTES_NOTE),
        S('ct_eq', 'ct_eq', container='MontgomeryPoint', trait='ConstantTimeEq', expect=(2, 1),
          note='inputs: from_bytes(self), from_bytes(other); ' + BYTES_NOTE),
    ]),
    AlgModule('AlgRistretto', [F_RIST, F_EDWARDS, F_CURVE, F_FIELD], [
        S('decompress_step_2', 'step_2', container='decompress', expect=(1, 7)),
        S('compress', 'compress', container='RistrettoPoint', expect=(4, 1),
          note='output: s before as_bytes; ' + BYTES_NOTE),
        S('elligator_ristretto_flavor', 'elligator_ristretto_flavor', container='RistrettoPoint', expect=(1, 4)),
        S('ct_eq', 'ct_eq', container='RistrettoPoint', trait='ConstantTimeEq', expect=(8, 1)),
        S('batch_state_from', 'from', container='BatchCompressState', trait='From',
          nested_in=('RistrettoPoint', 'double_and_compress_batch'), expect=(4, 6)),
        S('batch_compress_closure', 'double_and_compress_batch', container='RistrettoPoint', closure=True,
          expect=(7, 1),
          note='per-point closure of double_and_compress_batch: inputs the BatchCompressState fields then inv; '
               'output s before as_bytes; batch inversion and iterator plumbing modelled by hand; ' + BYTES_NOTE),
    ]),
    AlgModule('AlgAvx2Edwards', [F_AVX2_EDW, F_EDWARDS], vec_items(),
              vec=dict(kinds={'FieldElement2625x4': 'unreduced'}, field=F_AVX2_FIELD, consts=F_AVX2_CONST,
                       layout='avx2', limb='Avx2Field')),
    AlgModule('AlgIfmaEdwards', [F_IFMA_EDW, F_EDWARDS], vec_items(ext_select=False),
              vec=dict(kinds={'F51x4Unreduced': 'unreduced', 'F51x4Reduced': 'reduced'}, field=F_IFMA_FIELD,
                       consts=F_IFMA_CONST, layout='ifma', limb='IfmaField')),
]

ALG_FILES += [F_AVX2_EDW, F_IFMA_EDW]


# ---------------------------------------------------------------------------------------------

def enum_variants_of(sf, name):
    for it in sf.walk():
        if it.kind == 'enum' and it.name == name:
            toks = it.toks
            i = it.start
            while toks[i][1] != '{':
                i += 1
            end = rslex.match_delim(toks, i) - 1
            out = []
            j = i + 1
            while j < end:
                t = toks[j]
                if t[0] == 'p' and t[1] == '#':
                    j = rslex.match_delim(toks, j + 1)
                    continue
                if t[0] == 'id':
                    out.append(t[1])
                j += 1
            return out
    raise TransErr('enum %s not found in %s' % (name, sf.relname))


def setup_vec(srcs, mod, ctx):
    v = mod.vec
    ctx.vec_kinds = dict(v['kinds'])
    fsf = srcs.get(v['field'])
    ctx.vec_enums = {'Shuffle': enum_variants_of(fsf, 'Shuffle'), 'Lanes': enum_variants_of(fsf, 'Lanes')}
    ctx.ext_consts = mod.ext
    csf = srcs.get(v['consts'])
    main = ctx.files[0]

    def resolver(name):
        it = None
        for x in csf.items:
            if x.kind in ('const', 'static') and x.name == name:
                it = x
        if it is None or it.ty_rng is None or LIT_EVAL is None:
            return None
        ty = [t[1] for t in it.toks[it.ty_rng[0]:it.ty_rng[1]]]
        if len(ty) != 1:
            return None
        st = ctx.find_struct(ty[0])
        if st is None:
            return None
        fs = rslex.struct_fields(st)
        if len(fs) != 1:
            return None
        fty = rsparse.parse_type_range(st.toks, fs[0][1][0], fs[0][1][1], st.fname)
        kind = fty[2][-1] if fty[0] == 'tpath' else None
        if kind not in ctx.vec_kinds:
            return None
        rows = LIT_EVAL(csf, name)
        return ty[0], kind, lane_values(v['layout'], rows), rows
    ctx.vec_const = resolver


def field_const_names(srcs):
    """constant table shared by all Alg modules: FieldElement::{ZERO,ONE,MINUS_ONE} followed by the
    field-element constants of backend/serial/u64/constants.rs in source order."""
    notes = []
    names = []
    f64 = srcs.get(F_FIELD64)
    have = set()
    for it in f64.walk():
        if it.kind == 'const' and it.parent is not None and it.parent.kind == 'impl' \
                and it.parent.self_ty == 'FieldElement51' and it.parent.trait is None:
            have.add(it.name)
    for n in ('ZERO', 'ONE', 'MINUS_ONE'):
        if n in have:
            names.append('FieldElement::' + n)
        else:
            notes.append('FieldElement51::%s not found in %s' % (n, F_FIELD64))

    def fe_consts(rel, tyname):
        out = []
        sf = srcs.get(rel)
        for it in sf.items:
            if it.kind in ('const', 'static') and it.ty_rng is not None and not it.is_test:
                ty = [t[1] for t in it.toks[it.ty_rng[0]:it.ty_rng[1]]]
                if ty == [tyname]:
                    out.append(it.name)
        return out
    c64 = fe_consts(F_CONST64, 'FieldElement51')
    try:
        c32 = fe_consts(F_CONST32, 'FieldElement2625')
        if c32 != c64:
            notes.append('field constants of u32/constants.rs differ from u64/constants.rs: %r vs %r' % (c32, c64))
    except TransErr as ex:
        notes.append(str(ex))
    names += ['constants::' + n for n in c64]
    return names, notes


def find_root(ctx, spec):
    main = ctx.files[0]

    def impl_ok(imp, s=spec):
        if imp.kind != 'impl' or imp.self_ty != s.container:
            return False
        if imp.trait != s.trait:
            return False
        if s.trait_arg is not None and imp.trait_arg != s.trait_arg:
            return False
        if s.self_ref is not None and imp.self_ref != s.self_ref:
            return False
        return True
    cands = []
    if spec.nested_in is not None:
        outer = [(ch, imp) for imp in main.walk() if imp.kind == 'impl' and imp.self_ty == spec.nested_in[0]
                 and imp.trait is None for ch in imp.children if ch.kind == 'fn' and ch.name == spec.nested_in[1]]
        if len(outer) != 1:
            raise TransErr('fn %s::%s not found in %s (missing or renamed)'
                           % (spec.nested_in[0], spec.nested_in[1], main.relname))
        nest = rslex.nested_items(outer[0][0])
        ctx.extra_items = nest
        for imp in nest:
            if impl_ok(imp):
                for ch in imp.children:
                    if ch.kind == 'fn' and ch.name == spec.fn:
                        cands.append((ch, imp))
    elif spec.container is None:
        cands = [(it, None) for it in main.items if it.kind == 'fn' and it.name == spec.fn and not it.is_test]
    else:
        for it in main.walk():
            if it.kind == 'mod' and it.name == spec.container and spec.trait is None:
                for ch in it.children:
                    if ch.kind == 'fn' and ch.name == spec.fn:
                        cands.append((ch, None))
            elif impl_ok(it):
                for ch in it.children:
                    if ch.kind == 'fn' and ch.name == spec.fn:
                        cands.append((ch, it))
        if spec.closure and len(cands) == 1:
            ctx.extra_items = rslex.nested_items(cands[0][0])
    if len(cands) != 1:
        where = spec.container or 'top level'
        if spec.trait:
            where = 'impl %s%s for %s' % (spec.trait, '<%s>' % spec.trait_arg if spec.trait_arg else '', where)
        raise TransErr('fn %s: %d definitions found in `%s` of %s (missing, renamed or ambiguous)'
                       % (spec.fn, len(cands), where, main.relname))
    return cands[0]


def token_hash(items):
    h = hashlib.sha256()
    for it in items:
        h.update(('\x1e' + it.qualname() + '\x1e').encode('utf-8'))
        h.update('\x1f'.join(it.token_texts()).encode('utf-8'))
    return h.hexdigest()


def translate_alg_item(srcs, mod, spec, const_names, item_errors):
    res = {'module': mod.name, 'name': spec.name, 'source': mod.files[0], 'status': 'failed', 'message': '',
           'root': spec.fn, 'line': 0, 'n_in': None, 'n_out': None, 'n_stmts': None, 'sha256': None,
           'covers': [], 'covered_ids': [], 'notes': [], 'note': spec.note, 'constants': []}
    try:
        files = [srcs.get(f) for f in mod.files]
        ctx = algir.AlgCtx(files, const_names)
        if mod.vec:
            setup_vec(srcs, mod, ctx)
        item, imp = find_root(ctx, spec)
        res['root'] = item.qualname()
        res['line'] = item.line
        tr = algir.AlgTranslator(ctx, spec)
        if spec.closure:
            r = tr.translate_closure(item, imp)
        else:
            r = tr.translate_fn(item, imp)
        res.update(r)
        res['n_out'] = len(r['outs'])
        res['n_stmts'] = len(r['body'])
        res['covers'] = [(it.fname, it.qualname(), it.line) for it in tr.visited]
        res['covered_ids'] = [(it.fname, it.start) for it in tr.visited]
        res['notes'] = tr.notes
        res['constants'] = tr.consts_used
        res['sha256'] = token_hash(tr.visited)
        if spec.expect is not None and (r['n_in'], len(r['outs'])) != spec.expect:
            raise TransErr('shape mismatch: translated %d in / %d out, expected %d in / %d out'
                           % (r['n_in'], len(r['outs']), spec.expect[0], spec.expect[1]))
        res['status'] = 'ok'
    except item_errors as ex:
        res['status'] = 'failed'
        res['message'] = 'recursion limit exceeded' if isinstance(ex, RecursionError) else str(ex)
    return res


# ---------------------------------------------------------------------------------------------
# Lean emission
# ---------------------------------------------------------------------------------------------

def lean_op(op, param):
    if op in ('pow2k', 'const'):
        return '.%s %d' % (op, param)
    return '.' + op


def lean_aprog(r):
    name = r['name']
    doc = ['`%s` -- translated from `%s` (%s:%d).' % (name, r['root'], r['source'], r['line']),
           'nIn = %d, nOut = %d, statements = %d.' % (r['n_in'], r['n_out'], r['n_stmts']),
           'inputs:  ' + (', '.join('%d=%s:%s' % (i, n, s) for i, (n, s) in
                                    enumerate(zip(r['in_names'], r['in_sorts']))) or '(none)'),
           'outputs: ' + ', '.join('%s:%s' % (n, s) for n, s in zip(r['out_names'], r['out_sorts']))]
    if r.get('note'):
        doc.append(r['note'])
    for n in r['notes']:
        doc.append('note: ' + n)
    lines = ['/-- ' + '\n'.join(doc).replace('-/', '- /') + ' -/',
             'def %s : AProg where' % name,
             '  nIn := %d' % r['n_in']]
    if r['body']:
        lines.append('  body := [')
        lines.append(',\n'.join('    ⟨%s, [%s]⟩' % (lean_op(op, p), ', '.join(str(a) for a in args))
                                for op, p, args in r['body']))
        lines.append('  ]')
    else:
        lines.append('  body := []')
    lines.append('  outs := [%s]' % ', '.join(str(o) for o in r['outs']))
    return '\n'.join(lines) + '\n'


_SH_FMT = {
    'add': 'o.add %s %s', 'sub': 'o.sub %s %s', 'mul': 'o.mul %s %s', 'neg': 'o.neg %s', 'square': 'o.square %s',
    'square2': 'o.square2 %s', 'ctEq': 'o.ctEq %s %s', 'isNeg': 'o.isNeg %s', 'isZero': 'o.isZero %s',
    'cand': 'o.cand %s %s', 'cor': 'o.cor %s %s', 'cxor': 'o.cxor %s %s', 'cnot': 'o.cnot %s',
    'csel': 'o.csel %s %s %s', 'copy': '%s',
}


def lean_sh(r):
    name = r['name']
    nin = r['n_in']
    params = ' '.join('x%d' % i for i in range(nin))
    binder = (' (%s : V)' % params) if nin else ''
    lines = ['/-- shallow twin of `%s`: the same computation as a `let` chain over an arbitrary `FOps V`. -/' % name,
             'def %s_sh {V : Type} (o : FOps V)%s : List V :=' % (name, binder)]
    for j, (op, p, args) in enumerate(r['body']):
        xs = tuple('x%d' % a for a in args)
        if op == 'pow2k':
            rhs = 'o.pow2k %s %d' % (xs[0], p)
        elif op == 'const':
            rhs = 'o.const %d' % p
        else:
            rhs = _SH_FMT[op] % xs
        lines.append('  let x%d : V := %s' % (nin + j, rhs))
    lines.append('  [%s]' % ', '.join('x%d' % o for o in r['outs']))
    lines.append('')
    lines.append('theorem %s_sh_ok {V : Type} (o : FOps V)%s :' % (name, binder))
    lines.append('    AProg.run o %s [%s] = %s_sh o%s := by kernel_rfl'
                 % (name, ', '.join('x%d' % i for i in range(nin)), name, (' ' + params) if nin else ''))
    return '\n'.join(lines) + '\n'


def ext_key(name):
    return (0 if name.startswith('u32:') else 1, int(name.split(':')[1]))


def finalize_consts(mod, rs, const_names):
    """per-module constant table = the shared entries followed by this module's integer constants (ascending);
    resolves the ('ext', name) placeholders in the bodies."""
    names = list(const_names) + sorted(set(mod.ext), key=ext_key)
    index = dict((n, i) for i, n in enumerate(names))
    for r in rs:
        if r['status'] == 'ok':
            r['body'] = [(op, index[p[1]] if isinstance(p, tuple) else p, args) for op, p, args in r['body']]
    return names


def emit_modules(header, mod, rs, const_names):
    const_names = finalize_consts(mod, rs, const_names)
    mod.const_names = const_names
    for spec, r in zip(mod.items, rs):
        if spec.same_as and r['status'] == 'ok':
            o = [x for x in rs if x['name'] == spec.same_as]
            same = bool(o) and o[0]['status'] == 'ok' and o[0]['body'] == r['body'] and o[0]['outs'] == r['outs'] \
                and o[0]['n_in'] == r['n_in']
            r['same_as'] = spec.same_as if same else None
            r['notes'] = r['notes'] + [('program is identical to item `%s`' if same else
                                        'program differs from item `%s`') % spec.same_as]
        if mod.vec and r['status'] == 'ok':
            r['notes'] = r['notes'] + [VEC_NOTE % mod.vec['limb']]
    deep = [header, 'import Dalek.IR.Alg\n', 'namespace Dalek.Gen.%s' % mod.name, 'open Dalek.IR\n',
            '/-! source: `%s` (callees inlined from %s) -/\n' % (mod.files[0], ', '.join(mod.files[1:]) or '-'),
            '/-- constant table of the `FOp.const i` operations: index ↦ Rust path (the first %d entries are '
            'identical in all `Dalek.Gen.Alg*` modules; `u32:<n>` / `int:<n>` are the integer n) -/' % 14,
            'def constNames : List String := [%s]\n' % ', '.join(json.dumps(n) for n in const_names)]
    sh = [header, 'import Dalek.IR.Tactics', 'import Dalek.Gen.%s\n' % mod.name,
          'set_option linter.unusedVariables false\n',
          'namespace Dalek.Gen.%s' % mod.name, 'open Dalek.IR\n']
    ok = []
    for r in rs:
        if r['status'] == 'ok':
            deep.append(lean_aprog(r))
            sh.append(lean_sh(r))
            ok.append(r['name'])
        else:
            deep.append('-- FAILED %s: %s\n' % (r['name'], r['message'].replace('\n', ' ')))
            sh.append('-- FAILED %s\n' % r['name'])
    deep.append('/-- names of the successfully translated items of this module -/')
    deep.append('def itemNames : List String := [%s]\n' % ', '.join(json.dumps(n) for n in ok))
    deep.append('/-- the successfully translated items of this module, by name -/')
    deep.append('def items : List (String × AProg) := [%s]\n' % ', '.join('(%s, %s)' % (json.dumps(n), n) for n in ok))
    deep.append('end Dalek.Gen.%s\n' % mod.name)
    sh.append('end Dalek.Gen.%s\n' % mod.name)
    return '\n'.join(deep), '\n'.join(sh)


def manifest_entry(r):
    m = {'module': 'Dalek.Gen.' + r['module'], 'ir': 'AlgIR', 'name': r['name'], 'source': r['source'],
         'root': r['root'], 'line': r['line'], 'status': r['status'], 'message': r['message'],
         'n_in': r['n_in'], 'n_out': r['n_out'], 'n_stmts': r['n_stmts'], 'sha256': r['sha256'],
         'covers': ['%s:%d %s' % (c[0], c[2], c[1]) for c in r['covers']],
         'constants': r['constants'], 'notes': r['notes']}
    if r.get('note'):
        m['description'] = r['note']
    if 'same_as' in r:
        m['same_as'] = r['same_as']
    if r['status'] == 'ok':
        m['inputs'] = ['%s:%s' % (n, s) for n, s in zip(r['in_names'], r['in_sorts'])]
        m['outputs'] = ['%s:%s' % (n, s) for n, s in zip(r['out_names'], r['out_sorts'])]
    return m


# ---------------------------------------------------------------------------------------------
# kernel-call programs (KProg) for the parallel point formulas
# ---------------------------------------------------------------------------------------------

K_MODULES = [('KAvx2Edwards', 'AlgAvx2Edwards'), ('KIfmaEdwards', 'AlgIfmaEdwards')]


def k_backend(mod, limb_results):
    import kir
    v = mod.vec
    kernels = {}
    for r in limb_results:
        if r['status'] == 'ok':
            ident = r['n_stmts'] == 0 and r['outs'] == list(range(r['n_in']))
            kernels[r['name']] = (r['n_in'], r['n_out'], ident)
    kinds = {'U': None, 'R': None}
    for n, c in v['kinds'].items():
        kinds['U' if c == 'unreduced' else 'R'] = n
    words = 40 if v['layout'] == 'avx2' else 20
    return kir.Backend(mod.name, v['limb'], kinds, words, kernels)


def translate_k_item(srcs, mod, spec, const_names, backend, item_errors):
    import kir
    res = {'module': 'K' + mod.name[3:], 'name': spec.name, 'source': mod.files[0], 'status': 'failed', 'message': '',
           'root': spec.fn, 'line': 0, 'n_in': None, 'n_out': None, 'n_stmts': None, 'sha256': None,
           'covers': [], 'notes': [], 'note': spec.note, 'kernels': []}
    try:
        files = [srcs.get(f) for f in mod.files]
        ctx = algir.AlgCtx(files, const_names)
        saved = mod.ext
        mod.ext = []
        setup_vec(srcs, mod, ctx)
        mod.ext = saved
        item, imp = find_root(ctx, spec)
        res['root'] = item.qualname()
        res['line'] = item.line
        tr = kir.KTranslator(ctx, spec, backend)
        r = tr.translate_fn(item, imp)
        res.update(r)
        res['n_out'] = len(r['outs'])
        res['n_stmts'] = len(r['body'])
        res['covers'] = [(it.fname, it.qualname(), it.line) for it in tr.visited]
        res['notes'] = tr.notes
        res['sha256'] = token_hash(tr.visited)
        res['status'] = 'ok'
    except item_errors as ex:
        res['status'] = 'failed'
        res['message'] = 'recursion limit exceeded' if isinstance(ex, RecursionError) else str(ex)
    return res


def lean_karg(a):
    if a[0] == 'var':
        return '.var %d' % a[1]
    return '.lit [%s]' % ', '.join(str(x) for x in a[1])


def emit_k_module(header, kname, mod, rs, backend):
    limb = 'Dalek.Gen.' + mod.vec['limb']
    out = [header, 'import Dalek.IR.KProg', 'import %s\n' % limb, 'namespace Dalek.Gen.%s' % kname, 'open Dalek.IR\n',
           '/-! source: `%s`; every vector-field operation is one call of the translated kernel of `%s` -/\n'
           % (mod.files[0], limb)]
    lits = sorted(set(k for r in rs if r['status'] == 'ok' for k in r['kernels'] if k.startswith('litCopy')),
                  key=lambda k: int(k[7:]))
    for k in lits:
        n = int(k[7:])
        out.append('/-- identity kernel on %d words (used to return a literal value) -/' % n)
        out.append('def %s : Prog := { nIn := %d, body := [], outs := List.range %d }\n' % (k, n, n))
    ok = []
    for r in rs:
        if r['status'] != 'ok':
            out.append('-- FAILED %s: %s\n' % (r['name'], r['message'].replace('\n', ' ')))
            continue
        ok.append(r['name'])
        doc = ['`%s` -- translated from `%s` (%s:%d).' % (r['name'], r['root'], r['source'], r['line']),
               'nIn = %d values, nOut = %d values, statements (kernel calls) = %d.' % (r['n_in'], r['n_out'], r['n_stmts']),
               'inputs:  ' + ('; '.join('%d = %s' % (i, n) for i, n in enumerate(r['in_names'])) or '(none)'),
               'outputs: ' + '; '.join('%s [%d words]' % (n, w) for n, w in zip(r['out_names'], r['out_widths']))]
        if r.get('note'):
            doc.append(r['note'])
        for n in r['notes']:
            doc.append('note: ' + n)
        out.append('/-- ' + '\n'.join(doc).replace('-/', '- /') + ' -/')
        out.append('def %s : KProg where' % r['name'])
        out.append('  nIn := %d' % r['n_in'])
        if r['body']:
            out.append('  body := [')
            lines = []
            for k, args in r['body']:
                kn = k if k.startswith('litCopy') else '%s.%s' % (limb, k)
                lines.append('    ⟨%s, [%s]⟩' % (kn, ', '.join(lean_karg(a) for a in args)))
            out.append(',\n'.join(lines))
            out.append('  ]')
        else:
            out.append('  body := []')
        out.append('  outs := [%s]\n' % ', '.join(str(o) for o in r['outs']))
    out.append('/-- names of the successfully translated items of this module -/')
    out.append('def itemNames : List String := [%s]\n' % ', '.join(json.dumps(n) for n in ok))
    out.append('/-- the successfully translated items of this module, by name -/')
    out.append('def items : List (String × KProg) := [%s]\n' % ', '.join('(%s, %s)' % (json.dumps(n), n) for n in ok))
    out.append('end Dalek.Gen.%s\n' % kname)
    return '\n'.join(out)


def k_manifest_entry(r):
    m = {'module': 'Dalek.Gen.' + r['module'], 'ir': 'KProg', 'name': r['name'], 'source': r['source'],
         'root': r['root'], 'line': r['line'], 'status': r['status'], 'message': r['message'],
         'n_in': r['n_in'], 'n_out': r['n_out'], 'n_stmts': r['n_stmts'], 'sha256': r['sha256'],
         'kernels': r['kernels'], 'notes': r['notes'],
         'covers': ['%s:%d %s' % (c[0], c[2], c[1]) for c in r['covers']]}
    if r['status'] == 'ok':
        m['inputs'] = r['in_names']
        m['input_widths'] = r['in_widths']
        m['outputs'] = r['out_names']
        m['output_widths'] = r['out_widths']
    return m

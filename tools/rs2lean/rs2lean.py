#!/usr/bin/env python3
"""rs2lean: regenerate the Lean 4 LimbIR models + literal tables from the curve25519-dalek sources.

usage: rs2lean.py --repo /repo --out /verif/lean/Dalek/Gen

Exit code 0 even if some items fail to translate (see gen_manifest.json / stderr); 2 on internal crash.
Standard library only.
"""
import argparse
import hashlib
import json
import os
import re
import sys

sys.dont_write_bytecode = True
import traceback

sys.path.insert(0, os.path.dirname(os.path.abspath(__file__)))
sys.setrecursionlimit(20000)

import rslex          # noqa: E402
import rsparse        # noqa: E402
import limbir         # noqa: E402
import alggen         # noqa: E402
import vecir          # noqa: E402
import inventory      # noqa: E402
import fiatir         # noqa: E402
import cfginv         # noqa: E402
import hashinv        # noqa: E402
from limbir import ItemSpec, TransErr   # noqa: E402

CD = 'curve25519-dalek/src/'
F_FIELD64 = CD + 'backend/serial/u64/field.rs'
F_FIELD32 = CD + 'backend/serial/u32/field.rs'
F_SCALAR64 = CD + 'backend/serial/u64/scalar.rs'
F_SCALAR32 = CD + 'backend/serial/u32/scalar.rs'
F_CONST64 = CD + 'backend/serial/u64/constants.rs'
F_CONST32 = CD + 'backend/serial/u32/constants.rs'
F_AVX2 = CD + 'backend/vector/avx2/constants.rs'
F_IFMA = CD + 'backend/vector/ifma/constants.rs'
F_TOPCONST = CD + 'constants.rs'
F_SCALAR = CD + 'scalar.rs'
F_EDCONST = 'ed25519-dalek/src/constants.rs'
F_X25519 = 'x25519-dalek/src/x25519.rs'


class ModuleSpec(object):
    def __init__(self, name, src, self_type, consts, items, vec=None, fiat=None):
        self.fiat = fiat    # None | file name inside the fiat-crypto crate (`curve25519_64.rs`)
        self.name = name
        self.src = src
        self.self_type = self_type
        self.consts = consts
        self.items = items
        self.vec = vec      # None | dict(extra=[files], imports={use path: file}, wrappers=file, expand=fn)


F_FIAT64 = CD + 'backend/serial/fiat_u64/field.rs'
F_FIAT32 = CD + 'backend/serial/fiat_u32/field.rs'


def fiat_items(n):
    return [it for it in _fiat_items(n) if not (n == 10 and it.name == 'reduce')]


def _fiat_items(n):
    return [
        ItemSpec('add', 'add_assign', trait='AddAssign', expect=(2 * n, n)),
        ItemSpec('add_ref', 'add', trait='Add', expect=(2 * n, n), note='the by-reference Add impl (separate body)'),
        ItemSpec('sub', 'sub', trait='Sub', expect=(2 * n, n)),
        ItemSpec('sub_assign', 'sub_assign', trait='SubAssign', expect=(2 * n, n)),
        ItemSpec('mul', 'mul', trait='Mul', expect=(2 * n, n)),
        ItemSpec('mul_assign', 'mul_assign', trait='MulAssign', expect=(2 * n, n)),
        ItemSpec('neg', 'neg', trait='Neg', expect=(n, n)),
        ItemSpec('reduce', 'reduce', expect=(n, n), note='input: loose limbs'),
        ItemSpec('from_bytes', 'from_bytes', expect=(32, n)),
        ItemSpec('as_bytes', 'as_bytes', expect=(n, 32)),
        ItemSpec('square', 'square', expect=(n, n)),
        ItemSpec('square2', 'square2', expect=(n, n)),
        ItemSpec('pow2k_body', 'pow2k', expect=(n, n), opaque=('k',), loop_once=True,
                 note='one iteration of the `loop` in pow2k (loop count / exit test not modelled)'),
        ItemSpec('conditional_select', 'conditional_select', trait='ConditionallySelectable', expect=(2 * n + 1, n),
                 note='inputs: a, b, then the choice byte (asserted < 2)'),
        ItemSpec('conditional_assign', 'conditional_assign', trait='ConditionallySelectable', expect=(2 * n + 1, n),
                 note='inputs: self, rhs, then the choice byte (asserted < 2)'),
        ItemSpec('conditional_swap', 'conditional_swap', trait='ConditionallySelectable', expect=(2 * n + 1, 2 * n),
                 note='inputs: a, b, then the choice byte (asserted < 2); outputs: a then b after the swap'),
    ]


F_AVX2_FIELD = CD + 'backend/vector/avx2/field.rs'
F_PACKED_SIMD = CD + 'backend/vector/packed_simd.rs'


def enum_variants(sf, name):
    for it in sf.walk():
        if it.kind == 'enum' and it.name == name:
            toks = it.toks
            i = it.start
            while toks[i][1] != '{':
                i += 1
            end = rslex.match_delim(toks, i) - 1
            out = []
            j = i + 1
            while j < end:
                t = toks[j]
                if t[0] == 'p' and t[1] == '#':
                    j = rslex.match_delim(toks, j + 1)
                    continue
                if t[0] == 'id':
                    out.append(t[1])
                    j += 1
                    if j < end and toks[j][1] in ('(', '{'):
                        raise TransErr('enum %s has variants with fields' % name)
                    if j < end and toks[j][1] == '=':
                        raise TransErr('enum %s has explicit discriminants' % name)
                    continue
                j += 1
            return out
    raise TransErr('enum %s not found in %s' % (name, sf.relname))


def enum_arg(enum, variant):
    return lambda tr: vecir.EnumV(enum, variant)


def avx2_items(srcs):
    sf = srcs.get(F_AVX2_FIELD)
    items = [
        ItemSpec('new', 'new', expect=(20, 40), note='inputs: the limbs of x0, x1, x2, x3 (FieldElement51)'),
        ItemSpec('split', 'split', expect=(40, 20), note='outputs: the limbs of the four FieldElement51'),
        ItemSpec('negate_lazy', 'negate_lazy', expect=(40, 40)),
        ItemSpec('diff_sum', 'diff_sum', expect=(40, 40)),
        ItemSpec('reduce', 'reduce', expect=(40, 40)),
        ItemSpec('neg', 'neg', trait='Neg', expect=(40, 40)),
        ItemSpec('add', 'add', trait='Add', expect=(80, 40)),
        ItemSpec('mul_consts', 'mul', trait='Mul', trait_arg='(u32,u32,u32,u32)', expect=(44, 40),
                 note='inputs: the 40 lanes then the four u32 scalars'),
        ItemSpec('square_and_negate_D', 'square_and_negate_D', expect=(40, 40)),
        ItemSpec('mul', 'mul', trait='Mul', trait_arg='FieldElement2625x4', self_ref=True, expect=(80, 40)),
        ItemSpec('reduce64', 'reduce64', expect=(40, 40), note='inputs: z[0..10] as 10 x 4 u64 lanes'),
        ItemSpec('conditional_select', 'conditional_select', trait='ConditionallySelectable', expect=(81, 40),
                 note='inputs: a, b, then the choice byte (asserted < 2); the xor/mask idiom '
                      '`a ^ (mask & (a ^ b))` with mask = (-(c as i32)) as u32 is emitted as `sel c a b`'),
        ItemSpec('conditional_assign', 'conditional_assign', trait='ConditionallySelectable', expect=(81, 40),
                 note='inputs: self, other, then the choice byte (asserted < 2)'),
    ]
    for v in enum_variants(sf, 'Shuffle'):
        items.append(ItemSpec('shuffle_' + v, 'shuffle', expect=(40, 40),
                              fixed_args={'control': enum_arg('Shuffle', v)},
                              note='shuffle(Shuffle::%s)' % v))
    for v in enum_variants(sf, 'Lanes'):
        items.append(ItemSpec('blend_' + v, 'blend', expect=(80, 40),
                              fixed_args={'control': enum_arg('Lanes', v)},
                              note='blend(other, Lanes::%s): inputs self then other' % v))
    return items


def scalar_items(nl, nw):
    """item list of Scalar52 (nl=5, nw=9) / Scalar29 (nl=9, nw=17)."""
    return [
        ItemSpec('from_bytes', 'from_bytes', expect=(32, nl)),
        ItemSpec('from_bytes_wide', 'from_bytes_wide', expect=(64, nl)),
        ItemSpec('as_bytes', 'as_bytes', expect=(nl, 32)),
        ItemSpec('add', 'add', expect=(2 * nl, nl)),
        ItemSpec('sub', 'sub', expect=(2 * nl, nl)),
        ItemSpec('mul_internal', 'mul_internal', expect=(2 * nl, nw)),
        ItemSpec('square_internal', 'square_internal', expect=(nl, nw)),
        ItemSpec('montgomery_reduce', 'montgomery_reduce', expect=(nw, nl)),
        ItemSpec('mul', 'mul', expect=(2 * nl, nl)),
        ItemSpec('square', 'square', expect=(nl, nl)),
        ItemSpec('montgomery_mul', 'montgomery_mul', expect=(2 * nl, nl)),
        ItemSpec('montgomery_square', 'montgomery_square', expect=(nl, nl)),
        ItemSpec('as_montgomery', 'as_montgomery', expect=(nl, nl)),
        ItemSpec('from_montgomery', 'from_montgomery', expect=(nl, nl)),
    ]


F_IFMA_FIELD = CD + 'backend/vector/ifma/field.rs'


def ifma_items(srcs):
    sf = srcs.get(F_IFMA_FIELD)
    U, R = 'F51x4Unreduced', 'F51x4Reduced'
    items = [
        ItemSpec('new', 'new', self_type=U, expect=(20, 20), note='inputs: the limbs of x0, x1, x2, x3'),
        ItemSpec('split', 'split', self_type=U, expect=(20, 20)),
        ItemSpec('negate_lazy', 'negate_lazy', self_type=U, expect=(20, 20)),
        ItemSpec('diff_sum', 'diff_sum', self_type=U, expect=(20, 20)),
        ItemSpec('add', 'add', self_type=U, trait='Add', expect=(40, 20)),
        ItemSpec('reduce', 'from', self_type=R, trait='From', trait_arg=U, expect=(20, 20),
                 note='`impl From<F51x4Unreduced> for F51x4Reduced` (the weak reduction)'),
        ItemSpec('unreduce', 'from', self_type=U, trait='From', trait_arg=R, expect=(20, 20),
                 note='`impl From<F51x4Reduced> for F51x4Unreduced` (identity on the lanes)'),
        ItemSpec('neg', 'neg', self_type=R, trait='Neg', expect=(20, 20)),
        ItemSpec('mul', 'mul', self_type=R, trait='Mul', trait_arg=R, expect=(40, 20)),
        ItemSpec('mul_consts', 'mul', self_type=R, trait='Mul', trait_arg='(u32,u32,u32,u32)', expect=(24, 20),
                 note='inputs: the 20 lanes then the four u32 scalars'),
        ItemSpec('square', 'square', self_type=R, expect=(20, 20)),
        ItemSpec('conditional_select', 'conditional_select', self_type=R, trait='ConditionallySelectable',
                 expect=(41, 20), note='inputs: a, b, then the choice byte (asserted < 2); emitted as `sel c a b`'),
        ItemSpec('conditional_assign', 'conditional_assign', self_type=R, trait='ConditionallySelectable',
                 expect=(41, 20), note='inputs: self, other, then the choice byte (asserted < 2)'),
    ]
    for v in enum_variants(sf, 'Shuffle'):
        for pre, ty in (('', U), ('reduced_', R)):
            items.append(ItemSpec('%sshuffle_%s' % (pre, v), 'shuffle', self_type=ty, expect=(20, 20),
                                  fixed_args={'control': enum_arg('Shuffle', v)},
                                  note='%s::shuffle(Shuffle::%s)' % (ty, v)))
    for v in enum_variants(sf, 'Lanes'):
        for pre, ty in (('', U), ('reduced_', R)):
            items.append(ItemSpec('%sblend_%s' % (pre, v), 'blend', self_type=ty, expect=(40, 20),
                                  fixed_args={'control': enum_arg('Lanes', v)},
                                  note='%s::blend(other, Lanes::%s): inputs self then other' % (ty, v)))
    return items


MODULES = [
    ModuleSpec('Field51', F_FIELD64, 'FieldElement51', None, [
        ItemSpec('add', 'add_assign', trait='AddAssign', expect=(10, 5)),
        ItemSpec('sub', 'sub', trait='Sub', expect=(10, 5)),
        ItemSpec('mul', 'mul', trait='Mul', expect=(10, 5)),
        ItemSpec('neg', 'negate', expect=(5, 5)),
        ItemSpec('reduce', 'reduce', expect=(5, 5)),
        ItemSpec('from_bytes', 'from_bytes', expect=(32, 5)),
        ItemSpec('as_bytes', 'as_bytes', expect=(5, 32)),
        ItemSpec('pow2k_body', 'pow2k', expect=(5, 5), opaque=('k',), loop_once=True, empty_prelude=True,
                 note='one iteration of the `loop` in pow2k (loop count / exit test not modelled)'),
        ItemSpec('square2_tail', 'square2', expect=(5, 5), havoc_calls=('pow2k',),
                 note='the doubling loop of square2 applied to the result of pow2k(1)'),
    ]),
    ModuleSpec('Field26', F_FIELD32, 'FieldElement2625', None, [
        ItemSpec('add', 'add_assign', trait='AddAssign', expect=(20, 10)),
        ItemSpec('sub', 'sub', trait='Sub', expect=(20, 10)),
        ItemSpec('mul', 'mul', trait='Mul', expect=(20, 10)),
        ItemSpec('neg', 'negate', expect=(10, 10)),
        ItemSpec('reduce', 'reduce', expect=(10, 10)),
        ItemSpec('from_bytes', 'from_bytes', expect=(32, 10)),
        ItemSpec('as_bytes', 'as_bytes', expect=(10, 32)),
        ItemSpec('square_inner', 'square_inner', expect=(10, 10)),
        ItemSpec('square', 'square', expect=(10, 10)),
        ItemSpec('square2', 'square2', expect=(10, 10)),
        ItemSpec('pow2k_body', 'pow2k', expect=(10, 10), opaque=('k',), loop_once=True, same_as='square',
                 note='one iteration of the `for` loop in pow2k (loop count not modelled)'),
    ]),
    ModuleSpec('Scalar52', F_SCALAR64, 'Scalar52', F_CONST64, scalar_items(5, 9)),
    ModuleSpec('Scalar29', F_SCALAR32, 'Scalar29', F_CONST32, scalar_items(9, 17)),
    ModuleSpec('Clamp', F_SCALAR, None, None, [
        ItemSpec('clamp_integer', 'clamp_integer', expect=(32, 32), toplevel=True),
    ]),
    ModuleSpec('FiatField51', F_FIAT64, 'FieldElement51', None, fiat_items(5), fiat='curve25519_64.rs'),
    ModuleSpec('FiatField26', F_FIAT32, 'FieldElement2625', None, fiat_items(10), fiat='curve25519_32.rs'),
    ModuleSpec('Avx2Field', F_AVX2_FIELD, 'FieldElement2625x4', None, None,
               vec=dict(extra=[F_FIELD64, F_AVX2],
                        imports={('crate', 'backend', 'vector', 'avx2', 'constants'): F_AVX2},
                        wrappers=F_PACKED_SIMD, enums=['Shuffle', 'Lanes'], expand=avx2_items)),
    ModuleSpec('IfmaField', F_IFMA_FIELD, 'F51x4Unreduced', None, None,
               vec=dict(extra=[F_FIELD64], imports={}, wrappers=F_PACKED_SIMD, enums=['Shuffle', 'Lanes'],
                        expand=ifma_items)),
]

# (namespace, file, mode)
CONST_SOURCES = [
    ('U64', F_CONST64, 'all'),
    ('U32', F_CONST32, 'all'),
    ('Avx2', F_AVX2, 'all'),
    ('Ifma', F_IFMA, 'all'),
    ('Top', F_TOPCONST, 'all'),
    ('ScalarRs', F_SCALAR, 'scalar'),
    ('Ed', F_EDCONST, 'all'),
    ('X', F_X25519, 'all'),
]

ALL_FILES = [F_FIELD64, F_FIELD32, F_SCALAR64, F_SCALAR32, F_CONST64, F_CONST32, F_AVX2, F_IFMA,
             F_TOPCONST, F_SCALAR, F_EDCONST, F_X25519] + alggen.ALG_FILES + [F_AVX2_FIELD, F_IFMA_FIELD]

HEADER = ('-- GENERATED by /verif/tools/rs2lean/rs2lean.py from the Rust sources -- DO NOT EDIT.\n'
          '-- Regenerated on every run; edits will be overwritten.\n')


# ---------------------------------------------------------------------------------------------
# source loading
# ---------------------------------------------------------------------------------------------

class Sources(object):
    def __init__(self, repo):
        self.repo = repo
        self.cache = {}
        self.errors = {}

    def fiat_dir(self):
        """source directory of the fiat-crypto version pinned by the workspace Cargo.lock (cargo registry copy)."""
        import glob
        lock = open(os.path.join(self.repo, 'Cargo.lock')).read()
        m = re.search(r'name = "fiat-crypto"\s*\nversion = "([^"]+)"', lock)
        if not m:
            raise TransErr('fiat-crypto is not in Cargo.lock')
        home = os.environ.get('CARGO_HOME') or os.path.join(os.path.expanduser('~'), '.cargo')
        c = sorted(glob.glob(os.path.join(home, 'registry', 'src', '*', 'fiat-crypto-' + m.group(1), 'src')))
        if not c:
            raise TransErr('fiat-crypto %s sources not found under %s/registry/src' % (m.group(1), home))
        return c[0], m.group(1)

    def get_fiat(self, name):
        key = 'extern:fiat-crypto/' + name
        if key in self.cache:
            return self.cache[key]
        d, ver = self.fiat_dir()
        try:
            sf = rslex.SourceFile(os.path.join(d, name), 'fiat-crypto-%s/src/%s' % (ver, name))
        except (OSError, rslex.LexError, rslex.ScanError, UnicodeDecodeError) as ex:
            raise TransErr('cannot read/scan fiat-crypto %s: %s' % (name, ex))
        self.cache[key] = sf
        return sf

    def get(self, rel):
        if rel in self.cache:
            return self.cache[rel]
        if rel in self.errors:
            raise TransErr(self.errors[rel])
        path = os.path.join(self.repo, rel)
        try:
            sf = rslex.SourceFile(path, rel)
        except (OSError, rslex.LexError, rslex.ScanError, UnicodeDecodeError) as ex:
            self.errors[rel] = 'cannot read/scan %s: %s' % (rel, ex)
            raise TransErr(self.errors[rel])
        self.cache[rel] = sf
        return sf


# ---------------------------------------------------------------------------------------------
# Lean printing of programs
# ---------------------------------------------------------------------------------------------

def lean_e(e):
    k = e[0]
    if k == 'v':
        return '.v %d' % e[1]
    if k == 'c':
        return '.c %d' % e[1]
    if k in ('add', 'sub', 'mul', 'wadd', 'wsub', 'wmul'):
        return '.%s %d (%s) (%s)' % (k, e[1], lean_e(e[2]), lean_e(e[3]))
    if k == 'shr':
        return '.shr (%s) %d' % (lean_e(e[1]), e[2])
    if k == 'shl':
        return '.shl %d (%s) %d' % (e[1], lean_e(e[2]), e[3])
    if k in ('band', 'bor', 'bxor'):
        return '.%s (%s) (%s)' % (k, lean_e(e[1]), lean_e(e[2]))
    if k == 'cast':
        return '.cast %d (%s)' % (e[1], lean_e(e[2]))
    if k == 'sel':
        return '.sel (%s) (%s) (%s)' % (lean_e(e[1]), lean_e(e[2]), lean_e(e[3]))
    raise AssertionError('bad IR node %r' % (k,))


def lean_s(s):
    if s[0] == 'set':
        return '.set (%s)' % lean_e(s[1])
    return '.assertLt (%s) %d' % (lean_e(s[1]), s[2])


CHUNK = 128


def lean_prog(name, res):
    nin, body, outs = res['n_in'], res['body'], res['outs']
    lines = []
    doc = ['`%s` -- translated from `%s` (%s:%d).' % (name, res['root'], res['source'], res['line']),
           'nIn = %d, nOut = %d, statements = %d.' % (nin, len(outs), len(body))]
    if res.get('note'):
        doc.append(res['note'])
    for n in res.get('notes', []):
        doc.append('note: ' + n)
    if len(body) <= CHUNK:
        lines.append('/-- ' + '\n'.join(doc) + ' -/')
        lines.append('def %s : Prog where' % name)
        lines.append('  nIn := %d' % nin)
        if body:
            lines.append('  body := [')
            lines.append(',\n'.join('    ' + lean_s(s) for s in body))
            lines.append('  ]')
        else:
            lines.append('  body := []')
        lines.append('  outs := [%s]' % ', '.join(str(o) for o in outs))
    else:
        chunks = [body[i:i + CHUNK] for i in range(0, len(body), CHUNK)]
        names = []
        for ci, ch in enumerate(chunks):
            cn = '%s_body_%d' % (name, ci)
            names.append(cn)
            lines.append('def %s : List S := [' % cn)
            lines.append(',\n'.join('    ' + lean_s(s) for s in ch))
            lines.append('  ]')
            lines.append('')
        lines.append('/-- ' + '\n'.join(doc) + ' -/')
        lines.append('def %s : Prog where' % name)
        lines.append('  nIn := %d' % nin)
        lines.append('  body := ' + ' ++ '.join(names))
        lines.append('  outs := [%s]' % ', '.join(str(o) for o in outs))
    return '\n'.join(lines) + '\n'


# ---------------------------------------------------------------------------------------------
# kernel translation
# ---------------------------------------------------------------------------------------------

def token_hash(items):
    h = hashlib.sha256()
    for it in items:
        h.update(('\x1e' + it.qualname() + '\x1e').encode('utf-8'))
        h.update('\x1f'.join(it.token_texts()).encode('utf-8'))
    return h.hexdigest()


ITEM_ERRORS = (TransErr, rsparse.ParseError, rslex.ScanError, rslex.LexError, RecursionError)


def translate_item(srcs, mod, spec):
    res = {'module': mod.name, 'name': spec.name, 'source': mod.src, 'status': 'failed', 'message': '',
           'root': spec.root, 'line': 0, 'n_in': None, 'n_out': None, 'n_stmts': None, 'sha256': None,
           'covers': [], 'consts': [], 'notes': [], 'note': spec.note}
    try:
        main = srcs.get(mod.src)
        cfile = srcs.get(mod.consts) if mod.consts else None
        wrap_items = []
        if mod.vec:
            mctx = limbir.ModuleCtx(main, cfile, [srcs.get(f) for f in mod.vec['extra']])
            wsf = srcs.get(mod.vec['wrappers'])
            vecir.check_packed_simd(wsf)
            wrap_items = [it for it in wsf.items if it.kind in ('macro', 'impl')]
        elif mod.fiat:
            ffile = srcs.get_fiat(mod.fiat)
            mctx = limbir.ModuleCtx(main, cfile, [ffile])
        else:
            mctx = limbir.ModuleCtx(main, cfile)
        if spec.toplevel:
            cands = [it for it in main.items if it.kind == 'fn' and it.name == spec.root and not it.is_test]
            if len(cands) != 1:
                raise TransErr('top-level fn %s not found in %s (found %d)' % (spec.root, mod.src, len(cands)))
            item, imp, file = cands[0], None, main
        else:
            sty = spec.self_type or mod.self_type
            if sty not in mctx.structs:
                raise TransErr('struct %s not found in %s' % (sty, mod.src))
            r = mctx.find_impl_member(sty, spec.root, trait=spec.trait, trait_arg=spec.trait_arg,
                                      self_ref=spec.self_ref)
            if r is None:
                where = ('impl %s for %s' % (spec.trait, sty)) if spec.trait else ('impl ' + sty)
                raise TransErr('fn %s not found in `%s` of %s (missing or renamed)' % (spec.root, where, mod.src))
            item, imp, file = r
        res['root'] = item.qualname()
        res['line'] = item.line
        if mod.vec:
            enums = dict((en, enum_variants(main, en)) for en in mod.vec['enums'])
            imports = dict((k, srcs.get(f)) for k, f in mod.vec['imports'].items())
            tr = vecir.VecTranslator(mctx, spec, mod.self_type, enums, imports)
        elif mod.fiat:
            tr = fiatir.FiatTranslator(mctx, spec, mod.self_type, ffile)
        else:
            tr = limbir.Translator(mctx, spec, mod.self_type)
        nin, body, outs, out_tys = tr.translate(item, imp, file)
        res['n_in'] = nin
        res['n_out'] = len(outs)
        res['n_stmts'] = len(body)
        res['body'] = body
        res['outs'] = outs
        res['out_types'] = out_tys
        res['covers'] = [(it.fname, it.qualname(), it.line) for it in tr.visited]
        res['covered_ids'] = [(it.fname, it.start) for it in tr.visited]
        res['consts'] = [it.qualname() for it in tr.consts_used]
        res['notes'] = tr.notes
        res['discarded_prelude_stmts'] = tr.b.discarded
        res['sha256'] = token_hash(tr.visited + tr.consts_used + wrap_items)
        if wrap_items:
            res['notes'] = res['notes'] + ['hash includes the wrapper definitions of ' + mod.vec['wrappers']
                                           + ' (translator knowledge, checked against the source)']
        if spec.expect is not None and (nin, len(outs)) != spec.expect:
            raise TransErr('shape mismatch: translated %d in / %d out, expected %d in / %d out'
                           % (nin, len(outs), spec.expect[0], spec.expect[1]))
        res['status'] = 'ok'
    except ITEM_ERRORS as ex:
        msg = str(ex) if not isinstance(ex, RecursionError) else 'recursion limit exceeded'
        res['status'] = 'failed'
        res['message'] = msg
    return res


# ---------------------------------------------------------------------------------------------
# literal constants
# ---------------------------------------------------------------------------------------------

class LitErr(Exception):
    pass


class Alias(object):
    def __init__(self, name):
        self.name = name


STRUCT_FIELD_ORDER = {
    'EdwardsPoint': ['X', 'Y', 'Z', 'T'],
    'AffineNielsPoint': ['y_plus_x', 'y_minus_x', 'xy2d'],
    'ProjectiveNielsPoint': ['Y_plus_X', 'Y_minus_X', 'Z', 'T2d'],
}
INT_W = limbir.INT_W


class ConstNS(object):
    """constants of one source file -> one Lean namespace."""

    def __init__(self, ns, sf, mode):
        self.ns = ns
        self.sf = sf
        self.mode = mode
        self.entries = []       # (lean_name, item, extra) in source order
        self.by_name = {}
        self.values = {}
        self.skipped = []
        self.in_progress = set()
        self.collect()

    def collect(self):
        for it in self.sf.walk():
            if it.kind not in ('const', 'static') or it.name == '_':
                continue
            name = it.name
            p = it.parent
            if p is not None and p.kind == 'impl':
                if self.mode == 'scalar' and p.self_ty != 'Scalar':
                    continue
                if name in self.by_name and p.trait:
                    name = '%s_%s' % (p.trait, name)
            if name in self.by_name:
                self.skipped.append({'name': name, 'line': it.line, 'reason': 'duplicate constant name'})
                continue
            self.by_name[name] = it
            self.entries.append((name, it))

    def value_of(self, name):
        if name in self.values:
            v = self.values[name]
            if isinstance(v, LitErr):
                raise v
            return v
        if name not in self.by_name:
            raise LitErr('reference to %s which is not a constant of this file' % name)
        if name in self.in_progress:
            raise LitErr('cyclic constant %s' % name)
        self.in_progress.add(name)
        it = self.by_name[name]
        try:
            if it.init_rng is None:
                raise LitErr('no initializer')
            try:
                ast = rsparse.parse_expr_range(it.toks, it.init_rng[0], it.init_rng[1], it.fname)
            except rsparse.ParseError as ex:
                raise LitErr('unparsable initializer: %s' % ex)
            v = self.lit(ast, top=True)
        except LitErr as ex:
            self.values[name] = ex
            self.in_progress.discard(name)
            raise
        self.in_progress.discard(name)
        self.values[name] = v
        return v

    def resolved(self, name):
        v = self.value_of(name)
        seen = set()
        while isinstance(v, Alias):
            if v.name in seen:
                raise LitErr('cyclic alias')
            seen.add(v.name)
            v = self.value_of(v.name)
        return v

    def num(self, ast):
        v = self.lit(ast)
        if isinstance(v, Alias):
            v = self.resolved(v.name)
        if not isinstance(v, int):
            raise LitErr('expected an integer')
        return v

    def lit(self, e, top=False):
        k = e[0]
        if k == 'int':
            if e[3] in limbir.SIGNED:
                raise LitErr('signed literal')
            return e[2]
        if k == 'str':
            return e[2]
        if k == 'paren':
            return self.lit(e[2], top)
        if k == 'ref':
            return self.lit(e[3], top)
        if k == 'array':
            return [self.elem(x) for x in e[2]]
        if k == 'repeat':
            x = self.elem(e[2])
            n = self.num(e[3])
            return [x for _ in range(n)]
        if k == 'bin':
            a = self.num(e[3])
            b = self.num(e[4])
            op = e[2]
            if op == '+':
                return a + b
            if op == '-':
                if a < b:
                    raise LitErr('negative constant')
                return a - b
            if op == '*':
                return a * b
            if op == '<<':
                return a << b
            if op == '>>':
                return a >> b
            if op == '|':
                return a | b
            if op == '&':
                return a & b
            if op == '^':
                return a ^ b
            raise LitErr('operator %s in constant' % op)
        if k == 'cast':
            v = self.num(e[2])
            ty = e[3]
            if ty[0] == 'tpath' and len(ty[2]) == 1 and ty[2][0] in INT_W:
                return v % (1 << INT_W[ty[2][0]])
            raise LitErr('cast to unsupported type')
        if k == 'struct':
            fields = [(n, self.elem(x)) for n, x in e[3]]
            if e[4] is not None:
                raise LitErr('struct update syntax')
            if len(fields) == 1:
                return fields[0][1]
            sname = e[2][-1]
            order = STRUCT_FIELD_ORDER.get(sname)
            d = dict(fields)
            if order is not None:
                if sorted(order) != sorted(d.keys()):
                    raise LitErr('struct %s has unexpected fields %s' % (sname, sorted(d.keys())))
                return [d[n] for n in order]
            return [v for _, v in fields]
        if k == 'call':
            f = e[2]
            if f[0] != 'path':
                raise LitErr('call of non-path')
            segs = f[2]
            last = segs[-1]
            if last == 'new_const':
                return [self.num(x) for x in e[3]]
            if last == 'splat_const':
                m = re.search(r'x(\d+)$', segs[0]) if len(segs) >= 2 else None
                if not m or not f[3] or len(f[3]) != 1 or f[3][0][0] != 'gconst' or e[3]:
                    raise LitErr('unsupported splat_const form')
                n = self.num(f[3][0][1])
                return [n for _ in range(int(m.group(1)))]
            if len(e[3]) == 1 and (last == 'from_limbs' or (len(segs) == 1 and last[:1].isupper())):
                return self.lit(e[3][0])
            raise LitErr('call of %s in constant' % '::'.join(segs))
        if k == 'path':
            segs = e[2]
            if len(segs) == 2 and segs[0] in ('Self', 'Scalar') and self.mode == 'scalar':
                segs = [segs[1]]
            if len(segs) == 1:
                if segs[0] not in self.by_name:
                    raise LitErr('reference to %s which is not a constant of this file' % segs[0])
                if top:
                    self.value_of(segs[0])      # make sure it evaluates
                    return Alias(segs[0])
                return self.value_of(segs[0])
            raise LitErr('path %s in constant' % '::'.join(segs))
        if k == 'unsafe':
            raise LitErr('unsafe block in constant')
        raise LitErr('unsupported constant expression (%s)' % k)

    def elem(self, e):
        v = self.lit(e)
        if isinstance(v, Alias):
            v = self.resolved(v.name)
        return v


def _lit_eval(sf, name):
    return ConstNS('_', sf, 'all').resolved(name)


alggen.LIT_EVAL = _lit_eval


def depth_of(v):
    """nesting depth of a rectangular-by-depth nested list of ints; raises on mixed depth."""
    if isinstance(v, int):
        return 0
    if isinstance(v, list):
        ds = set(depth_of(x) for x in v)
        if len(ds) > 1:
            raise LitErr('mixed nesting depth')
        return 1 + (ds.pop() if ds else 0)
    raise LitErr('non-numeric leaf')


def leaves(v):
    if isinstance(v, int):
        return 1
    return sum(leaves(x) for x in v)


def lean_ty(d):
    return 'Nat' if d == 0 else 'List (%s)' % lean_ty(d - 1) if d > 1 else 'List Nat'


def lean_val(v):
    if isinstance(v, int):
        return str(v)
    return '[' + ', '.join(lean_val(x) for x in v) + ']'


def lean_val_lines(v, indent):
    """pretty multi-line rendering: innermost lists on one line."""
    if isinstance(v, int) or not v or isinstance(v[0], int):
        return indent + lean_val(v)
    inner = ',\n'.join(lean_val_lines(x, indent + '  ') for x in v)
    return indent + '[\n' + inner + '\n' + indent + ']'


ROW_SPLIT_LEAVES = 256


def emit_const_ns(cns, extra_defs):
    """returns (lean text, manifest list)."""
    out = []
    man = []
    out.append('namespace %s\n' % cns.ns)
    out.append('/-! constants of `%s` -/\n' % cns.sf.relname)
    emitted = {}
    pending_alias = []

    def emit_value(name, it, v):
        if isinstance(v, str):
            out.append('def %s : String := %s' % (name, json.dumps(v)))
            emitted[name] = 'String'
            man.append({'name': name, 'line': it.line, 'type': 'String'})
            m = re.match(r'^0x([0-9a-fA-F]+)$', v)
            if m:
                out.append('def %s_nat : Nat := %d' % (name, int(m.group(1), 16)))
                emitted[name + '_nat'] = 'Nat'
                man.append({'name': name + '_nat', 'line': it.line, 'type': 'Nat'})
            out.append('')
            return
        d = depth_of(v)
        ty = lean_ty(d)
        n = leaves(v)
        cfg = [a for a in it.attrs if a.startswith('cfg')]
        if cfg:
            out.append('-- #[%s]' % '; '.join(cfg))
        if d >= 2 and n > ROW_SPLIT_LEAVES:
            rty = lean_ty(d - 1)
            rows = []
            for i, row in enumerate(v):
                rn = '%s_row_%d' % (name, i)
                rows.append(rn)
                out.append('def %s : %s :=\n%s' % (rn, rty, lean_val_lines(row, '  ')))
            out.append('def %s : %s := [\n  %s\n]' % (name, ty, ',\n  '.join(rows)))
            man.append({'name': name, 'line': it.line, 'type': ty, 'rows': len(rows), 'leaves': n})
        else:
            out.append('def %s : %s :=\n%s' % (name, ty, lean_val_lines(v, '  ')))
            man.append({'name': name, 'line': it.line, 'type': ty, 'leaves': n})
        out.append('')
        emitted[name] = ty

    for name, it in cns.entries:
        try:
            v = cns.value_of(name)
            if isinstance(v, Alias):
                tv = cns.resolved(name)
                if isinstance(tv, str):
                    raise LitErr('alias of a string')
                depth_of(tv)
                pending_alias.append((name, it, v.name))
            else:
                if not isinstance(v, str):
                    depth_of(v)
                emit_value(name, it, v)
        except LitErr as ex:
            cns.skipped.append({'name': name, 'line': it.line, 'reason': str(ex)})
            out.append('-- skipped %s (line %d): %s\n' % (name, it.line, ex))
            continue
        # aliases whose target is now available
        still = []
        for an, ait, tgt in pending_alias:
            if tgt in emitted:
                out.append('def %s : %s := %s\n' % (an, emitted[tgt], tgt))
                emitted[an] = emitted[tgt]
                man.append({'name': an, 'line': ait.line, 'type': emitted[tgt], 'alias_of': tgt})
            else:
                still.append((an, ait, tgt))
        pending_alias = still
    for an, ait, tgt in pending_alias:
        cns.skipped.append({'name': an, 'line': ait.line, 'reason': 'alias target %s not emitted' % tgt})
    for text, m in extra_defs:
        out.append(text)
        man.append(m)
    out.append('end %s\n' % cns.ns)
    return '\n'.join(out), man


def tonelli_shanks_exponent(sf):
    """array literal passed to sqrt_tonelli_shanks in `impl Field for Scalar { fn sqrt }`."""
    for imp in sf.walk():
        if imp.kind == 'impl' and imp.self_ty == 'Scalar' and imp.trait == 'Field':
            for ch in imp.children:
                if ch.kind == 'fn' and ch.name == 'sqrt':
                    d = rsparse.parse_fn(ch)
                    found = []

                    def walk(n):
                        if isinstance(n, tuple):
                            if n and n[0] == 'call' and n[2][0] == 'path' and n[2][2][-1] == 'sqrt_tonelli_shanks':
                                for a in n[3]:
                                    if a[0] == 'array':
                                        found.append((a, n[1]))
                            for x in n:
                                if isinstance(x, (tuple, list)):
                                    walk(x)
                        elif isinstance(n, list):
                            for x in n:
                                walk(x)
                    walk(d.body)
                    if len(found) == 1:
                        arr, ln = found[0]
                        vals = []
                        for x in arr[2]:
                            if x[0] != 'int':
                                raise LitErr('non-literal exponent limb')
                            vals.append(x[2])
                        return vals, ln
                    raise LitErr('sqrt_tonelli_shanks call with array literal not found in Scalar::sqrt')
    raise LitErr('impl Field for Scalar { fn sqrt } not found')


# ---------------------------------------------------------------------------------------------
# driver
# ---------------------------------------------------------------------------------------------

def write_if_changed(path, content):
    data = content.encode('utf-8')
    try:
        with open(path, 'rb') as f:
            if f.read() == data:
                return False
    except OSError:
        pass
    tmp = path + '.tmp'
    with open(tmp, 'wb') as f:
        f.write(data)
    os.replace(tmp, path)
    return True


def run(repo, outdir, quiet=False):
    srcs = Sources(repo)
    results = {}
    written = []
    os.makedirs(outdir, exist_ok=True)

    # kernels
    for mod in MODULES:
        rs = []
        if mod.vec and mod.items is None:
            try:
                mod.items = mod.vec['expand'](srcs)
            except ITEM_ERRORS as ex:
                mod.items = []
                sys.stderr.write('rs2lean: FAILED %s: cannot enumerate items: %s\n' % (mod.name, ex))
        for spec in mod.items:
            rs.append(translate_item(srcs, mod, spec))
        # same_as check
        byname = dict((r['name'], r) for r in rs)
        for spec, r in zip(mod.items, rs):
            if spec.same_as and r['status'] == 'ok':
                o = byname.get(spec.same_as)
                same = (o is not None and o['status'] == 'ok' and o['n_in'] == r['n_in']
                        and o['body'] == r['body'] and o['outs'] == r['outs'])
                r['same_as'] = spec.same_as if same else None
                if not same:
                    r['notes'] = r['notes'] + ['program differs from item `%s`' % spec.same_as]
                else:
                    r['notes'] = r['notes'] + ['program is identical to item `%s`' % spec.same_as]
        results[mod.name] = rs
        text = [HEADER, 'import Dalek.IR.Limb\n', 'namespace Dalek.Gen.%s' % mod.name, 'open Dalek.IR\n',
                '/-! source: `%s` -/\n' % mod.src]
        for r in rs:
            if r['status'] == 'ok':
                text.append(lean_prog(r['name'], r))
            else:
                text.append('-- FAILED %s: %s\n' % (r['name'], r['message'].replace('\n', ' ')))
        oknames = [r['name'] for r in rs if r['status'] == 'ok']
        text.append('/-- names of the successfully translated items of this module -/')
        text.append('def itemNames : List String := [%s]\n' % ', '.join(json.dumps(n) for n in oknames))
        text.append('/-- the successfully translated items of this module, by name -/')
        text.append('def items : List (String × Prog) := [%s]\n'
                    % ', '.join('(%s, %s)' % (json.dumps(n), n) for n in oknames))
        text.append('end Dalek.Gen.%s\n' % mod.name)
        p = os.path.join(outdir, mod.name + '.lean')
        if write_if_changed(p, '\n'.join(text)):
            written.append(p)

    # field-level formulas (AlgIR)
    alg_results = {}
    try:
        alg_consts, alg_const_notes = alggen.field_const_names(srcs)
        alg_err = None
    except TransErr as ex:
        alg_consts, alg_const_notes, alg_err = [], [], str(ex)
    for amod in alggen.ALG_MODULES:
        rs = []
        for spec in amod.items:
            if alg_err is not None:
                rs.append({'module': amod.name, 'name': spec.name, 'source': amod.files[0], 'status': 'failed',
                           'message': alg_err, 'root': spec.fn, 'line': 0, 'n_in': None, 'n_out': None,
                           'n_stmts': None, 'sha256': None, 'covers': [], 'covered_ids': [], 'notes': [],
                           'note': spec.note, 'constants': []})
            else:
                rs.append(alggen.translate_alg_item(srcs, amod, spec, alg_consts, ITEM_ERRORS))
        alg_results[amod.name] = rs
        deep, sh = alggen.emit_modules(HEADER, amod, rs, alg_consts)
        for fn_, txt in ((amod.name + '.lean', deep), (amod.name + 'Sh.lean', sh)):
            p = os.path.join(outdir, fn_)
            if write_if_changed(p, txt):
                written.append(p)

    # kernel-call programs of the parallel point formulas
    k_results = {}
    for kname, aname in alggen.K_MODULES:
        amod = [m for m in alggen.ALG_MODULES if m.name == aname][0]
        limb_rs = results.get(amod.vec['limb'], [])
        backend = alggen.k_backend(amod, limb_rs)
        rs = []
        for spec in amod.items:
            if alg_err is not None:
                continue
            rs.append(alggen.translate_k_item(srcs, amod, spec, alg_consts, backend, ITEM_ERRORS))
        k_results[kname] = rs
        p = os.path.join(outdir, kname + '.lean')
        if write_if_changed(p, alggen.emit_k_module(HEADER, kname, amod, rs, backend)):
            written.append(p)

    # constants
    const_manifest = {}
    ctext = [HEADER, 'namespace Dalek.Gen.Consts\n']
    for ns, rel, mode in CONST_SOURCES:
        try:
            sf = srcs.get(rel)
        except TransErr as ex:
            const_manifest[ns] = {'source': rel, 'status': 'failed', 'message': str(ex), 'emitted': [], 'skipped': []}
            ctext.append('namespace %s\n-- FAILED: %s\nend %s\n' % (ns, ex, ns))
            continue
        cns = ConstNS(ns, sf, mode)
        extra = []
        status_msg = ''
        if mode == 'scalar':
            try:
                vals, ln = tonelli_shanks_exponent(sf)
                extra.append(('/-- exponent limbs (little-endian u64) passed to `sqrt_tonelli_shanks` in '
                              '`<Scalar as Field>::sqrt` (line %d) -/\n'
                              'def sqrt_tonelli_shanks_exponent : List Nat :=\n  %s\n' % (ln, lean_val(vals)),
                              {'name': 'sqrt_tonelli_shanks_exponent', 'line': ln, 'type': 'List Nat',
                               'leaves': len(vals)}))
            except (LitErr, rsparse.ParseError) as ex:
                cns.skipped.append({'name': 'sqrt_tonelli_shanks_exponent', 'line': 0, 'reason': str(ex)})
        text, man = emit_const_ns(cns, extra)
        ctext.append(text)
        const_manifest[ns] = {'source': rel, 'status': 'ok', 'message': status_msg, 'emitted': man,
                              'skipped': cns.skipped}
    ctext.append('end Dalek.Gen.Consts\n')
    p = os.path.join(outdir, 'Consts.lean')
    if write_if_changed(p, '\n'.join(ctext)):
        written.append(p)

    # syntactic inventory (drop / zeroize / wipe facts, panic sites): Inventory.lean
    inv_manifest, inv_written, _inv = inventory.generate(repo, outdir, HEADER, write_if_changed, srcs)
    written.extend(inv_written)
    # feature-gated code inside function bodies: CfgInventory.lean (stand-alone module, not part of All.lean)
    cfg_sites, cfg_written = cfginv.generate(_inv['scans'], outdir, HEADER, write_if_changed)
    written.extend(cfg_written)
    # hash / transcript input sequences: HashInventory.lean (stand-alone module)
    hash_events, hash_written = hashinv.generate(_inv['scans'], outdir, HEADER, write_if_changed)
    written.extend(hash_written)

    # All.lean
    mods = [m.name for m in MODULES] + ['Consts'] + [m.name for m in alggen.ALG_MODULES] \
        + [k for k, _ in alggen.K_MODULES] + ['Inventory', 'BranchInventory']
    alltext = HEADER + ''.join('import Dalek.Gen.%s\n' % m for m in mods)
    p = os.path.join(outdir, 'All.lean')
    if write_if_changed(p, alltext):
        written.append(p)
    shtext = HEADER + '-- shallow twins of the AlgIR items (these import Dalek.IR.Tactics, i.e. `Lean`)\n' \
        + ''.join('import Dalek.Gen.%sSh\n' % m.name for m in alggen.ALG_MODULES)
    p = os.path.join(outdir, 'AllSh.lean')
    if write_if_changed(p, shtext):
        written.append(p)

    # manifest
    covered = set()
    for mod in MODULES:
        for r in results[mod.name]:
            if r['status'] == 'ok':
                for c in r.get('covered_ids', []):
                    covered.add(c)
    for amod in alggen.ALG_MODULES:
        for r in alg_results[amod.name]:
            if r['status'] == 'ok':
                for c in r.get('covered_ids', []):
                    covered.add(c)
    items_man = []
    for mod in MODULES:
        for r in results[mod.name]:
            m = {'module': 'Dalek.Gen.' + r['module'], 'name': r['name'], 'source': r['source'],
                 'root': r['root'], 'line': r['line'], 'status': r['status'], 'message': r['message'],
                 'n_in': r['n_in'], 'n_out': r['n_out'], 'n_stmts': r['n_stmts'], 'sha256': r['sha256'],
                 'covers': ['%s:%d %s' % (c[0], c[2], c[1]) for c in r['covers']],
                 'constants': r['consts'], 'notes': r['notes']}
            if r.get('note'):
                m['description'] = r['note']
            if 'same_as' in r:
                m['same_as'] = r['same_as']
            if r.get('out_types'):
                m['out_types'] = sorted(set(r['out_types']))
            if r.get('discarded_prelude_stmts'):
                m['discarded_prelude_stmts'] = r['discarded_prelude_stmts']
            items_man.append(m)
    for amod in alggen.ALG_MODULES:
        for r in alg_results[amod.name]:
            items_man.append(alggen.manifest_entry(r))
    uncovered = {}
    for rel in ALL_FILES:
        try:
            sf = srcs.get(rel)
        except TransErr as ex:
            uncovered[rel] = {'error': str(ex)}
            continue
        lst = []
        for it in sf.walk():
            if it.kind == 'fn' and (it.fname, it.start) not in covered:
                lst.append({'name': it.qualname(), 'line': it.line})
        uncovered[rel] = lst
    manifest = {
        'generator': 'rs2lean',
        'items': items_man,
        'constants': const_manifest,
        'kprog': dict((k, [alggen.k_manifest_entry(r) for r in k_results[k]]) for k in sorted(k_results)),
        'alg_const_names': alg_consts,
        'alg_const_names_by_module': dict((m.name, getattr(m, 'const_names', alg_consts)) for m in alggen.ALG_MODULES),
        'alg_const_notes': alg_const_notes,
        'uncovered_fns': uncovered,
        'files': sorted(os.path.basename(x) for x in
                        [m.name + '.lean' for m in MODULES] + ['Consts.lean', 'All.lean', 'AllSh.lean',
                                                               'gen_manifest.json', 'Inventory.lean', 'BranchInventory.lean', 'CfgInventory.lean', 'HashInventory.lean']
                        + [m.name + '.lean' for m in alggen.ALG_MODULES]
                        + [m.name + 'Sh.lean' for m in alggen.ALG_MODULES]
                        + [k + '.lean' for k, _ in alggen.K_MODULES]),
    }
    manifest.update(inv_manifest)
    manifest['cfg_gated_sites'] = len(cfg_sites)
    manifest['hash_events'] = len(hash_events)
    manifest['cfg_gated_feature_sites_by_shape'] = dict((sh, sum(1 for x in cfg_sites if x['feature'] and x['shape'] == sh))
                                                        for sh in sorted(set(x['shape'] for x in cfg_sites if x['feature'])))
    p = os.path.join(outdir, 'gen_manifest.json')
    if write_if_changed(p, json.dumps(manifest, indent=1, sort_keys=True) + '\n'):
        written.append(p)

    nfail = 0
    for mod in MODULES:
        for r in results[mod.name]:
            if r['status'] != 'ok':
                nfail += 1
                sys.stderr.write('rs2lean: FAILED %s.%s: %s\n' % (r['module'], r['name'], r['message']))
    nalg = 0
    for amod in alggen.ALG_MODULES:
        for r in alg_results[amod.name]:
            nalg += 1
            if r['status'] != 'ok':
                nfail += 1
                sys.stderr.write('rs2lean: FAILED %s.%s: %s\n' % (r['module'], r['name'], r['message']))
    for k in sorted(k_results):
        for r in k_results[k]:
            nalg += 1
            if r['status'] != 'ok':
                nfail += 1
                sys.stderr.write('rs2lean: FAILED %s.%s: %s\n' % (r['module'], r['name'], r['message']))
    for ns in sorted(const_manifest):
        cm = const_manifest[ns]
        if cm['status'] != 'ok':
            sys.stderr.write('rs2lean: FAILED constants %s: %s\n' % (ns, cm['message']))
    for msg in inv_manifest['inventory_errors']:
        sys.stderr.write('rs2lean: FAILED inventory %s\n' % msg)
    if not quiet:
        total = sum(len(results[m.name]) for m in MODULES) + nalg
        sys.stderr.write('rs2lean: %d/%d items ok, %d files (re)written\n' % (total - nfail, total, len(written)))
    return results, const_manifest, manifest


def main(argv=None):
    ap = argparse.ArgumentParser(description=__doc__)
    ap.add_argument('--repo', default='/repo')
    ap.add_argument('--out', default='/verif/lean/Dalek/Gen')
    ap.add_argument('--quiet', action='store_true')
    args = ap.parse_args(argv)
    try:
        run(args.repo, args.out, args.quiet)
    except Exception:
        traceback.print_exc()
        sys.stderr.write('rs2lean: internal crash\n')
        return 2
    return 0


if __name__ == '__main__':
    sys.exit(main())

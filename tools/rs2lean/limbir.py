"""Symbolic evaluator: Rust AST (rsparse) -> LimbIR straight-line SSA program.

IR expressions are tuples:
  ('v', id) ('c', n) ('add'|'sub'|'mul'|'wadd'|'wsub'|'wmul', w, a, b) ('shr', a, k) ('shl', w, a, k)
  ('band'|'bor'|'bxor', a, b) ('cast', w, a) ('sel', c, a, b)
Statements: ('set', e) | ('assert', e, n)
"""
import rsparse
from rsparse import ParseError

INT_W = {'u8': 8, 'u16': 16, 'u32': 32, 'u64': 64, 'u128': 128, 'usize': 64}
SIGNED = {'i8', 'i16', 'i32', 'i64', 'i128', 'isize'}


class TransErr(Exception):
    def __init__(self, msg, line=None):
        Exception.__init__(self, msg)
        self.msg = msg
        self.line = line

    def __str__(self):
        if self.line is not None:
            return 'line %s: %s' % (self.line, self.msg)
        return self.msg


# ---------------------------------------------------------------------------------------------
# values
# ---------------------------------------------------------------------------------------------

class Int(object):
    __slots__ = ('e', 'ty')

    def __init__(self, e, ty):
        self.e = e
        self.ty = ty

    def is_const(self):
        return self.e[0] == 'c'

    def __repr__(self):
        return 'Int(%r,%r)' % (self.e, self.ty)


class Arr(object):
    __slots__ = ('el',)

    def __init__(self, el):
        self.el = el


class Struct(object):
    __slots__ = ('name', 'f')

    def __init__(self, name, f):
        self.name = name
        self.f = f      # ordered dict (python >= 3.7 dicts keep order)


class Tup(object):
    __slots__ = ('el',)

    def __init__(self, el):
        self.el = el


class Slice(object):
    __slots__ = ('arr', 'off', 'n')

    def __init__(self, arr, off, n):
        self.arr = arr
        self.off = off
        self.n = n


class Rng(object):
    __slots__ = ('lo', 'hi')

    def __init__(self, lo, hi):
        self.lo = lo
        self.hi = hi


class Opaque(object):
    """A run-time value the model does not track (a loop count)."""
    __slots__ = ('name',)

    def __init__(self, name):
        self.name = name


class OpaqueCond(object):
    __slots__ = ('text',)

    def __init__(self, text):
        self.text = text


class Closure(object):
    __slots__ = ('params', 'ret', 'body', 'env')

    def __init__(self, params, ret, body, env):
        self.params = params
        self.ret = ret
        self.body = body
        self.env = env


class ElemRef(object):
    __slots__ = ('arr', 'i')

    def __init__(self, arr, i):
        self.arr = arr
        self.i = i


class Cmp(object):
    __slots__ = ('op', 'l', 'r')

    def __init__(self, op, l, r):
        self.op = op
        self.l = l
        self.r = r


class OrC(object):
    __slots__ = ('l', 'r')

    def __init__(self, l, r):
        self.l = l
        self.r = r


class ChoiceV(object):
    __slots__ = ('x',)

    def __init__(self, x):
        self.x = x


UNIT = Tup([])


class ReturnEx(Exception):
    def __init__(self, value):
        Exception.__init__(self)
        self.value = value


# ---------------------------------------------------------------------------------------------
# environments
# ---------------------------------------------------------------------------------------------

class Env(object):
    __slots__ = ('parent', 'barrier', 'vars', 'items', 'self_ty', 'file')

    def __init__(self, parent, barrier=False, self_ty=None, file=None):
        self.parent = parent
        self.barrier = barrier
        self.vars = {}
        self.items = {}
        self.self_ty = self_ty
        self.file = file

    def find_var_env(self, name):
        e = self
        while e is not None:
            if name in e.vars:
                return e
            if e.barrier:
                return None
            e = e.parent
        return None

    def find_item(self, name):
        e = self
        while e is not None:
            if name in e.items:
                return e.items[name], e
            e = e.parent
        return None, None

    def get_self_ty(self):
        e = self
        while e is not None:
            if e.self_ty is not None:
                return e.self_ty
            e = e.parent
        return None

    def get_file(self):
        e = self
        while e is not None:
            if e.file is not None:
                return e.file
            e = e.parent
        return None

    def visible_var_names(self):
        out = set()
        e = self
        while e is not None:
            out.update(e.vars.keys())
            if e.barrier:
                break
            e = e.parent
        return out


# ---------------------------------------------------------------------------------------------
# places
# ---------------------------------------------------------------------------------------------

class VarPlace(object):
    def __init__(self, env, name):
        self.env = env
        self.name = name

    def get(self):
        return self.env.vars[self.name]

    def set(self, v):
        self.env.vars[self.name] = v


class ElemPlace(object):
    def __init__(self, arr, i):
        self.arr = arr
        self.i = i

    def get(self):
        return self.arr.el[self.i]

    def set(self, v):
        self.arr.el[self.i] = v


class FieldPlace(object):
    def __init__(self, st, name):
        self.st = st
        self.name = name

    def get(self):
        return self.st.f[self.name]

    def set(self, v):
        self.st.f[self.name] = v


# ---------------------------------------------------------------------------------------------
# builder
# ---------------------------------------------------------------------------------------------

class Builder(object):
    def __init__(self):
        self.next_id = 0
        self.base = 0
        self.nin = 0
        self.stmts = []
        self.discarded = 0

    def new_input(self):
        if self.stmts:
            raise TransErr('internal: input created after statements')
        i = self.next_id
        self.next_id += 1
        self.nin += 1
        return ('v', i)

    def reset(self):
        """start a new epoch: all previously created variables become invalid."""
        self.discarded += len(self.stmts)
        self.stmts = []
        self.base = self.next_id
        self.nin = 0

    def emit_set(self, e):
        self.stmts.append(('set', e))
        i = self.next_id
        self.next_id += 1
        return ('v', i)

    def emit_assert(self, e, n):
        self.stmts.append(('assert', e, n))

    def finalize(self, outs):
        base = self.base

        def ren(e):
            k = e[0]
            if k == 'v':
                if e[1] < base:
                    raise TransErr('extracted loop body / tail depends on a value computed before it '
                                   '(stale variable)')
                return ('v', e[1] - base)
            if k == 'c':
                return e
            if k in ('add', 'sub', 'mul', 'wadd', 'wsub', 'wmul'):
                return (k, e[1], ren(e[2]), ren(e[3]))
            if k == 'shr':
                return (k, ren(e[1]), e[2])
            if k == 'shl':
                return (k, e[1], ren(e[2]), e[3])
            if k in ('band', 'bor', 'bxor'):
                return (k, ren(e[1]), ren(e[2]))
            if k == 'cast':
                return (k, e[1], ren(e[2]))
            if k == 'sel':
                return (k, ren(e[1]), ren(e[2]), ren(e[3]))
            raise TransErr('internal: bad IR node %r' % (k,))
        body = []
        for s in self.stmts:
            if s[0] == 'set':
                body.append(('set', ren(s[1])))
            else:
                body.append(('assert', ren(s[1]), s[2]))
        return self.nin, body, [ren(o)[1] for o in outs]


# ---------------------------------------------------------------------------------------------
# module context (source files, struct table)
# ---------------------------------------------------------------------------------------------

class ModuleCtx(object):
    def __init__(self, main_file, consts_file=None, extra_files=()):
        self.main = main_file
        self.consts = consts_file
        self.files = [f for f in (main_file, consts_file) if f is not None] + list(extra_files)
        self.structs = {}
        for f in self.files:
            for it in f.walk():
                if it.kind == 'struct' and it.name not in self.structs:
                    self.structs[it.name] = it
        self._file_env = {}
        self._struct_field_ty = {}
        self._index_ok = {}

    def file_env(self, f):
        env = self._file_env.get(f.relname)
        if env is None:
            env = Env(None, barrier=True, file=f)
            for it in f.items:
                if it.is_test:
                    continue
                if it.kind == 'fn':
                    env.items[it.name] = ('fnitem', it)
                elif it.kind in ('const', 'static'):
                    env.items[it.name] = ('constitem', it)
            self._file_env[f.relname] = env
        return env

    def struct_field_type(self, name):
        """type AST of the single field of tuple struct `name`."""
        if name in self._struct_field_ty:
            return self._struct_field_ty[name]
        it = self.structs.get(name)
        if it is None:
            raise TransErr('unknown struct type %s' % name)
        if it.tuple_rng is None:
            raise TransErr('struct %s is not a tuple struct' % name)
        a, b = it.tuple_rng
        toks = it.toks
        # strip visibility
        if a < b and toks[a][0] == 'id' and toks[a][1] == 'pub':
            a += 1
            if a < b and toks[a][1] == '(':
                a = _match(toks, a)
        # must be a single field
        depth = 0
        for j in range(a, b):
            x = toks[j][1]
            if toks[j][0] == 'p':
                if x in '([{':
                    depth += 1
                elif x in ')]}':
                    depth -= 1
                elif x == ',' and depth == 0 and j != b - 1:
                    raise TransErr('struct %s has more than one field' % name)
        if b > a and toks[b - 1][1] == ',':
            b -= 1
        ty = rsparse.parse_type_range(toks, a, b, it.fname)
        self._struct_field_ty[name] = ty
        return ty

    def find_impl_member(self, ty_name, member, trait=False, kinds=('fn',), trait_arg=None, self_ref=None):
        """locate member `member` in an impl of `ty_name`.  trait=False: any impl, inherent first;
        trait=None: inherent only; trait='Name': that trait."""
        found = []
        for f in self.files:
            for imp in f.walk():
                if imp.kind != 'impl' or imp.self_ty != ty_name:
                    continue
                if trait is None and imp.trait is not None:
                    continue
                if trait not in (None, False) and imp.trait != trait:
                    continue
                if trait_arg is not None and imp.trait_arg != trait_arg:
                    continue
                if self_ref is not None and imp.self_ref != self_ref:
                    continue
                for ch in imp.children:
                    if ch.kind in kinds and ch.name == member and not ch.is_test:
                        found.append((0 if imp.trait is None else 1, len(found), ch, imp, f))
        if not found:
            return None
        found.sort(key=lambda x: (x[0], x[1]))
        if trait is False:
            inh = [x for x in found if x[0] == 0]
            tr = [x for x in found if x[0] == 1]
            if len(inh) > 1 or (not inh and len(tr) > 1):
                raise TransErr('ambiguous member %s::%s' % (ty_name, member))
        elif len(found) > 1:
            raise TransErr('ambiguous member %s::%s' % (ty_name, member))
        _, _, ch, imp, f = found[0]
        return ch, imp, f

    def index_impl_ok(self, ty_name):
        """does `ty_name` implement Index/IndexMut as `&(self.0[idx])`?"""
        if ty_name in self._index_ok:
            return self._index_ok[ty_name]
        ok = False
        items = []
        r = self.find_impl_member(ty_name, 'index', trait='Index')
        if r is not None:
            ch = r[0]
            try:
                d = rsparse.parse_fn(ch)
            except ParseError:
                d = None
            if d is not None and d.self_kind == 'ref' and len(d.params) == 1 and d.params[0][0][0] == 'pid':
                p = d.params[0][0][2]
                body = d.body
                if not body[2] and body[3] is not None:
                    t = body[3]
                    if t[0] == 'ref':
                        t = t[3]
                        while t[0] == 'paren':
                            t = t[2]
                        if (t[0] == 'index' and t[2][0] == 'field' and t[2][3] == '0'
                                and t[2][2][0] == 'path' and t[2][2][2] == ['self']
                                and t[3][0] == 'path' and t[3][2] == [p]):
                            ok = True
                            items.append(ch)
        r2 = self.find_impl_member(ty_name, 'index_mut', trait='IndexMut')
        if ok and r2 is not None:
            items.append(r2[0])
        self._index_ok[ty_name] = (ok, items)
        return self._index_ok[ty_name]


def _match(toks, i):
    depth = 0
    j = i
    while True:
        x = toks[j]
        if x[0] == 'p':
            if x[1] in ('(', '[', '{'):
                depth += 1
            elif x[1] in (')', ']', '}'):
                depth -= 1
                if depth == 0:
                    return j + 1
        j += 1


# ---------------------------------------------------------------------------------------------
# translator
# ---------------------------------------------------------------------------------------------

class ItemSpec(object):
    def __init__(self, name, root, trait=None, expect=None, opaque=(), loop_once=False,
                 empty_prelude=False, havoc_calls=(), same_as=None, toplevel=False, note=None,
                 trait_arg=None, self_ref=None, fixed_args=None, self_type=None):
        self.name = name
        self.root = root            # fn name
        self.trait = trait          # None: inherent impl; 'Add' ...: trait impl
        self.expect = expect        # (n_in, n_out) or None
        self.opaque = tuple(opaque)
        self.loop_once = loop_once
        self.empty_prelude = empty_prelude
        self.havoc_calls = tuple(havoc_calls)
        self.same_as = same_as
        self.toplevel = toplevel    # file-level fn instead of impl member
        self.note = note
        self.trait_arg = trait_arg  # impl Trait<Arg> disambiguation
        self.self_ref = self_ref    # impl .. for &T (True) / for T (False)
        self.fixed_args = fixed_args or {}   # parameter name -> python callable(translator) giving its value
        self.self_type = self_type  # impl self type if different from the module's default


class Translator(object):
    def __init__(self, mctx, spec, self_type):
        self.m = mctx
        self.spec = spec
        self.self_type = self_type
        self.b = Builder()
        self.visited = []           # rslex.Item of fns, first-visit order
        self.visited_ids = set()
        self.consts_used = []
        self.consts_ids = set()
        self.depth = 0
        self.notes = []
        self.loop_done = False
        self.havoc_done = False
        self.fname = mctx.main.relname

    # -- bookkeeping ---------------------------------------------------------------------------
    def visit(self, item):
        if item is not None and id(item) not in self.visited_ids:
            self.visited_ids.add(id(item))
            self.visited.append(item)

    def use_const(self, item):
        if id(item) not in self.consts_ids:
            self.consts_ids.add(id(item))
            self.consts_used.append(item)

    # -- integer helpers -----------------------------------------------------------------------
    def typed(self, x, ty, line):
        """give type `ty` to Int x (untyped constants only); check equality otherwise."""
        if not isinstance(x, Int):
            raise TransErr('expected an integer value of type %s' % ty, line)
        if x.ty == ty:
            return x
        if x.ty is None:
            n = x.e[1]
            if n < 0 or n >= (1 << INT_W[ty]):
                raise TransErr('constant %d does not fit type %s' % (n, ty), line)
            return Int(x.e, ty)
        raise TransErr('integer type mismatch: %s vs %s' % (x.ty, ty), line)

    def unify(self, a, b, line):
        if a.ty == b.ty:
            return a, b, a.ty
        if a.ty is None:
            return self.typed(a, b.ty, line), b, b.ty
        if b.ty is None:
            return a, self.typed(b, a.ty, line), a.ty
        raise TransErr('integer type mismatch: %s vs %s' % (a.ty, b.ty), line)

    def const_of(self, x, line, what='value'):
        if isinstance(x, Int) and x.e[0] == 'c':
            return x.e[1]
        raise TransErr('%s must be a translation-time constant' % what, line)

    def fold(self, op, x, y, ty, line):
        if op == '+':
            r = x + y
        elif op == '-':
            r = x - y
        elif op == '*':
            r = x * y
        elif op == '/':
            if y == 0:
                raise TransErr('constant division by zero', line)
            r = x // y
        elif op == '%':
            if y == 0:
                raise TransErr('constant division by zero', line)
            r = x % y
        elif op == '&':
            r = x & y
        elif op == '|':
            r = x | y
        elif op == '^':
            r = x ^ y
        else:
            raise TransErr('internal fold %s' % op, line)
        if r < 0:
            raise TransErr('constant expression underflows (%d %s %d)' % (x, op, y), line)
        if ty is not None and r >= (1 << INT_W[ty]):
            raise TransErr('constant expression overflows %s (%d %s %d)' % (ty, x, op, y), line)
        return r

    def binop(self, op, a, b, line):
        if isinstance(a, Opaque) or isinstance(b, Opaque):
            return Opaque('?')
        if not isinstance(a, Int) or not isinstance(b, Int):
            raise TransErr('operator %s applied to non-integer operands' % op, line)
        if op in ('<<', '>>'):
            k = self.const_of(b, line, 'shift amount')
            w = INT_W[a.ty] if a.ty is not None else None
            if w is not None and k >= w:
                raise TransErr('shift amount %d >= width %d' % (k, w), line)
            if a.e[0] == 'c':
                if op == '>>':
                    return Int(('c', a.e[1] >> k), a.ty)
                r = a.e[1] << k
                if w is not None:
                    r %= (1 << w)
                return Int(('c', r), a.ty)
            if a.ty is None:
                raise TransErr('internal: untyped non-constant', line)
            if a.ty == 'usize':
                raise TransErr('non-constant usize arithmetic', line)
            if op == '>>':
                return Int(('shr', a.e, k), a.ty)
            return Int(('shl', w, a.e, k), a.ty)
        a, b, ty = self.unify(a, b, line)
        if a.e[0] == 'c' and b.e[0] == 'c':
            return Int(('c', self.fold(op, a.e[1], b.e[1], ty, line)), ty)
        if ty == 'usize':
            raise TransErr('non-constant usize arithmetic', line)
        w = INT_W[ty]
        if op == '+':
            return Int(('add', w, a.e, b.e), ty)
        if op == '-':
            return Int(('sub', w, a.e, b.e), ty)
        if op == '*':
            return Int(('mul', w, a.e, b.e), ty)
        if op == '&':
            if a.e[0] == 'c':        # constant mask goes on the right
                a, b = b, a
            return Int(('band', a.e, b.e), ty)
        if op == '|':
            return Int(('bor', a.e, b.e), ty)
        if op == '^':
            return Int(('bxor', a.e, b.e), ty)
        raise TransErr('operator %s on run-time values is outside the supported subset' % op, line)

    def cast(self, x, ty, line):
        if isinstance(x, Opaque):
            return x
        if not isinstance(x, Int):
            raise TransErr('cast of a non-integer value', line)
        if ty in SIGNED:
            raise TransErr('signed integer types are outside the supported subset', line)
        if ty not in INT_W:
            raise TransErr('cast to unsupported type %s' % ty, line)
        w = INT_W[ty]
        if x.e[0] == 'c':
            return Int(('c', x.e[1] % (1 << w)), ty)
        if ty == 'usize' or x.ty == 'usize':
            raise TransErr('non-constant usize value', line)
        return Int(('cast', w, x.e), ty)

    # -- materialisation / copies ---------------------------------------------------------------
    def materialize(self, v):
        if isinstance(v, Int):
            if v.e[0] in ('v', 'c'):
                return v
            return Int(self.b.emit_set(v.e), v.ty)
        if isinstance(v, Arr):
            return Arr([self.materialize(x) for x in v.el])
        if isinstance(v, Struct):
            return Struct(v.name, dict((k, self.materialize(x)) for k, x in v.f.items()))
        if isinstance(v, Tup):
            return Tup([self.materialize(x) for x in v.el])
        if isinstance(v, ChoiceV):
            return ChoiceV(self.materialize(v.x))
        return v

    # -- types ---------------------------------------------------------------------------------
    def ty_name(self, ty, env):
        if ty[0] == 'tpath' and len(ty[2]) == 1 and not ty[3]:
            n = ty[2][0]
            if n == 'Self':
                s = env.get_self_ty()
                if s is None:
                    raise TransErr('Self outside an impl', ty[1])
                return s
            return n
        return None

    def coerce(self, v, ty, env, line):
        k = ty[0]
        if k == 'tref':
            return self.coerce(v, ty[3], env, line)
        if k == 'tinfer':
            return v
        if k == 'tpath':
            n = self.ty_name(ty, env)
            if n is None:
                raise TransErr('unsupported type %s' % type_str(ty), line)
            if n in INT_W:
                if isinstance(v, Opaque):
                    return v
                return self.typed(v, n, line)
            if n in SIGNED:
                raise TransErr('signed integer types are outside the supported subset', line)
            if n == 'Choice':
                if not isinstance(v, ChoiceV):
                    raise TransErr('expected a Choice', line)
                return v
            if n == 'bool':
                if not isinstance(v, bool):
                    raise TransErr('expected a bool constant', line)
                return v
            if isinstance(v, Struct) and v.name == n:
                return v
            raise TransErr('value does not have type %s' % n, line)
        if k == 'tarr':
            if not isinstance(v, Arr):
                raise TransErr('expected an array value for type %s' % type_str(ty), line)
            n = self.const_of(self.eval(ty[3], env), line, 'array length')
            if len(v.el) != n:
                raise TransErr('array length mismatch: %d vs %d' % (len(v.el), n), line)
            for i in range(n):
                v.el[i] = self.coerce(v.el[i], ty[2], env, line)
            return v
        if k == 'tslice':
            if isinstance(v, Slice):
                return v
            if isinstance(v, Arr):
                for i in range(len(v.el)):
                    v.el[i] = self.coerce(v.el[i], ty[2], env, line)
                return v
            raise TransErr('expected a slice', line)
        if k == 'ttuple':
            if not isinstance(v, Tup) or len(v.el) != len(ty[2]):
                raise TransErr('expected a %d-tuple' % len(ty[2]), line)
            return Tup([self.coerce(x, t, env, line) for x, t in zip(v.el, ty[2])])
        raise TransErr('unsupported type form', line)

    def make_input(self, ty, env, line):
        k = ty[0]
        if k == 'tref':
            return self.make_input(ty[3], env, line)
        if k == 'tpath':
            n = self.ty_name(ty, env)
            if n in INT_W and n != 'usize':
                return Int(self.b.new_input(), n)
            if n is not None and n in self.m.structs:
                fty = self.m.struct_field_type(n)
                return Struct(n, {'0': self.make_input(fty, env, line)})
            raise TransErr('cannot create symbolic input of type %s' % type_str(ty), line)
        if k == 'tarr':
            n = self.const_of(self.eval(ty[3], env), line, 'array length')
            return Arr([self.make_input(ty[2], env, line) for _ in range(n)])
        raise TransErr('cannot create symbolic input of type %s' % type_str(ty), line)

    def havoc_like(self, v, line):
        """fresh inputs with the shape / types of value v."""
        if isinstance(v, Int):
            if v.ty is None or v.ty == 'usize':
                raise TransErr('cannot havoc an untyped/usize value', line)
            return Int(self.b.new_input(), v.ty)
        if isinstance(v, Arr):
            return Arr([self.havoc_like(x, line) for x in v.el])
        if isinstance(v, Struct):
            return Struct(v.name, dict((k, self.havoc_like(x, line)) for k, x in v.f.items()))
        if isinstance(v, Tup):
            return Tup([self.havoc_like(x, line) for x in v.el])
        raise TransErr('cannot havoc loop-carried value of this kind', line)

    # -- evaluation ----------------------------------------------------------------------------
    def eval(self, e, env):
        m = getattr(self, 'ev_' + e[0], None)
        if m is None:
            raise TransErr('expression kind `%s` is outside the supported subset' % e[0], e[1])
        return m(e, env)

    def ev_int(self, e, env):
        suf = e[3]
        if suf in SIGNED:
            raise TransErr('signed integer literal', e[1])
        if suf is not None and e[2] >= (1 << INT_W[suf]):
            raise TransErr('literal out of range for %s' % suf, e[1])
        return Int(('c', e[2]), suf)

    def ev_bool(self, e, env):
        return e[2]

    def ev_str(self, e, env):
        raise TransErr('string literal in kernel code', e[1])

    def ev_paren(self, e, env):
        return self.eval(e[2], env)

    def eval_const_item(self, it, file):
        self.use_const(it)
        if it.init_rng is None or it.ty_rng is None:
            raise TransErr('constant %s has no initializer/type' % it.name, it.line)
        fenv = self.m.file_env(file)
        penv = fenv
        if it.parent is not None and it.parent.kind == 'impl':
            penv = Env(fenv, barrier=True, self_ty=it.parent.self_ty)
        ty = rsparse.parse_type_range(it.toks, it.ty_rng[0], it.ty_rng[1], it.fname)
        init = rsparse.parse_expr_range(it.toks, it.init_rng[0], it.init_rng[1], it.fname)
        n0 = len(self.b.stmts)
        v = self.eval(init, penv)
        v = self.coerce(v, ty, penv, it.line)
        if len(self.b.stmts) != n0:
            raise TransErr('constant %s is not a compile-time literal' % it.name, it.line)
        return v

    def ev_path(self, e, env):
        segs = e[2]
        ln = e[1]
        if len(segs) == 1:
            name = segs[0]
            venv = env.find_var_env(name)
            if venv is not None:
                return venv.vars[name]
            it, ienv = env.find_item(name)
            if it is not None:
                if it[0] == 'const':
                    # local const: ('const', ty, init)
                    v = self.eval(it[2], ienv)
                    return self.coerce(v, it[1], ienv, ln)
                if it[0] == 'constitem':
                    return self.eval_const_item(it[1], ienv.get_file())
                raise TransErr('function %s used as a value' % name, ln)
            raise TransErr('unknown identifier %s' % name, ln)
        if len(segs) == 2:
            a, b = segs
            if a == 'constants':
                if self.m.consts is None:
                    raise TransErr('no constants file configured for this module', ln)
                fenv = self.m.file_env(self.m.consts)
                it = fenv.items.get(b)
                if it is None or it[0] != 'constitem':
                    raise TransErr('constant constants::%s not found' % b, ln)
                return self.eval_const_item(it[1], self.m.consts)
            if a == 'Self':
                a = env.get_self_ty()
            if a in self.m.structs:
                r = self.m.find_impl_member(a, b, trait=None, kinds=('const',))
                if r is None:
                    raise TransErr('associated constant %s::%s not found' % (a, b), ln)
                return self.eval_const_item(r[0], r[2])
        raise TransErr('unsupported path %s' % '::'.join(segs), ln)

    # calls ------------------------------------------------------------------------------------
    def call_decl(self, decl, item, self_val, args, defenv, self_ty, line):
        """inline a function: bind params in a fresh environment and evaluate the body."""
        self.visit(item)
        env = Env(defenv, barrier=True, self_ty=self_ty)
        if decl.self_kind is not None:
            if self_val is None:
                raise TransErr('method %s called without receiver' % decl.name, line)
            if isinstance(self_val, ElemRef):
                raise TransErr('method call on element reference', line)
            if decl.self_kind == 'mut':
                if not isinstance(self_val, Struct):
                    raise TransErr('&mut self on non-struct receiver', line)
                env.vars['self'] = self_val
            else:
                env.vars['self'] = self.materialize(self_val)
        elif self_val is not None:
            raise TransErr('function %s takes no receiver' % decl.name, line)
        if len(args) != len(decl.params):
            raise TransErr('call of %s with %d arguments, expected %d'
                           % (decl.name, len(args), len(decl.params)), line)
        for (pat, ty), a in zip(decl.params, args):
            if ty[0] == 'tref' and ty[2]:
                # &mut parameter: shared container
                if not isinstance(a, (Arr, Struct)):
                    raise TransErr('&mut parameter of scalar type is outside the supported subset', line)
                v = self.coerce(a, ty, env, line)
            else:
                v = self.coerce(self.materialize(a), ty, env, line)
            self.bind_pat(pat, v, env)
        self.depth += 1
        try:
            try:
                r = self.eval_block(decl.body, env, new_scope=False)
            except ReturnEx as ex:
                r = ex.value
        finally:
            self.depth -= 1
        if decl.ret is not None:
            r = self.coerce(r, decl.ret, env, line)
        return r

    def call_item(self, it, imp, file, self_val, args, line):
        decl = self.parse_fn(it)
        self_ty = imp.self_ty if imp is not None else None
        return self.call_decl(decl, it, self_val, args, self.m.file_env(file), self_ty, line)

    def parse_fn(self, it):
        try:
            return rsparse.parse_fn(it)
        except ParseError as ex:
            raise TransErr('cannot parse fn %s: %s' % (it.qualname(), ex), it.line)

    def make_struct(self, name, args, env, line):
        if len(args) != 1:
            raise TransErr('tuple struct %s with %d fields' % (name, len(args)), line)
        fty = self.m.struct_field_type(name)
        v = self.coerce(self.materialize_keep(args[0]), fty, env, line)
        return Struct(name, {'0': v})

    def materialize_keep(self, v):
        """shallow copy of containers without forcing SSA sets (struct construction)."""
        if isinstance(v, Arr):
            return Arr(list(v.el))
        return v

    def ev_call(self, e, env):
        ln = e[1]
        f = e[2]
        if f[0] != 'path':
            raise TransErr('call of a non-path expression', ln)
        segs = f[2]
        if f[3]:
            raise TransErr('generic call arguments are outside the supported subset', ln)
        if len(segs) == 1:
            name = segs[0]
            venv = env.find_var_env(name)
            if venv is not None:
                c = venv.vars[name]
                if not isinstance(c, Closure):
                    raise TransErr('%s is not callable' % name, ln)
                args = [self.eval(a, env) for a in e[3]]
                return self.call_closure(c, args, ln)
            it, ienv = env.find_item(name)
            if it is not None:
                args = [self.eval(a, env) for a in e[3]]
                if it[0] == 'fn':
                    return self.call_decl(it[1], None, None, args, ienv, None, ln)
                if it[0] == 'fnitem':
                    decl = self.parse_fn(it[1])
                    return self.call_decl(decl, it[1], None, args, ienv, None, ln)
                raise TransErr('%s is not a function' % name, ln)
            if name == 'Self':
                name = env.get_self_ty()
            if name in self.m.structs:
                args = [self.eval(a, env) for a in e[3]]
                return self.make_struct(name, args, env, ln)
            raise TransErr('call of unknown function %s' % name, ln)
        if len(segs) == 2:
            a, b = segs
            if a in INT_W and b == 'conditional_select':
                args = [self.eval(x, env) for x in e[3]]
                if len(args) != 3:
                    raise TransErr('conditional_select expects 3 arguments', ln)
                x = self.typed(args[0], a, ln)
                y = self.typed(args[1], a, ln)
                c = args[2]
                if not isinstance(c, ChoiceV):
                    raise TransErr('conditional_select: third argument is not a Choice', ln)
                return Int(('sel', c.x.e, x.e, y.e), a)
            if a == 'Choice' and b == 'from':
                args = [self.eval(x, env) for x in e[3]]
                if len(args) != 1 or not isinstance(args[0], Int):
                    raise TransErr('Choice::from expects one integer argument', ln)
                x = args[0]
                if x.ty is None:
                    x = self.typed(x, 'u8', ln)
                if x.ty != 'u8':
                    raise TransErr('Choice::from argument has type %s, expected u8' % x.ty, ln)
                x = self.materialize(x)
                if x.e[0] == 'c':
                    if x.e[1] >= 2:
                        raise TransErr('Choice::from of constant >= 2', ln)
                else:
                    self.b.emit_assert(x.e, 2)
                return ChoiceV(x)
            if a == 'Self':
                a = env.get_self_ty()
            if a in self.m.structs:
                r = self.m.find_impl_member(a, b, trait=False)
                if r is None:
                    raise TransErr('function %s::%s not found' % (a, b), ln)
                it, imp, file = r
                if self.depth == 1 and b in self.spec.havoc_calls:
                    return self.havoc_call(it, imp, file, ln)
                decl = self.parse_fn(it)
                args = [self.eval(x, env) for x in e[3]]
                self_val = None
                if decl.self_kind is not None:
                    if not args:
                        raise TransErr('method %s::%s called without receiver' % (a, b), ln)
                    self_val = args[0]
                    args = args[1:]
                return self.call_decl(decl, it, self_val, args, self.m.file_env(file), imp.self_ty, ln)
        raise TransErr('call of unsupported function %s' % '::'.join(segs), ln)

    def call_closure(self, c, args, line):
        if len(args) != len(c.params):
            raise TransErr('closure called with wrong number of arguments', line)
        env = Env(c.env)
        for (pat, ty), a in zip(c.params, args):
            if ty is not None and ty[0] == 'tref' and ty[2]:
                if not isinstance(a, (Arr, Struct)):
                    raise TransErr('&mut closure parameter of scalar type is outside the supported subset', line)
                v = self.coerce(a, ty, env, line)
            else:
                v = self.materialize(a)
                if ty is not None:
                    v = self.coerce(v, ty, env, line)
            self.bind_pat(pat, v, env)
        self.depth += 1
        try:
            if c.body[0] == 'block':
                r = self.eval_block(c.body, env, new_scope=False)
            else:
                r = self.eval(c.body, env)
        finally:
            self.depth -= 1
        if c.ret is not None:
            r = self.coerce(r, c.ret, env, line)
        return r

    def havoc_call(self, it, imp, file, line):
        """replace a call by fresh inputs of the callee's return type (tail extraction)."""
        if self.havoc_done:
            raise TransErr('more than one havoc call', line)
        decl = self.parse_fn(it)
        if decl.ret is None:
            raise TransErr('havoc call without return type', line)
        self.havoc_done = True
        self.b.reset()
        env = Env(self.m.file_env(file), barrier=True, self_ty=imp.self_ty)
        self.notes.append('inputs are the result of the call to %s (line %d)' % (it.qualname(), line))
        return self.make_input(decl.ret, env, line)

    def ev_mcall(self, e, env):
        ln = e[1]
        name = e[3]
        if e[5]:
            raise TransErr('generic method call', ln)
        recv = self.eval(e[2], env)
        if isinstance(recv, ElemRef):
            recv = recv.arr.el[recv.i]
        if isinstance(recv, Int):
            if name in ('wrapping_add', 'wrapping_sub', 'wrapping_mul'):
                if len(e[4]) != 1:
                    raise TransErr('%s expects one argument' % name, ln)
                b = self.eval(e[4][0], env)
                if not isinstance(b, Int):
                    raise TransErr('%s on non-integer' % name, ln)
                a, b, ty = self.unify(recv, b, ln)
                if ty is None:
                    raise TransErr('%s on untyped constants' % name, ln)
                w = INT_W[ty]
                if a.e[0] == 'c' and b.e[0] == 'c':
                    x, y = a.e[1], b.e[1]
                    r = {'wrapping_add': x + y, 'wrapping_sub': x - y, 'wrapping_mul': x * y}[name]
                    return Int(('c', r % (1 << w)), ty)
                if ty == 'usize':
                    raise TransErr('non-constant usize arithmetic', ln)
                op = {'wrapping_add': 'wadd', 'wrapping_sub': 'wsub', 'wrapping_mul': 'wmul'}[name]
                return Int((op, w, a.e, b.e), ty)
            raise TransErr('integer method %s is outside the supported subset' % name, ln)
        if isinstance(recv, Struct):
            r = self.m.find_impl_member(recv.name, name, trait=False)
            if r is None:
                raise TransErr('method %s::%s not found' % (recv.name, name), ln)
            it, imp, file = r
            if self.depth == 1 and name in self.spec.havoc_calls:
                return self.havoc_call(it, imp, file, ln)
            decl = self.parse_fn(it)
            if decl.self_kind is None:
                raise TransErr('%s::%s is not a method' % (recv.name, name), ln)
            args = [self.eval(x, env) for x in e[4]]
            return self.call_decl(decl, it, recv, args, self.m.file_env(file), imp.self_ty, ln)
        raise TransErr('method call .%s() on unsupported receiver' % name, ln)

    # data -------------------------------------------------------------------------------------
    def ev_field(self, e, env):
        base = self.eval(e[2], env)
        name = e[3]
        if isinstance(base, Struct):
            if name not in base.f:
                raise TransErr('no field %s in %s' % (name, base.name), e[1])
            return base.f[name]
        if isinstance(base, Tup) and name.isdigit() and int(name) < len(base.el):
            return base.el[int(name)]
        raise TransErr('field access .%s on unsupported value' % name, e[1])

    def container(self, base, line):
        """Arr (and offset) behind an indexable value."""
        if isinstance(base, Arr):
            return base, 0, len(base.el)
        if isinstance(base, Slice):
            return base.arr, base.off, base.n
        if isinstance(base, Struct):
            ok, items = self.m.index_impl_ok(base.name)
            if not ok:
                raise TransErr('type %s is indexed but has no `&(self.0[i])` Index impl' % base.name, line)
            for it in items:
                self.visit(it)
            inner = base.f.get('0')
            if not isinstance(inner, Arr):
                raise TransErr('Index impl on non-array field', line)
            return inner, 0, len(inner.el)
        raise TransErr('indexing an unsupported value', line)

    def ev_index(self, e, env):
        ln = e[1]
        base = self.eval(e[2], env)
        arr, off, n = self.container(base, ln)
        idx = self.eval(e[3], env)
        if isinstance(idx, Rng):
            lo = 0 if idx.lo is None else idx.lo
            hi = n if idx.hi is None else idx.hi
            if not isinstance(lo, int) or not isinstance(hi, int) or lo > hi or hi > n:
                raise TransErr('slice range out of bounds / not constant', ln)
            return Slice(arr, off + lo, hi - lo)
        i = self.const_of(idx, ln, 'array index')
        if i >= n:
            raise TransErr('index %d out of bounds (len %d)' % (i, n), ln)
        return arr.el[off + i]

    def ev_unary(self, e, env):
        v = self.eval(e[3], env)
        if e[2] == '!' and isinstance(v, bool):
            return not v
        raise TransErr('unary %s is outside the supported subset' % e[2], e[1])

    def ev_ref(self, e, env):
        return self.eval(e[3], env)

    def ev_deref(self, e, env):
        v = self.eval(e[2], env)
        if isinstance(v, ElemRef):
            return v.arr.el[v.i]
        return v

    def cmp(self, op, a, b, line):
        if isinstance(a, Opaque) or isinstance(b, Opaque):
            return OpaqueCond(op)
        if not isinstance(a, Int) or not isinstance(b, Int):
            raise TransErr('comparison of non-integers', line)
        a, b, ty = self.unify(a, b, line)
        if a.e[0] == 'c' and b.e[0] == 'c':
            x, y = a.e[1], b.e[1]
            return {'==': x == y, '!=': x != y, '<': x < y, '>': x > y, '<=': x <= y, '>=': x >= y}[op]
        return Cmp(op, a, b)

    _OP_TRAITS = {'+': ('Add', 'add'), '-': ('Sub', 'sub'), '*': ('Mul', 'mul')}
    _OPASSIGN_TRAITS = {'+': ('AddAssign', 'add_assign'), '-': ('SubAssign', 'sub_assign'),
                        '*': ('MulAssign', 'mul_assign')}

    def ev_bin(self, e, env):
        ln = e[1]
        op = e[2]
        a = self.eval(e[3], env)
        if op in ('&&', '||'):
            if isinstance(a, bool):
                if op == '&&' and not a:
                    return False
                if op == '||' and a:
                    return True
                return self.eval(e[4], env)
            b = self.eval(e[4], env)
            if op == '||' and isinstance(a, (Cmp, OrC)) and isinstance(b, (Cmp, OrC, bool)):
                if b is True:
                    return True
                if b is False:
                    return a
                return OrC(a, b)
            if isinstance(a, OpaqueCond) or isinstance(b, OpaqueCond):
                return OpaqueCond(op)
            raise TransErr('run-time boolean operator %s is outside the supported subset' % op, ln)
        b = self.eval(e[4], env)
        if isinstance(a, ElemRef):
            a = a.arr.el[a.i]
        if isinstance(b, ElemRef):
            b = b.arr.el[b.i]
        if op in ('==', '!=', '<', '>', '<=', '>='):
            return self.cmp(op, a, b, ln)
        if isinstance(a, Struct):
            tr = self._OP_TRAITS.get(op)
            if tr is None:
                raise TransErr('operator %s on struct %s' % (op, a.name), ln)
            r = self.m.find_impl_member(a.name, tr[1], trait=tr[0])
            if r is None:
                raise TransErr('no impl %s for %s' % (tr[0], a.name), ln)
            it, imp, file = r
            decl = self.parse_fn(it)
            return self.call_decl(decl, it, a, [b], self.m.file_env(file), imp.self_ty, ln)
        return self.binop(op, a, b, ln)

    def ev_cast(self, e, env):
        ln = e[1]
        v = self.eval(e[2], env)
        ty = e[3]
        if ty[0] == 'tref':
            # `self as &T`: reference casts are transparent
            return self.coerce(v, ty, env, ln)
        n = self.ty_name(ty, env)
        if n is None:
            raise TransErr('cast to unsupported type', ln)
        if isinstance(v, ElemRef):
            v = v.arr.el[v.i]
        return self.cast(v, n, ln)

    def place(self, e, env):
        k = e[0]
        ln = e[1]
        if k == 'paren':
            return self.place(e[2], env)
        if k == 'path' and len(e[2]) == 1:
            venv = env.find_var_env(e[2][0])
            if venv is None:
                raise TransErr('assignment to unknown variable %s' % e[2][0], ln)
            return VarPlace(venv, e[2][0])
        if k == 'field':
            base = self.eval(e[2], env)
            if isinstance(base, Struct) and e[3] in base.f:
                return FieldPlace(base, e[3])
            raise TransErr('assignment to field of unsupported value', ln)
        if k == 'index':
            base = self.eval(e[2], env)
            arr, off, n = self.container(base, ln)
            i = self.const_of(self.eval(e[3], env), ln, 'array index')
            if i >= n:
                raise TransErr('index %d out of bounds (len %d)' % (i, n), ln)
            return ElemPlace(arr, off + i)
        if k == 'deref':
            v = self.eval(e[2], env)
            if isinstance(v, ElemRef):
                return ElemPlace(v.arr, v.i)
            raise TransErr('assignment through unsupported reference', ln)
        raise TransErr('unsupported assignment target', ln)

    def store(self, pl, v, env, line):
        """store (a copy of) v into place pl, keeping the integer type of the old content."""
        v = self.materialize(v)
        try:
            old = pl.get()
        except KeyError:
            old = None
        if isinstance(old, Int) and isinstance(v, Int) and old.ty is not None:
            v = self.typed(v, old.ty, line)
        elif isinstance(old, Int) and isinstance(v, Int) and old.ty is None and v.ty is not None:
            pass
        elif old is not None and not isinstance(old, Opaque) and type(old) is not type(v):
            raise TransErr('assignment changes the kind of value', line)
        if isinstance(old, Arr) and isinstance(v, Arr) and len(old.el) != len(v.el):
            raise TransErr('assignment changes array length', line)
        pl.set(v)

    def ev_assign(self, e, env):
        ln = e[1]
        op = e[2]
        if op is None:
            v = self.eval(e[4], env)
            pl = self.place(e[3], env)
            self.store(pl, v, env, ln)
            return UNIT
        rhs = self.eval(e[4], env)
        if isinstance(rhs, ElemRef):
            rhs = rhs.arr.el[rhs.i]
        pl = self.place(e[3], env)
        cur = pl.get()
        if isinstance(cur, Struct):
            tr = self._OPASSIGN_TRAITS.get(op)
            if tr is None:
                raise TransErr('operator %s= on struct' % op, ln)
            r = self.m.find_impl_member(cur.name, tr[1], trait=tr[0])
            if r is None:
                raise TransErr('no impl %s for %s' % (tr[0], cur.name), ln)
            it, imp, file = r
            decl = self.parse_fn(it)
            if decl.self_kind != 'mut':
                raise TransErr('%s::%s does not take &mut self' % (tr[0], tr[1]), ln)
            self.call_decl(decl, it, cur, [rhs], self.m.file_env(file), imp.self_ty, ln)
            return UNIT
        if isinstance(cur, Opaque):
            return UNIT
        new = self.binop(op, cur, rhs, ln)
        self.store(pl, new, env, ln)
        return UNIT

    def ev_array(self, e, env):
        return Arr([self.deref_val(self.eval(x, env)) for x in e[2]])

    def deref_val(self, v):
        if isinstance(v, ElemRef):
            return v.arr.el[v.i]
        return v

    def ev_repeat(self, e, env):
        x = self.eval(e[2], env)
        n = self.const_of(self.eval(e[3], env), e[1], 'array length')
        if isinstance(x, Int) and x.e[0] == 'c':
            return Arr([x for _ in range(n)])
        if isinstance(x, (Struct, Arr)) and len(self.b.stmts) >= 0:
            flat = []
            flatten(x, flat, e[1])
            if all(y.e[0] == 'c' for y in flat):
                return Arr([self.materialize(x) for _ in range(n)])
        raise TransErr('array repeat of a non-constant element', e[1])

    def ev_tuple(self, e, env):
        return Tup([self.eval(x, env) for x in e[2]])

    def ev_struct(self, e, env):
        raise TransErr('struct literal %s {..} in kernel code is outside the supported subset'
                       % '::'.join(e[2]), e[1])

    def ev_closure(self, e, env):
        return Closure(e[2], e[3], e[4], env)

    def ev_unsafe(self, e, env):
        raise TransErr('unsafe block', e[1])

    def ev_while(self, e, env):
        raise TransErr('while loop is outside the supported subset', e[1])

    def ev_continue(self, e, env):
        raise TransErr('continue is outside the supported subset', e[1])

    def ev_break(self, e, env):
        raise TransErr('break outside of the recognised `if k == 0 { break; }` loop exit', e[1])

    def ev_return(self, e, env):
        v = UNIT if e[2] is None else self.eval(e[2], env)
        raise ReturnEx(v)

    def ev_range(self, e, env):
        if e[4]:
            raise TransErr('inclusive range', e[1])
        lo = hi = None
        if e[2] is not None:
            v = self.eval(e[2], env)
            lo = v if isinstance(v, Opaque) else self.const_of(v, e[1], 'range bound')
        if e[3] is not None:
            v = self.eval(e[3], env)
            hi = v if isinstance(v, Opaque) else self.const_of(v, e[1], 'range bound')
        return Rng(lo, hi)

    def ev_block(self, e, env):
        return self.eval_block(e, env, new_scope=True)

    def eval_block(self, blk, env, new_scope=True):
        if new_scope:
            env = Env(env)
        # hoist items
        for st in blk[2]:
            if st[0] == 'fn':
                env.items[st[2].name] = ('fn', st[2])
            elif st[0] == 'const':
                env.items[st[2]] = ('const', st[3], st[4])
        for st in blk[2]:
            self.exec_stmt(st, env)
        if blk[3] is not None:
            return self.eval(blk[3], env)
        return UNIT

    def exec_stmt(self, st, env):
        k = st[0]
        if k == 'let':
            _, ln, pat, ty, init = st
            if init is None:
                raise TransErr('let without initializer', ln)
            v = self.eval(init, env)
            v = self.materialize(self.deref_val(v))
            if ty is not None:
                v = self.coerce(v, ty, env, ln)
            self.bind_pat(pat, v, env)
        elif k == 'expr':
            self.eval(st[2], env)
        elif k in ('fn', 'const', 'use'):
            pass
        else:
            raise TransErr('unsupported statement', st[1])

    def bind_pat(self, pat, v, env):
        k = pat[0]
        if k == 'pid':
            env.vars[pat[2]] = v
        elif k == 'pwild':
            pass
        elif k == 'ptuple':
            if not isinstance(v, Tup) or len(v.el) != len(pat[2]):
                raise TransErr('tuple pattern does not match value', pat[1])
            for p, x in zip(pat[2], v.el):
                self.bind_pat(p, x, env)
        else:
            raise TransErr('unsupported pattern', pat[1])

    def ev_if(self, e, env):
        c = self.eval(e[2], env)
        if isinstance(c, bool):
            if c:
                return self.eval_block(e[3], env)
            if e[4] is not None:
                return self.eval(e[4], env)
            return UNIT
        raise TransErr('`if` on a run-time condition is outside the supported subset', e[1])

    # loops ------------------------------------------------------------------------------------
    def ev_for(self, e, env):
        _, ln, pat, it, body = e
        if it[0] == 'ref' and it[2]:
            arr = self.eval(it[3], env)
            if not isinstance(arr, Arr):
                raise TransErr('for over &mut of a non-array', ln)
            for i in range(len(arr.el)):
                benv = Env(env)
                self.bind_pat(pat, ElemRef(arr, i), benv)
                self.eval_block(body, benv)
            return UNIT
        r = self.eval(it, env)
        if isinstance(r, Rng):
            if isinstance(r.lo, int) and isinstance(r.hi, int):
                for i in range(r.lo, r.hi):
                    benv = Env(env)
                    self.bind_pat(pat, Int(('c', i), None), benv)
                    self.eval_block(body, benv)
                return UNIT
            if isinstance(r.hi, Opaque) or isinstance(r.lo, Opaque):
                if pat[0] != 'pwild':
                    raise TransErr('loop over a run-time range uses its index', ln)
                return self.loop_once(body, env, ln)
            raise TransErr('for over an open range', ln)
        if isinstance(r, Arr):
            for x in r.el:
                benv = Env(env)
                self.bind_pat(pat, x, benv)
                self.eval_block(body, benv)
            return UNIT
        raise TransErr('for over an unsupported iterator', ln)

    def ev_loop(self, e, env):
        return self.loop_once(e[2], env, e[1])

    def loop_once(self, body, env, ln):
        if not self.spec.loop_once or self.depth != 1:
            raise TransErr('loop with a run-time trip count is outside the supported subset', ln)
        if self.loop_done:
            raise TransErr('more than one run-time loop in a loop-body item', ln)
        self.loop_done = True
        assigned = set()
        collect_assigned(body, assigned)
        visible = env.visible_var_names()
        carried = sorted(assigned & visible)
        pre = len(self.b.stmts)
        if self.spec.empty_prelude and pre:
            raise TransErr('code before the loop emits %d statements (expected a pure copy)' % pre, ln)
        self.b.reset()
        # havoc in declaration-independent, deterministic order: order of names in source = sorted
        hav = []
        for name in carried:
            venv = env.find_var_env(name)
            old = venv.vars[name]
            if isinstance(old, Opaque):
                continue
            venv.vars[name] = self.havoc_like(old, ln)
            hav.append(name)
        self.notes.append('one iteration of the loop at line %d; loop-carried state: %s; '
                          'statements before the loop discarded: %d' % (ln, ', '.join(hav), pre))
        # run the body once; a trailing `if <opaque> { break; }` is the loop exit test
        benv = Env(env)
        for st in body[2]:
            if st[0] == 'fn':
                benv.items[st[2].name] = ('fn', st[2])
            elif st[0] == 'const':
                benv.items[st[2]] = ('const', st[3], st[4])
        stmts = list(body[2])
        if body[3] is not None:
            stmts.append(('expr', body[3][1], body[3], False))
        for st in stmts:
            if st[0] == 'expr' and st[2][0] == 'if':
                ife = st[2]
                c = self.eval(ife[2], benv)
                if isinstance(c, OpaqueCond):
                    blk = ife[3]
                    only_break = (ife[4] is None and
                                  ((len(blk[2]) == 1 and blk[3] is None and blk[2][0][0] == 'expr'
                                    and blk[2][0][2][0] in ('break', 'return'))
                                   or (not blk[2] and blk[3] is not None and blk[3][0] in ('break', 'return'))))
                    if not only_break:
                        raise TransErr('`if` on the loop count with a body other than `break` / `return`', st[1])
                    # `return v;` as loop exit: v must be a loop-carried variable (the state is the result)
                    ex = blk[2][0][2] if blk[2] else blk[3]
                    if ex[0] == 'return':
                        rv = ex[2]
                        if rv is None or rv[0] != 'path' or len(rv[2]) != 1 or rv[2][0] not in hav:
                            raise TransErr('loop exit `return` of something other than the loop-carried state', st[1])
                        self._loop_result = benv.find_var_env(rv[2][0]).vars[rv[2][0]]
                    self.notes.append('loop exit test at line %d not modelled' % st[1])
                    continue
                if isinstance(c, bool):
                    if c:
                        self.eval_block(ife[3], benv)
                    elif ife[4] is not None:
                        self.eval(ife[4], benv)
                    continue
                raise TransErr('`if` on a run-time condition is outside the supported subset', st[1])
            self.exec_stmt(st, benv)
        if getattr(self, '_loop_result', None) is not None:
            r = self._loop_result
            self._loop_result = None
            raise ReturnEx(r)
        return UNIT

    # macros -----------------------------------------------------------------------------------
    def ev_macro(self, e, env):
        name = e[2]
        ln = e[1]
        if name != 'debug_assert':
            raise TransErr('macro %s! is outside the supported subset' % name, ln)
        try:
            args = rsparse.parse_macro_args(e, self.fname)
        except ParseError as ex:
            raise TransErr('cannot parse debug_assert! arguments: %s' % ex, ln)
        if not args:
            raise TransErr('empty debug_assert!', ln)
        c = self.eval(args[0], env)
        self.emit_assertion(c, ln)
        return UNIT

    def emit_assertion(self, c, ln):
        if c is True:
            return
        if c is False:
            raise TransErr('debug_assert! is statically false', ln)
        if isinstance(c, OpaqueCond):
            self.notes.append('debug_assert! on the loop count at line %d dropped' % ln)
            return
        if isinstance(c, Cmp):
            e, n = self.cmp_as_lt(c, ln)
            self.b.emit_assert(e, n)
            return
        if isinstance(c, OrC):
            # e == 0 || e == 1  ->  e < 2
            l, r = c.l, c.r
            if (isinstance(l, Cmp) and isinstance(r, Cmp) and l.op == '==' and r.op == '=='
                    and l.r.e[0] == 'c' and r.r.e[0] == 'c' and l.l.e == r.l.e
                    and sorted((l.r.e[1], r.r.e[1])) == [0, 1]):
                self.b.emit_assert(l.l.e, 2)
                return
            raise TransErr('debug_assert! disjunction is not of the form e == 0 || e == 1', ln)
        raise TransErr('unsupported debug_assert! condition', ln)

    def cmp_as_lt(self, c, ln):
        op, l, r = c.op, c.l, c.r
        if op == '<' and r.e[0] == 'c':
            return l.e, r.e[1]
        if op == '<=' and r.e[0] == 'c':
            return l.e, r.e[1] + 1
        if op == '>' and l.e[0] == 'c':
            return r.e, l.e[1]
        if op == '>=' and l.e[0] == 'c':
            return r.e, l.e[1] + 1
        if op == '==' and r.e[0] == 'c' and r.e[1] == 0:
            return l.e, 1
        if op == '==' and l.e[0] == 'c' and l.e[1] == 0:
            return r.e, 1
        raise TransErr('debug_assert! comparison cannot be expressed as `e < constant`', ln)

    # -- root ----------------------------------------------------------------------------------
    def translate(self, item, imp, file):
        decl = self.parse_fn(item)
        fenv = self.m.file_env(file)
        self_ty = imp.self_ty if imp is not None else None
        env0 = Env(fenv, barrier=True, self_ty=self_ty)
        self_val = None
        ln = item.line
        if decl.self_kind is not None:
            self_val = self.make_input(('tpath', ln, [self_ty], []), env0, ln)
        args = []
        for pat, ty in decl.params:
            if pat[0] == 'pid' and pat[2] in self.spec.opaque:
                args.append(Opaque(pat[2]))
            elif pat[0] == 'pid' and pat[2] in self.spec.fixed_args:
                args.append(self.spec.fixed_args[pat[2]](self))
            else:
                args.append(self.make_input(ty, env0, ln))
        r = self.call_decl(decl, item, self_val, args, fenv, self_ty, ln)
        if self.spec.loop_once and not self.loop_done:
            raise TransErr('expected a run-time loop in %s but found none' % item.name, ln)
        if self.spec.havoc_calls and not self.havoc_done:
            raise TransErr('expected a call to %s in %s but found none'
                           % ('/'.join(self.spec.havoc_calls), item.name), ln)
        if decl.ret is not None:
            out = r
        elif decl.self_kind == 'mut':
            out = self_val
        else:
            raise TransErr('function has neither a return value nor &mut self', ln)
        flat = []
        self.flatten_value(out, flat, ln)
        outs = []
        for x in flat:
            if x.ty is None or x.ty == 'usize':
                raise TransErr('output of untyped/usize kind', ln)
            if x.e[0] != 'v':
                x = Int(self.b.emit_set(x.e), x.ty)
            outs.append(x.e)
        nin, body, outs = self.b.finalize(outs)
        nin, body, outs = self.post_process(nin, body, outs)
        return nin, body, outs, [x.ty for x in flat]

    def flatten_value(self, v, out, ln):
        flatten(v, out, ln)

    def post_process(self, nin, body, outs):
        return nin, body, outs


def flatten(v, out, ln):
    if isinstance(v, Int):
        out.append(v)
    elif isinstance(v, Arr):
        for x in v.el:
            flatten(x, out, ln)
    elif isinstance(v, Struct):
        for k in v.f:
            flatten(v.f[k], out, ln)
    elif isinstance(v, Tup):
        for x in v.el:
            flatten(x, out, ln)
    else:
        raise TransErr('function result contains an unsupported kind of value', ln)


def collect_assigned(node, out):
    """names of variables assigned (or mutably borrowed) anywhere inside AST `node`."""
    if isinstance(node, tuple):
        if node and node[0] == 'assign':
            r = _root_name(node[3])
            if r is not None:
                out.add(r)
        elif node and node[0] == 'ref' and node[2]:
            r = _root_name(node[3])
            if r is not None:
                out.add(r)
        for x in node:
            if isinstance(x, (tuple, list)):
                collect_assigned(x, out)
            elif isinstance(x, rsparse.FnDecl):
                pass
    elif isinstance(node, list):
        for x in node:
            collect_assigned(x, out)


def _root_name(e):
    while True:
        k = e[0]
        if k in ('index', 'field', 'deref', 'paren'):
            e = e[2]
        elif k == 'path' and len(e[2]) == 1:
            return e[2][0]
        else:
            return None


def type_str(ty):
    k = ty[0]
    if k == 'tpath':
        return '::'.join(ty[2])
    if k == 'tref':
        return '&' + ('mut ' if ty[2] else '') + type_str(ty[3])
    if k == 'tarr':
        return '[%s; _]' % type_str(ty[2])
    if k == 'tslice':
        return '[%s]' % type_str(ty[2])
    if k == 'ttuple':
        return '(' + ', '.join(type_str(t) for t in ty[2]) + ')'
    return '_'

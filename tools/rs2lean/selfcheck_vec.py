"""selfcheck for the scalarised vector field backends (Dalek/Gen/Avx2Field.lean, IfmaField.lean).

 (1) value level: the 40 (20) lanes of a vector are decoded into four field values A,B,C,D (limb k of
     element e sits where `split` says) and every item is compared with the lane-wise mathematical
     operation mod p on random + extremal inputs inside the documented bounds; evalC must not panic and
     must agree with evalW.
 (2) CPU differential (`--cpu`): the same byte-level requests are sent to the Rust driver built with the
     real SIMD backend (vfe.avx2.* / vfe.ifma.* ops of PROTOCOL.md) and to the Python evaluation of the
     translated items (Field51.from_bytes -> new -> op -> split -> Field51.as_bytes).
"""
import os
import random
import subprocess

import selfcheck as sc

P = sc.P
W26 = sc.W26
ELEMS = 'ABCD'
# position of (element e, limb k) inside the 40 lanes: vector k//2, lane per the layout
# (a_2i, b_2i, a_2i+1, b_2i+1, c_2i, d_2i, c_2i+1, d_2i+1)
LANE_OF = {('A', 0): 0, ('B', 0): 1, ('A', 1): 2, ('B', 1): 3, ('C', 0): 4, ('D', 0): 5, ('C', 1): 6, ('D', 1): 7}


def pos(e, k):
    return 8 * (k // 2) + LANE_OF[(e, k % 2)]


def decode(lanes):
    """four field values (not reduced) of a 40-lane vector"""
    return [sum(lanes[pos(e, k)] << W26[k] for k in range(10)) for e in ELEMS]


def limbs_of(lanes, e):
    return [lanes[pos(e, k)] for k in range(10)]


def encode(limbs4):
    """40 lanes from four 10-limb lists"""
    out = [0] * 40
    for e, l in zip(ELEMS, limbs4):
        for k in range(10):
            out[pos(e, k)] = l[k]
    return out


def bound(b):
    """exclusive per-limb bounds for excess b: even < 2^(26+b), odd < 2^(25+b)"""
    return [int(2 ** (26 + b)) if k % 2 == 0 else int(2 ** (25 + b)) for k in range(10)]


def rand_vec(rng, b, cap=None):
    bd = bound(b)
    if cap is not None:
        bd = [min(x, c + 1) for x, c in zip(bd, cap)]
    return encode([[sc.rnd_limb(rng, bd[k]) for k in range(10)] for _ in range(4)])


def ext_vecs(b, cap=None):
    bd = bound(b)
    if cap is not None:
        bd = [min(x, c + 1) for x, c in zip(bd, cap)]
    out = [encode([[0] * 10] * 4), encode([[x - 1 for x in bd]] * 4)]
    for e in range(4):
        l = [[0] * 10 for _ in range(4)]
        l[e] = [x - 1 for x in bd]
        out.append(encode(l))
    for k in range(10):
        l = [[0] * 10 for _ in range(4)]
        for e in range(4):
            l[e][k] = bd[k] - 1
        out.append(encode(l))
    return out


def in_bound(lanes, b):
    bd = bound(b)
    for e in ELEMS:
        for k in range(10):
            if lanes[pos(e, k)] >= bd[k]:
                return 'output limb %s%d = %d exceeds the documented bound b < %s' % (e, k, lanes[pos(e, k)], b)
    return None


P16 = [(0x3ffffed << 4)] + [(0x1ffffff << 4) if k % 2 else (0x3ffffff << 4) for k in range(1, 10)]
SHUFFLES = ['AAAA', 'BBBB', 'CACA', 'DBBD', 'ADDA', 'CBCB', 'ABAB', 'BADC', 'BACD', 'ABDC']
LANES = ['C', 'D', 'AB', 'AC', 'CD', 'AD', 'BC', 'ABCD', 'BCD']


def avx2_checks(progs):
    C = []

    def chk(item, gen, edges, oracle, contract):
        C.append((item, gen, edges, oracle, contract))

    def modp(v):
        return [x % P for x in v]

    # new / split
    def gen_new(rng):
        return [sc.rnd_limb(rng, 2 ** 54) for _ in range(20)]

    def o_new(i, o):
        want = [sc.val51(i[5 * e:5 * e + 5]) % P for e in range(4)]
        if modp(decode(o)) != want:
            return 'value mismatch'
        return in_bound(o, 0.0002)
    chk('new', gen_new, sc.ext_vecs([2 ** 54] * 20)[:12], o_new, 'FieldElement51 limbs < 2^54')

    def o_split(i, o):
        if [sc.val51(o[5 * e:5 * e + 5]) for e in range(4)] != decode(i):
            return 'split does not decode the lanes'
        return None
    chk('split', lambda rng: [sc.rnd_limb(rng, 2 ** 32) for _ in range(40)], ext_vecs(6.0 - 1e-9)[:8], o_split,
        'any u32 lanes')

    chk('negate_lazy', lambda rng: rand_vec(rng, 0.999), ext_vecs(0.999),
        lambda i, o: (None if modp(decode(o)) == [(-x) % P for x in decode(i)] else 'value mismatch')
        or in_bound(o, 1.0), 'b < 0.999')

    def o_ds(i, o):
        a, b, c, d = decode(i)
        if modp(decode(o)) != [(b - a) % P, (a + b) % P, (d - c) % P, (c + d) % P]:
            return 'value mismatch'
        return in_bound(o, 1.6)
    chk('diff_sum', lambda rng: rand_vec(rng, 0.01), ext_vecs(0.01), o_ds, 'b < 0.01')

    def o_red(i, o):
        if modp(decode(o)) != modp(decode(i)):
            return 'value not preserved'
        return in_bound(o, 0.0002)
    chk('reduce', lambda rng: [sc.rnd_limb(rng, 2 ** 32) for _ in range(40)], ext_vecs(6.0 - 1e-9), o_red,
        'any u32 lanes')

    def o_neg(i, o):
        if modp(decode(o)) != [(-x) % P for x in decode(i)]:
            return 'value mismatch'
        return in_bound(o, 0.0002)
    chk('neg', lambda rng: rand_vec(rng, 4.0, P16), ext_vecs(4.0, P16), o_neg,
        'limbs <= 16p limbwise (the documented b < 4.0 is slightly too generous)')

    def gen2(b1, b2):
        return lambda rng: rand_vec(rng, b1) + rand_vec(rng, b2)

    def o_add(i, o):
        if o != [x + y for x, y in zip(i[:40], i[40:])]:
            return 'not the lane-wise sum'
        return None
    chk('add', gen2(4.9, 4.9), [a + b for a in ext_vecs(4.9)[:4] for b in ext_vecs(4.9)[:4]], o_add,
        'b < 4.9 (sum fits u32)')

    def o_mulc(i, o):
        v = decode(i[:40])
        if modp(decode(o)) != [v[e] * i[40 + e] % P for e in range(4)]:
            return 'value mismatch'
        return in_bound(o, 0.007)
    chk('mul_consts', lambda rng: rand_vec(rng, 2.5) + [sc.rnd_limb(rng, 2 ** 32) for _ in range(4)],
        [a + [2 ** 32 - 1] * 4 for a in ext_vecs(2.5)] + [ext_vecs(2.5)[1] + [121666, 121666, 243332, 243330]],
        o_mulc, 'b < 2.5, any u32 constants')

    def o_sq(i, o):
        a, b, c, d = decode(i)
        if modp(decode(o)) != [a * a % P, b * b % P, c * c % P, (-d * d) % P]:
            return 'value mismatch'
        return in_bound(o, 0.007)
    chk('square_and_negate_D', lambda rng: rand_vec(rng, 1.5), ext_vecs(1.5), o_sq, 'b < 1.5')

    def o_mul(i, o):
        x, y = decode(i[:40]), decode(i[40:])
        if modp(decode(o)) != [a * b % P for a, b in zip(x, y)]:
            return 'value mismatch'
        return in_bound(o, 0.007)
    chk('mul', gen2(2.5, 1.75), [a + b for a in ext_vecs(2.5)[:6] for b in ext_vecs(1.75)[:6]], o_mul,
        '(b_x, b_y) < (2.5, 1.75)')

    def gen_r64(rng):
        return [sc.rnd_limb(rng, 2 ** 62) for _ in range(40)]

    def o_r64(i, o):
        want = [sum(i[4 * k + e] << W26[k] for k in range(10)) % P for e in range(4)]
        if modp(decode(o)) != want:
            return 'value not preserved'
        return in_bound(o, 0.007)
    chk('reduce64', gen_r64, sc.ext_vecs([2 ** 62] * 40)[:20], o_r64, 'z lanes < 2^62')

    def gen_sel(rng):
        return [sc.rnd_limb(rng, 2 ** 32) for _ in range(80)] + [rng.randrange(2)]

    def o_sel(i, o):
        return None if o == (i[40:80] if i[80] else i[:40]) else 'selection mismatch'
    chk('conditional_select', gen_sel, [], o_sel, 'any lanes, choice in {0,1}')
    chk('conditional_assign', gen_sel, [], o_sel, 'any lanes, choice in {0,1}')

    for name in progs:
        if name.startswith('shuffle_'):
            pat = name[len('shuffle_'):]

            def o_sh(i, o, pat=pat):
                for idx, src in enumerate(pat):
                    if limbs_of(o, ELEMS[idx]) != limbs_of(i, src):
                        return 'element %s of the result is not element %s of the input' % (ELEMS[idx], src)
                return None
            chk(name, lambda rng: [sc.rnd_limb(rng, 2 ** 32) for _ in range(40)], [], o_sh, 'any lanes')
        if name.startswith('blend_'):
            sel = name[len('blend_'):]

            def o_bl(i, o, sel=sel):
                for e in ELEMS:
                    src = i[40:] if e in sel else i[:40]
                    if limbs_of(o, e) != limbs_of(src, e):
                        return 'element %s taken from the wrong vector' % e
                return None
            chk(name, lambda rng: [sc.rnd_limb(rng, 2 ** 32) for _ in range(80)], [], o_bl, 'any lanes')
    return C


def run_value_checks(modname, progs, checks, n, seed, only):
    fails = 0
    seen = set()
    for item, gen, edges, oracle, contract in checks:
        key = '%s.%s' % (modname, item)
        seen.add(item)
        if only and key not in only:
            continue
        prog = progs.get(item)
        if prog is None:
            print('%-32s MISSING (item not generated)' % key)
            fails += 1
            continue
        fC = sc.compile_prog(prog, True)
        fW = sc.compile_prog(prog, False)
        rng = random.Random('%s.%d' % (key, seed))
        tested = 0
        fail = None
        k = 0
        while k < len(edges) + n:
            ins = edges[k] if k < len(edges) else gen(rng)
            k += 1
            if len(ins) != prog[0]:
                fail = ('arity', ins, 'check supplies %d inputs, program takes %d' % (len(ins), prog[0]))
                break
            oc = fC(ins)
            ow = fW(ins)
            if tested < 10:
                if sc.prog_evalC_ref(prog, ins) != oc or sc.prog_evalW_ref(prog, ins) != ow:
                    fail = ('internal', ins, 'compiled evaluator disagrees with the reference interpreter')
                    break
            tested += 1
            if oc is None:
                fail = ('evalC', ins, 'evalC = none on an in-contract input')
                break
            if oc != ow:
                fail = ('evalC/evalW', ins, 'evalC != evalW')
                break
            err = oracle(ins, oc)
            if err:
                fail = ('oracle', ins, err)
                break
        if fail is None:
            print('%-32s %5d %5d %6d %7d  ok   [%s]' % (key, prog[0], len(prog[2]), len(prog[1]), tested, contract))
        else:
            fails += 1
            print('%-32s %5d %5d %6d %7d  FAIL (%s): %s' % (key, prog[0], len(prog[2]), len(prog[1]), tested,
                                                          fail[0], fail[2]))
            print('    input: %r' % (fail[1],))
    if not only:
        for item in progs:
            if item not in seen:
                print('%-32s (no oracle)' % ('%s.%s' % (modname, item)))
    return fails


# ---------------------------------------------------------------------------------------------
# CPU differential
# ---------------------------------------------------------------------------------------------

def driver_path(cfg):
    out = subprocess.run(['bash', '/verif/harness/build.sh', cfg, 'release'], stdout=subprocess.PIPE,
                         stderr=subprocess.PIPE, timeout=3000)
    lines = [l for l in out.stdout.decode().strip().split('\n') if l.strip()]
    if out.returncode != 0 or not lines or not os.path.exists(lines[-1].strip()):
        raise RuntimeError('cannot build the %s driver: %s' % (cfg, out.stderr.decode()[-400:]))
    return lines[-1].strip()


def hexb(b):
    return ''.join('%02x' % x for x in b)


def rand_fe_bytes(rng):
    r = rng.random()
    if r < 0.08:
        n = 0
    elif r < 0.16:
        n = P - 1 - rng.randrange(40)
    elif r < 0.22:
        n = (P + rng.randrange(19)) | (rng.randrange(2) << 255)
    elif r < 0.28:
        n = 2 ** 256 - 1 - rng.randrange(1 << 10)
    elif r < 0.34:
        n = rng.randrange(1 << 10)
    else:
        n = rng.randrange(2 ** 256)
    return sc.le_bytes(n % 2 ** 256, 32)


class Pipe(object):
    """Python evaluation of the translated items on byte-level requests"""

    def __init__(self, gen, vecmod):
        f51 = sc.parse_lean_module(os.path.join(gen, 'Field51.lean'))
        self.from_bytes = sc.compile_prog(f51['from_bytes'], True)
        self.as_bytes = sc.compile_prog(f51['as_bytes'], True)
        self.progs = sc.parse_lean_module(os.path.join(gen, vecmod + '.lean'))
        self.cache = {}

    def f(self, name):
        if name not in self.cache:
            self.cache[name] = sc.compile_prog(self.progs[name], True)
        return self.cache[name]

    def vec(self, fes):
        limbs = []
        for b in fes:
            l = self.from_bytes(b)
            if l is None:
                raise RuntimeError('from_bytes panicked')
            limbs += l
        v = self.f('new')(limbs)
        if v is None:
            raise RuntimeError('new: evalC = none')
        return v

    def out(self, v):
        if v is None:
            return None
        s = self.f('split')(v)
        if s is None:
            return None
        res = []
        for e in range(4):
            b = self.as_bytes(s[5 * e:5 * e + 5])
            if b is None:
                return None
            res.append(hexb(b))
        return 'ok ' + ' '.join(res)


def avx2_requests(rng, n):
    """(request line, python evaluator(pipe) -> response)"""
    reqs = []

    def fes(k):
        return [rand_fe_bytes(rng) for _ in range(k)]

    def add(op, args_b, extra, fn):
        line = 'vfe.avx2.%s %s' % (op, ' '.join(hexb(b) for b in args_b))
        if extra:
            line += ' ' + ' '.join(str(x) for x in extra)
        reqs.append((line, fn))
    for _ in range(n):
        a = fes(4)
        add('roundtrip', a, [], lambda p, a=a: p.out(p.vec(a)))
        a, b = fes(4), fes(4)
        add('mul', a + b, [], lambda p, a=a, b=b: p.out(p.f('mul')(p.vec(a) + p.vec(b))))
        a = fes(4)
        add('square', a, [], lambda p, a=a: p.out(p.f('square_and_negate_D')(p.vec(a))))
        a = fes(4)
        add('neg', a, [], lambda p, a=a: p.out(p.f('neg')(p.vec(a))))
        a = fes(4)
        add('reduce', a, [], lambda p, a=a: p.out(p.f('reduce')(p.vec(a))))
        a = fes(4)
        add('negate_lazy', a, [], lambda p, a=a: p.out(p.f('negate_lazy')(p.vec(a))))
        a, b = fes(4), fes(4)
        add('add', a + b, [], lambda p, a=a, b=b: p.out(p.f('add')(p.vec(a) + p.vec(b))))
        a, b = fes(4), fes(4)

        def sub(p, a=a, b=b):
            nb = p.f('neg')(p.vec(b))
            return p.out(None if nb is None else p.f('add')(p.vec(a) + nb))
        add('sub', a + b, [], sub)
        a = fes(4)
        add('diff_sum', a, [], lambda p, a=a: p.out(p.f('diff_sum')(p.vec(a))))
        a = fes(4)
        ctl = rng.randrange(10)
        add('shuffle', a, [ctl], lambda p, a=a, ctl=ctl: p.out(p.f('shuffle_' + SHUFFLES[ctl])(p.vec(a))))
        a, b = fes(4), fes(4)
        ln = rng.randrange(8) if rng.random() < 0.9 else 8

        def blend(p, a=a, b=b, ln=ln):
            name = 'blend_' + LANES[ln]
            if name not in p.progs:
                return 'skip'
            return p.out(p.f(name)(p.vec(a) + p.vec(b)))
        add('blend', a + b, [ln], blend)
        a = fes(4)
        ks = [sc.rnd_limb(rng, 2 ** 32) if rng.random() < 0.5 else rng.choice([121666, 121665, 243332, 243330, 1, 0])
              for _ in range(4)]
        add('mul_consts', a, ks, lambda p, a=a, ks=ks: p.out(p.f('mul_consts')(p.vec(a) + ks)))
        a, b = fes(4), fes(4)
        c = rng.randrange(2)
        add('cselect', a + b, [c], lambda p, a=a, b=b, c=c: p.out(p.f('conditional_select')(p.vec(a) + p.vec(b) + [c])))
    return reqs


def run_cpu(gen, vecmod, cfg, reqs):
    try:
        drv = driver_path(cfg)
    except Exception as ex:
        print('CPU differential (%s): SKIPPED, %s' % (cfg, ex))
        return 1
    pipe = Pipe(gen, vecmod)
    inp = '\n'.join(r[0] for r in reqs) + '\n'
    out = subprocess.run([drv], input=inp.encode(), stdout=subprocess.PIPE, stderr=subprocess.PIPE, timeout=3000)
    lines = out.stdout.decode().split('\n')
    if lines and lines[-1] == '':
        lines.pop()
    if len(lines) != len(reqs):
        print('CPU differential (%s): driver answered %d lines for %d requests' % (cfg, len(lines), len(reqs)))
        return 1
    stats = {}
    fails = 0
    for (line, fn), got in zip(reqs, lines):
        op = line.split(' ')[0]
        st = stats.setdefault(op, [0, 0, 0])
        want = fn(pipe)
        if got.strip() == 'skip' or want == 'skip':
            if got.strip() != want:
                if st[1] < 2:
                    print('  MISMATCH %s\n    cpu:   %s\n    model: %s' % (line[:100], got[:100], str(want)[:100]))
                st[1] += 1
                fails += 1
            else:
                st[2] += 1
            continue
        st[0] += 1
        if want is None:
            want = 'panic(evalC = none)'
        if got.strip() != want:
            st[1] += 1
            fails += 1
            if st[1] <= 2:
                print('  MISMATCH %s\n    cpu:   %s\n    model: %s' % (line, got, want))
    for op in sorted(stats):
        st = stats[op]
        print('%-24s compared %5d  mismatches %d  skipped %d' % (op, st[0], st[1], st[2]))
    return fails


# ---------------------------------------------------------------------------------------------
# IFMA: 20 lanes, vector k = limb k (radix 2^51) of (A, B, C, D)
# ---------------------------------------------------------------------------------------------

def ipos(e, k):
    return 4 * k + e


def idecode(lanes):
    return [sum(lanes[ipos(e, k)] << (51 * k) for k in range(5)) for e in range(4)]


def ielem(lanes, e):
    return [lanes[ipos(e, k)] for k in range(5)]


IFMA_LANES = {0: 'C', 1: 'D', 2: 'AB', 3: 'AC', 5: 'AD', 8: 'BCD'}
P16_51 = [36028797018963664] + [36028797018963952] * 4


def ifma_checks(progs):
    C = []

    def chk(item, gen, edges, oracle, contract):
        C.append((item, gen, edges, oracle, contract))

    def modp(v):
        return [x % P for x in v]

    def rv(rng, bd):
        """20 lanes with per-limb exclusive bounds bd[k]"""
        out = [0] * 20
        for e in range(4):
            for k in range(5):
                out[ipos(e, k)] = sc.rnd_limb(rng, bd[k])
        return out

    def ev(bd):
        z = [0] * 20
        m = [0] * 20
        for e in range(4):
            for k in range(5):
                m[ipos(e, k)] = bd[k] - 1
        out = [z, m]
        for k in range(5):
            v = [0] * 20
            for e in range(4):
                v[ipos(e, k)] = bd[k] - 1
            out.append(v)
        return out
    U64 = [2 ** 64] * 5
    RED = [2 ** 51 + 2 ** 18] * 5
    B54 = [2 ** 54] * 5
    NEGB = [x + 1 for x in P16_51]

    chk('new', lambda rng: [sc.rnd_limb(rng, 2 ** 64) for _ in range(20)], [],
        lambda i, o: None if o == [i[5 * e + k] for k in range(5) for e in range(4)] else 'not the transposition',
        'any u64 limbs')
    chk('split', lambda rng: [sc.rnd_limb(rng, 2 ** 64) for _ in range(20)], [],
        lambda i, o: None if o == [i[ipos(e, k)] for e in range(4) for k in range(5)] else 'not the transposition',
        'any u64 lanes')
    chk('unreduce', lambda rng: rv(rng, U64), [], lambda i, o: None if o == i else 'not the identity', 'any')

    def o_neg(i, o):
        return None if modp(idecode(o)) == [(-x) % P for x in idecode(i)] else 'value mismatch'
    chk('negate_lazy', lambda rng: rv(rng, NEGB), ev(NEGB), o_neg, 'limbs <= 16p limbwise')
    chk('neg', lambda rng: rv(rng, RED), ev(RED), o_neg, 'reduced limbs (< 2^51 + 2^18)')

    def o_ds(i, o):
        a, b, c, d = idecode(i)
        return None if modp(idecode(o)) == [(b - a) % P, (a + b) % P, (d - c) % P, (c + d) % P] else 'value mismatch'
    chk('diff_sum', lambda rng: rv(rng, B54), ev(B54), o_ds, 'limbs < 2^54')
    chk('add', lambda rng: rv(rng, [2 ** 63] * 5) + rv(rng, [2 ** 63] * 5), [],
        lambda i, o: None if o == [x + y for x, y in zip(i[:20], i[20:])] else 'not the lane-wise sum',
        'limbs < 2^63')

    def o_red(i, o):
        if modp(idecode(o)) != modp(idecode(i)):
            return 'value not preserved'
        for e in range(4):
            l = ielem(o, e)
            if l[0] >= 2 ** 51 + 19 * 2 ** 13 or any(x >= 2 ** 51 + 2 ** 13 for x in l[1:]):
                return 'result limbs not reduced'
        return None
    chk('reduce', lambda rng: rv(rng, U64), ev(U64), o_red, 'any u64 lanes')

    def o_mul(i, o):
        x, y = idecode(i[:20]), idecode(i[20:])
        return None if modp(idecode(o)) == [a * b % P for a, b in zip(x, y)] else 'value mismatch'
    chk('mul', lambda rng: rv(rng, RED) + rv(rng, RED), [a + b for a in ev(RED) for b in ev(RED)], o_mul,
        'reduced limbs (< 2^51 + 2^18)')
    chk('square', lambda rng: rv(rng, RED), ev(RED),
        lambda i, o: None if modp(idecode(o)) == [a * a % P for a in idecode(i)] else 'value mismatch',
        'reduced limbs (< 2^51 + 2^18)')

    def o_mc(i, o):
        v = idecode(i[:20])
        return None if modp(idecode(o)) == [v[e] * i[20 + e] % P for e in range(4)] else 'value mismatch'
    chk('mul_consts', lambda rng: rv(rng, RED) + [sc.rnd_limb(rng, 2 ** 32) for _ in range(4)],
        [a + [2 ** 32 - 1] * 4 for a in ev(RED)], o_mc, 'reduced limbs, any u32 constants')

    def gen_sel(rng):
        return rv(rng, U64) + rv(rng, U64) + [rng.randrange(2)]

    def o_sel(i, o):
        return None if o == (i[20:40] if i[40] else i[:20]) else 'selection mismatch'
    chk('conditional_select', gen_sel, [], o_sel, 'any lanes, choice in {0,1}')
    chk('conditional_assign', gen_sel, [], o_sel, 'any lanes, choice in {0,1}')
    for name in progs:
        base = name[len('reduced_'):] if name.startswith('reduced_') else name
        if base.startswith('shuffle_'):
            pat = base[len('shuffle_'):]

            def o_sh(i, o, pat=pat):
                for idx, src in enumerate(pat):
                    if ielem(o, idx) != ielem(i, ELEMS.index(src)):
                        return 'element %s of the result is not element %s of the input' % (ELEMS[idx], src)
                return None
            chk(name, lambda rng: rv(rng, U64), [], o_sh, 'any lanes')
        if base.startswith('blend_'):
            sel = base[len('blend_'):]

            def o_bl(i, o, sel=sel):
                for e in range(4):
                    src = i[20:] if ELEMS[e] in sel else i[:20]
                    if ielem(o, e) != ielem(src, e):
                        return 'element %s taken from the wrong vector' % ELEMS[e]
                return None
            chk(name, lambda rng: rv(rng, U64) + rv(rng, U64), [], o_bl, 'any lanes')
    return C


def ifma_requests(rng, n):
    reqs = []

    def fes(k):
        return [rand_fe_bytes(rng) for _ in range(k)]

    def add(op, args_b, extra, fn):
        line = 'vfe.ifma.%s %s' % (op, ' '.join(hexb(b) for b in args_b))
        if extra:
            line += ' ' + ' '.join(str(x) for x in extra)
        reqs.append((line, fn))

    def ap(p, name, v):
        return None if v is None else p.f(name)(v)

    def red(p, a):
        return ap(p, 'reduce', p.vec(a))

    def cat(x, y):
        return None if x is None or y is None else x + y
    for _ in range(n):
        a = fes(4)
        add('roundtrip', a, [], lambda p, a=a: p.out(p.vec(a)))
        a, b = fes(4), fes(4)
        add('mul', a + b, [], lambda p, a=a, b=b: p.out(ap(p, 'mul', cat(red(p, a), red(p, b)))))
        a = fes(4)
        add('square', a, [], lambda p, a=a: p.out(ap(p, 'square', red(p, a))))
        a = fes(4)
        add('neg', a, [], lambda p, a=a: p.out(ap(p, 'unreduce', ap(p, 'neg', red(p, a)))))
        a = fes(4)
        add('reduce', a, [], lambda p, a=a: p.out(ap(p, 'unreduce', red(p, a))))
        a = fes(4)
        add('negate_lazy', a, [], lambda p, a=a: p.out(ap(p, 'negate_lazy', p.vec(a))))
        a, b = fes(4), fes(4)
        add('add', a + b, [], lambda p, a=a, b=b: p.out(ap(p, 'add', cat(p.vec(a), p.vec(b)))))
        a, b = fes(4), fes(4)
        add('sub', a + b, [], lambda p, a=a, b=b: p.out(
            ap(p, 'add', cat(p.vec(a), ap(p, 'unreduce', ap(p, 'neg', red(p, b)))))))
        a = fes(4)
        add('diff_sum', a, [], lambda p, a=a: p.out(ap(p, 'diff_sum', p.vec(a))))
        a = fes(4)
        ctl = rng.randrange(10)
        add('shuffle', a, [ctl], lambda p, a=a, ctl=ctl: p.out(ap(p, 'shuffle_' + SHUFFLES[ctl], p.vec(a))))
        a, b = fes(4), fes(4)
        ln = rng.choice(sorted(IFMA_LANES)) if rng.random() < 0.9 else rng.randrange(9)

        def blend(p, a=a, b=b, ln=ln):
            if ln not in IFMA_LANES:
                return 'skip'
            return p.out(ap(p, 'blend_' + IFMA_LANES[ln], cat(p.vec(a), p.vec(b))))
        add('blend', a + b, [ln], blend)
        a = fes(4)
        ks = [sc.rnd_limb(rng, 2 ** 32) if rng.random() < 0.5 else rng.choice([121666, 121665, 243332, 243330, 1, 0])
              for _ in range(4)]
        add('mul_consts', a, ks, lambda p, a=a, ks=ks: p.out(ap(p, 'mul_consts', cat(red(p, a), ks))))
        a, b = fes(4), fes(4)
        c = rng.randrange(2)
        add('cselect', a + b, [c], lambda p, a=a, b=b, c=c: p.out(
            ap(p, 'unreduce', ap(p, 'conditional_select', cat(cat(red(p, a), red(p, b)), [c])))))
    return reqs


def run_vec(gen, n, seed, only, cpu, ncpu):
    fails = 0
    p = os.path.join(gen, 'Avx2Field.lean')
    if os.path.exists(p):
        progs = sc.parse_lean_module(p)
        print('--- Avx2Field (value level: lanes decoded into 4 field values, inside the documented bounds)')
        fails += run_value_checks('Avx2Field', progs, avx2_checks(progs), n, seed, only)
        if cpu:
            print('--- Avx2Field vs the CPU (driver simd/release, ops vfe.avx2.*)')
            fails += run_cpu(gen, 'Avx2Field', 'simd', avx2_requests(random.Random('cpu.avx2.%d' % seed), ncpu))
    else:
        print('Avx2Field.lean missing')
        fails += 1
    p = os.path.join(gen, 'IfmaField.lean')
    if os.path.exists(p):
        progs = sc.parse_lean_module(p)
        print('--- IfmaField (value level: 20 lanes = limbs 0..4 of A,B,C,D in radix 2^51)')
        fails += run_value_checks('IfmaField', progs, ifma_checks(progs), n, seed, only)
        if cpu:
            print('--- IfmaField vs the CPU (driver avx512/release, ops vfe.ifma.*)')
            fails += run_cpu(gen, 'IfmaField', 'avx512', ifma_requests(random.Random('cpu.ifma.%d' % seed), ncpu))
    else:
        print('IfmaField.lean missing')
        fails += 1
    return fails

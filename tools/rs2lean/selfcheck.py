#!/usr/bin/env python3
"""selfcheck for rs2lean: re-parses the EMITTED Lean files (so the pretty printer is covered too),
evaluates every generated program with `evalC` / `evalW` exactly as Dalek/IR/Limb.lean defines them,
and compares against value-level oracles computed with Python big integers.

usage: selfcheck.py [--gen /verif/lean/Dalek/Gen] [--n 2000] [--only Module.item,...] [--seed N]
exit code 0 iff every check passed.
"""
import argparse
import os
import random
import re
import sys

sys.dont_write_bytecode = True
import time

sys.path.insert(0, os.path.dirname(os.path.abspath(__file__)))

P = 2 ** 255 - 19
L = 2 ** 252 + 27742317777372353535851937790883648493


# ---------------------------------------------------------------------------------------------
# parsing the emitted Lean
# ---------------------------------------------------------------------------------------------

_TOK = re.compile(r'\s*(?:(\.[A-Za-z]+)|(\d+)|([()\[\],]))')


def _tokens(s):
    pos = 0
    out = []
    n = len(s)
    while True:
        m = _TOK.match(s, pos)
        if not m:
            if s[pos:].strip():
                raise ValueError('cannot tokenize IR near %r' % s[pos:pos + 40])
            break
        if m.group(1):
            out.append(m.group(1))
        elif m.group(2):
            out.append(int(m.group(2)))
        else:
            out.append(m.group(3))
        pos = m.end()
        if pos >= n:
            break
    return out


_ARITY = {'.add': 'wee', '.sub': 'wee', '.mul': 'wee', '.wadd': 'wee', '.wsub': 'wee', '.wmul': 'wee',
          '.shr': 'en', '.shl': 'wen', '.band': 'ee', '.bor': 'ee', '.bxor': 'ee', '.cast': 'we',
          '.sel': 'eee', '.v': 'n', '.c': 'n'}


class _P(object):
    def __init__(self, toks):
        self.t = toks
        self.i = 0

    def next(self):
        x = self.t[self.i]
        self.i += 1
        return x

    def expect(self, x):
        y = self.next()
        if y != x:
            raise ValueError('expected %r got %r' % (x, y))

    def expr(self):
        """an expression WITHOUT surrounding parentheses: `.ctor args`"""
        c = self.next()
        sig = _ARITY.get(c)
        if sig is None:
            raise ValueError('unknown constructor %r' % (c,))
        args = []
        for a in sig:
            if a in 'wn':
                x = self.next()
                if not isinstance(x, int):
                    raise ValueError('expected numeral')
                args.append(x)
            else:
                self.expect('(')
                args.append(self.expr())
                self.expect(')')
        return (c[1:],) + tuple(args)

    def stmt(self):
        c = self.next()
        if c == '.set':
            self.expect('(')
            e = self.expr()
            self.expect(')')
            return ('set', e)
        if c == '.assertLt':
            self.expect('(')
            e = self.expr()
            self.expect(')')
            n = self.next()
            return ('assert', e, n)
        raise ValueError('unknown statement %r' % (c,))

    def stmts(self):
        self.expect('[')
        out = []
        if self.t[self.i] == ']':
            self.i += 1
            return out
        while True:
            out.append(self.stmt())
            x = self.next()
            if x == ']':
                return out
            if x != ',':
                raise ValueError('expected , or ]')


def parse_lean_module(path):
    """returns {name: (nIn, body, outs)} for every `def name : Prog` of a generated module."""
    with open(path, 'r', encoding='utf-8') as f:
        text = f.read()
    # strip doc comments / line comments
    text = re.sub(r'/--.*?-/', '', text, flags=re.S)
    text = re.sub(r'/-!.*?-/', '', text, flags=re.S)
    text = re.sub(r'--[^\n]*', '', text)
    lists = {}
    progs = {}
    for m in re.finditer(r'^def (\w+) : List S := (\[.*?^  \])', text, flags=re.S | re.M):
        lists[m.group(1)] = _P(_tokens(m.group(2))).stmts()
    for m in re.finditer(r'^def (\w+) : Prog where\n  nIn := (\d+)\n  body := (.*?)\n  outs := \[([^\]]*)\]',
                         text, flags=re.S | re.M):
        name = m.group(1)
        nin = int(m.group(2))
        b = m.group(3).strip()
        if b.startswith('['):
            body = _P(_tokens(b)).stmts()
        else:
            body = []
            for part in b.split('++'):
                body.extend(lists[part.strip()])
        outs = [int(x) for x in m.group(4).split(',') if x.strip()]
        progs[name] = (nin, body, outs)
    return progs


# ---------------------------------------------------------------------------------------------
# reference semantics: literal transcription of Dalek/IR/Limb.lean
# ---------------------------------------------------------------------------------------------

def chk(w, x):
    return x if x < 2 ** w else None


def evalC_e(env, e):
    k = e[0]
    if k == 'v':
        return env[e[1]] if e[1] < len(env) else None
    if k == 'c':
        return e[1]
    if k in ('add', 'sub', 'mul', 'wadd', 'wsub', 'wmul'):
        w = e[1]
        x = evalC_e(env, e[2])
        if x is None:
            return None
        y = evalC_e(env, e[3])
        if y is None:
            return None
        if k == 'add':
            return chk(w, x + y)
        if k == 'sub':
            return chk(w, x - y) if y <= x else None
        if k == 'mul':
            return chk(w, x * y)
        if k == 'wadd':
            return (x + y) % 2 ** w
        if k == 'wsub':
            return (x + (2 ** w - y % 2 ** w)) % 2 ** w
        return (x * y) % 2 ** w
    if k == 'shr':
        x = evalC_e(env, e[1])
        return None if x is None else x // 2 ** e[2]
    if k == 'shl':
        x = evalC_e(env, e[2])
        return None if x is None else (x * 2 ** e[3]) % 2 ** e[1]
    if k in ('band', 'bor', 'bxor'):
        x = evalC_e(env, e[1])
        if x is None:
            return None
        y = evalC_e(env, e[2])
        if y is None:
            return None
        return x & y if k == 'band' else (x | y if k == 'bor' else x ^ y)
    if k == 'cast':
        x = evalC_e(env, e[2])
        return None if x is None else x % 2 ** e[1]
    if k == 'sel':
        z = evalC_e(env, e[1])
        if z is None:
            return None
        x = evalC_e(env, e[2])
        if x is None:
            return None
        y = evalC_e(env, e[3])
        if y is None:
            return None
        if z < 2:
            return x if z == 0 else y
        return None
    raise ValueError(k)


def evalW_e(env, e):
    k = e[0]
    if k == 'v':
        return env[e[1]] if e[1] < len(env) else 0
    if k == 'c':
        return e[1]
    if k in ('add', 'wadd'):
        return (evalW_e(env, e[2]) + evalW_e(env, e[3])) % 2 ** e[1]
    if k in ('sub', 'wsub'):
        return (evalW_e(env, e[2]) + (2 ** e[1] - evalW_e(env, e[3]) % 2 ** e[1])) % 2 ** e[1]
    if k in ('mul', 'wmul'):
        return (evalW_e(env, e[2]) * evalW_e(env, e[3])) % 2 ** e[1]
    if k == 'shr':
        return evalW_e(env, e[1]) // 2 ** e[2]
    if k == 'shl':
        return (evalW_e(env, e[2]) * 2 ** e[3]) % 2 ** e[1]
    if k == 'band':
        return evalW_e(env, e[1]) & evalW_e(env, e[2])
    if k == 'bor':
        return evalW_e(env, e[1]) | evalW_e(env, e[2])
    if k == 'bxor':
        return evalW_e(env, e[1]) ^ evalW_e(env, e[2])
    if k == 'cast':
        return evalW_e(env, e[2]) % 2 ** e[1]
    if k == 'sel':
        return evalW_e(env, e[2]) if evalW_e(env, e[1]) == 0 else evalW_e(env, e[3])
    raise ValueError(k)


def prog_evalC_ref(prog, ins):
    nin, body, outs = prog
    if len(ins) != nin:
        return None
    env = list(ins)
    for s in body:
        if s[0] == 'set':
            x = evalC_e(env, s[1])
            if x is None:
                return None
            env.append(x)
        else:
            x = evalC_e(env, s[1])
            if x is None or not x < s[2]:
                return None
    return [env[i] if i < len(env) else 0 for i in outs]


def prog_evalW_ref(prog, ins):
    nin, body, outs = prog
    env = list(ins)
    for s in body:
        if s[0] == 'set':
            env.append(evalW_e(env, s[1]))
    return [env[i] if i < len(env) else 0 for i in outs]


# ---------------------------------------------------------------------------------------------
# compiled evaluators (same semantics, generated Python source; cross-checked against the reference)
# ---------------------------------------------------------------------------------------------

class Panic(Exception):
    pass


def _chk(t, x):
    if x < t:
        return x
    raise Panic()


def _csub(t, x, y):
    if y <= x:
        return _chk(t, x - y)
    raise Panic()


def _selc(z, x, y):
    if z < 2:
        return x if z == 0 else y
    raise Panic()


def _lt(x, n):
    if not x < n:
        raise Panic()


def _gen(e, checked, nvars):
    k = e[0]
    if k == 'v':
        if e[1] >= nvars:
            return '_oob()' if checked else '0'
        return 'v%d' % e[1]
    if k == 'c':
        return str(e[1])
    g = lambda x: _gen(x, checked, nvars)
    if k in ('add', 'sub', 'mul', 'wadd', 'wsub', 'wmul'):
        t = str(2 ** e[1])
        a, b = g(e[2]), g(e[3])
        if checked and k == 'add':
            return '_chk(%s, %s + %s)' % (t, a, b)
        if checked and k == 'sub':
            return '_csub(%s, %s, %s)' % (t, a, b)
        if checked and k == 'mul':
            return '_chk(%s, %s * %s)' % (t, a, b)
        if k in ('add', 'wadd'):
            return '((%s + %s) %% %s)' % (a, b, t)
        if k in ('sub', 'wsub'):
            return '((%s + (%s - %s %% %s)) %% %s)' % (a, t, b, t, t)
        return '((%s * %s) %% %s)' % (a, b, t)
    if k == 'shr':
        return '(%s // %d)' % (g(e[1]), 2 ** e[2])
    if k == 'shl':
        return '((%s * %d) %% %d)' % (g(e[2]), 2 ** e[3], 2 ** e[1])
    if k == 'band':
        return '(%s & %s)' % (g(e[1]), g(e[2]))
    if k == 'bor':
        return '(%s | %s)' % (g(e[1]), g(e[2]))
    if k == 'bxor':
        return '(%s ^ %s)' % (g(e[1]), g(e[2]))
    if k == 'cast':
        return '(%s %% %d)' % (g(e[2]), 2 ** e[1])
    if k == 'sel':
        if checked:
            return '_selc(%s, %s, %s)' % (g(e[1]), g(e[2]), g(e[3]))
        return '(%s if %s == 0 else %s)' % (g(e[2]), g(e[1]), g(e[3]))
    raise ValueError(k)


def _oob():
    raise Panic()


def compile_prog(prog, checked):
    nin, body, outs = prog
    lines = ['def f(ins):']
    if nin:
        lines.append('    %s = ins' % (', '.join('v%d' % i for i in range(nin)) + (',' if nin == 1 else '')))
    nv = nin
    for s in body:
        if s[0] == 'set':
            lines.append('    v%d = %s' % (nv, _gen(s[1], checked, nv)))
            nv += 1
        elif checked:
            lines.append('    _lt(%s, %d)' % (_gen(s[1], checked, nv), s[2]))
    lines.append('    return [%s]' % ', '.join(('v%d' % o) if o < nv else '0' for o in outs))
    ns = {'_chk': _chk, '_csub': _csub, '_selc': _selc, '_lt': _lt, '_oob': _oob}
    exec('\n'.join(lines), ns)
    f = ns['f']
    if checked:
        def run(ins):
            if len(ins) != nin:
                return None
            try:
                return f(ins)
            except Panic:
                return None
        return run
    return f


# ---------------------------------------------------------------------------------------------
# oracles
# ---------------------------------------------------------------------------------------------

W26 = [0, 26, 51, 77, 102, 128, 153, 179, 204, 230]
B26 = [26, 25, 26, 25, 26, 25, 26, 25, 26, 25]


def val51(l):
    return sum(x << (51 * i) for i, x in enumerate(l))


def val26(l):
    return sum(x << W26[i] for i, x in enumerate(l))


def val52(l):
    return sum(x << (52 * i) for i, x in enumerate(l))


def val29(l):
    return sum(x << (29 * i) for i, x in enumerate(l))


def le_bytes(n, k):
    return [(n >> (8 * i)) & 255 for i in range(k)]


def from_le(b):
    return sum(x << (8 * i) for i, x in enumerate(b))


def limbs(n, bits, k):
    return [(n >> (bits * i)) & ((1 << bits) - 1) for i in range(k)]


class Check(object):
    """one item: input generator + oracle(ins, outs) -> error string or None"""

    def __init__(self, mod, item, gen, extremal, oracle, contract):
        self.mod = mod
        self.item = item
        self.gen = gen
        self.extremal = extremal
        self.oracle = oracle
        self.contract = contract


def rnd_limb(rng, bound):
    """random value in [0, bound) biased to the extremes"""
    r = rng.random()
    if r < 0.08:
        return bound - 1
    if r < 0.14:
        return 0
    if r < 0.22:
        return bound - 1 - rng.randrange(1 << 8)
    if r < 0.30:
        return rng.randrange(min(bound, 1 << 8))
    if r < 0.40:
        return rng.randrange(bound) >> rng.randrange(0, max(1, bound.bit_length()))
    return rng.randrange(bound)


def vec(rng, bounds):
    return [rnd_limb(rng, b) for b in bounds]


def ext_vecs(bounds):
    out = [[0] * len(bounds), [b - 1 for b in bounds], [1] + [0] * (len(bounds) - 1)]
    for i in range(len(bounds)):
        v = [0] * len(bounds)
        v[i] = bounds[i] - 1
        out.append(v)
        v = [b - 1 for b in bounds]
        v[i] = 0
        out.append(v)
    return out


def field_checks(mod, nl, val, bits_of, mulbound, subbound, has_square):
    """checks for Field51 (nl=5) and Field26 (nl=10)"""
    cs = []
    MB = mulbound
    SB = subbound
    U = [2 ** (64 if nl == 5 else 32)] * nl
    tight = [2 ** bits_of(i) for i in range(nl)]

    def bounded(out, slack):
        for i, x in enumerate(out):
            if x >= 2 ** bits_of(i) + slack(i):
                return 'output limb %d = %d exceeds its bound' % (i, x)
        return None

    def gen2(rng):
        return vec(rng, MB) + vec(rng, MB)

    ext2 = [a + b for a in ext_vecs(MB) for b in ext_vecs(MB)]

    def o_mul(ins, out):
        a, b = ins[:nl], ins[nl:]
        if val(out) % P != (val(a) * val(b)) % P:
            return 'value mismatch'
        return bounded(out, lambda i: 2 ** (bits_of(i) - 6))
    cs.append(Check(mod, 'mul', gen2, ext2, o_mul, 'limbs < mul bound'))

    def o_add(ins, out):
        a, b = ins[:nl], ins[nl:]
        if out != [x + y for x, y in zip(a, b)]:
            return 'limbwise sum mismatch'
        if val(out) != val(a) + val(b):
            return 'value mismatch'
        return None
    cs.append(Check(mod, 'add', gen2, ext2, o_add, 'limbs < mul bound'))

    def gen_sub(rng):
        return vec(rng, MB) + vec(rng, SB)

    def o_sub(ins, out):
        a, b = ins[:nl], ins[nl:]
        if val(out) % P != (val(a) - val(b)) % P:
            return 'value mismatch'
        return bounded(out, lambda i: 2 ** (bits_of(i) - 6))
    cs.append(Check(mod, 'sub', gen_sub, [a + b for a in ext_vecs(MB) for b in ext_vecs(SB)], o_sub,
                    'a < mul bound, b <= 16p limbwise'))

    def o_neg(ins, out):
        if val(out) % P != (-val(ins)) % P:
            return 'value mismatch'
        return bounded(out, lambda i: 2 ** (bits_of(i) - 6))
    cs.append(Check(mod, 'neg', lambda rng: vec(rng, SB), ext_vecs(SB), o_neg, 'limbs <= 16p limbwise'))

    def o_sq(ins, out):
        if val(out) % P != (val(ins) ** 2) % P:
            return 'value mismatch'
        return bounded(out, lambda i: 2 ** (bits_of(i) - 6))

    def o_sq2(ins, out):
        if val(out) % P != (2 * val(ins) ** 2) % P:
            return 'value mismatch'
        return bounded(out, lambda i: 2 ** (bits_of(i) - 6))
    g1 = lambda rng: vec(rng, MB)
    if nl == 5:
        cs.append(Check(mod, 'pow2k_body', g1, ext_vecs(MB), o_sq, 'limbs < 2^54'))

        def o_tail(ins, out):
            return None if out == [2 * x for x in ins] else 'not the double'
        t52 = [2 ** 52] * 5
        cs.append(Check(mod, 'square2_tail', lambda rng: vec(rng, t52), ext_vecs(t52), o_tail, 'limbs < 2^52'))

        def o_red(ins, out):
            if val(out) % P != val(ins) % P:
                return 'value mismatch'
            return bounded(out, lambda i: 2 ** 18)
        cs.append(Check(mod, 'reduce', lambda rng: vec(rng, U), ext_vecs(U), o_red, 'any u64'))
    else:
        cs.append(Check(mod, 'square', g1, ext_vecs(MB), o_sq, 'limbs < mul bound'))
        cs.append(Check(mod, 'pow2k_body', g1, ext_vecs(MB), o_sq, 'limbs < mul bound'))
        cs.append(Check(mod, 'square2', g1, ext_vecs(MB), o_sq2, 'limbs < mul bound'))

        def o_sqi(ins, out):
            if val(out) % P != (val(ins) ** 2) % P:
                return 'value mismatch'
            return None
        cs.append(Check(mod, 'square_inner', g1, ext_vecs(MB), o_sqi, 'limbs < mul bound'))
        U64 = [2 ** 64] * nl
        # reduce: the +19*(z9>>25) and the carries must not overflow u64: inputs up to 2^63 are safe
        R = [2 ** 63] * nl

        def o_red(ins, out):
            if val(out) % P != val(ins) % P:
                return 'value mismatch'
            return bounded(out, lambda i: 2 ** (bits_of(i) - 6))
        cs.append(Check(mod, 'reduce', lambda rng: vec(rng, R), ext_vecs(R), o_red, 'u64 limbs < 2^63'))

    # bytes
    def gen_bytes(rng):
        r = rng.random()
        if r < 0.25:
            n = (P + rng.randrange(-40, 40)) % 2 ** 256
            if rng.random() < 0.5:
                n |= 1 << 255
            return le_bytes(n, 32)
        if r < 0.35:
            return le_bytes(2 ** 256 - 1 - rng.randrange(1 << 16), 32)
        return [rnd_limb(rng, 256) for _ in range(32)]
    ext_b = [le_bytes(n % 2 ** 256, 32) for n in (0, 1, P - 1, P, P + 1, 2 ** 255 - 1, 2 ** 255, 2 ** 256 - 1,
                                                 2 ** 255 + P, 2 * P % 2 ** 256, 19, 18)]

    def o_fb(ins, out):
        if val(out) != from_le(ins) % 2 ** 255:
            return 'value mismatch (expected low 255 bits)'
        return bounded(out, lambda i: 0 if nl == 5 else 2 ** (bits_of(i) - 6))
    cs.append(Check(mod, 'from_bytes', gen_bytes, ext_b, o_fb, 'any 32 bytes'))

    def gen_ab(rng):
        r = rng.random()
        if r < 0.3:
            n = (P + rng.randrange(-40, 40)) if rng.random() < 0.7 else (2 * P - 1 - rng.randrange(40))
            return limbs(n, 51, 5) if nl == 5 else [(n >> W26[i]) & (2 ** B26[i] - 1) for i in range(10)]
        if r < 0.6:
            return vec(rng, tight)
        return vec(rng, MB)

    def ab_limbs(n):
        return limbs(n, 51, 5) if nl == 5 else [(n >> W26[i]) & (2 ** B26[i] - 1) for i in range(10)]
    ext_ab = [ab_limbs(n) for n in (0, 1, 18, 19, P - 1, P, P + 1, 2 * P - 1, 2 ** 255 - 1, 2 ** 255 - 20)] \
        + ext_vecs(MB) + ext_vecs(tight)

    def o_ab(ins, out):
        n = from_le(out)
        if any(x > 255 for x in out):
            return 'output is not bytes'
        if n >= P:
            return 'encoding is not canonical (>= p)'
        if n != val(ins) % P:
            return 'value mismatch'
        return None
    cs.append(Check(mod, 'as_bytes', gen_ab, ext_ab, o_ab, 'limbs < mul bound'))
    return cs


def scalar_checks(mod, nl, bits, val, Rexp):
    cs = []
    Rm = pow(2, Rexp, L)
    Rinv = pow(Rm, -1, L)
    nw = 2 * nl - 1
    full = [2 ** bits] * nl

    def sc(n):
        return limbs(n, bits, nl)

    def rnd_scalar(rng):
        r = rng.random()
        if r < 0.1:
            return L - 1 - rng.randrange(1 << 10)
        if r < 0.2:
            return rng.randrange(1 << 10)
        if r < 0.3:
            return rng.randrange(L) >> rng.randrange(250)
        return rng.randrange(L)
    ext_s = [0, 1, 2, L - 1, L - 2, 2 ** 252, 2 ** 252 - 1, (L - 1) // 2, 2 ** 128]

    def canonical(out):
        for x in out:
            if x >= 2 ** bits:
                return 'limb out of range'
        if val(out) >= L:
            return 'result not reduced (>= l)'
        return None

    def binop(name, f):
        def o(ins, out):
            a, b = val(ins[:nl]), val(ins[nl:])
            if val(out) != f(a, b) % L:
                return 'value mismatch'
            return canonical(out)
        cs.append(Check(mod, name, lambda rng: sc(rnd_scalar(rng)) + sc(rnd_scalar(rng)),
                        [sc(a) + sc(b) for a in ext_s for b in ext_s], o, 'reduced scalars (< l)'))

    def unop(name, f):
        def o(ins, out):
            a = val(ins)
            if val(out) != f(a) % L:
                return 'value mismatch'
            return canonical(out)
        cs.append(Check(mod, name, lambda rng: sc(rnd_scalar(rng)), [sc(a) for a in ext_s], o,
                        'reduced scalar (< l)'))
    binop('add', lambda a, b: a + b)
    binop('sub', lambda a, b: a - b)
    binop('mul', lambda a, b: a * b)
    binop('montgomery_mul', lambda a, b: a * b * Rinv)
    unop('square', lambda a: a * a)
    unop('montgomery_square', lambda a: a * a * Rinv)
    unop('as_montgomery', lambda a: a * Rm)
    unop('from_montgomery', lambda a: a * Rinv)

    # mul_internal / square_internal: exact products for arbitrary `bits`-bit limbs
    def o_mi(ins, out):
        if len(out) != nw:
            return 'wrong arity'
        if sum(x << (bits * i) for i, x in enumerate(out)) != val(ins[:nl]) * val(ins[nl:]):
            return 'product mismatch'
        # limb-exact schoolbook coefficients
        a, b = ins[:nl], ins[nl:]
        for k in range(nw):
            ck = sum(a[i] * b[k - i] for i in range(nl) if 0 <= k - i < nl)
            if out[k] != ck:
                return 'coefficient %d mismatch' % k
        return None
    cs.append(Check(mod, 'mul_internal', lambda rng: vec(rng, full) + vec(rng, full),
                    [a + b for a in ext_vecs(full)[:6] for b in ext_vecs(full)[:6]], o_mi,
                    'limbs < 2^%d' % bits))

    def o_si(ins, out):
        return o_mi(list(ins) + list(ins), out)
    cs.append(Check(mod, 'square_internal', lambda rng: vec(rng, full), ext_vecs(full), o_si,
                    'limbs < 2^%d' % bits))

    # montgomery_reduce on products a*b with a < l (reduced), b any value of nl full limbs
    def prod_limbs(a, b):
        return [sum(a[i] * b[k - i] for i in range(nl) if 0 <= k - i < nl) for k in range(nw)]

    def gen_mr(rng):
        a = sc(rnd_scalar(rng))
        b = sc(rnd_scalar(rng)) if rng.random() < 0.5 else vec(rng, full)
        return prod_limbs(a, b)

    def o_mr(ins, out):
        n = sum(x << (bits * i) for i, x in enumerate(ins))
        if val(out) != (n * Rinv) % L:
            return 'value mismatch'
        return canonical(out)
    cs.append(Check(mod, 'montgomery_reduce', gen_mr,
                    [prod_limbs(sc(a), sc(b)) for a in ext_s for b in ext_s]
                    + [prod_limbs(sc(a), [2 ** bits - 1] * nl) for a in ext_s], o_mr,
                    'limbs = mul_internal(a, b), a < l, b < 2^%d' % (bits * nl)))

    # bytes
    def gen32(rng):
        r = rng.random()
        if r < 0.2:
            return le_bytes((L + rng.randrange(-50, 50)) % 2 ** 256, 32)
        if r < 0.3:
            return le_bytes(2 ** 256 - 1 - rng.randrange(1 << 16), 32)
        return [rnd_limb(rng, 256) for _ in range(32)]
    ext32 = [le_bytes(n, 32) for n in (0, 1, L - 1, L, L + 1, 2 ** 255 - 1, 2 ** 255, 2 ** 256 - 1, 2 ** 252)]

    def o_fb(ins, out):
        if val(out) != from_le(ins):
            return 'value mismatch'
        for x in out:
            if x >= 2 ** bits:
                return 'limb out of range'
        return None
    cs.append(Check(mod, 'from_bytes', gen32, ext32, o_fb, 'any 32 bytes'))

    def gen64(rng):
        r = rng.random()
        if r < 0.15:
            return le_bytes(2 ** 512 - 1 - rng.randrange(1 << 16), 64)
        if r < 0.3:
            return le_bytes((L * rng.randrange(2 ** 259) + rng.randrange(-5, 5)) % 2 ** 512, 64)
        if r < 0.4:
            return le_bytes(rng.randrange(2 ** 512) >> rng.randrange(500), 64)
        return [rnd_limb(rng, 256) for _ in range(64)]
    ext64 = [le_bytes(n, 64) for n in (0, 1, L - 1, L, L + 1, 2 ** 512 - 1, 2 ** 256, 2 ** 256 - 1, 2 ** 511,
                                       L * L, L * L - 1, 2 ** 260, 2 ** 261, 2 ** 252 * L)]

    def o_fbw(ins, out):
        if val(out) != from_le(ins) % L:
            return 'value mismatch'
        return canonical(out)
    cs.append(Check(mod, 'from_bytes_wide', gen64, ext64, o_fbw, 'any 64 bytes'))

    # as_bytes: proper limbs whose value fits 256 bits
    top = 256 - bits * (nl - 1)
    ab_bounds = [2 ** bits] * (nl - 1) + [2 ** top]

    def o_ab(ins, out):
        if any(x > 255 for x in out):
            return 'output is not bytes'
        if from_le(out) != val(ins):
            return 'value mismatch'
        return None
    cs.append(Check(mod, 'as_bytes', lambda rng: vec(rng, ab_bounds) if rng.random() < 0.5 else sc(rnd_scalar(rng)),
                    ext_vecs(ab_bounds) + [sc(a) for a in ext_s], o_ab, 'limbs < 2^%d, value < 2^256' % bits))
    return cs


def clamp_checks():
    def o(ins, out):
        exp = list(ins)
        exp[0] &= 248
        exp[31] = (exp[31] & 127) | 64
        return None if out == exp else 'clamp mismatch'
    b = [256] * 32
    return [Check('Clamp', 'clamp_integer', lambda rng: vec(rng, b), ext_vecs(b), o, 'any 32 bytes')]


def fiat_checks(mod, nl, val, bits_of):
    """independent big-integer oracles for the translated fiat wrapper kernels (fiat-crypto functions inlined): inputs inside
    fiat's tight bounds (INCLUSIVE 2^bits), outputs must be tight again and have the exact value mod p"""
    cs = []
    T = [2 ** bits_of(i) + 1 for i in range(nl)]          # exclusive generator bounds = inclusive tight bounds + 1
    LOOSE = [3 * 2 ** bits_of(i) + 1 for i in range(nl)]

    def tight_out(out):
        for i, x in enumerate(out):
            if x > 2 ** bits_of(i):
                return 'output limb %d = %d is not tight' % (i, x)
        return None
    g2 = lambda rng: vec(rng, T) + vec(rng, T)
    ext2 = [a + b for a in ext_vecs(T) for b in ext_vecs(T)]
    g1 = lambda rng: vec(rng, T)

    def bin_oracle(f):
        def o(ins, out):
            a, b = ins[:nl], ins[nl:]
            if val(out) % P != f(val(a), val(b)) % P:
                return 'value mismatch'
            return tight_out(out)
        return o

    def un_oracle(f):
        def o(ins, out):
            if val(out) % P != f(val(ins)) % P:
                return 'value mismatch'
            return tight_out(out)
        return o
    for name, f in (('add', lambda a, b: a + b), ('add_ref', lambda a, b: a + b), ('sub', lambda a, b: a - b),
                    ('sub_assign', lambda a, b: a - b), ('mul', lambda a, b: a * b), ('mul_assign', lambda a, b: a * b)):
        cs.append(Check(mod, name, g2, ext2, bin_oracle(f), 'tight limbs (inclusive)'))
    for name, f in (('neg', lambda a: -a), ('square', lambda a: a * a), ('square2', lambda a: 2 * a * a),
                    ('pow2k_body', lambda a: a * a)):
        cs.append(Check(mod, name, g1, ext_vecs(T), un_oracle(f), 'tight limbs (inclusive)'))
    if nl == 5:
        cs.append(Check(mod, 'reduce', lambda rng: vec(rng, LOOSE), ext_vecs(LOOSE), un_oracle(lambda a: a), 'loose limbs'))

    def gen_bytes(rng):
        r = rng.random()
        if r < 0.3:
            n = (P + rng.randrange(-40, 40)) % 2 ** 256
            if rng.random() < 0.5:
                n |= 1 << 255
            return le_bytes(n, 32)
        if r < 0.4:
            return [255] * 32
        return [rng.randrange(256) for _ in range(32)]

    def o_from(ins, out):
        if val(out) != from_le(ins) % 2 ** 255:
            return 'value is not the little-endian value mod 2^255'
        for i, x in enumerate(out):
            if x >= 2 ** bits_of(i):
                return 'limb %d = %d not below 2^bits' % (i, x)
        return None
    cs.append(Check(mod, 'from_bytes', gen_bytes, [[0] * 32, [255] * 32, le_bytes(P, 32), le_bytes(P - 1, 32)], o_from, 'any 32 bytes'))

    def o_as(ins, out):
        if out != le_bytes(val(ins) % P, 32):
            return 'not the canonical encoding of the value'
        return None

    def gen_as(rng):
        r = rng.random()
        if r < 0.4:
            # representations of values around p and 0 with limbs near the bounds
            n = (P + rng.randrange(-40, 40)) % 2 ** 255
            l, acc = [], n
            for i in range(nl):
                w = bits_of(i)
                l.append(acc & ((1 << w) - 1))
                acc >>= w
            return l
        return vec(rng, T)
    cs.append(Check(mod, 'as_bytes', gen_as, ext_vecs(T), o_as, 'tight limbs (inclusive)'))

    U = [2 ** (64 if nl == 5 else 32)] * nl

    def gsel(rng):
        return vec(rng, U) + vec(rng, U) + [rng.randrange(2)]

    def o_sel(ins, out):
        a, b, c = ins[:nl], ins[nl:2 * nl], ins[2 * nl]
        return None if out == (a if c == 0 else b) else 'not the selected operand'
    extsel = [a + b + [c] for a in ext_vecs(U)[:3] for b in ext_vecs(U)[:3] for c in (0, 1)]
    cs.append(Check(mod, 'conditional_select', gsel, extsel, o_sel, 'any limbs, choice in {0,1}'))
    cs.append(Check(mod, 'conditional_assign', gsel, extsel, o_sel, 'any limbs, choice in {0,1}'))

    def o_swap(ins, out):
        a, b, c = ins[:nl], ins[nl:2 * nl], ins[2 * nl]
        return None if out == ((a + b) if c == 0 else (b + a)) else 'not the (un)swapped pair'
    cs.append(Check(mod, 'conditional_swap', gsel, extsel, o_swap, 'any limbs, choice in {0,1}'))
    return cs


def all_checks():
    cs = []
    m51 = [2 ** 54] * 5
    s51 = [36028797018963664 + 1] + [36028797018963952 + 1] * 4
    s51 = [min(a, b) for a, b in zip(s51, m51)]
    cs += field_checks('Field51', 5, val51, lambda i: 51, m51, s51, False)
    # Field26: 19*y must fit u32 for even limbs: y < 2^32/19 ~ 2^27.75 ; odd limbs one bit less
    e26 = (2 ** 32 - 1) // 19 + 1          # 226050911: 19*(e26-1) < 2^32
    o26 = e26 // 2
    m26 = [e26 if i % 2 == 0 else o26 for i in range(10)]
    p16 = [0x3ffffed << 4] + [(0x1ffffff << 4) if i % 2 else (0x3ffffff << 4) for i in range(1, 10)]
    s26 = [min(a, b + 1) for a, b in zip(m26, p16)]
    cs += field_checks('Field26', 10, val26, lambda i: B26[i], m26, s26, True)
    cs += fiat_checks('FiatField51', 5, val51, lambda i: 51)
    cs += fiat_checks('FiatField26', 10, val26, lambda i: B26[i])
    cs += scalar_checks('Scalar52', 5, 52, val52, 260)
    cs += scalar_checks('Scalar29', 9, 29, val29, 261)
    cs += clamp_checks()
    return cs


def check_consts(gen):
    """a few sanity checks on Consts.lean (parsed textually)."""
    path = os.path.join(gen, 'Consts.lean')
    with open(path, 'r', encoding='utf-8') as f:
        text = f.read()
    errs = []

    def get(ns, name):
        m = re.search(r'namespace %s\n(.*?)\nend %s' % (ns, ns), text, flags=re.S)
        if not m:
            errs.append('namespace %s missing' % ns)
            return None
        d = re.search(r'^def %s : [^\n]*:=\s*\n?\s*(\[[^\]]*\]|\d+)' % name, m.group(1), flags=re.M)
        if not d:
            errs.append('%s.%s missing' % (ns, name))
            return None
        s = d.group(1)
        if s.startswith('['):
            return [int(x) for x in s[1:-1].split(',') if x.strip()]
        return int(s)

    def expect(what, got, want):
        if got is not None and got != want:
            errs.append('%s: got %r expected %r' % (what, got, want))
    for ns, v, bits, rexp in (('U64', val52, 52, 260), ('U32', val29, 29, 261)):
        l_ = get(ns, 'L')
        if l_ is not None:
            expect(ns + '.L', v(l_), L)
        r_ = get(ns, 'R')
        if r_ is not None:
            expect(ns + '.R', v(r_), pow(2, rexp, L))
        rr = get(ns, 'RR')
        if rr is not None:
            expect(ns + '.RR', v(rr), pow(2, 2 * rexp, L))
        lf = get(ns, 'LFACTOR')
        if lf is not None:
            expect(ns + '.LFACTOR*L mod 2^%d' % bits, (lf * L) % 2 ** bits, 2 ** bits - 1)
    d = get('U64', 'EDWARDS_D')
    if d is not None:
        expect('U64.EDWARDS_D', val51(d) % P, (-121665 * pow(121666, -1, P)) % P)
    d = get('U32', 'EDWARDS_D')
    if d is not None:
        expect('U32.EDWARDS_D', val26(d) % P, (-121665 * pow(121666, -1, P)) % P)
    s = get('U64', 'SQRT_M1')
    if s is not None:
        expect('U64.SQRT_M1^2', pow(val51(s), 2, P), P - 1)
    b = get('Top', 'BASEPOINT_ORDER_PRIVATE')
    if b is not None:
        expect('Top.BASEPOINT_ORDER_PRIVATE', from_le(b), L)
    m = get('ScalarRs', 'MODULUS_nat')
    expect('ScalarRs.MODULUS_nat', m, L)
    t = get('ScalarRs', 'TWO_INV')
    if t is not None:
        expect('ScalarRs.TWO_INV', (2 * from_le(t)) % L, 1)
    r = get('ScalarRs', 'ROOT_OF_UNITY')
    if r is not None:
        expect('ScalarRs.ROOT_OF_UNITY^4', pow(from_le(r), 4, L), 1)
        expect('ScalarRs.ROOT_OF_UNITY^2', pow(from_le(r), 2, L), L - 1)
    ex = get('ScalarRs', 'sqrt_tonelli_shanks_exponent')
    if ex is not None:
        # l - 1 = 2^S * t with S = 2; ff's sqrt_tonelli_shanks takes (t - 1) / 2
        expect('ScalarRs.sqrt exponent', sum(x << (64 * i) for i, x in enumerate(ex)), ((L - 1) // 4 - 1) // 2)
    x = get('X', 'X25519_BASEPOINT_BYTES')
    if x is not None:
        expect('X.X25519_BASEPOINT_BYTES', from_le(x), 9)
    e = get('Ed', 'KEYPAIR_LENGTH')
    expect('Ed.KEYPAIR_LENGTH', e, 64)
    return errs


# ---------------------------------------------------------------------------------------------

def run_check(c, prog, n, seed, xcheck=40):
    """returns (n_tested, first failure or None)"""
    fC = compile_prog(prog, True)
    fW = compile_prog(prog, False)
    rng = random.Random('%s.%s.%d' % (c.mod, c.item, seed))
    tested = 0
    inputs = list(c.extremal)
    for ins in inputs:
        if len(ins) != prog[0]:
            return tested, ('arity', ins, 'check supplies %d inputs, program takes %d' % (len(ins), prog[0]))
    k = 0
    while True:
        if k < len(inputs):
            ins = inputs[k]
        elif k < len(inputs) + n:
            ins = c.gen(rng)
        else:
            break
        k += 1
        oc = fC(ins)
        ow = fW(ins)
        if tested < xcheck or k % 97 == 0:
            rc = prog_evalC_ref(prog, ins)
            rw = prog_evalW_ref(prog, ins)
            if rc != oc or rw != ow:
                return tested, ('internal', ins, 'compiled evaluator disagrees with the reference interpreter')
        tested += 1
        if oc is None:
            return tested, ('evalC', ins, 'evalC = none (debug build panics) on an in-contract input')
        if oc != ow:
            return tested, ('evalC/evalW', ins, 'evalC %r != evalW %r' % (oc, ow))
        err = c.oracle(ins, oc)
        if err:
            return tested, ('oracle', ins, '%s; outputs %r' % (err, oc))
    return tested, None


def main(argv=None):
    ap = argparse.ArgumentParser()
    ap.add_argument('--gen', default='/verif/lean/Dalek/Gen')
    ap.add_argument('--n', type=int, default=2000)
    ap.add_argument('--seed', type=int, default=1)
    ap.add_argument('--only', default='')
    ap.add_argument('--no-alg', action='store_true', help='skip the AlgIR items')
    ap.add_argument('--no-limb', action='store_true', help='skip the serial LimbIR items')
    ap.add_argument('--no-vec', action='store_true', help='skip the vector backends')
    ap.add_argument('--no-k', action='store_true', help='skip the kernel-call programs')
    ap.add_argument('--n-k', type=int, default=300, help='random inputs per kernel-call program')
    ap.add_argument('--n-vec', type=int, default=1000, help='random inputs per vector item')
    ap.add_argument('--cpu', action='store_true', help='cross-check the vector items against the CPU (Rust driver)')
    ap.add_argument('--n-cpu', type=int, default=600, help='cases per op for --cpu')
    ap.add_argument('--n-alg', type=int, default=600, help='random inputs per AlgIR item')
    args = ap.parse_args(argv)
    only = set(x for x in args.only.split(',') if x)
    t0 = time.time()
    mods = {}
    for m in ('Field51', 'Field26', 'FiatField51', 'FiatField26', 'Scalar52', 'Scalar29', 'Clamp'):
        p = os.path.join(args.gen, m + '.lean')
        mods[m] = parse_lean_module(p) if os.path.exists(p) else {}
    fails = 0
    seen = set()
    print('%-28s %5s %5s %6s %7s  %s' % ('item', 'n_in', 'n_out', 'stmts', 'inputs', 'result'))
    for c in ([] if args.no_limb else all_checks()):
        key = '%s.%s' % (c.mod, c.item)
        seen.add(key)
        if only and key not in only:
            continue
        prog = mods.get(c.mod, {}).get(c.item)
        if prog is None:
            print('%-28s %s' % (key, 'MISSING (item not generated)'))
            fails += 1
            continue
        tested, fail = run_check(c, prog, args.n, args.seed)
        if fail is None:
            print('%-28s %5d %5d %6d %7d  ok   [%s]' % (key, prog[0], len(prog[2]), len(prog[1]), tested, c.contract))
        else:
            fails += 1
            print('%-28s %5d %5d %6d %7d  FAIL (%s): %s' % (key, prog[0], len(prog[2]), len(prog[1]), tested,
                                                         fail[0], fail[2]))
            print('    input: %r' % (fail[1],))
    if not only and not args.no_limb:
        for m in mods:
            for item in mods[m]:
                if '%s.%s' % (m, item) not in seen:
                    print('%-28s (no oracle)' % ('%s.%s' % (m, item)))
        errs = check_consts(args.gen)
        for e in errs:
            print('CONST FAIL: ' + e)
        fails += len(errs)
        if not errs:
            print('constants sanity checks: ok')
    if not args.no_alg:
        import selfcheck_alg
        print('--- AlgIR items (interpreted mod p against independent formulas)')
        print('%-44s %5s %5s %6s %7s  %s' % ('item', 'n_in', 'n_out', 'stmts', 'inputs', 'result'))
        fails += selfcheck_alg.run_alg(args.gen, args.n_alg, args.seed, only)
    if not args.no_vec:
        import selfcheck_vec
        fails += selfcheck_vec.run_vec(args.gen, args.n_vec, args.seed, only, args.cpu, args.n_cpu)
    if not args.no_k:
        import selfcheck_k
        fails += selfcheck_k.run_k(args.gen, args.n_k, args.seed, only)
    print('selfcheck: %s (%d failing), %.1f s' % ('PASS' if fails == 0 else 'FAIL', fails, time.time() - t0))
    return 0 if fails == 0 else 1


if __name__ == '__main__':
    sys.exit(main())

"""selfcheck for the AlgIR items: re-parses the emitted `Dalek/Gen/Alg*.lean`, interprets every AProg over
the integers mod p = 2^255 - 19 (ctEq / isNeg / isZero on canonical representatives) and compares with
independent Python formulas for the mathematical meaning (affine Edwards group law, RFC 7748 ladder step,
RFC 9496 ristretto255, the sqrt_ratio_i contract, Fermat inverses, ...).

Used by selfcheck.py (`run_alg(gen_dir, n, seed, only)`).
"""
import os
import random
import re

P = 2 ** 255 - 19
D = (-121665 * pow(121666, -1, P)) % P
SQRT_M1 = pow(2, (P - 1) // 4, P)
A = 486662


# ---------------------------------------------------------------------------------------------
# parsing
# ---------------------------------------------------------------------------------------------

def parse_alg_module(path):
    with open(path, 'r', encoding='utf-8') as f:
        text = f.read()
    text = re.sub(r'/--.*?-/', '', text, flags=re.S)
    text = re.sub(r'/-!.*?-/', '', text, flags=re.S)
    progs = {}
    m = re.search(r'^def constNames : List String := \[(.*?)\]$', text, flags=re.M)
    names = re.findall(r'"([^"]*)"', m.group(1)) if m else []
    for m in re.finditer(r'^def (\w+) : AProg where\n  nIn := (\d+)\n  body := (\[\]|\[\n.*?\n  \])\n  outs := \[([^\]]*)\]',
                         text, flags=re.S | re.M):
        body = []
        for sm in re.finditer(r'⟨\.(\w+)(?: (\d+))?, \[([^\]]*)\]⟩', m.group(3)):
            body.append((sm.group(1), int(sm.group(2)) if sm.group(2) else None,
                         [int(x) for x in sm.group(3).split(',') if x.strip()]))
        nlines = len([l for l in m.group(3).split('\n') if l.strip().startswith('⟨')])
        if nlines != len(body):
            raise ValueError('cannot parse all statements of %s' % m.group(1))
        progs[m.group(1)] = (int(m.group(2)), body, [int(x) for x in m.group(4).split(',') if x.strip()])
    return names, progs


def load_consts(gen, names):
    """values mod p of the constant table, recomputed from the U64 limbs in Consts.lean."""
    with open(os.path.join(gen, 'Consts.lean'), 'r', encoding='utf-8') as f:
        text = f.read()
    u64 = re.search(r'namespace U64\n(.*?)\nend U64', text, flags=re.S).group(1)
    vals = []
    for n in names:
        if n == 'FieldElement::ZERO':
            vals.append(0)
        elif n == 'FieldElement::ONE':
            vals.append(1)
        elif n == 'FieldElement::MINUS_ONE':
            vals.append(P - 1)
        elif n.startswith('u32:') or n.startswith('int:'):
            vals.append(int(n.split(':')[1]) % P)
        else:
            short = n.split('::')[-1]
            d = re.search(r'^def %s : List Nat :=\s*\n?\s*\[([^\]]*)\]' % short, u64, flags=re.M)
            if not d:
                raise ValueError('constant %s not found in Consts.lean' % n)
            limbs = [int(x) for x in d.group(1).split(',')]
            vals.append(sum(x << (51 * i) for i, x in enumerate(limbs)) % P)
    return vals


def run_aprog(prog, consts, ins):
    nin, body, outs = prog
    if len(ins) != nin:
        raise ValueError('arity')
    env = list(ins)
    for op, k, a in body:
        x = env[a[0]] if len(a) > 0 else 0
        y = env[a[1]] if len(a) > 1 else 0
        z = env[a[2]] if len(a) > 2 else 0
        if op == 'add':
            r = (x + y) % P
        elif op == 'sub':
            r = (x - y) % P
        elif op == 'mul':
            r = (x * y) % P
        elif op == 'neg':
            r = (-x) % P
        elif op == 'square':
            r = (x * x) % P
        elif op == 'square2':
            r = (2 * x * x) % P
        elif op == 'pow2k':
            r = pow(x, 2 ** k, P)
        elif op == 'const':
            r = consts[k]
        elif op == 'ctEq':
            r = 1 if x == y else 0
        elif op == 'isNeg':
            r = x & 1
        elif op == 'isZero':
            r = 1 if x == 0 else 0
        elif op == 'cand':
            r = x & y
        elif op == 'cor':
            r = x | y
        elif op == 'cxor':
            r = x ^ y
        elif op == 'cnot':
            r = 1 - x
        elif op == 'csel':
            r = y if x == 0 else z
        elif op == 'copy':
            r = x
        else:
            raise ValueError(op)
        env.append(r)
    return [env[i] for i in outs]


# ---------------------------------------------------------------------------------------------
# independent mathematics
# ---------------------------------------------------------------------------------------------

def inv(x):
    return pow(x, P - 2, P)


def is_square(a):
    a %= P
    return a == 0 or pow(a, (P - 1) // 2, P) == 1


def fabs(x):
    x %= P
    return P - x if x & 1 else x


def sqrt_p(a):
    """some square root of a square a (p = 5 mod 8), else None"""
    a %= P
    c = pow(a, (P + 3) // 8, P)
    if c * c % P == a:
        return c
    c = c * SQRT_M1 % P
    if c * c % P == a:
        return c
    return None


def sqrt_ratio_contract(u, v):
    """RFC 9496 SQRT_RATIO_M1 by its four-case contract (NOT by the exponentiation formula)."""
    u %= P
    v %= P
    if u == 0:
        return 1, 0
    if v == 0:
        return 0, 0
    q = u * inv(v) % P
    if is_square(q):
        return 1, fabs(sqrt_p(q))
    return 0, fabs(sqrt_p(SQRT_M1 * q % P))


def ed_add(p1, p2):
    """affine twisted Edwards addition, a = -1"""
    x1, y1 = p1
    x2, y2 = p2
    t = D * x1 * x2 * y1 * y2 % P
    x3 = (x1 * y2 + y1 * x2) * inv(1 + t) % P
    y3 = (y1 * y2 + x1 * x2) * inv(1 - t) % P
    return x3, y3


def ed_neg(p):
    return (-p[0]) % P, p[1]


def on_curve(x, y):
    return (-x * x + y * y - 1 - D * x * x * y * y) % P == 0


def rand_point(rng):
    while True:
        y = rng.randrange(P)
        u = (y * y - 1) % P
        v = (D * y * y + 1) % P
        q = u * inv(v) % P
        if is_square(q):
            x = sqrt_p(q)
            if rng.random() < 0.5:
                x = (-x) % P
            return x, y


BASE_Y = 4 * inv(5) % P
BASE = (fabs(sqrt_p((BASE_Y * BASE_Y - 1) * inv(D * BASE_Y * BASE_Y + 1) % P)), BASE_Y)
SPECIAL_POINTS = [(0, 1), (0, P - 1), (SQRT_M1, 0), (P - SQRT_M1, 0), BASE, ed_add(BASE, BASE)]


def some_point(rng):
    r = rng.random()
    if r < 0.15:
        return SPECIAL_POINTS[rng.randrange(len(SPECIAL_POINTS))]
    if r < 0.25:
        return ed_add(SPECIAL_POINTS[rng.randrange(4)], rand_point(rng))
    return rand_point(rng)


def rz(rng):
    r = rng.random()
    if r < 0.1:
        return 1
    if r < 0.15:
        return P - 1
    return rng.randrange(1, P)


def ext(pt, rng):
    x, y = pt
    z = rz(rng)
    return [x * z % P, y * z % P, z, x * y % P * z % P]


def rfe(rng):
    r = rng.random()
    if r < 0.05:
        return 0
    if r < 0.1:
        return 1
    if r < 0.15:
        return P - 1
    if r < 0.2:
        return rng.randrange(1 << 8)
    if r < 0.25:
        return P - 1 - rng.randrange(1 << 8)
    if r < 0.28:
        return SQRT_M1
    return rng.randrange(P)


# RFC 9496 (independent transcription, using the contract-based SQRT_RATIO_M1)
INVSQRT_A_MINUS_D = sqrt_ratio_contract(1, (-1 - D) % P)[1]
SQRT_AD_MINUS_ONE = fabs(sqrt_p((-D - 1) % P))
if (SQRT_AD_MINUS_ONE != 25063068953384623474111414158702152701244531502492656460079210482610430750235):
    SQRT_AD_MINUS_ONE = P - SQRT_AD_MINUS_ONE
ONE_MINUS_D_SQ = (1 - D * D) % P
D_MINUS_ONE_SQ = (D - 1) * (D - 1) % P


def rist_decode_field(s):
    """RFC 9496 4.3.1 steps after the canonical / non-negative checks on s"""
    ss = s * s % P
    u1 = (1 - ss) % P
    u2 = (1 + ss) % P
    u2s = u2 * u2 % P
    v = (-(D * u1 * u1) - u2s) % P
    ws, isr = sqrt_ratio_contract(1, v * u2s % P)
    dx = isr * u2 % P
    dy = isr * dx % P * v % P
    x = fabs(2 * s * dx % P)
    y = u1 * dy % P
    t = x * y % P
    return ws, t & 1, 1 if y == 0 else 0, x, y, 1, t


def rist_encode_field(x0, y0, z0, t0):
    u1 = (z0 + y0) * (z0 - y0) % P
    u2 = x0 * y0 % P
    _, isr = sqrt_ratio_contract(1, u1 * u2 * u2 % P)
    d1 = isr * u1 % P
    d2 = isr * u2 % P
    zinv = d1 * d2 % P * t0 % P
    ix0 = x0 * SQRT_M1 % P
    iy0 = y0 * SQRT_M1 % P
    ench = d1 * INVSQRT_A_MINUS_D % P
    rotate = (t0 * zinv % P) & 1
    if rotate:
        x, y, dinv = iy0, ix0, ench
    else:
        x, y, dinv = x0 % P, y0 % P, d2
    if (x * zinv % P) & 1:
        y = (-y) % P
    return fabs(dinv * (z0 - y) % P)


def rist_map(t):
    r = SQRT_M1 * t * t % P
    u = (r + 1) * ONE_MINUS_D_SQ % P
    v = (-1 - r * D) * (r + D) % P
    ws, s = sqrt_ratio_contract(u, v)
    sp = (-fabs(s * t)) % P
    if not ws:
        s = sp
    c = (P - 1) if ws else r
    n = (c * (r - 1) % P * D_MINUS_ONE_SQ - v) % P
    w0 = 2 * s * v % P
    w1 = n * SQRT_AD_MINUS_ONE % P
    w2 = (1 - s * s) % P
    w3 = (1 + s * s) % P
    return [w0 * w3 % P, w2 * w1 % P, w1 * w3 % P, w0 * w2 % P]


def rist_equal(p, q):
    return (p[0] * q[1] - p[1] * q[0]) % P == 0 or (p[1] * q[1] - p[0] * q[0]) % P == 0


# ---------------------------------------------------------------------------------------------
# checks: (module, item, generator(rng) -> inputs, oracle(ins, outs) -> error or None)
# ---------------------------------------------------------------------------------------------

def affine_of_completed(o):
    X, Y, Z, T = o
    return X * inv(Z) % P, Y * inv(T) % P


def affine_of_ext(o):
    X, Y, Z = o[0], o[1], o[2]
    return X * inv(Z) % P, Y * inv(Z) % P


def ext_ok(o, pt):
    """extended coordinates o represent the affine point pt"""
    X, Y, Z, T = o
    if Z == 0:
        return 'Z = 0'
    if affine_of_ext(o) != (pt[0] % P, pt[1] % P):
        return 'represents the wrong point'
    if (T * Z - X * Y) % P:
        return 'T*Z != X*Y'
    return None


def proj_niels(pt, rng):
    x, y = pt
    z = rz(rng)
    X, Y, T = x * z % P, y * z % P, x * y % P * z % P
    return [(Y + X) % P, (Y - X) % P, z, 2 * D * T % P]


def affine_niels(pt):
    x, y = pt
    return [(y + x) % P, (y - x) % P, 2 * D * x * y % P]


def vec_edwards_checks(C, mod, has_ext_select):
    """parallel formulas: ExtendedPoint lanes = (X, Y, Z, T) with XY = ZT; CachedPoint =
    k (Y-X, Y+X, 2Z, 2dT) up to a common factor, k = 121666 (so that 2d k = -2*121665)"""
    K = 121666

    def chk(item, gen, oracle, edges=()):
        C.append((mod, item, gen, oracle, list(edges)))

    def cached_of(e, rng=None):
        X, Y, Z, T = e
        c = [K * (Y - X) % P, K * (Y + X) % P, 2 * K * Z % P, (-2 * 121665 * T) % P]
        if rng is not None and rng.random() < 0.5:
            lam = rz(rng)
            c = [x * lam % P for x in c]
        return c

    def affine_of_cached(c):
        zi = inv(c[2] * inv(2) % P)
        y = (c[0] + c[1]) * inv(2) % P * zi % P
        x = (c[1] - c[0]) * inv(2) % P * zi % P
        # consistency of the T2d lane: c3 = 2 d k T with T = x y z
        return x, y

    gen_e = lambda rng: ext(some_point(rng), rng)
    chk('ExtendedPoint_from_EdwardsPoint', gen_e, lambda i, o: None if o == i else 'not the identity map')
    chk('EdwardsPoint_from_ExtendedPoint', gen_e, lambda i, o: None if o == i else 'not the identity map')

    def o_cfrom(i, o):
        if o != cached_of(i):
            return 'not k (Y-X, Y+X, 2Z, 2dT)'
        if (o[3] - 2 * D * K * i[3]) % P:
            return 'T2d lane is not 2 d k T'
        if affine_of_cached(o) != affine_of_ext(i):
            return 'decodes to the wrong point'
        return None
    chk('CachedPoint_from_ExtendedPoint', gen_e, o_cfrom)
    for nm in ('ExtendedPoint_double', 'ExtendedPoint_mul_by_pow_2_body'):
        chk(nm, gen_e, lambda i, o: ext_ok(o, ed_add(affine_of_ext(i), affine_of_ext(i))),
            [ext(p_, random.Random(7)) for p_ in SPECIAL_POINTS])

    def gen_pq(rng):
        p_, q_ = some_point(rng), some_point(rng)
        r = rng.random()
        if r < 0.1:
            q_ = p_
        elif r < 0.2:
            q_ = ed_neg(p_)
        return ext(p_, rng) + cached_of(ext(q_, rng), rng)
    edges_pq = [ext(a, random.Random(3)) + cached_of(ext(b, random.Random(4))) for a in SPECIAL_POINTS
                for b in SPECIAL_POINTS]
    chk('ExtendedPoint_add_CachedPoint', gen_pq,
        lambda i, o: ext_ok(o, ed_add(affine_of_ext(i[:4]), affine_of_cached(i[4:]))), edges_pq)
    chk('ExtendedPoint_sub_CachedPoint', gen_pq,
        lambda i, o: ext_ok(o, ed_add(affine_of_ext(i[:4]), ed_neg(affine_of_cached(i[4:])))), edges_pq)

    def o_cneg(i, o):
        if o != [i[1], i[0], i[2], (-i[3]) % P]:
            return 'not (c1, c0, c2, -c3)'
        return None if affine_of_cached(o) == ed_neg(affine_of_cached(i)) else 'does not decode to -Q'
    chk('CachedPoint_neg', lambda rng: cached_of(ext(some_point(rng), rng), rng), o_cneg)
    chk('ExtendedPoint_identity', lambda rng: [], lambda i, o: None if o == [0, 1, 1, 0] else 'mismatch')
    chk('CachedPoint_identity', lambda rng: [],
        lambda i, o: None if o == cached_of([0, 1, 1, 0]) and affine_of_cached(o) == (0, 1) else 'mismatch')

    def gsel(rng):
        return [rfe(rng) for _ in range(8)] + [rng.randrange(2)]

    def osel(i, o):
        return None if o == (i[4:8] if i[8] else i[:4]) else 'selection mismatch'
    names = ['CachedPoint_conditional_select', 'CachedPoint_conditional_assign']
    if has_ext_select:
        names += ['ExtendedPoint_conditional_select', 'ExtendedPoint_conditional_assign']
    for nm in names:
        chk(nm, gsel, osel)


def cross_check_serial(mods, consts_of, n, rng):
    """vector double / add against the serial AlgEdwards items on the same points (equal affine results)"""
    msgs = []
    ser = mods.get('AlgEdwards', {})
    for vm in ('AlgAvx2Edwards', 'AlgIfmaEdwards'):
        vp = mods.get(vm, {})
        need = ['ExtendedPoint_double', 'ExtendedPoint_add_CachedPoint', 'ExtendedPoint_sub_CachedPoint',
                'CachedPoint_from_ExtendedPoint']
        if any(k not in vp for k in need) or any(k not in ser for k in ('double', 'add', 'sub')):
            msgs.append('%s: items missing for the serial cross-check' % vm)
            continue
        bad = None
        for _ in range(n):
            pe, qe = ext(some_point(rng), rng), ext(some_point(rng), rng)
            cq = run_aprog(vp['CachedPoint_from_ExtendedPoint'], consts_of[vm], qe)
            pairs = [
                (run_aprog(vp['ExtendedPoint_double'], consts_of[vm], pe), run_aprog(ser['double'], consts_of['AlgEdwards'], pe)),
                (run_aprog(vp['ExtendedPoint_add_CachedPoint'], consts_of[vm], pe + cq),
                 run_aprog(ser['add'], consts_of['AlgEdwards'], pe + qe)),
                (run_aprog(vp['ExtendedPoint_sub_CachedPoint'], consts_of[vm], pe + cq),
                 run_aprog(ser['sub'], consts_of['AlgEdwards'], pe + qe)),
            ]
            for a, b in pairs:
                if a[2] == 0 or b[2] == 0 or affine_of_ext(a) != affine_of_ext(b):
                    bad = (pe, qe)
            if bad:
                break
        msgs.append('%-44s %s' % (vm + ' vs serial AlgEdwards (double/add/sub)',
                                  'FAIL at %r' % (bad,) if bad else 'ok   [%d point pairs, equal affine results]' % n))
    return msgs


def alg_checks():
    C = []
    vec_edwards_checks(C, 'AlgAvx2Edwards', True)
    vec_edwards_checks(C, 'AlgIfmaEdwards', False)
    C_vec = C
    C = []

    def chk(mod, item, gen, oracle, edges=()):
        C.append((mod, item, gen, oracle, list(edges)))

    # ---- AlgField
    fe1 = lambda rng: [rfe(rng)]
    e1 = [[0], [1], [P - 1], [2], [SQRT_M1], [P - SQRT_M1]]
    chk('AlgField', 'pow22501', fe1,
        lambda i, o: None if o == [pow(i[0], 2 ** 250 - 1, P), pow(i[0], 11, P)] else 'mismatch', e1)
    chk('AlgField', 'pow_p58', fe1, lambda i, o: None if o == [pow(i[0], (P - 5) // 8, P)] else 'mismatch', e1)

    def o_inv(i, o):
        x = i[0]
        if o != [pow(x, P - 2, P)]:
            return 'not x^(p-2)'
        if x and x * o[0] % P != 1:
            return 'x * inv != 1'
        return None
    chk('AlgField', 'invert', fe1, o_inv, e1)

    def gen_sr(rng):
        r = rng.random()
        if r < 0.3:       # guaranteed square ratio
            v = rfe(rng)
            w = rfe(rng)
            return [w * w % P * v % P, v]
        if r < 0.5:       # guaranteed i * square
            v = rfe(rng)
            w = rfe(rng)
            return [w * w % P * v % P * SQRT_M1 % P, v]
        return [rfe(rng), rfe(rng)]

    def o_sr(i, o):
        u, v = i
        ws, r = sqrt_ratio_contract(u, v)
        if o != [ws, r]:
            return 'contract mismatch: expected %r' % ([ws, r],)
        if r & 1:
            return 'root is negative'
        if u and v:
            if ws and (v * r * r - u) % P:
                return 'v r^2 != u'
            if not ws and (v * r * r - SQRT_M1 * u) % P:
                return 'v r^2 != i u'
        return None
    chk('AlgField', 'sqrt_ratio_i', gen_sr, o_sr, [[0, 0], [0, 1], [1, 0], [1, 1], [P - 1, 1], [SQRT_M1, 1], [4, 1],
                                                 [1, 4], [2, 1]])
    chk('AlgField', 'invsqrt', fe1, lambda i, o: None if o == list(sqrt_ratio_contract(1, i[0])) else 'mismatch', e1)

    # ---- AlgCurve
    chk('AlgCurve', 'ProjectivePoint_identity', lambda rng: [], lambda i, o: None if o == [0, 1, 1] else 'mismatch')
    chk('AlgCurve', 'ProjectiveNielsPoint_identity', lambda rng: [],
        lambda i, o: None if o == [1, 1, 1, 0] else 'mismatch')
    chk('AlgCurve', 'AffineNielsPoint_identity', lambda rng: [], lambda i, o: None if o == [1, 1, 0] else 'mismatch')

    def gen_proj(rng):
        if rng.random() < 0.5:
            return ext(some_point(rng), rng)[:3]
        return [rfe(rng), rfe(rng), rfe(rng)]

    def o_pvalid(i, o):
        X, Y, Z = i
        want = 1 if ((Y * Y - X * X) * Z * Z - Z ** 4 - D * X * X * Y * Y) % P == 0 else 0
        return None if o == [want] else 'expected %d' % want
    chk('AlgCurve', 'ProjectivePoint_is_valid', gen_proj, o_pvalid, [[0, 1, 1], [0, 0, 0], [1, 1, 1]])

    def sel(n):
        def gen(rng):
            return [rfe(rng) for _ in range(2 * n)] + [rng.randrange(2)]

        def orc(i, o):
            return None if o == (i[n:2 * n] if i[2 * n] else i[:n]) else 'selection mismatch'
        return gen, orc
    for nm, n in (('ProjectiveNielsPoint', 4), ('AffineNielsPoint', 3)):
        g, o_ = sel(n)
        chk('AlgCurve', nm + '_conditional_select', g, o_)
        chk('AlgCurve', nm + '_conditional_assign', g, o_)

    def gen_p3(rng):
        return ext(some_point(rng), rng)[:3]

    def o_p_ext(i, o):
        return ext_ok(o, affine_of_ext(i))
    chk('AlgCurve', 'ProjectivePoint_as_extended', gen_p3, o_p_ext)

    def gen_compl(rng):
        x, y = some_point(rng)
        z, t = rz(rng), rz(rng)
        return [x * z % P, y * t % P, z, t]

    def o_c_proj(i, o):
        if o[2] == 0:
            return 'Z = 0'
        return None if affine_of_ext(o) == affine_of_completed(i) else 'wrong point'
    chk('AlgCurve', 'CompletedPoint_as_projective', gen_compl, o_c_proj)
    chk('AlgCurve', 'CompletedPoint_as_extended', gen_compl, lambda i, o: ext_ok(o, affine_of_completed(i)))

    def o_dbl(i, o):
        pt = affine_of_ext(i)
        if o[2] == 0 or o[3] == 0:
            return 'zero denominator'
        return None if affine_of_completed(o) == ed_add(pt, pt) else 'not 2P'
    chk('AlgCurve', 'ProjectivePoint_double', gen_p3, o_dbl)

    def addsub(kind, sign):
        def gen(rng):
            p_, q_ = some_point(rng), some_point(rng)
            if rng.random() < 0.1:
                q_ = p_
            if rng.random() < 0.05:
                q_ = ed_neg(p_)
            return ext(p_, rng) + (proj_niels(q_, rng) if kind == 'P' else affine_niels(q_))

        def orc(i, o):
            p_ = affine_of_ext(i[:4])
            n = i[4:]
            if kind == 'P':
                zi = inv(n[2])
                yq = (n[0] + n[1]) * inv(2) % P * zi % P
                xq = (n[0] - n[1]) * inv(2) % P * zi % P
            else:
                yq = (n[0] + n[1]) * inv(2) % P
                xq = (n[0] - n[1]) * inv(2) % P
            q_ = (xq, yq)
            want = ed_add(p_, q_ if sign > 0 else ed_neg(q_))
            if o[2] == 0 or o[3] == 0:
                return 'zero denominator'
            return None if affine_of_completed(o) == want else 'wrong sum'
        return gen, orc
    for nm, kind, sign in (('add_ProjectiveNielsPoint', 'P', 1), ('sub_ProjectiveNielsPoint', 'P', -1),
                           ('add_AffineNielsPoint', 'A', 1), ('sub_AffineNielsPoint', 'A', -1)):
        g, o_ = addsub(kind, sign)
        chk('AlgCurve', nm, g, o_)
    chk('AlgCurve', 'ProjectiveNielsPoint_neg', lambda rng: proj_niels(some_point(rng), rng),
        lambda i, o: None if o == [i[1], i[0], i[2], (-i[3]) % P] else 'mismatch')
    chk('AlgCurve', 'AffineNielsPoint_neg', lambda rng: affine_niels(some_point(rng)),
        lambda i, o: None if o == [i[1], i[0], (-i[2]) % P] else 'mismatch')

    # ---- AlgEdwards
    def gen_y(rng):
        if rng.random() < 0.5:
            return [some_point(rng)[1]]
        return [rfe(rng)]

    def o_s1(i, o):
        y = i[0]
        u = (y * y - 1) % P
        v = (D * y * y + 1) % P
        ok, x = sqrt_ratio_contract(u, v)
        if o != [ok, x, y, 1]:
            return 'mismatch, expected %r' % ([ok, x, y, 1],)
        if ok and not on_curve(x, y):
            return 'decompressed point not on the curve'
        if not ok and is_square(u * inv(v)):
            return 'rejected a valid y'
        return None
    chk('AlgEdwards', 'decompress_step_1', gen_y, o_s1, [[0], [1], [P - 1], [BASE_Y]])
    chk('AlgEdwards', 'decompress_step_2', lambda rng: [rfe(rng), rfe(rng), rfe(rng), rng.randrange(2)],
        lambda i, o: None if o == [(-i[0]) % P if i[3] else i[0], i[1], i[2],
                                   ((-i[0]) % P if i[3] else i[0]) * i[1] % P] else 'mismatch')
    gen_e = lambda rng: ext(some_point(rng), rng)

    def o_compress(i, o):
        x, y = affine_of_ext(i)
        return None if o == [y, x & 1] else 'mismatch'
    chk('AlgEdwards', 'compress', gen_e, o_compress)

    def o_tomont(i, o):
        x, y = affine_of_ext(i)
        want = 0 if y == 1 else (1 + y) * inv(1 - y) % P
        return None if o == [want] else 'mismatch'
    chk('AlgEdwards', 'to_montgomery', gen_e, o_tomont, [ext((0, 1), random.Random(1)), ext((0, P - 1), random.Random(2))])

    def o_pn(i, o):
        X, Y, Z, T = i
        return None if o == [(Y + X) % P, (Y - X) % P, Z, 2 * D * T % P] else 'mismatch'
    chk('AlgEdwards', 'as_projective_niels', gen_e, o_pn)
    chk('AlgEdwards', 'as_projective', gen_e, lambda i, o: None if o == i[:3] else 'mismatch')
    chk('AlgEdwards', 'as_affine_niels', gen_e,
        lambda i, o: None if o == affine_niels(affine_of_ext(i)) else 'mismatch')
    chk('AlgEdwards', 'identity', lambda rng: [], lambda i, o: None if o == [0, 1, 1, 0] else 'mismatch')

    def gen_2e(rng):
        p_ = some_point(rng)
        q_ = p_ if rng.random() < 0.4 else some_point(rng)
        return ext(p_, rng) + ext(q_, rng)

    def o_cteq(i, o):
        want = 1 if affine_of_ext(i[:4]) == affine_of_ext(i[4:]) else 0
        return None if o == [want] else 'expected %d' % want
    chk('AlgEdwards', 'ct_eq', gen_2e, o_cteq)
    g, o_ = sel(4)
    chk('AlgEdwards', 'conditional_select', g, o_)
    chk('AlgEdwards', 'neg', gen_e, lambda i, o: ext_ok(o, ed_neg(affine_of_ext(i))))
    chk('AlgEdwards', 'double', gen_e, lambda i, o: ext_ok(o, ed_add(affine_of_ext(i), affine_of_ext(i))))
    chk('AlgEdwards', 'add', gen_2e, lambda i, o: ext_ok(o, ed_add(affine_of_ext(i[:4]), affine_of_ext(i[4:]))))
    chk('AlgEdwards', 'sub', gen_2e,
        lambda i, o: ext_ok(o, ed_add(affine_of_ext(i[:4]), ed_neg(affine_of_ext(i[4:])))))

    def gen_valid(rng):
        e = ext(some_point(rng), rng)
        r = rng.random()
        if r < 0.25:
            e[rng.randrange(4)] = rfe(rng)
        elif r < 0.35:
            e[3] = (e[3] + 1) % P
        return e

    def o_valid(i, o):
        X, Y, Z, T = i
        oc = ((Y * Y - X * X) * Z * Z - Z ** 4 - D * X * X * Y * Y) % P == 0
        want = 1 if (oc and (X * Y - Z * T) % P == 0) else 0
        return None if o == [want] else 'expected %d' % want
    chk('AlgEdwards', 'is_valid', gen_valid, o_valid)

    # ---- AlgMontgomery
    def gen_lad(rng):
        return [rfe(rng) for _ in range(5)]

    def o_lad(i, o):
        x2, z2, x3, z3, x1 = i
        a = (x2 + z2) % P
        aa = a * a % P
        b = (x2 - z2) % P
        bb = b * b % P
        e = (aa - bb) % P
        c = (x3 + z3) % P
        d = (x3 - z3) % P
        da = d * a % P
        cb = c * b % P
        nx3 = (da + cb) ** 2 % P
        nz3 = x1 * (da - cb) ** 2 % P
        nx2 = aa * bb % P
        nz2 = e * (aa + 121665 * e) % P
        return None if o == [nx2, nz2, nx3, nz3] else 'differs from the RFC 7748 ladder step'
    chk('AlgMontgomery', 'differential_add_and_double', gen_lad, o_lad, [[0] * 5, [1, 0, 9, 1, 9]])
    chk('AlgMontgomery', 'ProjectivePoint_identity', lambda rng: [], lambda i, o: None if o == [1, 0] else 'mismatch')
    g, o_ = sel(2)
    chk('AlgMontgomery', 'ProjectivePoint_conditional_select', g, o_)
    chk('AlgMontgomery', 'ProjectivePoint_as_affine', lambda rng: [rfe(rng), rfe(rng)],
        lambda i, o: None if o == [i[0] * inv(i[1]) % P] else 'mismatch', [[5, 0], [0, 5]])

    def o_toed(i, o):
        u = i[0]
        want = [1 if u == P - 1 else 0, (u - 1) * inv(u + 1) % P]
        return None if o == want else 'mismatch'
    chk('AlgMontgomery', 'to_edwards', fe1, o_toed, e1 + [[9]])

    def o_ell(i, o):
        r = i[0]
        d = (-A) * inv(1 + 2 * r * r) % P
        eps = (d * d * d + A * d * d + d) % P
        u = d if is_square(eps) else (-d - A) % P
        if o != [u]:
            return 'mismatch'
        # the result is the u-coordinate of a point of the curve v^2 = u^3 + A u^2 + u
        if not is_square((u * u * u + A * u * u + u) % P):
            return 'result is not on the Montgomery curve'
        return None
    chk('AlgMontgomery', 'elligator_encode', fe1, o_ell, e1)
    chk('AlgMontgomery', 'ct_eq', lambda rng: (lambda a: [a, a if rng.random() < 0.4 else rfe(rng)])(rfe(rng)),
        lambda i, o: None if o == [1 if i[0] == i[1] else 0] else 'mismatch')

    # ---- AlgRistretto
    def gen_s(rng):
        r = rng.random()
        if r < 0.5:
            # a valid encoding: encode a point of 2E
            q = rand_point(rng)
            q2 = ed_add(q, q)
            return [rist_encode_field(q2[0], q2[1], 1, q2[0] * q2[1] % P)]
        return [fabs(rfe(rng)) if r < 0.9 else rfe(rng)]

    def o_rdec(i, o):
        want = list(rist_decode_field(i[0]))
        if o != want:
            return 'differs from RFC 9496 DECODE: expected %r' % (want,)
        ok, tneg, yz, x, y, z, t = o
        if ok and not tneg and not yz and not on_curve(x, y):
            return 'accepted point is not on the curve'
        return None
    chk('AlgRistretto', 'decompress_step_2', gen_s, o_rdec, [[0], [1], [2], [P - 1]])

    even = [False]

    def gen_r(rng):
        q = some_point(rng)
        even[0] = rng.random() < 0.8
        if even[0]:
            q = ed_add(q, q)        # a point of 2E: a valid ristretto255 representative
        return ext(q, rng)

    def o_renc(i, o):
        want = rist_encode_field(*i)
        if o != [want]:
            return 'differs from RFC 9496 ENCODE'
        if want & 1:
            return 's is negative'
        # round trip: decoding s gives an equivalent point
        ok, tneg, yz, x, y, z, t = rist_decode_field(want)
        pt = affine_of_ext(i)
        if even[0]:
            if not (ok and not tneg and not yz):
                return 'encoding of a point of 2E does not decode'
            if not rist_equal((x, y), pt):
                return 'decode(encode(P)) is not equivalent to P'
        return None
    chk('AlgRistretto', 'compress', gen_r, o_renc)

    def o_rmap(i, o):
        want = rist_map(i[0])
        if o != want:
            return 'differs from RFC 9496 MAP'
        X, Y, Z, T = o
        if Z and not on_curve(X * inv(Z) % P, Y * inv(Z) % P):
            return 'result not on the curve'
        if (X * Y - Z * T) % P:
            return 'T*Z != X*Y'
        return None
    chk('AlgRistretto', 'elligator_ristretto_flavor', fe1, o_rmap, e1)

    def gen_rr(rng):
        p_ = some_point(rng)
        r = rng.random()
        if r < 0.3:
            q_ = ed_add(p_, SPECIAL_POINTS[rng.randrange(4)])     # same coset of E[4]
        elif r < 0.4:
            q_ = p_
        else:
            q_ = some_point(rng)
        return ext(p_, rng) + ext(q_, rng)

    def o_req(i, o):
        p_, q_ = affine_of_ext(i[:4]), affine_of_ext(i[4:])
        want = 1 if rist_equal(p_, q_) else 0
        if o != [want]:
            return 'expected %d' % want
        # equality must hold exactly for points that differ by 4-torsion
        tors = any(ed_add(p_, t) == q_ for t in SPECIAL_POINTS[:4])
        if tors != bool(want):
            return 'ristretto equality differs from "same coset of E[4]"'
        return None
    chk('AlgRistretto', 'ct_eq', gen_rr, o_req)

    def o_bfrom(i, o):
        X, Y, Z, T = i
        e = 2 * X * Y % P
        f = (Z * Z + D * T * T) % P
        g_ = (Y * Y + X * X) % P
        h = (Z * Z - D * T * T) % P
        return None if o == [e, f, g_, h, e * g_ % P, f * h % P] else 'mismatch'
    chk('AlgRistretto', 'batch_state_from', lambda rng: ext(some_point(rng), rng), o_bfrom)
    return C + C_vec


def batch_compose_check(progs, consts, n, rng):
    """batch_state_from ; inv = 1/(eg*fh) ; batch_compress_closure  ==  ENCODE(2P)"""
    pf = progs.get('batch_state_from')
    pc = progs.get('batch_compress_closure')
    if pf is None or pc is None:
        return 0, 'items missing'
    for k in range(n):
        q = some_point(rng)
        if k % 3 == 0:
            q = ed_add(q, q)
        e = ext(q, rng)
        st = run_aprog(pf, consts, e)
        iv = inv(st[4] * st[5] % P)
        s = run_aprog(pc, consts, st + [iv])
        q2 = ed_add(q, q)
        want = rist_encode_field(q2[0], q2[1], 1, q2[0] * q2[1] % P)
        if st[4] * st[5] % P == 0:
            continue
        if s != [want]:
            return k, 'double_and_compress(P) != ENCODE(2P) for P = %r' % (q,)
    return n, None


def run_alg(gen, n, seed, only):
    fails = 0
    mods = {}
    consts = None
    consts_of = {}
    for m in ('AlgField', 'AlgCurve', 'AlgEdwards', 'AlgMontgomery', 'AlgRistretto', 'AlgAvx2Edwards',
              'AlgIfmaEdwards'):
        p = os.path.join(gen, m + '.lean')
        if os.path.exists(p):
            names, progs = parse_alg_module(p)
            mods[m] = progs
            consts_of[m] = load_consts(gen, names)
            if consts is None:
                consts = consts_of[m]
                cn = names
            elif names[:len(cn)] != cn:
                print('ALG FAIL: the shared prefix of constNames of %s differs' % m)
                fails += 1
        else:
            mods[m] = {}
    if consts is not None:
        exp = {'constants::SQRT_M1': SQRT_M1, 'constants::EDWARDS_D': D, 'constants::EDWARDS_D2': 2 * D % P,
               'constants::MINUS_ONE': P - 1, 'constants::APLUS2_OVER_FOUR': 121666,
               'constants::MONTGOMERY_A': A, 'constants::MONTGOMERY_A_NEG': P - A,
               'constants::ONE_MINUS_EDWARDS_D_SQUARED': ONE_MINUS_D_SQ,
               'constants::EDWARDS_D_MINUS_ONE_SQUARED': D_MINUS_ONE_SQ,
               'constants::SQRT_AD_MINUS_ONE': SQRT_AD_MINUS_ONE,
               'constants::INVSQRT_A_MINUS_D': INVSQRT_A_MINUS_D}
        for nm, v in zip(cn, consts):
            if nm in exp and exp[nm] != v:
                print('ALG CONST FAIL: %s has value %d, expected %d' % (nm, v, exp[nm]))
                fails += 1
    seen = set()
    for mod, item, gen_f, oracle, edges in alg_checks():
        key = '%s.%s' % (mod, item)
        seen.add(key)
        if only and key not in only:
            continue
        prog = mods.get(mod, {}).get(item)
        if prog is None:
            print('%-44s MISSING (item not generated)' % key)
            fails += 1
            continue
        rng = random.Random('%s.%d' % (key, seed))
        tested = 0
        fail = None
        cnt = n if prog[0] else 1
        k = 0
        while k < len(edges) + cnt:
            ins = edges[k] if k < len(edges) else gen_f(rng)
            k += 1
            if len(ins) != prog[0]:
                fail = (ins, 'check supplies %d inputs, program takes %d' % (len(ins), prog[0]))
                break
            out = run_aprog(prog, consts_of[mod], [x % P for x in ins])
            tested += 1
            err = oracle([x % P for x in ins], out)
            if err:
                fail = (ins, '%s; outputs %r' % (err, out))
                break
        if fail is None:
            print('%-44s %5d %5d %6d %7d  ok' % (key, prog[0], len(prog[2]), len(prog[1]), tested))
        else:
            fails += 1
            print('%-44s %5d %5d %6d %7d  FAIL: %s' % (key, prog[0], len(prog[2]), len(prog[1]), tested, fail[1]))
            print('    input: %r' % (fail[0],))
    key = 'AlgRistretto.batch_compress_closure'
    seen.add(key)
    if not only or key in only:
        prog = mods.get('AlgRistretto', {}).get('batch_compress_closure')
        if prog is None:
            print('%-44s MISSING (item not generated)' % key)
            fails += 1
        else:
            t, err = batch_compose_check(mods['AlgRistretto'], consts, n, random.Random('batch.%d' % seed))
            if err:
                fails += 1
                print('%-44s %5d %5d %6d %7d  FAIL: %s' % (key, prog[0], len(prog[2]), len(prog[1]), t, err))
            else:
                print('%-44s %5d %5d %6d %7d  ok   [from ; 1/(eg*fh) ; closure == ENCODE(2P)]'
                      % (key, prog[0], len(prog[2]), len(prog[1]), t))
    if not only:
        for msg in cross_check_serial(mods, consts_of, max(50, n // 2), random.Random('xs.%d' % seed)):
            print(msg)
            if 'FAIL' in msg or 'missing' in msg:
                fails += 1
        for m in mods:
            for item in mods[m]:
                if '%s.%s' % (m, item) not in seen:
                    print('%-44s (no oracle)' % ('%s.%s' % (m, item)))
    return fails

#!/usr/bin/env python3
"""Write the per-formula KLane modules  lean/Dalek/Proofs/KLane/{Avx2,Ifma}_<item>.lean  and the aggregate
lean/Dalek/Proofs/KLane/All.lean.

One module per item of Dalek.Gen.K{Avx2,Ifma}Edwards.items (so that lake builds them in parallel).  Each module states
`<item>_refOk` (the closed Boolean `refOk table K.<item> pre sorts sort Alg.<item>`, proved by `decide +kernel`) and
`<item>_refines` (its meaning, by the generic theorem `refines_of_refOk`).  The modules refer to the generated objects
only by name; the only per-item data are the sorts of the inputs/outputs and the invariant intervals, which are the
`pre` of the `<item>_safe` theorems of Dalek/Props/C11/VecChain.

usage: python3 tools/gen_klane.py [--lean-root /verif/lean]
"""
import argparse, os, re

# item -> (pre-intervals, sorts of the inputs, sort of the output); B = backend namespace of the invariants
ITEMS = {
    "ExtendedPoint_from_EdwardsPoint": (["fe54", "fe54", "fe54", "fe54"], ["fe", "fe", "fe", "fe"], "V"),
    "EdwardsPoint_from_ExtendedPoint": (["B.invExt"], ["V"], "ser"),
    "CachedPoint_from_ExtendedPoint": (["B.invExt"], ["V"], "V"),
    "ExtendedPoint_double": (["B.invExt"], ["V"], "V"),
    "ExtendedPoint_mul_by_pow_2_body": (["B.invExt"], ["V"], "V"),
    "ExtendedPoint_add_CachedPoint": (["B.invExt", "B.invCached"], ["V", "V"], "V"),
    "ExtendedPoint_sub_CachedPoint": (["B.invExt", "B.invCached"], ["V", "V"], "V"),
    "CachedPoint_neg": (["B.invCached"], ["V"], "V"),
    "ExtendedPoint_identity": ([], [], "V"),
    "CachedPoint_identity": ([], [], "V"),
    "ExtendedPoint_conditional_select": (["B.invExt", "B.invExt", "choice"], ["V", "V", "ch"], "V"),
    "ExtendedPoint_conditional_assign": (["B.invExt", "B.invExt", "choice"], ["V", "V", "ch"], "V"),
    "CachedPoint_conditional_select": (["B.invCached", "B.invCached", "choice"], ["V", "V", "ch"], "V"),
    "CachedPoint_conditional_assign": (["B.invCached", "B.invCached", "choice"], ["V", "V", "ch"], "V"),
}
BACKENDS = {"Avx2": ("v26", "KAvx2Edwards", "AlgAvx2Edwards"), "Ifma": ("v51", "KIfmaEdwards", "AlgIfmaEdwards")}


def item_names(lean_root, kmod):
    src = open(os.path.join(lean_root, "Dalek", "Gen", kmod + ".lean")).read()
    m = re.search(r"def itemNames : List String := \[(.*?)\]", src)
    return re.findall(r'"([^"]+)"', m.group(1))


def main():
    ap = argparse.ArgumentParser()
    ap.add_argument("--lean-root", default="/verif/lean")
    a = ap.parse_args()
    outdir = os.path.join(a.lean_root, "Dalek", "Proofs", "KLane")
    os.makedirs(outdir, exist_ok=True)
    mods = []
    for b, (vs, kmod, amod) in BACKENDS.items():
        for it in item_names(a.lean_root, kmod):
            if it not in ITEMS:
                raise SystemExit(f"gen_klane: no sort/invariant data for item {it} of {kmod}")
            pre, sorts, osort = ITEMS[it]
            f = lambda s: s.replace("B.", b + ".")
            g = lambda s: "." + (vs if s == "V" else s)
            pre_s = "[" + ", ".join(f(x) for x in pre) + "]"
            sorts_s = "[" + ", ".join(g(x) for x in sorts) + "]"
            mod = f"{b}_{it}"
            mods.append(mod)
            txt = f"""import Dalek.Proofs.KLane.{b}Table
import Dalek.Gen.{amod}
/-! KLane — `{it}` of the {b.upper()} backend (one module per formula so that they build in parallel; written by
`tools/gen_klane.py`).  The `KProg` `Dalek.Gen.{kmod}.{it}` (calls of the translated limb kernels) and the AlgIR program
`Dalek.Gen.{amod}.{it}` (lane-scalarised by the translator) are both REGENERATED from
`backend/vector/{b.lower()}/edwards.rs` on every run. -/
namespace Dalek.Proofs.KLane.{b}
open Dalek.IR Dalek.Gen Dalek.Model.VecInv Dalek.Proofs Dalek.Proofs.KLane

/-- the verified scalariser (`KProg.scal` with the PROVED lane-semantics table `table`: interval analysis of every
call on the intervals its arguments actually have, contract of the table entry checked at every call) maps the kernel
calls of `{it}` to exactly the lane terms of the translator's AlgIR item: evaluated by the Lean kernel -/
theorem {it}_refOk :
    refOk table {kmod}.{it} {pre_s} {sorts_s} {g(osort)} {amod}.{it} = true := by
  decide +kernel

/-- `{it}`: for ALL inputs inside the invariants the wrapping (release) run of the kernel calls equals the checked run
and the lane values of its result are the run of the AlgIR item in the field on the lane values of the inputs -/
theorem {it}_refines (ins : List (List Nat)) (hin : EnvIn2 ins {pre_s}) :
    ∃ out, {kmod}.{it}.evalC ins = some [out] ∧ {kmod}.{it}.evalW ins = some [out] ∧
      meaning {g(osort)} out = AProg.run zmodOpsV {amod}.{it} (lanesOf {sorts_s} ins) :=
  refines_of_refOk table table_valid _ _ _ _ _ {it}_refOk ins hin

end Dalek.Proofs.KLane.{b}
"""
            open(os.path.join(outdir, mod + ".lean"), "w").write(txt)
    allm = "".join(f"import Dalek.Proofs.KLane.{m}\n" for m in mods)
    allm += "/-! all per-formula KLane modules (written by `tools/gen_klane.py`) -/\n"
    open(os.path.join(outdir, "All.lean"), "w").write(allm)
    print(f"gen_klane: wrote {len(mods)} modules + All.lean to {outdir}")


if __name__ == "__main__":
    main()

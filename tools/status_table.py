#!/usr/bin/env python3
"""status_table.py: refresh the numeric columns (audited theorem count; evaluations / configurations of the quick tier) of the
per-property status table in DESIGN.md section 0a from evidence/*.json (the middle column is kept)."""
import json, re
V = "/verif"
p = V + "/DESIGN.md"
s = open(p).read()
def row(m):
    pid, thm, mid, last = m.group(1), m.group(2), m.group(3), m.group(4)
    try:
        e = json.load(open("%s/evidence/%s.json" % (V, pid)))
        c = e["coverage"]
        thm = str(c.get("obligations", thm))
        last = "%d evaluations / %d configurations" % (c.get("evaluations", 0), len(c.get("configs", [])) or 1)
    except Exception:
        pass
    return "| %s | %s | %s | %s |" % (pid, thm, mid, last)
s2 = re.sub(r"^\| (C\d\d) \| (\d+) \| (.*?) \| (\d+ evaluations / \d+ configurations) \|$", row, s, flags=re.M)
open(p, "w").write(s2)
print("rows updated:", len(re.findall(r"^\| C\d\d \| \d+ \|", s2, flags=re.M)))

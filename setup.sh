#!/bin/bash
# Build everything the checks need from files on disk only (offline).
set -u
cd "$(dirname "$0")"
export CARGO_NET_OFFLINE=true
python3 lib/setup.py "$@"

#!/usr/bin/env bash
# Build the verification driver for one backend configuration.
#
#   build.sh <cfg> <profile>
#     cfg     : serial64 | serial32 | fiat64 | fiat32 | simd | avx512
#               optionally suffixed with -notables and/or -legacy
#               (e.g. serial64-notables, simd-legacy, fiat32-notables-legacy)
#     profile : release | checked
#
# Builds into /verif/.cache/target-<cfg> and prints the path of the driver
# binary on stdout (cargo's own output goes to /verif/.cache/build-<cfg>-<profile>.log,
# shown on stderr only when the build fails).  Safe to call
# repeatedly and concurrently: takes an flock on /verif/.cache/lock.<cfg>;
# cargo itself makes the call a no-op when everything is up to date.
set -euo pipefail

usage() { echo "usage: $0 <serial64|serial32|fiat64|fiat32|simd|avx512>[-notables][-legacy] <release|checked>" >&2; exit 2; }
[ $# -eq 2 ] || usage
CFG="$1"; PROFILE="$2"
case "$PROFILE" in release|checked) ;; *) usage ;; esac

HERE="$(cd "$(dirname "${BASH_SOURCE[0]}")" && pwd)"
CACHE=/verif/.cache
mkdir -p "$CACHE"

base="$CFG"; tables=1; legacy=0
while :; do
  case "$base" in
    *-notables) tables=0; base="${base%-notables}" ;;
    *-legacy)   legacy=1; base="${base%-legacy}" ;;
    *) break ;;
  esac
done

TOOLCHAIN=()
case "$base" in
  serial64) BACKEND_FLAGS='--cfg curve25519_dalek_backend="serial" --cfg curve25519_dalek_bits="64"' ;;
  serial32) BACKEND_FLAGS='--cfg curve25519_dalek_backend="serial" --cfg curve25519_dalek_bits="32"' ;;
  fiat64)   BACKEND_FLAGS='--cfg curve25519_dalek_backend="fiat" --cfg curve25519_dalek_bits="64"' ;;
  fiat32)   BACKEND_FLAGS='--cfg curve25519_dalek_backend="fiat" --cfg curve25519_dalek_bits="32"' ;;
  simd)     BACKEND_FLAGS='' ;;
  avx512)   BACKEND_FLAGS='--cfg curve25519_dalek_backend="unstable_avx512"'; TOOLCHAIN=(+nightly) ;;
  *) usage ;;
esac

FEATURES=()
[ "$tables" = 1 ] && FEATURES+=(tables)
[ "$legacy" = 1 ] && FEATURES+=(legacy)
FEATURE_ARGS=()
if [ ${#FEATURES[@]} -gt 0 ]; then
  FEATURE_ARGS=(--features "$(IFS=,; echo "${FEATURES[*]}")")
fi

export CARGO_TARGET_DIR="$CACHE/target-$CFG"
export CARGO_NET_OFFLINE=true
export RUSTFLAGS="--cfg curve25519_dalek_verif${BACKEND_FLAGS:+ $BACKEND_FLAGS}"
unset CARGO_ENCODED_RUSTFLAGS CARGO_BUILD_RUSTFLAGS || true

exec 9>"$CACHE/lock.$CFG"
flock 9

LOG="$CACHE/build-$CFG-$PROFILE.log"
(
  cd "$HERE"
  cargo "${TOOLCHAIN[@]}" build --offline --profile "$PROFILE" \
      --bin driver "${FEATURE_ARGS[@]}"
) >"$LOG" 2>&1 || { echo "build.sh: cargo failed for $CFG/$PROFILE (log: $LOG)" >&2; tail -n 60 "$LOG" >&2; exit 1; }

BIN="$CARGO_TARGET_DIR/$PROFILE/driver"
[ -x "$BIN" ] || { echo "build.sh: $BIN missing" >&2; exit 1; }
echo "$BIN"

//! Mirrors the backend selection of curve25519-dalek's build.rs so that the
//! driver knows (at compile time) which `verif_hooks::{avx2, ifma}` modules
//! exist:  `hv_simd` <=> `cfg(curve25519_dalek_backend = "simd")` there,
//! `hv_ifma` <=> `cfg(all(curve25519_dalek_backend = "unstable_avx512", nightly))`.
//! A mismatch can only produce a compile error, never a silent difference.

use std::env;
use std::process::Command;

fn main() {
    println!("cargo:rerun-if-changed=build.rs");
    println!("cargo:rerun-if-env-changed=RUSTFLAGS");
    println!("cargo:rerun-if-env-changed=CARGO_ENCODED_RUSTFLAGS");

    let arch = env::var("CARGO_CFG_TARGET_ARCH").unwrap_or_default();
    let pw = env::var("CARGO_CFG_TARGET_POINTER_WIDTH").unwrap_or_default();
    let bits = match env::var("CARGO_CFG_CURVE25519_DALEK_BITS").as_deref() {
        Ok("32") => 32,
        Ok("64") => 64,
        _ => {
            if pw == "64" {
                64
            } else {
                32
            }
        }
    };
    let rustc = env::var("RUSTC").unwrap_or_else(|_| "rustc".into());
    let nightly = Command::new(rustc)
        .arg("--version")
        .output()
        .map(|o| String::from_utf8_lossy(&o.stdout).contains("-nightly"))
        .unwrap_or(false);
    let capable = arch == "x86_64" && bits == 64;
    let backend = env::var("CARGO_CFG_CURVE25519_DALEK_BACKEND").unwrap_or_default();
    let (simd, ifma) = match backend.as_str() {
        "fiat" | "serial" => (false, false),
        "simd" => {
            assert!(capable, "simd backend needs x86_64 + 64 bit");
            (true, false)
        }
        "unstable_avx512" => {
            assert!(nightly, "unstable_avx512 needs a nightly compiler");
            assert!(capable, "unstable_avx512 backend needs x86_64 + 64 bit");
            (true, true)
        }
        "" => (capable, false),
        other => panic!("unknown curve25519_dalek_backend {other:?}"),
    };
    if simd {
        println!("cargo:rustc-cfg=hv_simd");
    }
    if ifma {
        println!("cargo:rustc-cfg=hv_ifma");
    }
}

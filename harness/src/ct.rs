//! `driver --ct <op line>`: run ONE op between two marker calls so that an
//! external tracer can window on `verif_marker_begin` / `verif_marker_end`.
//! All parsing/setup happens before the begin marker, all formatting and
//! printing after the end marker.  See README.md.

use crate::util::*;
use curve25519_dalek::edwards::{CompressedEdwardsY, EdwardsPoint};
use curve25519_dalek::montgomery::MontgomeryPoint;
use curve25519_dalek::ristretto::{CompressedRistretto, RistrettoPoint};
use curve25519_dalek::scalar::Scalar;
use curve25519_dalek::traits::MultiscalarMul;
use sha2::{Digest, Sha512};
use subtle::ConstantTimeEq;
use curve25519_dalek::verif_hooks as vh;
use ed25519_dalek::{Signer, SigningKey};
use std::hint::black_box;
use subtle::Choice;

#[inline(never)]
#[no_mangle]
pub extern "C" fn verif_marker_begin() {
    // an asm statement cannot be removed or merged by the optimiser
    unsafe { core::arch::asm!("nop", options(nostack, preserves_flags)) };
    black_box(());
}

#[inline(never)]
#[no_mangle]
pub extern "C" fn verif_marker_end() {
    unsafe { core::arch::asm!("nop", "nop", options(nostack, preserves_flags)) };
    black_box(());
}

/// What the measured closure hands back (formatted after the end marker).
pub enum CtVal {
    Scalar(Scalar),
    Ed(EdwardsPoint),
    OptEd(Option<EdwardsPoint>),
    Ris(RistrettoPoint),
    OptRis(Option<RistrettoPoint>),
    B32([u8; 32]),
    B64([u8; 64]),
    Fe(vh::FeLimbs),
    ChoiceFe(Choice, vh::FeLimbs),
    Bit(Choice),
    RisList(Vec<CompressedRistretto>),
    FeList(Vec<vh::FeLimbs>),
    ScBatch(Scalar, Vec<Scalar>),
    OptB64(Option<[u8; 64]>),
    Expanded(ed25519_dalek::hazmat::ExpandedSecretKey),
    Shared(x25519_dalek::SharedSecret),
}

type Job = Box<dyn FnMut() -> CtVal>;

fn prepare(op: &str, a: &[&str]) -> Result<Job, Fail> {
    Ok(match op {
        "sc.add" | "sc.sub" | "sc.mul" => {
            arity(a, 2)?;
            let (x, y) = (sc(a[0])?, sc(a[1])?);
            match op {
                "sc.add" => Box::new(move || CtVal::Scalar(black_box(&x) + black_box(&y))),
                "sc.sub" => Box::new(move || CtVal::Scalar(black_box(&x) - black_box(&y))),
                _ => Box::new(move || CtVal::Scalar(black_box(&x) * black_box(&y))),
            }
        }
        "sc.neg" => {
            arity(a, 1)?;
            let x = sc(a[0])?;
            Box::new(move || CtVal::Scalar(-*black_box(&x)))
        }
        "sc.invert" => {
            arity(a, 1)?;
            let x = sc(a[0])?;
            Box::new(move || CtVal::Scalar(black_box(&x).invert()))
        }
        "sc.reduce" => {
            arity(a, 1)?;
            let b = hx::<32>(a[0])?;
            Box::new(move || CtVal::Scalar(Scalar::from_bytes_mod_order(black_box(b))))
        }
        "sc.reduce_wide" => {
            arity(a, 1)?;
            let b = hx::<64>(a[0])?;
            Box::new(move || CtVal::Scalar(Scalar::from_bytes_mod_order_wide(black_box(&b))))
        }
        "ed.mul_raw" => {
            arity(a, 2)?;
            let c = ced(a[0])?;
            let s = sc_raw(a[1])?;
            let p = dec_ed(&c)?;
            Box::new(move || CtVal::Ed(black_box(&p) * black_box(&s)))
        }
        "ed.mul_clamped" => {
            arity(a, 2)?;
            let c = ced(a[0])?;
            let b = hx::<32>(a[1])?;
            let p = dec_ed(&c)?;
            Box::new(move || CtVal::Ed(black_box(p).mul_clamped(black_box(b))))
        }
        "ed.mul_base" => {
            arity(a, 1)?;
            let s = sc(a[0])?;
            Box::new(move || CtVal::Ed(EdwardsPoint::mul_base(black_box(&s))))
        }
        "ed.mul_base_clamped" => {
            arity(a, 1)?;
            let b = hx::<32>(a[0])?;
            Box::new(move || CtVal::Ed(EdwardsPoint::mul_base_clamped(black_box(b))))
        }
        "ed.msm_ct" => {
            arity(a, 2)?;
            let s = sc_list(a[0])?;
            let p = ed_list(a[1])?;
            if s.len() != p.len() {
                return Err(BADREQ);
            }
            Box::new(move || {
                CtVal::Ed(EdwardsPoint::multiscalar_mul(
                    black_box(&s).iter(),
                    black_box(&p).iter(),
                ))
            })
        }
        "ed.compress" => {
            arity(a, 1)?;
            let p = pt(a[0])?;
            Box::new(move || CtVal::B32(black_box(&p).compress().to_bytes()))
        }
        "ed.decompress" => {
            arity(a, 1)?;
            let c = CompressedEdwardsY(hx::<32>(a[0])?);
            Box::new(move || CtVal::OptEd(black_box(&c).decompress()))
        }
        "mont.mul" => {
            arity(a, 2)?;
            let u = MontgomeryPoint(hx::<32>(a[0])?);
            let s = sc(a[1])?;
            Box::new(move || CtVal::B32((black_box(&u) * black_box(&s)).to_bytes()))
        }
        "mont.mul_clamped" => {
            arity(a, 2)?;
            let u = MontgomeryPoint(hx::<32>(a[0])?);
            let b = hx::<32>(a[1])?;
            Box::new(move || CtVal::B32(black_box(u).mul_clamped(black_box(b)).to_bytes()))
        }
        "mont.mul_base" => {
            arity(a, 1)?;
            let s = sc(a[0])?;
            Box::new(move || CtVal::B32(MontgomeryPoint::mul_base(black_box(&s)).to_bytes()))
        }
        "x.x25519" => {
            arity(a, 2)?;
            let (k, u) = (hx::<32>(a[0])?, hx::<32>(a[1])?);
            Box::new(move || CtVal::B32(x25519_dalek::x25519(black_box(k), black_box(u))))
        }
        "ris.from_uniform" => {
            arity(a, 1)?;
            let b = hx::<64>(a[0])?;
            Box::new(move || CtVal::Ris(RistrettoPoint::from_uniform_bytes(black_box(&b))))
        }
        "ris.compress" => {
            arity(a, 1)?;
            let p = rpt(a[0])?;
            Box::new(move || CtVal::B32(black_box(&p).compress().to_bytes()))
        }
        "ris.decompress" => {
            arity(a, 1)?;
            let c = CompressedRistretto(hx::<32>(a[0])?);
            Box::new(move || CtVal::OptRis(black_box(&c).decompress()))
        }
        "eds.keygen" => {
            arity(a, 1)?;
            let seed = hx::<32>(a[0])?;
            Box::new(move || {
                CtVal::B32(
                    SigningKey::from_bytes(black_box(&seed))
                        .verifying_key()
                        .to_bytes(),
                )
            })
        }
        "eds.sign" => {
            arity(a, 2)?;
            let sk = SigningKey::from_bytes(&hx::<32>(a[0])?);
            let msg = unhex(a[1])?;
            Box::new(move || CtVal::B64(black_box(&sk).sign(black_box(&msg)).to_bytes()))
        }
        "fe.invert" => {
            arity(a, 1)?;
            let x = fe(a[0])?;
            Box::new(move || CtVal::Fe(vh::fe_invert(black_box(&x))))
        }
        "fe.mul" => {
            arity(a, 2)?;
            let (x, y) = (fe(a[0])?, fe(a[1])?);
            Box::new(move || CtVal::Fe(vh::fe_mul(black_box(&x), black_box(&y))))
        }
        "fe.sqrt_ratio_i" => {
            arity(a, 2)?;
            let (u, v) = (fe(a[0])?, fe(a[1])?);
            Box::new(move || {
                let (c, r) = vh::fe_sqrt_ratio_i(black_box(&u), black_box(&v));
                CtVal::ChoiceFe(c, r)
            })
        }
        "fe.invsqrt" => {
            arity(a, 1)?;
            let v = fe(a[0])?;
            Box::new(move || {
                let (c, r) = vh::fe_invsqrt(black_box(&v));
                CtVal::ChoiceFe(c, r)
            })
        }
        // ---- batch operations (inputs allocated before, moved out inside)
        "ris.double_compress_batch" => {
            arity(a, 1)?;
            let pts = ris_list(a[0])?;
            Box::new(move || {
                CtVal::RisList(RistrettoPoint::double_and_compress_batch(black_box(&pts)))
            })
        }
        "fe.batch_invert" => {
            arity(a, 1)?;
            let mut v: Vec<vh::FeLimbs> =
                list(a[0])?.into_iter().map(fe).collect::<Result<_, _>>()?;
            Box::new(move || {
                vh::fe_batch_invert(black_box(&mut v));
                CtVal::FeList(core::mem::take(&mut v))
            })
        }
        "sc.batch_invert" => {
            arity(a, 1)?;
            let mut v = sc_list(a[0])?;
            Box::new(move || {
                let r = Scalar::batch_invert(black_box(&mut v));
                CtVal::ScBatch(r, core::mem::take(&mut v))
            })
        }
        // ---- Ristretto
        "ris.mul" => {
            arity(a, 2)?;
            let c = cris(a[0])?;
            let s = sc(a[1])?;
            let p = dec_ris(&c)?;
            Box::new(move || CtVal::Ris(black_box(&p) * black_box(&s)))
        }
        "ris.mul_base" => {
            arity(a, 1)?;
            let s = sc(a[0])?;
            Box::new(move || CtVal::Ris(RistrettoPoint::mul_base(black_box(&s))))
        }
        "ris.msm_ct" => {
            arity(a, 2)?;
            let s = sc_list(a[0])?;
            let p = ris_list(a[1])?;
            if s.len() != p.len() {
                return Err(BADREQ);
            }
            Box::new(move || {
                CtVal::Ris(RistrettoPoint::multiscalar_mul(
                    black_box(&s).iter(),
                    black_box(&p).iter(),
                ))
            })
        }
        "ris.eq" => {
            arity(a, 2)?;
            let (c, d) = (cris(a[0])?, cris(a[1])?);
            let (p, q) = (dec_ris(&c)?, dec_ris(&d)?);
            Box::new(move || CtVal::Bit(black_box(&p).ct_eq(black_box(&q))))
        }
        "ris.elligator" => {
            arity(a, 1)?;
            let r = hx::<32>(a[0])?;
            Box::new(move || CtVal::Ris(vh::elligator_ristretto_flavor(black_box(&r))))
        }
        // ---- Edwards point ops
        "ed.eq" => {
            arity(a, 2)?;
            let (c, d) = (ced(a[0])?, ced(a[1])?);
            let (p, q) = (dec_ed(&c)?, dec_ed(&d)?);
            Box::new(move || CtVal::Bit(black_box(&p).ct_eq(black_box(&q))))
        }
        "ed.add" | "ed.sub" => {
            arity(a, 2)?;
            let (c, d) = (ced(a[0])?, ced(a[1])?);
            let (p, q) = (dec_ed(&c)?, dec_ed(&d)?);
            if op == "ed.add" {
                Box::new(move || CtVal::Ed(black_box(&p) + black_box(&q)))
            } else {
                Box::new(move || CtVal::Ed(black_box(&p) - black_box(&q)))
            }
        }
        "ed.neg" => {
            arity(a, 1)?;
            let p = pt(a[0])?;
            Box::new(move || CtVal::Ed(-*black_box(&p)))
        }
        "ed.basepoint_table" => {
            arity(a, 1)?;
            let s = sc(a[0])?;
            #[cfg(feature = "tables")]
            {
                Box::new(move || {
                    CtVal::Ed(curve25519_dalek::constants::ED25519_BASEPOINT_TABLE * black_box(&s))
                })
            }
            #[cfg(not(feature = "tables"))]
            {
                let _ = s;
                return Err(Fail::Skip);
            }
        }
        // `mul_base_clamped` of a basepoint table of any radix: the scalar is the UNREDUCED clamped integer
        "ed.table_clamped" => {
            arity(a, 3)?;
            let radix = int(a[0])?;
            let c = ced(a[1])?;
            let k = hx::<32>(a[2])?;
            if ![16, 32, 64, 128, 256].contains(&radix) {
                return Err(BADREQ);
            }
            let p = dec_ed(&c)?;
            #[cfg(feature = "tables")]
            {
                use curve25519_dalek::edwards::{
                    EdwardsBasepointTableRadix128, EdwardsBasepointTableRadix16,
                    EdwardsBasepointTableRadix256, EdwardsBasepointTableRadix32,
                    EdwardsBasepointTableRadix64,
                };
                use curve25519_dalek::traits::BasepointTable;
                macro_rules! go {
                    ($t:ty) => {{
                        let t: Box<$t> = Box::new(<$t>::create(&p));
                        Box::new(move || CtVal::Ed(black_box(&*t).mul_base_clamped(*black_box(&k)))) as Job
                    }};
                }
                match radix {
                    16 => go!(EdwardsBasepointTableRadix16),
                    32 => go!(EdwardsBasepointTableRadix32),
                    64 => go!(EdwardsBasepointTableRadix64),
                    128 => go!(EdwardsBasepointTableRadix128),
                    _ => go!(EdwardsBasepointTableRadix256),
                }
            }
            #[cfg(not(feature = "tables"))]
            {
                let _ = (p, k);
                return Err(Fail::Skip);
            }
        }
        "ed.table" => {
            arity(a, 3)?;
            let radix = int(a[0])?;
            let c = ced(a[1])?;
            let s = sc(a[2])?;
            if ![16, 32, 64, 128, 256].contains(&radix) {
                return Err(BADREQ);
            }
            let p = dec_ed(&c)?;
            #[cfg(feature = "tables")]
            {
                use curve25519_dalek::edwards::{
                    EdwardsBasepointTableRadix128, EdwardsBasepointTableRadix16,
                    EdwardsBasepointTableRadix256, EdwardsBasepointTableRadix32,
                    EdwardsBasepointTableRadix64,
                };
                use curve25519_dalek::traits::BasepointTable;
                // the table is created (and boxed) before the window; only
                // `mul_base` runs inside it
                macro_rules! go {
                    ($t:ty) => {{
                        let t: Box<$t> = Box::new(<$t>::create(&p));
                        Box::new(move || CtVal::Ed(black_box(&*t).mul_base(black_box(&s)))) as Job
                    }};
                }
                match radix {
                    16 => go!(EdwardsBasepointTableRadix16),
                    32 => go!(EdwardsBasepointTableRadix32),
                    64 => go!(EdwardsBasepointTableRadix64),
                    128 => go!(EdwardsBasepointTableRadix128),
                    _ => go!(EdwardsBasepointTableRadix256),
                }
            }
            #[cfg(not(feature = "tables"))]
            {
                let _ = (p, s);
                return Err(Fail::Skip);
            }
        }
        // NOTE: `LookupTable<ProjectiveNielsPoint>` is not nameable outside
        // the crate and the existing hook builds the table itself, so the
        // (public-point-only, x-independent) table construction is inside the
        // window together with `select(x)`.
        "ed.select" => {
            arity(a, 2)?;
            let c = ced(a[0])?;
            let x = int_in(a[1], -8, 8)? as i8;
            let p = dec_ed(&c)?;
            Box::new(move || {
                CtVal::Ed(vh::lookup_table_select_projective_niels(
                    black_box(&p),
                    black_box(x),
                ))
            })
        }
        // ---- Ed25519
        "eds.sign_ph" => {
            arity(a, 3)?;
            let sk = SigningKey::from_bytes(&hx::<32>(a[0])?);
            let msg = unhex(a[1])?;
            let ctx: Option<Vec<u8>> = if a[2] == "~" { None } else { Some(unhex(a[2])?) };
            // the prehash is fed before the window
            let mut digest = Some(Sha512::new().chain_update(&msg));
            Box::new(move || {
                let d = digest.take().expect("single use");
                CtVal::OptB64(
                    black_box(&sk)
                        .sign_prehashed(d, black_box(ctx.as_deref()))
                        .ok()
                        .map(|s| s.to_bytes()),
                )
            })
        }
        "eds.expand" => {
            arity(a, 1)?;
            let seed = hx::<32>(a[0])?;
            Box::new(move || {
                CtVal::Expanded(ed25519_dalek::hazmat::ExpandedSecretKey::from(black_box(&seed)))
            })
        }
        // ---- X25519 / Montgomery
        "x.static" => {
            arity(a, 2)?;
            let (k, their) = (hx::<32>(a[0])?, hx::<32>(a[1])?);
            Box::new(move || {
                CtVal::Shared(
                    x25519_dalek::StaticSecret::from(black_box(k))
                        .diffie_hellman(&x25519_dalek::PublicKey::from(black_box(their))),
                )
            })
        }
        "x.pubkey" => {
            arity(a, 1)?;
            let k = hx::<32>(a[0])?;
            Box::new(move || {
                CtVal::B32(
                    x25519_dalek::PublicKey::from(&x25519_dalek::StaticSecret::from(black_box(k)))
                        .to_bytes(),
                )
            })
        }
        "mont.elligator" => {
            arity(a, 1)?;
            let r = hx::<32>(a[0])?;
            Box::new(move || CtVal::B32(vh::elligator_encode(black_box(&r)).to_bytes()))
        }
        _ => return Err(BADREQ),
    })
}

fn format(v: CtVal) -> R {
    let mut o = String::new();
    match v {
        CtVal::Scalar(s) => push_hex(&mut o, s.as_bytes()),
        CtVal::Ed(p) => push_ed(&mut o, &p),
        CtVal::OptEd(p) => push_ed(&mut o, &p.ok_or(Fail::None)?),
        CtVal::Ris(p) => push_ris(&mut o, &p),
        CtVal::OptRis(p) => push_ris(&mut o, &p.ok_or(Fail::None)?),
        CtVal::B32(b) => push_hex(&mut o, &b),
        CtVal::B64(b) => push_hex(&mut o, &b),
        CtVal::Fe(l) => push_fe(&mut o, &l),
        CtVal::ChoiceFe(c, l) => {
            push_choice(&mut o, c);
            push_fe(&mut o, &l);
        }
        CtVal::Bit(c) => push_choice(&mut o, c),
        CtVal::RisList(v) => push_hex_list(&mut o, v.iter().map(|c| c.to_bytes())),
        CtVal::FeList(v) => push_hex_list(&mut o, v.iter().map(vh::fe_as_bytes)),
        CtVal::ScBatch(r, v) => {
            push_hex(&mut o, r.as_bytes());
            push_hex_list(&mut o, v.iter().map(|s| s.to_bytes()));
        }
        CtVal::OptB64(b) => push_hex(&mut o, &b.ok_or(Fail::Err)?),
        CtVal::Expanded(e) => {
            push_hex(&mut o, e.scalar.as_bytes());
            push_hex(&mut o, &e.hash_prefix);
        }
        CtVal::Shared(s) => {
            push_hex(&mut o, s.as_bytes());
            push_bool(&mut o, s.was_contributory());
        }
    }
    Ok(o)
}

/// Returns the response line (without newline).
pub fn run(op: &str, a: &[&str]) -> R {
    let mut job = prepare(op, a)?;
    verif_marker_begin();
    let v = black_box(job());
    verif_marker_end();
    drop(job);
    format(v)
}

//! `driver --ct <op line>`: run ONE op between two marker calls so that an
//! external tracer can window on `verif_marker_begin` / `verif_marker_end`.
//! All parsing/setup happens before the begin marker, all formatting and
//! printing after the end marker.  See README.md.

use crate::util::*;
use curve25519_dalek::edwards::{CompressedEdwardsY, EdwardsPoint};
use curve25519_dalek::montgomery::MontgomeryPoint;
use curve25519_dalek::ristretto::{CompressedRistretto, RistrettoPoint};
use curve25519_dalek::scalar::Scalar;
use curve25519_dalek::traits::MultiscalarMul;
use curve25519_dalek::verif_hooks as vh;
use ed25519_dalek::{Signer, SigningKey};
use std::hint::black_box;
use subtle::Choice;

#[inline(never)]
#[no_mangle]
pub extern "C" fn verif_marker_begin() {
    // an asm statement cannot be removed or merged by the optimiser
    unsafe { core::arch::asm!("nop", options(nostack, preserves_flags)) };
    black_box(());
}

#[inline(never)]
#[no_mangle]
pub extern "C" fn verif_marker_end() {
    unsafe { core::arch::asm!("nop", "nop", options(nostack, preserves_flags)) };
    black_box(());
}

/// What the measured closure hands back (formatted after the end marker).
pub enum CtVal {
    Scalar(Scalar),
    Ed(EdwardsPoint),
    OptEd(Option<EdwardsPoint>),
    Ris(RistrettoPoint),
    OptRis(Option<RistrettoPoint>),
    B32([u8; 32]),
    B64([u8; 64]),
    Fe(vh::FeLimbs),
    ChoiceFe(Choice, vh::FeLimbs),
}

type Job = Box<dyn FnMut() -> CtVal>;

fn prepare(op: &str, a: &[&str]) -> Result<Job, Fail> {
    Ok(match op {
        "sc.add" | "sc.sub" | "sc.mul" => {
            arity(a, 2)?;
            let (x, y) = (sc(a[0])?, sc(a[1])?);
            match op {
                "sc.add" => Box::new(move || CtVal::Scalar(black_box(&x) + black_box(&y))),
                "sc.sub" => Box::new(move || CtVal::Scalar(black_box(&x) - black_box(&y))),
                _ => Box::new(move || CtVal::Scalar(black_box(&x) * black_box(&y))),
            }
        }
        "sc.neg" => {
            arity(a, 1)?;
            let x = sc(a[0])?;
            Box::new(move || CtVal::Scalar(-*black_box(&x)))
        }
        "sc.invert" => {
            arity(a, 1)?;
            let x = sc(a[0])?;
            Box::new(move || CtVal::Scalar(black_box(&x).invert()))
        }
        "sc.reduce" => {
            arity(a, 1)?;
            let b = hx::<32>(a[0])?;
            Box::new(move || CtVal::Scalar(Scalar::from_bytes_mod_order(black_box(b))))
        }
        "sc.reduce_wide" => {
            arity(a, 1)?;
            let b = hx::<64>(a[0])?;
            Box::new(move || CtVal::Scalar(Scalar::from_bytes_mod_order_wide(black_box(&b))))
        }
        "ed.mul_raw" => {
            arity(a, 2)?;
            let c = ced(a[0])?;
            let s = sc_raw(a[1])?;
            let p = dec_ed(&c)?;
            Box::new(move || CtVal::Ed(black_box(&p) * black_box(&s)))
        }
        "ed.mul_clamped" => {
            arity(a, 2)?;
            let c = ced(a[0])?;
            let b = hx::<32>(a[1])?;
            let p = dec_ed(&c)?;
            Box::new(move || CtVal::Ed(black_box(p).mul_clamped(black_box(b))))
        }
        "ed.mul_base" => {
            arity(a, 1)?;
            let s = sc(a[0])?;
            Box::new(move || CtVal::Ed(EdwardsPoint::mul_base(black_box(&s))))
        }
        "ed.mul_base_clamped" => {
            arity(a, 1)?;
            let b = hx::<32>(a[0])?;
            Box::new(move || CtVal::Ed(EdwardsPoint::mul_base_clamped(black_box(b))))
        }
        "ed.msm_ct" => {
            arity(a, 2)?;
            let s = sc_list(a[0])?;
            let p = ed_list(a[1])?;
            if s.len() != p.len() {
                return Err(BADREQ);
            }
            Box::new(move || {
                CtVal::Ed(EdwardsPoint::multiscalar_mul(
                    black_box(&s).iter(),
                    black_box(&p).iter(),
                ))
            })
        }
        "ed.compress" => {
            arity(a, 1)?;
            let p = pt(a[0])?;
            Box::new(move || CtVal::B32(black_box(&p).compress().to_bytes()))
        }
        "ed.decompress" => {
            arity(a, 1)?;
            let c = CompressedEdwardsY(hx::<32>(a[0])?);
            Box::new(move || CtVal::OptEd(black_box(&c).decompress()))
        }
        "mont.mul" => {
            arity(a, 2)?;
            let u = MontgomeryPoint(hx::<32>(a[0])?);
            let s = sc(a[1])?;
            Box::new(move || CtVal::B32((black_box(&u) * black_box(&s)).to_bytes()))
        }
        "mont.mul_clamped" => {
            arity(a, 2)?;
            let u = MontgomeryPoint(hx::<32>(a[0])?);
            let b = hx::<32>(a[1])?;
            Box::new(move || CtVal::B32(black_box(u).mul_clamped(black_box(b)).to_bytes()))
        }
        "mont.mul_base" => {
            arity(a, 1)?;
            let s = sc(a[0])?;
            Box::new(move || CtVal::B32(MontgomeryPoint::mul_base(black_box(&s)).to_bytes()))
        }
        "x.x25519" => {
            arity(a, 2)?;
            let (k, u) = (hx::<32>(a[0])?, hx::<32>(a[1])?);
            Box::new(move || CtVal::B32(x25519_dalek::x25519(black_box(k), black_box(u))))
        }
        "ris.from_uniform" => {
            arity(a, 1)?;
            let b = hx::<64>(a[0])?;
            Box::new(move || CtVal::Ris(RistrettoPoint::from_uniform_bytes(black_box(&b))))
        }
        "ris.compress" => {
            arity(a, 1)?;
            let p = rpt(a[0])?;
            Box::new(move || CtVal::B32(black_box(&p).compress().to_bytes()))
        }
        "ris.decompress" => {
            arity(a, 1)?;
            let c = CompressedRistretto(hx::<32>(a[0])?);
            Box::new(move || CtVal::OptRis(black_box(&c).decompress()))
        }
        "eds.keygen" => {
            arity(a, 1)?;
            let seed = hx::<32>(a[0])?;
            Box::new(move || {
                CtVal::B32(
                    SigningKey::from_bytes(black_box(&seed))
                        .verifying_key()
                        .to_bytes(),
                )
            })
        }
        "eds.sign" => {
            arity(a, 2)?;
            let sk = SigningKey::from_bytes(&hx::<32>(a[0])?);
            let msg = unhex(a[1])?;
            Box::new(move || CtVal::B64(black_box(&sk).sign(black_box(&msg)).to_bytes()))
        }
        "fe.invert" => {
            arity(a, 1)?;
            let x = fe(a[0])?;
            Box::new(move || CtVal::Fe(vh::fe_invert(black_box(&x))))
        }
        "fe.mul" => {
            arity(a, 2)?;
            let (x, y) = (fe(a[0])?, fe(a[1])?);
            Box::new(move || CtVal::Fe(vh::fe_mul(black_box(&x), black_box(&y))))
        }
        "fe.sqrt_ratio_i" => {
            arity(a, 2)?;
            let (u, v) = (fe(a[0])?, fe(a[1])?);
            Box::new(move || {
                let (c, r) = vh::fe_sqrt_ratio_i(black_box(&u), black_box(&v));
                CtVal::ChoiceFe(c, r)
            })
        }
        "fe.invsqrt" => {
            arity(a, 1)?;
            let v = fe(a[0])?;
            Box::new(move || {
                let (c, r) = vh::fe_invsqrt(black_box(&v));
                CtVal::ChoiceFe(c, r)
            })
        }
        _ => return Err(BADREQ),
    })
}

fn format(v: CtVal) -> R {
    let mut o = String::new();
    match v {
        CtVal::Scalar(s) => push_hex(&mut o, s.as_bytes()),
        CtVal::Ed(p) => push_ed(&mut o, &p),
        CtVal::OptEd(p) => push_ed(&mut o, &p.ok_or(Fail::None)?),
        CtVal::Ris(p) => push_ris(&mut o, &p),
        CtVal::OptRis(p) => push_ris(&mut o, &p.ok_or(Fail::None)?),
        CtVal::B32(b) => push_hex(&mut o, &b),
        CtVal::B64(b) => push_hex(&mut o, &b),
        CtVal::Fe(l) => push_fe(&mut o, &l),
        CtVal::ChoiceFe(c, l) => {
            push_choice(&mut o, c);
            push_fe(&mut o, &l);
        }
    }
    Ok(o)
}

/// Returns the response line (without newline).
pub fn run(op: &str, a: &[&str]) -> R {
    let mut job = prepare(op, a)?;
    verif_marker_begin();
    let v = black_box(job());
    verif_marker_end();
    drop(job);
    format(v)
}

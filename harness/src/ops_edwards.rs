//! `ed.*`

use crate::util::*;
use curve25519_dalek::constants;
use curve25519_dalek::edwards::{CompressedEdwardsY, EdwardsPoint, VartimeEdwardsPrecomputation};
use curve25519_dalek::scalar::Scalar;
use curve25519_dalek::traits::{
    Identity, IsIdentity, MultiscalarMul, VartimeMultiscalarMul, VartimePrecomputedMultiscalarMul,
};
use curve25519_dalek::verif_hooks as vh;
use sha2::Sha512;

#[derive(Clone, Copy)]
enum Reg {
    P(EdwardsPoint),
    B(bool),
}

fn reg_idx(s: &str, n: usize) -> Result<usize, Fail> {
    let i = uint(s)?;
    if i >= n as u128 {
        return Err(BADREQ);
    }
    Ok(i as usize)
}

fn reg_pt(regs: &[Reg], s: &str) -> Result<EdwardsPoint, Fail> {
    match regs[reg_idx(s, regs.len())?] {
        Reg::P(p) => Ok(p),
        Reg::B(_) => Err(BADREQ),
    }
}

/// Runs an `ed.seq` program.  `Err(Fail::None)` if a `D` fails.
fn run_program(prog: &str) -> Result<Vec<Reg>, Fail> {
    let mut regs: Vec<Reg> = Vec::new();
    if prog.is_empty() {
        return Err(BADREQ);
    }
    for ins in prog.split(';') {
        let mut ch = ins.chars();
        let opc = ch.next().ok_or(BADREQ)?;
        if !opc.is_ascii() {
            return Err(BADREQ);
        }
        let rest = &ins[1..];
        let args: Vec<&str> = if rest.is_empty() {
            Vec::new()
        } else {
            rest.split(',').collect()
        };
        let want = |n: usize| if args.len() == n { Ok(()) } else { Err(BADREQ) };
        let r = match opc {
            'D' => {
                want(1)?;
                match CompressedEdwardsY(hx::<32>(args[0])?).decompress() {
                    Some(p) => Reg::P(p),
                    None => return Err(Fail::None),
                }
            }
            'I' => {
                want(0)?;
                Reg::P(EdwardsPoint::identity())
            }
            'G' => {
                want(0)?;
                Reg::P(constants::ED25519_BASEPOINT_POINT)
            }
            'T' => {
                want(1)?;
                Reg::P(constants::EIGHT_TORSION[int_in(args[0], 0, 7)? as usize])
            }
            'A' => {
                want(2)?;
                Reg::P(&reg_pt(&regs, args[0])? + &reg_pt(&regs, args[1])?)
            }
            'S' => {
                want(2)?;
                Reg::P(&reg_pt(&regs, args[0])? - &reg_pt(&regs, args[1])?)
            }
            'N' => {
                want(1)?;
                Reg::P(-&reg_pt(&regs, args[0])?)
            }
            'B' => {
                want(1)?;
                Reg::P(vh::edwards_double(&reg_pt(&regs, args[0])?))
            }
            'M' => {
                want(2)?;
                let p = reg_pt(&regs, args[0])?;
                Reg::P(&p * &sc(args[1])?)
            }
            'R' => {
                want(2)?;
                let p = reg_pt(&regs, args[0])?;
                Reg::P(&p * &sc_raw(args[1])?)
            }
            'C' => {
                want(1)?;
                Reg::P(reg_pt(&regs, args[0])?.mul_by_cofactor())
            }
            'P' => {
                want(2)?;
                let p = reg_pt(&regs, args[0])?;
                let k = int_in(args[1], 1, 512)? as u32;
                Reg::P(vh::edwards_mul_by_pow_2(&p, k))
            }
            'U' => {
                let pts: Vec<EdwardsPoint> = args
                    .iter()
                    .map(|s| reg_pt(&regs, s))
                    .collect::<Result<_, _>>()?;
                Reg::P(pts.iter().sum::<EdwardsPoint>())
            }
            // subtle::ConditionallySelectable / ConditionallyNegatable on points (choice given as 0 / 1)
            'K' | 'J' | 'W' | 'Y' => {
                want(3)?;
                let (a, b) = (reg_pt(&regs, args[0])?, reg_pt(&regs, args[1])?);
                let c = subtle::Choice::from(int_in(args[2], 0, 1)? as u8);
                use subtle::ConditionallySelectable;
                match opc {
                    'K' => Reg::P(EdwardsPoint::conditional_select(&a, &b, c)),
                    'J' => {
                        let mut p = a;
                        p.conditional_assign(&b, c);
                        Reg::P(p)
                    }
                    _ => {
                        let (mut p, mut q) = (a, b);
                        EdwardsPoint::conditional_swap(&mut p, &mut q, c);
                        Reg::P(if opc == 'W' { p } else { q })
                    }
                }
            }
            'L' => {
                want(2)?;
                let mut p = reg_pt(&regs, args[0])?;
                let c = subtle::Choice::from(int_in(args[1], 0, 1)? as u8);
                use subtle::ConditionallyNegatable;
                p.conditional_negate(c);
                Reg::P(p)
            }
            'E' => {
                want(2)?;
                Reg::B(reg_pt(&regs, args[0])? == reg_pt(&regs, args[1])?)
            }
            'Z' => {
                want(1)?;
                Reg::B(reg_pt(&regs, args[0])?.is_identity())
            }
            'O' => {
                want(1)?;
                Reg::B(reg_pt(&regs, args[0])?.is_small_order())
            }
            'F' => {
                want(1)?;
                Reg::B(reg_pt(&regs, args[0])?.is_torsion_free())
            }
            'V' => {
                want(1)?;
                Reg::B(vh::edwards_is_valid(&reg_pt(&regs, args[0])?))
            }
            _ => return Err(BADREQ),
        };
        regs.push(r);
    }
    Ok(regs)
}

fn check_same_len(a: usize, b: usize) -> Result<(), Fail> {
    if a == b {
        Ok(())
    } else {
        Err(BADREQ)
    }
}

fn opt_ed(r: Option<EdwardsPoint>) -> R {
    match r {
        Some(p) => ok_ed(&p),
        None => Err(Fail::None),
    }
}

/// Arguments of the precomputed ops, validated in the agreed order:
/// hex/`~` syntax, then decompression, then length relations.
struct PreArgs {
    static_scalars: Vec<Scalar>,
    static_points: Vec<EdwardsPoint>,
    dyn_scalars: Vec<Scalar>,
    dyn_points: Vec<Option<EdwardsPoint>>,
}

fn pre_args(a: &[&str], allow_absent: bool) -> Result<PreArgs, Fail> {
    arity(a, 4)?;
    // syntax of everything first
    let static_scalars = sc_list(a[0])?;
    let dyn_scalars = sc_list(a[2])?;
    let sp: Vec<Option<CompressedEdwardsY>> = list(a[1])?
        .into_iter()
        .map(|s| ced(s).map(Some))
        .collect::<Result<_, _>>()?;
    let mut dp: Vec<Option<CompressedEdwardsY>> = Vec::new();
    for item in list(a[3])? {
        if item == "~" {
            if !allow_absent {
                return Err(BADREQ);
            }
            dp.push(None);
        } else {
            dp.push(Some(ced(item)?));
        }
    }
    // then points
    let static_points: Vec<EdwardsPoint> = sp
        .iter()
        .map(|c| dec_ed(c.as_ref().unwrap()))
        .collect::<Result<_, _>>()?;
    let dyn_points: Vec<Option<EdwardsPoint>> = dp
        .iter()
        .map(|c| match c {
            None => Ok(None),
            Some(c) => dec_ed(c).map(Some),
        })
        .collect::<Result<_, _>>()?;
    // then lengths
    if static_scalars.len() > static_points.len() {
        return Err(BADREQ);
    }
    check_same_len(dyn_scalars.len(), dyn_points.len())?;
    Ok(PreArgs {
        static_scalars,
        static_points,
        dyn_scalars,
        dyn_points,
    })
}

/// (scalars, points) of the plain MSM ops, same validation order.
fn msm_args(
    a: &[&str],
    allow_absent: bool,
) -> Result<(Vec<Scalar>, Vec<Option<EdwardsPoint>>), Fail> {
    arity(a, 2)?;
    let scalars = sc_list(a[0])?;
    let points = ed_opt_list(a[1], allow_absent)?;
    check_same_len(scalars.len(), points.len())?;
    Ok((scalars, points))
}

#[cfg(feature = "tables")]
fn table_op(radix: i128, p: &EdwardsPoint, s: &Scalar) -> R {
    use curve25519_dalek::edwards::{
        EdwardsBasepointTableRadix128, EdwardsBasepointTableRadix16, EdwardsBasepointTableRadix256,
        EdwardsBasepointTableRadix32, EdwardsBasepointTableRadix64,
    };
    use curve25519_dalek::traits::BasepointTable;
    macro_rules! go {
        ($t:ty) => {{
            let t = <$t>::create(p);
            let q = t.mul_base(s);
            let b = t.basepoint();
            (q, b)
        }};
    }
    let (q, b) = match radix {
        16 => go!(EdwardsBasepointTableRadix16),
        32 => go!(EdwardsBasepointTableRadix32),
        64 => go!(EdwardsBasepointTableRadix64),
        128 => go!(EdwardsBasepointTableRadix128),
        256 => go!(EdwardsBasepointTableRadix256),
        _ => return Err(BADREQ),
    };
    let mut o = String::new();
    push_ed(&mut o, &q);
    push_ed(&mut o, &b);
    Ok(o)
}

#[cfg(not(feature = "tables"))]
fn table_op(radix: i128, _p: &EdwardsPoint, _s: &Scalar) -> R {
    match radix {
        16 | 32 | 64 | 128 | 256 => Err(Fail::Skip),
        _ => Err(BADREQ),
    }
}

/// `X Y Z T` as four INT LISTs of raw field limbs -> `EdwardsPoint` through the
/// hook `edwards_from_coords_limbs` (no validity check, no reduction).
fn point_from_limbs(a: &[&str]) -> Result<EdwardsPoint, Fail> {
    // a limb list of the OTHER field width (5 x u64 vs 10 x u32) is not
    // malformed, just not servable by this build
    for s in &a[..4] {
        let n = list(s)?.len();
        if n != vh::FE_NLIMBS && (n == 5 || n == 10) {
            return Err(Fail::Skip);
        }
    }
    let l = |s: &str| limbs::<vh::FeLimb, { vh::FE_NLIMBS }>(s);
    Ok(vh::edwards_from_coords_limbs(&[
        l(a[0])?,
        l(a[1])?,
        l(a[2])?,
        l(a[3])?,
    ]))
}

/// `ed.direct.<copy>.<alg>`
fn direct_op(copy: &str, alg: &str, a: &[&str]) -> R {
    const ALGS: &[&str] = &[
        "mul",
        "double_base",
        "double_base_raw",
        "straus_ct",
        "straus_vt",
        "pippenger",
        "pre",
        // extras: the point formulas of that copy
        "double",
        "add",
        "sub",
        // P given as raw coordinate limbs (possibly unreduced)
        "mul_limbs",
    ];
    if !["serial", "avx2", "ifma"].contains(&copy) || !ALGS.contains(&alg) {
        return Err(BADREQ);
    }

    // Parse everything first so that every copy sees the same validation.
    enum Job {
        Mul(EdwardsPoint, Scalar),
        Double(Scalar, EdwardsPoint, Scalar),
        StrausCt(Vec<Scalar>, Vec<EdwardsPoint>),
        StrausVt(Vec<Scalar>, Vec<Option<EdwardsPoint>>),
        Pippenger(Vec<Scalar>, Vec<Option<EdwardsPoint>>),
        Pre(PreArgs),
        PointDouble(EdwardsPoint),
        PointAdd(EdwardsPoint, EdwardsPoint, bool),
    }
    let job = match alg {
        "mul_limbs" => {
            arity(a, 5)?;
            let p = point_from_limbs(a)?;
            Job::Mul(p, sc_raw(a[4])?)
        }
        "double" => {
            arity(a, 1)?;
            Job::PointDouble(pt(a[0])?)
        }
        "add" | "sub" => {
            arity(a, 2)?;
            let (c, d) = (ced(a[0])?, ced(a[1])?);
            Job::PointAdd(dec_ed(&c)?, dec_ed(&d)?, alg == "sub")
        }
        "mul" => {
            arity(a, 2)?;
            let c = ced(a[0])?;
            let s = sc_raw(a[1])?;
            Job::Mul(dec_ed(&c)?, s)
        }
        "double_base" | "double_base_raw" => {
            arity(a, 3)?;
            let f = if alg == "double_base" { sc } else { sc_raw };
            let (x, c, y) = (f(a[0])?, ced(a[1])?, f(a[2])?);
            Job::Double(x, dec_ed(&c)?, y)
        }
        "straus_ct" => {
            let (s, p) = msm_args(a, false)?;
            Job::StrausCt(s, p.into_iter().flatten().collect())
        }
        "straus_vt" => {
            let (s, p) = msm_args(a, true)?;
            Job::StrausVt(s, p)
        }
        "pippenger" => {
            let (s, p) = msm_args(a, true)?;
            Job::Pippenger(s, p)
        }
        _ => Job::Pre(pre_args(a, true)?),
    };

    // Vector hooks return `None` (outer) when the CPU lacks the instruction
    // set (=> skip); the inner Option is the library's own result.
    #[allow(unused_macros)]
    macro_rules! run_vector {
        ($m:ident) => {{
            use vh::$m as m;
            match &job {
                Job::Mul(p, s) => m::variable_base_mul(p, s).map(Some),
                Job::Double(x, p, y) => m::vartime_double_base_mul(x, p, y).map(Some),
                Job::StrausCt(s, p) => m::straus_multiscalar_mul(s, p).map(Some),
                Job::StrausVt(s, p) => m::straus_optional_multiscalar_mul(s, p),
                Job::Pippenger(s, p) => m::pippenger_optional_multiscalar_mul(s, p),
                Job::Pre(x) => m::precomputed_straus_optional_mixed_multiscalar_mul(
                    &x.static_points,
                    &x.static_scalars,
                    &x.dyn_scalars,
                    &x.dyn_points,
                ),
                Job::PointDouble(p) => m::edwards_double(p).map(Some),
                Job::PointAdd(p, q, sub) => m::edwards_add(p, q, *sub).map(Some),
            }
        }};
    }

    let res: Option<Option<EdwardsPoint>> = match copy {
        "serial" => {
            use vh::serial as m;
            Some(match &job {
                Job::Mul(p, s) => Some(m::variable_base_mul(p, s)),
                Job::Double(x, p, y) => Some(m::vartime_double_base_mul(x, p, y)),
                Job::StrausCt(s, p) => Some(m::straus_multiscalar_mul(s, p)),
                Job::StrausVt(s, p) => m::straus_optional_multiscalar_mul(s, p),
                Job::Pippenger(s, p) => m::pippenger_optional_multiscalar_mul(s, p),
                Job::Pre(x) => m::precomputed_straus_optional_mixed_multiscalar_mul(
                    &x.static_points,
                    &x.static_scalars,
                    &x.dyn_scalars,
                    &x.dyn_points,
                ),
                Job::PointDouble(p) => Some(vh::edwards_double(p)),
                Job::PointAdd(p, q, sub) => Some(if *sub { p - q } else { p + q }),
            })
        }
        "avx2" => {
            #[cfg(hv_simd)]
            {
                run_vector!(avx2)
            }
            #[cfg(not(hv_simd))]
            {
                None
            }
        }
        _ => {
            #[cfg(hv_ifma)]
            {
                run_vector!(ifma)
            }
            #[cfg(not(hv_ifma))]
            {
                None
            }
        }
    };
    match res {
        None => Err(Fail::Skip),
        Some(r) => opt_ed(r),
    }
}

pub fn ed_op(op: &str, a: &[&str]) -> R {
    if let Some(rest) = op.strip_prefix("direct.") {
        let (copy, alg) = rest.split_once('.').ok_or(BADREQ)?;
        return direct_op(copy, alg, a);
    }
    let mut o = String::new();
    match op {
        "seq" => {
            arity(a, 1)?;
            for r in run_program(a[0])? {
                match r {
                    Reg::P(p) => push_ed(&mut o, &p),
                    Reg::B(b) => push_bool(&mut o, b),
                }
            }
        }
        "coords" => {
            arity(a, 1)?;
            let regs = run_program(a[0])?;
            if regs.iter().any(|r| matches!(r, Reg::B(_))) {
                return Err(BADREQ);
            }
            match regs.last() {
                Some(Reg::P(p)) => {
                    for c in vh::edwards_coords(p) {
                        push_hex(&mut o, &c);
                    }
                }
                _ => return Err(BADREQ),
            }
        }
        "decompress" => {
            arity(a, 1)?;
            let p = CompressedEdwardsY(hx::<32>(a[0])?)
                .decompress()
                .ok_or(Fail::None)?;
            push_ed(&mut o, &p);
            let (x, y) = vh::edwards_affine(&p);
            push_hex(&mut o, &x);
            push_hex(&mut o, &y);
        }
        "mul_base" => {
            arity(a, 1)?;
            return ok_ed(&EdwardsPoint::mul_base(&sc(a[0])?));
        }
        "mul_base_raw" => {
            arity(a, 1)?;
            return ok_ed(&EdwardsPoint::mul_base(&sc_raw(a[0])?));
        }
        "mul_base_clamped" => {
            arity(a, 1)?;
            return ok_ed(&EdwardsPoint::mul_base_clamped(hx::<32>(a[0])?));
        }
        "mul_clamped" => {
            arity(a, 2)?;
            let c = ced(a[0])?;
            let b = hx::<32>(a[1])?;
            return ok_ed(&dec_ed(&c)?.mul_clamped(b));
        }
        "mul_raw" => {
            arity(a, 2)?;
            let c = ced(a[0])?;
            let s = sc_raw(a[1])?;
            return ok_ed(&(&dec_ed(&c)? * &s));
        }
        // variable-base mul of the run-time selected backend on a point given
        // as raw (possibly unreduced) coordinate limbs
        "mul_raw_limbs" => {
            arity(a, 5)?;
            let p = point_from_limbs(a)?;
            let s = sc_raw(a[4])?;
            return ok_ed(&(&p * &s));
        }
        "to_montgomery" => {
            arity(a, 1)?;
            return ok_hex(pt(a[0])?.to_montgomery().as_bytes());
        }
        "table" | "table_raw" => {
            arity(a, 3)?;
            let radix = int(a[0])?;
            let c = ced(a[1])?;
            let s = if op == "table" { sc(a[2])? } else { sc_raw(a[2])? };
            if ![16, 32, 64, 128, 256].contains(&radix) {
                return Err(BADREQ);
            }
            return table_op(radix, &dec_ed(&c)?, &s);
        }
        "basepoint_table" => {
            arity(a, 1)?;
            let s = sc(a[0])?;
            #[cfg(feature = "tables")]
            {
                return ok_ed(&(constants::ED25519_BASEPOINT_TABLE * &s));
            }
            #[cfg(not(feature = "tables"))]
            {
                let _ = s;
                return Err(Fail::Skip);
            }
        }
        "double_base" | "double_base_raw" => {
            arity(a, 3)?;
            let f = if op == "double_base" { sc } else { sc_raw };
            let (x, c, y) = (f(a[0])?, ced(a[1])?, f(a[2])?);
            let p = dec_ed(&c)?;
            return ok_ed(&EdwardsPoint::vartime_double_scalar_mul_basepoint(
                &x, &p, &y,
            ));
        }
        "msm_ct" => {
            let (s, p) = msm_args(a, false)?;
            let p: Vec<EdwardsPoint> = p.into_iter().flatten().collect();
            return ok_ed(&EdwardsPoint::multiscalar_mul(s.iter(), p.iter()));
        }
        "msm_vt" => {
            let (s, p) = msm_args(a, false)?;
            let p: Vec<EdwardsPoint> = p.into_iter().flatten().collect();
            return ok_ed(&EdwardsPoint::vartime_multiscalar_mul(s.iter(), p.iter()));
        }
        "msm_opt" => {
            let (s, p) = msm_args(a, true)?;
            return opt_ed(EdwardsPoint::optional_multiscalar_mul(
                s.iter(),
                p.iter().copied(),
            ));
        }
        "msm_pre" => {
            let x = pre_args(a, false)?;
            let pre = VartimeEdwardsPrecomputation::new(x.static_points.iter());
            let dp: Vec<EdwardsPoint> = x.dyn_points.iter().copied().flatten().collect();
            return ok_ed(&pre.vartime_mixed_multiscalar_mul(
                x.static_scalars.iter(),
                x.dyn_scalars.iter(),
                dp.iter(),
            ));
        }
        "msm_pre_opt" => {
            let x = pre_args(a, true)?;
            let pre = VartimeEdwardsPrecomputation::new(x.static_points.iter());
            return opt_ed(pre.optional_mixed_multiscalar_mul(
                x.static_scalars.iter(),
                x.dyn_scalars.iter(),
                x.dyn_points.iter().copied(),
            ));
        }
        "select" | "select_affine" => {
            arity(a, 2)?;
            let c = ced(a[0])?;
            let x = int_in(a[1], -8, 8)? as i8;
            let p = dec_ed(&c)?;
            return ok_ed(&if op == "select" {
                vh::lookup_table_select_projective_niels(&p, x)
            } else {
                vh::lookup_table_select_affine_niels(&p, x)
            });
        }
        "nonspec_map" => {
            arity(a, 1)?;
            let m = unhex(a[0])?;
            #[allow(deprecated)]
            let p = EdwardsPoint::nonspec_map_to_curve::<Sha512>(&m);
            return ok_ed(&p);
        }
        // `nonspec_map_to_curve` with an identity "digest": reaches the
        // exceptional Elligator inputs no SHA-512 preimage search can reach
        "nonspec_map_raw" => {
            arity(a, 1)?;
            let b = hx::<64>(a[0])?;
            #[allow(deprecated)]
            let p = EdwardsPoint::nonspec_map_to_curve::<PassThrough>(&b);
            return ok_ed(&p);
        }
        "from_slice" => {
            arity(a, 1)?;
            let b = unhex(a[0])?;
            return match CompressedEdwardsY::from_slice(&b) {
                Ok(c) => ok_hex(c.as_bytes()),
                Err(_) => Err(Fail::Err),
            };
        }
        // extra: build a point from raw coordinates (hook), no validity check
        "from_coords" => {
            arity(a, 4)?;
            let c = [
                hx::<32>(a[0])?,
                hx::<32>(a[1])?,
                hx::<32>(a[2])?,
                hx::<32>(a[3])?,
            ];
            let p = vh::edwards_from_coords(&c);
            push_ed(&mut o, &p);
            push_bool(&mut o, vh::edwards_is_valid(&p));
        }
        // `ed.compress P`: used by --ct; also served here
        "compress" => {
            arity(a, 1)?;
            return ok_ed(&pt(a[0])?);
        }
        _ => return Err(BADREQ),
    }
    Ok(o)
}

/// A `Digest<OutputSize = U64> + Default` whose output is its input: the
/// updates are buffered and the first 64 bytes (zero padded) are returned.
#[derive(Default, Clone)]
pub struct PassThrough(Vec<u8>);

mod passthrough_impl {
    use super::PassThrough;
    use curve25519_dalek::digest::consts::U64;
    use curve25519_dalek::digest::{FixedOutput, HashMarker, Output, OutputSizeUser, Reset, Update};

    impl OutputSizeUser for PassThrough {
        type OutputSize = U64;
    }
    impl Update for PassThrough {
        fn update(&mut self, data: &[u8]) {
            self.0.extend_from_slice(data);
        }
    }
    impl FixedOutput for PassThrough {
        fn finalize_into(self, out: &mut Output<Self>) {
            for (i, o) in out.iter_mut().enumerate() {
                *o = self.0.get(i).copied().unwrap_or(0);
            }
        }
    }
    impl Reset for PassThrough {
        fn reset(&mut self) {
            self.0.clear();
        }
    }
    impl HashMarker for PassThrough {}
}

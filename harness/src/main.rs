//! Differential-testing driver for the curve25519-dalek workspace.
//!
//! Line protocol: /verif/PROTOCOL.md.  Special modes: README.md.

#![allow(non_snake_case)]
#![allow(clippy::needless_return)]

mod ct;
mod ops_edwards;
mod ops_eds;
mod ops_field;
mod ops_misc;
mod ops_mont;
mod ops_ristretto;
mod ops_scalar;
mod util;
mod zero;

use curve25519_dalek::verif_hooks as vh;
use std::io::{BufRead, BufWriter, Write};
use std::panic::{catch_unwind, AssertUnwindSafe};
use util::{Fail, R};

#[global_allocator]
static GLOBAL: zero::RecAlloc = zero::RecAlloc;

/// Serve one ordinary protocol request.
fn dispatch(op: &str, a: &[&str]) -> R {
    let (family, rest) = op.split_once('.').ok_or(Fail::BadReq)?;
    match family {
        "fe" => ops_field::fe_op(rest, a),
        "fel51" => ops_field::fel_op(51, false, false, rest, a),
        "fel26" => ops_field::fel_op(26, false, false, rest, a),
        "felv51" => ops_field::fel_op(51, true, false, rest, a),
        "felv26" => ops_field::fel_op(26, true, false, rest, a),
        // limb-exact ops of the fiat wrapper backends (answered by fiat drivers only)
        "felF51" => ops_field::fel_op(51, false, true, rest, a),
        "felF26" => ops_field::fel_op(26, false, true, rest, a),
        "vfe" => {
            let (isa, vop) = rest.split_once('.').ok_or(Fail::BadReq)?;
            ops_field::vfe_op(false, isa, vop, a)
        }
        "vfel" => {
            let (isa, vop) = rest.split_once('.').ok_or(Fail::BadReq)?;
            ops_field::vfe_op(true, isa, vop, a)
        }
        "sc" => ops_scalar::sc_op(rest, a),
        "scl52" => ops_scalar::scl_op(52, rest, a),
        "scl29" => ops_scalar::scl_op(29, rest, a),
        "ed" => ops_edwards::ed_op(rest, a),
        "mont" => ops_mont::mont_op(rest, a),
        "x" => ops_mont::x_op(rest, a),
        "ris" => ops_ristretto::ris_op(rest, a),
        "eds" => ops_eds::eds_op(rest, a),
        "serde" => ops_misc::serde_op(rest, a),
        "grp" => ops_misc::grp_op(rest, a),
        _ => Err(Fail::BadReq),
    }
}

fn render(out: &mut Vec<u8>, r: std::thread::Result<R>) {
    match r {
        Ok(Ok(fields)) => {
            out.extend_from_slice(b"ok");
            out.extend_from_slice(fields.as_bytes());
        }
        Ok(Err(Fail::BadReq)) => out.extend_from_slice(b"err badreq"),
        Ok(Err(Fail::BadPoint)) => out.extend_from_slice(b"err badpoint"),
        Ok(Err(Fail::None)) => out.extend_from_slice(b"none"),
        Ok(Err(Fail::Err)) => out.extend_from_slice(b"err"),
        Ok(Err(Fail::Skip)) => out.extend_from_slice(b"skip"),
        Err(_) => out.extend_from_slice(b"panic"),
    }
    out.push(b'\n');
}

fn serve_line(line: &str, f: &dyn Fn(&str, &[&str]) -> R) -> std::thread::Result<R> {
    // fields are separated by single spaces; anything else is malformed
    let mut parts = line.split(' ');
    let op = parts.next().unwrap_or("");
    let args: Vec<&str> = parts.collect();
    if op.is_empty() || args.iter().any(|s| s.is_empty()) {
        return Ok(Err(Fail::BadReq));
    }
    catch_unwind(AssertUnwindSafe(|| f(op, &args)))
}

fn overflow_checks_on() -> bool {
    catch_unwind(|| {
        let x: u8 = std::hint::black_box(255);
        #[allow(arithmetic_overflow)]
        let y = x + std::hint::black_box(1);
        std::hint::black_box(y);
    })
    .is_err()
}

fn info_line() -> String {
    #[cfg(hv_simd)]
    let avx2 = vh::avx2::available() as u8;
    #[cfg(not(hv_simd))]
    let avx2 = 0u8;
    #[cfg(hv_ifma)]
    let ifma = vh::ifma::available() as u8;
    #[cfg(not(hv_ifma))]
    let ifma = 0u8;
    format!(
        "backend={} bits={} tables={} legacy={} avx2_compiled={} ifma_compiled={} avx2={} ifma={} \
         debug_assertions={} overflow_checks={} lib_debug_assertions={} fe_limbs={}x{} sc_limbs={}x{}",
        vh::BACKEND,
        vh::BITS,
        cfg!(feature = "tables") as u8,
        cfg!(feature = "legacy") as u8,
        cfg!(hv_simd) as u8,
        cfg!(hv_ifma) as u8,
        avx2,
        ifma,
        cfg!(debug_assertions) as u8,
        overflow_checks_on() as u8,
        vh::DEBUG_ASSERTIONS as u8,
        vh::FE_NLIMBS,
        vh::FE_RADIX_BITS,
        vh::SC_NLIMBS,
        vh::SC_RADIX_BITS,
    )
}

fn serve_stdin(f: &dyn Fn(&str, &[&str]) -> R, flush_each: bool) {
    let stdin = std::io::stdin();
    let mut inp = stdin.lock();
    let stdout = std::io::stdout();
    let mut out = BufWriter::with_capacity(1 << 20, stdout.lock());
    let mut line = String::new();
    let mut buf: Vec<u8> = Vec::with_capacity(1 << 12);
    loop {
        line.clear();
        match inp.read_line(&mut line) {
            Ok(0) => break,
            Ok(_) => {}
            Err(_) => {
                // not valid UTF-8 etc.: one response for the offending line
                let _ = out.write_all(b"err badreq\n");
                continue;
            }
        }
        let l = line.strip_suffix('\n').unwrap_or(&line);
        let l = l.strip_suffix('\r').unwrap_or(l);
        buf.clear();
        render(&mut buf, serve_line(l, f));
        let _ = out.write_all(&buf);
        if flush_each {
            let _ = out.flush();
        }
    }
    let _ = out.flush();
}

fn real_main() -> i32 {
    // panics are reported as `panic` on stdout, nothing on stderr
    std::panic::set_hook(Box::new(|_| {}));

    let args: Vec<String> = std::env::args().skip(1).collect();
    let has = |f: &str| args.iter().any(|a| a == f);

    if has("--info") {
        println!("{}", info_line());
        return 0;
    }
    if let Some(i) = args.iter().position(|a| a == "--ct") {
        // everything after --ct is the op line (one argv entry or several)
        let line = args[i + 1..].join(" ");
        let mut buf = Vec::new();
        render(&mut buf, serve_line(&line, &|op, a| ct::run(op, a)));
        let _ = std::io::stdout().write_all(&buf);
        return 0;
    }
    let flush_each = has("--flush");
    if has("--zero") {
        let dump = has("--dump");
        serve_stdin(&move |op, a| zero::zero_op(op, a, dump), flush_each);
        return 0;
    }
    if let Some(bad) = args.iter().find(|a| *a != "--flush") {
        eprintln!("driver: unknown argument {bad:?}");
        eprintln!("usage: driver [--flush] | --info | --zero [--dump] [--flush] | --ct OP ARG...");
        return 2;
    }
    serve_stdin(&dispatch, flush_each);
    0
}

fn main() {
    // Large tables (e.g. EdwardsBasepointTableRadix256, ~0.5 MB) are built by
    // value; give the worker a roomy stack, in particular for `checked` builds.
    // `--ct` / `--info` stay on the main thread (simpler for external tracers).
    if std::env::args().any(|a| a == "--ct" || a == "--info") {
        std::process::exit(real_main());
    }
    let h = std::thread::Builder::new()
        .stack_size(256 << 20)
        .spawn(real_main)
        .expect("spawn worker");
    let code = h.join().unwrap_or(101);
    std::process::exit(code);
}

//! `ris.*`

use crate::util::*;
use curve25519_dalek::constants;
use curve25519_dalek::ristretto::{
    CompressedRistretto, RistrettoPoint, VartimeRistrettoPrecomputation,
};
use curve25519_dalek::scalar::Scalar;
use curve25519_dalek::traits::{
    Identity, IsIdentity, MultiscalarMul, VartimeMultiscalarMul, VartimePrecomputedMultiscalarMul,
};
use curve25519_dalek::verif_hooks as vh;
use sha2::Sha512;

#[derive(Clone, Copy)]
enum Reg {
    P(RistrettoPoint),
    B(bool),
}

fn reg_pt(regs: &[Reg], s: &str) -> Result<RistrettoPoint, Fail> {
    let i = uint(s)?;
    if i >= regs.len() as u128 {
        return Err(BADREQ);
    }
    match regs[i as usize] {
        Reg::P(p) => Ok(p),
        Reg::B(_) => Err(BADREQ),
    }
}

fn run_program(prog: &str) -> Result<Vec<Reg>, Fail> {
    let mut regs: Vec<Reg> = Vec::new();
    if prog.is_empty() {
        return Err(BADREQ);
    }
    for ins in prog.split(';') {
        let opc = ins.chars().next().ok_or(BADREQ)?;
        if !opc.is_ascii() {
            return Err(BADREQ);
        }
        let rest = &ins[1..];
        let args: Vec<&str> = if rest.is_empty() {
            Vec::new()
        } else {
            rest.split(',').collect()
        };
        let want = |n: usize| if args.len() == n { Ok(()) } else { Err(BADREQ) };
        let r = match opc {
            'D' => {
                want(1)?;
                match CompressedRistretto(hx::<32>(args[0])?).decompress() {
                    Some(p) => Reg::P(p),
                    None => return Err(Fail::None),
                }
            }
            'I' => {
                want(0)?;
                Reg::P(RistrettoPoint::identity())
            }
            'G' => {
                want(0)?;
                Reg::P(constants::RISTRETTO_BASEPOINT_POINT)
            }
            'H' => {
                want(1)?;
                Reg::P(RistrettoPoint::from_uniform_bytes(&hx::<64>(args[0])?))
            }
            'Q' => {
                want(2)?;
                let p = reg_pt(&regs, args[0])?;
                let j = int_in(args[1], 0, 3)? as usize;
                Reg::P(vh::ristretto_add_torsion(&p, j))
            }
            'A' => {
                want(2)?;
                Reg::P(&reg_pt(&regs, args[0])? + &reg_pt(&regs, args[1])?)
            }
            'S' => {
                want(2)?;
                Reg::P(&reg_pt(&regs, args[0])? - &reg_pt(&regs, args[1])?)
            }
            'N' => {
                want(1)?;
                Reg::P(-&reg_pt(&regs, args[0])?)
            }
            'M' => {
                want(2)?;
                let p = reg_pt(&regs, args[0])?;
                Reg::P(&p * &sc(args[1])?)
            }
            'U' => {
                let pts: Vec<RistrettoPoint> = args
                    .iter()
                    .map(|s| reg_pt(&regs, s))
                    .collect::<Result<_, _>>()?;
                Reg::P(pts.iter().sum::<RistrettoPoint>())
            }
            'K' | 'J' | 'W' | 'Y' => {
                want(3)?;
                let (a, b) = (reg_pt(&regs, args[0])?, reg_pt(&regs, args[1])?);
                let c = subtle::Choice::from(int_in(args[2], 0, 1)? as u8);
                use subtle::ConditionallySelectable;
                match opc {
                    'K' => Reg::P(RistrettoPoint::conditional_select(&a, &b, c)),
                    'J' => {
                        let mut p = a;
                        p.conditional_assign(&b, c);
                        Reg::P(p)
                    }
                    _ => {
                        let (mut p, mut q) = (a, b);
                        RistrettoPoint::conditional_swap(&mut p, &mut q, c);
                        Reg::P(if opc == 'W' { p } else { q })
                    }
                }
            }
            'L' => {
                want(2)?;
                let mut p = reg_pt(&regs, args[0])?;
                let c = subtle::Choice::from(int_in(args[1], 0, 1)? as u8);
                use subtle::ConditionallyNegatable;
                p.conditional_negate(c);
                Reg::P(p)
            }
            'E' => {
                want(2)?;
                Reg::B(reg_pt(&regs, args[0])? == reg_pt(&regs, args[1])?)
            }
            'Z' => {
                want(1)?;
                Reg::B(reg_pt(&regs, args[0])?.is_identity())
            }
            _ => return Err(BADREQ),
        };
        regs.push(r);
    }
    Ok(regs)
}

fn opt_ris(r: Option<RistrettoPoint>) -> R {
    match r {
        Some(p) => ok_ris(&p),
        None => Err(Fail::None),
    }
}

fn msm_args(
    a: &[&str],
    allow_absent: bool,
) -> Result<(Vec<Scalar>, Vec<Option<RistrettoPoint>>), Fail> {
    arity(a, 2)?;
    let scalars = sc_list(a[0])?;
    let points = ris_opt_list(a[1], allow_absent)?;
    if scalars.len() != points.len() {
        return Err(BADREQ);
    }
    Ok((scalars, points))
}

pub fn ris_op(op: &str, a: &[&str]) -> R {
    let mut o = String::new();
    match op {
        "seq" => {
            arity(a, 1)?;
            for r in run_program(a[0])? {
                match r {
                    Reg::P(p) => push_ris(&mut o, &p),
                    Reg::B(b) => push_bool(&mut o, b),
                }
            }
        }
        "decompress" => {
            arity(a, 1)?;
            let p = CompressedRistretto(hx::<32>(a[0])?)
                .decompress()
                .ok_or(Fail::None)?;
            return ok_ris(&p);
        }
        "from_uniform" => {
            arity(a, 1)?;
            return ok_ris(&RistrettoPoint::from_uniform_bytes(&hx::<64>(a[0])?));
        }
        "elligator" => {
            arity(a, 1)?;
            return ok_ris(&vh::elligator_ristretto_flavor(&hx::<32>(a[0])?));
        }
        "double_compress_batch" => {
            arity(a, 1)?;
            let pts = ris_list(a[0])?;
            let r = RistrettoPoint::double_and_compress_batch(pts.iter());
            push_hex_list(&mut o, r.iter().map(|c| c.to_bytes()));
        }
        // `ris.double_compress_batch_rep LIST` with items `ENC:j`: the element ENC held as its j-th coset representative
        // (`P + EIGHT_TORSION[2j]`, hook `ristretto_add_torsion`): same group elements, different internal representatives
        "double_compress_batch_rep" => {
            arity(a, 1)?;
            let mut pts = Vec::new();
            for it in list(a[0])? {
                let (e, j) = it.split_once(':').ok_or(BADREQ)?;
                let j: usize = j.parse().map_err(|_| BADREQ)?;
                if j > 3 {
                    return Err(BADREQ);
                }
                let p = dec_ris(&curve25519_dalek::ristretto::CompressedRistretto(hx::<32>(e)?))?;
                pts.push(vh::ristretto_add_torsion(&p, j));
            }
            let r = RistrettoPoint::double_and_compress_batch(pts.iter());
            push_hex_list(&mut o, r.iter().map(|c| c.to_bytes()));
        }
        "msm_ct" => {
            let (s, p) = msm_args(a, false)?;
            let p: Vec<RistrettoPoint> = p.into_iter().flatten().collect();
            return ok_ris(&RistrettoPoint::multiscalar_mul(s.iter(), p.iter()));
        }
        "msm_vt" => {
            let (s, p) = msm_args(a, false)?;
            let p: Vec<RistrettoPoint> = p.into_iter().flatten().collect();
            return ok_ris(&RistrettoPoint::vartime_multiscalar_mul(s.iter(), p.iter()));
        }
        "msm_opt" => {
            let (s, p) = msm_args(a, true)?;
            return opt_ris(RistrettoPoint::optional_multiscalar_mul(
                s.iter(),
                p.iter().copied(),
            ));
        }
        "msm_pre" => {
            arity(a, 4)?;
            let static_scalars = sc_list(a[0])?;
            let dyn_scalars = sc_list(a[2])?;
            // syntax of both point lists, then decompression, then lengths
            let sp: Vec<CompressedRistretto> = list(a[1])?
                .into_iter()
                .map(cris)
                .collect::<Result<_, _>>()?;
            let mut dp: Vec<Option<CompressedRistretto>> = Vec::new();
            for item in list(a[3])? {
                dp.push(if item == "~" { None } else { Some(cris(item)?) });
            }
            let static_points: Vec<RistrettoPoint> =
                sp.iter().map(dec_ris).collect::<Result<_, _>>()?;
            let dyn_points: Vec<Option<RistrettoPoint>> = dp
                .iter()
                .map(|c| match c {
                    None => Ok(None),
                    Some(c) => dec_ris(c).map(Some),
                })
                .collect::<Result<_, _>>()?;
            if static_scalars.len() > static_points.len() || dyn_scalars.len() != dyn_points.len()
            {
                return Err(BADREQ);
            }
            let pre = VartimeRistrettoPrecomputation::new(static_points.iter());
            return opt_ris(pre.optional_mixed_multiscalar_mul(
                static_scalars.iter(),
                dyn_scalars.iter(),
                dyn_points.iter().copied(),
            ));
        }
        "mul_base" => {
            arity(a, 1)?;
            return ok_ris(&RistrettoPoint::mul_base(&sc(a[0])?));
        }
        "table" => {
            arity(a, 1)?;
            let s = sc(a[0])?;
            #[cfg(feature = "tables")]
            {
                return ok_ris(&(constants::RISTRETTO_BASEPOINT_TABLE * &s));
            }
            #[cfg(not(feature = "tables"))]
            {
                let _ = s;
                return Err(Fail::Skip);
            }
        }
        "double_base" => {
            arity(a, 3)?;
            let (x, c, y) = (sc(a[0])?, cris(a[1])?, sc(a[2])?);
            let p = dec_ris(&c)?;
            return ok_ris(&RistrettoPoint::vartime_double_scalar_mul_basepoint(
                &x, &p, &y,
            ));
        }
        "from_slice" => {
            arity(a, 1)?;
            let b = unhex(a[0])?;
            return match CompressedRistretto::from_slice(&b) {
                Ok(c) => ok_hex(c.as_bytes()),
                Err(_) => Err(Fail::Err),
            };
        }
        "from_hash" => {
            arity(a, 1)?;
            let m = unhex(a[0])?;
            return ok_ris(&RistrettoPoint::hash_from_bytes::<Sha512>(&m));
        }
        // used by --ct; also served here
        "compress" => {
            arity(a, 1)?;
            return ok_ris(&rpt(a[0])?);
        }
        _ => return Err(BADREQ),
    }
    Ok(o)
}

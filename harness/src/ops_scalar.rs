//! `sc.*`, `scl52.*`, `scl29.*`

use crate::util::*;
use curve25519_dalek::scalar::{clamp_integer, Scalar};
use curve25519_dalek::verif_hooks as vh;
use sha2::Sha512;

fn ok_sc(s: &Scalar) -> R {
    ok_hex(s.as_bytes())
}

pub fn sc_op(op: &str, a: &[&str]) -> R {
    let mut o = String::new();
    match op {
        "reduce" => {
            arity(a, 1)?;
            return ok_sc(&Scalar::from_bytes_mod_order(hx::<32>(a[0])?));
        }
        "reduce_wide" => {
            arity(a, 1)?;
            return ok_sc(&Scalar::from_bytes_mod_order_wide(&hx::<64>(a[0])?));
        }
        "canonical" => {
            arity(a, 1)?;
            let r: Option<Scalar> = Scalar::from_canonical_bytes(hx::<32>(a[0])?).into();
            return match r {
                Some(s) => ok_sc(&s),
                None => Err(Fail::None),
            };
        }
        "add" | "sub" | "mul" => {
            arity(a, 2)?;
            let (x, y) = (sc(a[0])?, sc(a[1])?);
            return ok_sc(&match op {
                "add" => &x + &y,
                "sub" => &x - &y,
                _ => &x * &y,
            });
        }
        "neg" => {
            arity(a, 1)?;
            return ok_sc(&-&sc(a[0])?);
        }
        "invert" => {
            arity(a, 1)?;
            return ok_sc(&sc(a[0])?.invert());
        }
        "batch_invert" => {
            arity(a, 1)?;
            let mut v = sc_list(a[0])?;
            let ret = Scalar::batch_invert(&mut v);
            push_hex(&mut o, ret.as_bytes());
            push_hex_list(&mut o, v.iter().map(|s| s.to_bytes()));
        }
        "sum" => {
            arity(a, 1)?;
            let v = sc_list(a[0])?;
            return ok_sc(&v.iter().sum::<Scalar>());
        }
        "product" => {
            arity(a, 1)?;
            let v = sc_list(a[0])?;
            return ok_sc(&v.iter().product::<Scalar>());
        }
        "from_u" => {
            arity(a, 2)?;
            let bits = int(a[0])?;
            let v = uint(a[1])?;
            let s = match bits {
                8 => Scalar::from(u8::try_from(v).map_err(|_| BADREQ)?),
                16 => Scalar::from(u16::try_from(v).map_err(|_| BADREQ)?),
                32 => Scalar::from(u32::try_from(v).map_err(|_| BADREQ)?),
                64 => Scalar::from(u64::try_from(v).map_err(|_| BADREQ)?),
                128 => Scalar::from(v),
                _ => return Err(BADREQ),
            };
            return ok_sc(&s);
        }
        "from_hash" => {
            arity(a, 1)?;
            let m = unhex(a[0])?;
            return ok_sc(&Scalar::hash_from_bytes::<Sha512>(&m));
        }
        "clamp" => {
            arity(a, 1)?;
            return ok_hex(&clamp_integer(hx::<32>(a[0])?));
        }
        "radix16_raw" => {
            arity(a, 1)?;
            let s = sc_raw(a[0])?;
            push_int_list(&mut o, vh::scalar_as_radix_16(&s).iter());
        }
        "radix2w_raw" => {
            arity(a, 2)?;
            let s = sc_raw(a[0])?;
            let w = int_in(a[1], 4, 8)? as usize;
            push_int_list(&mut o, vh::scalar_as_radix_2w(&s, w).iter());
            push_int(&mut o, vh::scalar_to_radix_2w_size_hint(w));
        }
        "naf_raw" => {
            arity(a, 2)?;
            let s = sc_raw(a[0])?;
            let w = int_in(a[1], 2, 8)? as usize;
            push_int_list(&mut o, vh::scalar_non_adjacent_form(&s, w).iter());
        }
        "bits_le_raw" => {
            arity(a, 1)?;
            let s = sc_raw(a[0])?;
            let bits = vh::scalar_bits_le(&s);
            let bytes: Vec<u8> = bits.iter().map(|&b| b as u8).collect();
            push_hex(&mut o, &bytes);
        }
        _ => return Err(BADREQ),
    }
    Ok(o)
}

/// `scl52.*` / `scl29.*`
pub fn scl_op(width: u32, op: &str, a: &[&str]) -> R {
    const OPS: &[&str] = &[
        "from_bytes",
        "from_bytes_wide",
        "as_bytes",
        "add",
        "sub",
        "mul",
        "square",
        "mul_internal",
        "square_internal",
        "montgomery_reduce",
        "montgomery_mul",
        "montgomery_square",
        "as_montgomery",
        "from_montgomery",
        "montgomery_invert",
        "invert",
        "const",
    ];
    if !OPS.contains(&op) || (width != 52 && width != 29) {
        return Err(BADREQ);
    }
    if width != vh::SC_RADIX_BITS {
        return Err(Fail::Skip);
    }
    let lim = |s: &str| limbs::<vh::ScLimb, { vh::SC_NLIMBS }>(s);
    let mut o = String::new();
    let r: vh::ScLimbs = match op {
        "from_bytes" => {
            arity(a, 1)?;
            vh::scl_from_bytes(&hx::<32>(a[0])?)
        }
        "from_bytes_wide" => {
            arity(a, 1)?;
            vh::scl_from_bytes_wide(&hx::<64>(a[0])?)
        }
        "as_bytes" => {
            arity(a, 1)?;
            return ok_hex(&vh::scl_as_bytes(&lim(a[0])?));
        }
        "add" | "sub" | "mul" | "montgomery_mul" => {
            arity(a, 2)?;
            let (x, y) = (lim(a[0])?, lim(a[1])?);
            match op {
                "add" => vh::scl_add(&x, &y),
                "sub" => vh::scl_sub(&x, &y),
                "mul" => vh::scl_mul(&x, &y),
                _ => vh::scl_montgomery_mul(&x, &y),
            }
        }
        "mul_internal" => {
            arity(a, 2)?;
            let (x, y) = (lim(a[0])?, lim(a[1])?);
            push_int_list(&mut o, vh::scl_mul_internal(&x, &y).iter());
            return Ok(o);
        }
        // private fn on Scalar52/Scalar29: not hookable
        "square_internal" => {
            arity(a, 1)?;
            lim(a[0])?;
            return Err(Fail::Skip);
        }
        "montgomery_reduce" => {
            arity(a, 1)?;
            let w = limbs::<vh::ScWideLimb, { vh::SC_NWIDE }>(a[0])?;
            vh::scl_montgomery_reduce(&w)
        }
        "square" | "montgomery_square" | "as_montgomery" | "from_montgomery"
        | "montgomery_invert" | "invert" => {
            arity(a, 1)?;
            let x = lim(a[0])?;
            match op {
                "square" => vh::scl_square(&x),
                "montgomery_square" => vh::scl_montgomery_square(&x),
                "as_montgomery" => vh::scl_as_montgomery(&x),
                "from_montgomery" => vh::scl_from_montgomery(&x),
                "montgomery_invert" => vh::scl_montgomery_invert(&x),
                _ => vh::scl_invert(&x),
            }
        }
        // extra (not compared): L, R, RR -> limbs; LFACTOR -> INT
        "const" => {
            arity(a, 1)?;
            if a[0] == "LFACTOR" {
                push_int(&mut o, vh::scl_lfactor());
                return Ok(o);
            }
            vh::scl_constant(a[0]).ok_or(BADREQ)?
        }
        _ => return Err(BADREQ),
    };
    push_int_list(&mut o, r.iter());
    Ok(o)
}

//! `mont.*`, `x.*`

use crate::util::*;
use curve25519_dalek::montgomery::MontgomeryPoint;
use curve25519_dalek::verif_hooks as vh;
use std::hash::{Hash, Hasher};
use x25519_dalek::{EphemeralSecret, PublicKey, ReusableSecret, StaticSecret};

/// Records every byte passed to `Hasher::write` (only `write` is overridden,
/// so the `usize` length prefix emitted by `<[u8]>::hash` is included).
struct RecordingHasher(Vec<u8>);

impl Hasher for RecordingHasher {
    fn finish(&self) -> u64 {
        0
    }
    fn write(&mut self, bytes: &[u8]) {
        self.0.extend_from_slice(bytes);
    }
}

fn mp(s: &str) -> Result<MontgomeryPoint, Fail> {
    Ok(MontgomeryPoint(hx::<32>(s)?))
}

pub fn mont_op(op: &str, a: &[&str]) -> R {
    match op {
        "mul" | "mul_raw" => {
            arity(a, 2)?;
            let u = mp(a[0])?;
            let s = if op == "mul" { sc(a[1])? } else { sc_raw(a[1])? };
            ok_hex((&u * &s).as_bytes())
        }
        "mul_clamped" => {
            arity(a, 2)?;
            let u = mp(a[0])?;
            ok_hex(u.mul_clamped(hx::<32>(a[1])?).as_bytes())
        }
        "mul_base" => {
            arity(a, 1)?;
            ok_hex(MontgomeryPoint::mul_base(&sc(a[0])?).as_bytes())
        }
        "mul_base_clamped" => {
            arity(a, 1)?;
            ok_hex(MontgomeryPoint::mul_base_clamped(hx::<32>(a[0])?).as_bytes())
        }
        "mul_bits_be" => {
            arity(a, 2)?;
            let u = mp(a[0])?;
            let bits = unhex(a[1])?;
            if bits.iter().any(|&b| b > 1) {
                return Err(BADREQ);
            }
            ok_hex(u.mul_bits_be(bits.iter().map(|&b| b == 1)).as_bytes())
        }
        "to_edwards" => {
            arity(a, 2)?;
            let u = mp(a[0])?;
            let sign = int_in(a[1], 0, 1)? as u8;
            match u.to_edwards(sign) {
                Some(p) => ok_ed(&p),
                None => Err(Fail::None),
            }
        }
        "eq" => {
            arity(a, 2)?;
            ok_bool(mp(a[0])? == mp(a[1])?)
        }
        "hash" => {
            arity(a, 1)?;
            let mut h = RecordingHasher(Vec::new());
            mp(a[0])?.hash(&mut h);
            ok_hex(&h.0)
        }
        "elligator" => {
            arity(a, 1)?;
            ok_hex(vh::elligator_encode(&hx::<32>(a[0])?).as_bytes())
        }
        _ => Err(BADREQ),
    }
}

fn dh_out(public: PublicKey, shared: x25519_dalek::SharedSecret) -> R {
    let mut o = String::new();
    push_hex(&mut o, public.as_bytes());
    push_hex(&mut o, shared.as_bytes());
    push_bool(&mut o, shared.was_contributory());
    Ok(o)
}

pub fn x_op(op: &str, a: &[&str]) -> R {
    match op {
        "x25519" => {
            arity(a, 2)?;
            ok_hex(&x25519_dalek::x25519(hx::<32>(a[0])?, hx::<32>(a[1])?))
        }
        "static" => {
            arity(a, 2)?;
            let (k, their) = (hx::<32>(a[0])?, PublicKey::from(hx::<32>(a[1])?));
            let s = StaticSecret::from(k);
            dh_out(PublicKey::from(&s), s.diffie_hellman(&their))
        }
        "reusable" => {
            arity(a, 2)?;
            let (k, their) = (hx::<32>(a[0])?, PublicKey::from(hx::<32>(a[1])?));
            let s = ReusableSecret::random_from_rng(FixedRng::new(k));
            dh_out(PublicKey::from(&s), s.diffie_hellman(&their))
        }
        "ephemeral" => {
            arity(a, 2)?;
            let (k, their) = (hx::<32>(a[0])?, PublicKey::from(hx::<32>(a[1])?));
            let s = EphemeralSecret::random_from_rng(FixedRng::new(k));
            let public = PublicKey::from(&s);
            dh_out(public, s.diffie_hellman(&their))
        }
        "pubkey_bytes" => {
            arity(a, 1)?;
            ok_hex(&PublicKey::from(hx::<32>(a[0])?).to_bytes())
        }
        _ => Err(BADREQ),
    }
}

//! `driver --zero`: zeroization probes (C14).  See README.md.

use crate::util::*;
use curve25519_dalek::edwards::{CompressedEdwardsY, EdwardsPoint};
use curve25519_dalek::montgomery::MontgomeryPoint;
use curve25519_dalek::ristretto::CompressedRistretto;
use curve25519_dalek::scalar::Scalar;
use curve25519_dalek::verif_hooks as vh;
use sha2::{Digest, Sha512};
use std::alloc::{GlobalAlloc, Layout, System};
use std::hint::black_box;
use std::mem::{size_of, MaybeUninit};
use std::sync::atomic::{AtomicBool, AtomicUsize, Ordering};
use zeroize::Zeroize;

// ------------------------------------------------------- recording allocator

/// Max number of deallocations recorded per window.
const MAX_RECS: usize = 1 << 16;
/// Per-block content kept for `--zero --dump` (the digest covers everything).
const KEEP: usize = 4096;
const ARENA: usize = 8 << 20;

#[derive(Clone, Copy)]
struct Rec {
    size: usize,
    all_zero: bool,
    off: usize,
    kept: usize,
}

struct Recorder {
    recs: Vec<Rec>,
    arena: Vec<u8>,
    hasher: Sha512,
    overflow: bool,
}

static RECORDING: AtomicBool = AtomicBool::new(false);
static IN_HOOK: AtomicBool = AtomicBool::new(false);
static DEALLOCS_SEEN: AtomicUsize = AtomicUsize::new(0);
static mut RECORDER: Option<Recorder> = None;

pub struct RecAlloc;

unsafe impl GlobalAlloc for RecAlloc {
    unsafe fn alloc(&self, layout: Layout) -> *mut u8 {
        System.alloc(layout)
    }

    unsafe fn alloc_zeroed(&self, layout: Layout) -> *mut u8 {
        System.alloc_zeroed(layout)
    }

    // `realloc` is deliberately NOT overridden: the default implementation
    // is alloc + copy + `self.dealloc(old)`, so a growing Vec's old buffer is
    // seen by the recorder like any other freed block.

    unsafe fn dealloc(&self, ptr: *mut u8, layout: Layout) {
        if RECORDING.load(Ordering::Relaxed) && !IN_HOOK.swap(true, Ordering::Acquire) {
            // Inspect the block BEFORE it is handed back to the allocator.
            DEALLOCS_SEEN.fetch_add(1, Ordering::Relaxed);
            if let Some(r) = (*core::ptr::addr_of_mut!(RECORDER)).as_mut() {
                let bytes = core::slice::from_raw_parts(ptr as *const u8, layout.size());
                // no allocation happens below: all buffers are pre-sized
                if r.recs.len() < MAX_RECS {
                    let kept = bytes.len().min(KEEP).min(ARENA - r.arena.len());
                    let off = r.arena.len();
                    r.arena.extend_from_slice(&bytes[..kept]);
                    r.recs.push(Rec {
                        size: bytes.len(),
                        all_zero: bytes.iter().all(|&b| b == 0),
                        off,
                        kept,
                    });
                } else {
                    r.overflow = true;
                }
                r.hasher.update(bytes);
            }
            IN_HOOK.store(false, Ordering::Release);
        }
        System.dealloc(ptr, layout)
    }
}

/// Runs `f` with the recorder on; returns the formatted fields
/// ` LIST(size:allzero) HEX(sha512 of all freed contents)`.
fn record<T>(dump: bool, label: &str, f: impl FnOnce() -> T) -> (T, String) {
    // everything the hook needs is allocated up front
    let rec = Recorder {
        recs: Vec::with_capacity(MAX_RECS),
        arena: Vec::with_capacity(ARENA),
        hasher: Sha512::new(),
        overflow: false,
    };
    unsafe {
        *core::ptr::addr_of_mut!(RECORDER) = Some(rec);
    }
    RECORDING.store(true, Ordering::SeqCst);
    let out = black_box(f());
    RECORDING.store(false, Ordering::SeqCst);
    let rec = unsafe { (*core::ptr::addr_of_mut!(RECORDER)).take().unwrap() };
    let mut s = String::new();
    push_int_list(
        &mut s,
        rec.recs
            .iter()
            .map(|r| format!("{}:{}", r.size, r.all_zero as u8)),
    );
    push_hex(&mut s, &rec.hasher.finalize());
    if rec.overflow {
        eprintln!("zero.heap: more than {MAX_RECS} deallocations, list truncated");
    }
    if dump {
        for (i, r) in rec.recs.iter().enumerate() {
            eprintln!(
                "zero.heap[{label}] #{i} size={} allzero={} content={}",
                r.size,
                r.all_zero as u8,
                hex(&rec.arena[r.off..r.off + r.kept])
            );
        }
    }
    (out, s)
}

// ----------------------------------------------------------------- drop

/// Moves `v` into a `MaybeUninit` slot, uses it once, runs `drop_in_place`,
/// then reads back the object's `size_of` raw bytes.
fn drop_dump<T>(v: T, use_once: impl FnOnce(&T)) -> Vec<u8> {
    let mut slot = MaybeUninit::<T>::uninit();
    let p: *mut T = slot.as_mut_ptr();
    unsafe {
        p.write(v);
        use_once(&*p);
        core::ptr::drop_in_place(black_box(p));
    }
    let n = size_of::<T>();
    let q = black_box(p as *const u8);
    let mut out = vec![0u8; n];
    for (i, o) in out.iter_mut().enumerate() {
        // (padding bytes, if any, are read as whatever is in memory)
        *o = unsafe { core::ptr::read_volatile(q.add(i)) };
    }
    out
}

fn zero_drop(ty: &str, a: &[&str]) -> R {
    use ed25519_dalek::hazmat::ExpandedSecretKey;
    use ed25519_dalek::SigningKey;
    use x25519_dalek::{EphemeralSecret, PublicKey, ReusableSecret, StaticSecret};
    arity(a, 1)?;
    let b = unhex(a[0])?;
    let b32 = || -> Result<[u8; 32], Fail> { b.as_slice().try_into().map_err(|_| BADREQ) };
    let raw = match ty {
        "signingkey" => drop_dump(SigningKey::from_bytes(&b32()?), |k| {
            black_box(k.verifying_key());
        }),
        "expanded" => {
            let esk = match b.len() {
                32 => ExpandedSecretKey::from(&b32()?),
                64 => ExpandedSecretKey::from_bytes(b.as_slice().try_into().unwrap()),
                _ => return Err(BADREQ),
            };
            drop_dump(esk, |k| {
                black_box(ed25519_dalek::VerifyingKey::from(k));
            })
        }
        "xstatic" => drop_dump(StaticSecret::from(b32()?), |k| {
            black_box(PublicKey::from(k));
        }),
        "xreusable" => drop_dump(
            ReusableSecret::random_from_rng(FixedRng::new(b32()?)),
            |k| {
                black_box(PublicKey::from(k));
            },
        ),
        "xephemeral" => drop_dump(
            EphemeralSecret::random_from_rng(FixedRng::new(b32()?)),
            |k| {
                black_box(PublicKey::from(k));
            },
        ),
        "xshared" => {
            // 32 bytes: k, their public = X25519 basepoint; 64 bytes: k || their
            let (k, their): ([u8; 32], [u8; 32]) = match b.len() {
                32 => (b32()?, x25519_dalek::X25519_BASEPOINT_BYTES),
                64 => (
                    b[..32].try_into().unwrap(),
                    b[32..].try_into().unwrap(),
                ),
                _ => return Err(BADREQ),
            };
            let sh = StaticSecret::from(k).diffie_hellman(&PublicKey::from(their));
            drop_dump(sh, |s| {
                black_box(s.as_bytes());
            })
        }
        _ => return Err(BADREQ),
    };
    ok_hex(&raw)
}

fn zero_explicit(ty: &str, a: &[&str]) -> R {
    arity(a, 1)?;
    let b = hx::<32>(a[0])?;
    match ty {
        "scalar" => {
            let mut s = Scalar::from_bytes_mod_order(b);
            black_box(&mut s).zeroize();
            ok_hex(&s.to_bytes())
        }
        "edwards" => {
            let mut p: EdwardsPoint = dec_ed(&CompressedEdwardsY(b))?;
            black_box(&mut p).zeroize();
            ok_hex(p.compress().as_bytes())
        }
        "cedwards" => {
            let mut c = CompressedEdwardsY(b);
            black_box(&mut c).zeroize();
            ok_hex(c.as_bytes())
        }
        "ristretto" => {
            let mut p = dec_ris(&CompressedRistretto(b))?;
            black_box(&mut p).zeroize();
            ok_hex(p.compress().as_bytes())
        }
        "cristretto" => {
            let mut c = CompressedRistretto(b);
            black_box(&mut c).zeroize();
            ok_hex(c.as_bytes())
        }
        "montgomery" => {
            let mut m = MontgomeryPoint(b);
            black_box(&mut m).zeroize();
            ok_hex(m.as_bytes())
        }
        _ => Err(BADREQ),
    }
}

fn zero_heap(alg: &str, a: &[&str], dump: bool) -> R {
    let mut o = String::new();
    match alg {
        "straus_ct" => {
            arity(a, 2)?;
            let scalars = sc_list(a[0])?;
            let points = ed_list(a[1])?;
            if scalars.len() != points.len() {
                return Err(BADREQ);
            }
            // each available direct copy: ` <copy> LIST DIGEST`
            {
                let (r, s) = record(dump, "serial", || {
                    vh::serial::straus_multiscalar_mul(&scalars, &points)
                });
                black_box(r);
                o.push_str(" serial");
                o.push_str(&s);
            }
            #[cfg(hv_simd)]
            {
                let (r, s) = record(dump, "avx2", || {
                    vh::avx2::straus_multiscalar_mul(&scalars, &points)
                });
                if r.is_some() {
                    o.push_str(" avx2");
                    o.push_str(&s);
                }
            }
            #[cfg(hv_ifma)]
            {
                let (r, s) = record(dump, "ifma", || {
                    vh::ifma::straus_multiscalar_mul(&scalars, &points)
                });
                if r.is_some() {
                    o.push_str(" ifma");
                    o.push_str(&s);
                }
            }
        }
        // The PUBLIC multiscalar API (so that buffers allocated above the
        // backend dispatch, e.g. when collecting owned iterators, are seen).
        "msm_public" => {
            use curve25519_dalek::ristretto::RistrettoPoint;
            use curve25519_dalek::traits::MultiscalarMul;
            arity(a, 2)?;
            // all inputs are allocated before the window and dropped after it
            let scalars: Vec<Scalar> = sc_list(a[0])?;
            let points: Vec<EdwardsPoint> = ed_list(a[1])?;
            if scalars.len() != points.len() {
                return Err(BADREQ);
            }
            let rpoints: Vec<RistrettoPoint> =
                points.iter().map(vh::ristretto_from_inner).collect();
            let mut add = |name: &str, s: String| {
                o.push(' ');
                o.push_str(name);
                o.push_str(&s);
            };
            let (r, s) = record(dump, "ed_owned", || {
                EdwardsPoint::multiscalar_mul(scalars.iter().copied(), points.iter().copied())
            });
            black_box(r);
            add("ed_owned", s);
            let (r, s) = record(dump, "ed_ref", || {
                EdwardsPoint::multiscalar_mul(&scalars, &points)
            });
            black_box(r);
            add("ed_ref", s);
            let (r, s) = record(dump, "ris_owned", || {
                RistrettoPoint::multiscalar_mul(scalars.iter().copied(), rpoints.iter().copied())
            });
            black_box(r);
            add("ris_owned", s);
            let (r, s) = record(dump, "ris_ref", || {
                RistrettoPoint::multiscalar_mul(&scalars, &rpoints)
            });
            black_box(r);
            add("ris_ref", s);
            drop((scalars, points, rpoints));
        }
        // Single-scalar public multiplications: expected to free nothing.
        "mul_public" => {
            arity(a, 2)?;
            let c = ced(a[0])?;
            let s_bytes = hx::<32>(a[1])?;
            let p = dec_ed(&c)?;
            let sc_ = Scalar::from_bytes_mod_order(s_bytes);
            let u = p.to_montgomery();
            let u_bytes = u.to_bytes();
            let mut add = |name: &str, s: String| {
                o.push(' ');
                o.push_str(name);
                o.push_str(&s);
            };
            let (r, s) = record(dump, "ed", || &p * &sc_);
            black_box(r);
            add("ed", s);
            let (r, s) = record(dump, "ed_base", || EdwardsPoint::mul_base(&sc_));
            black_box(r);
            add("ed_base", s);
            #[cfg(feature = "tables")]
            {
                let (r, s) = record(dump, "ed_base_table", || {
                    curve25519_dalek::constants::ED25519_BASEPOINT_TABLE * &sc_
                });
                black_box(r);
                add("ed_base_table", s);
            }
            let (r, s) = record(dump, "mont", || &u * &sc_);
            black_box(r);
            add("mont", s);
            let (r, s) = record(dump, "x25519", || x25519_dalek::x25519(s_bytes, u_bytes));
            black_box(r);
            add("x25519", s);
        }
        // Ed25519 signing / key generation through the public API.
        "sign" => {
            use ed25519_dalek::{Signer, SigningKey};
            arity(a, 2)?;
            let seed = hx::<32>(a[0])?;
            let msg = unhex(a[1])?;
            let sk = SigningKey::from_bytes(&seed);
            let (r, s) = record(dump, "eds", || sk.sign(&msg));
            black_box(r);
            o.push_str(" eds");
            o.push_str(&s);
            let ((), s) = record(dump, "eds_keygen", || {
                let k = SigningKey::from_bytes(black_box(&seed));
                black_box(k.verifying_key());
                drop(k);
            });
            o.push_str(" eds_keygen");
            o.push_str(&s);
            drop((sk, msg));
        }
        // `Scalar::batch_invert` (scratch space is a `Zeroizing<Vec<_>>`)
        "batch_invert" => {
            if a.len() != 1 && a.len() != 2 {
                return Err(BADREQ);
            }
            let mut scalars = sc_list(a[0])?;
            let (r, s) = record(dump, "scalar", || Scalar::batch_invert(&mut scalars));
            black_box(r);
            o.push_str(" scalar");
            o.push_str(&s);
        }
        // `FieldElement::batch_invert` (hook; scratch space is a plain Vec)
        "fe_batch_invert" => {
            if a.len() != 1 && a.len() != 2 {
                return Err(BADREQ);
            }
            let mut v: Vec<vh::FeLimbs> =
                list(a[0])?.into_iter().map(fe).collect::<Result<_, _>>()?;
            let ((), s) = record(dump, "field", || vh::fe_batch_invert(&mut v));
            o.push_str(" field");
            o.push_str(&s);
        }
        _ => return Err(BADREQ),
    }
    Ok(o)
}

/// Zeroizes `v` in place and returns the raw `size_of::<T>()` bytes of its storage afterwards.
fn zeroized_image<T: Zeroize>(v: T) -> Vec<u8> {
    let mut slot = MaybeUninit::<T>::uninit();
    let p: *mut T = slot.as_mut_ptr();
    unsafe {
        p.write(v);
        (*black_box(p)).zeroize();
    }
    let n = size_of::<T>();
    let q = black_box(p as *const u8);
    let mut out = vec![0u8; n];
    for (i, o) in out.iter_mut().enumerate() {
        *o = unsafe { core::ptr::read_volatile(q.add(i)) };
    }
    out
}

/// `zero.rawexplicit.<ty> POINT SCALAR`: the value is COMPUTED (so that it can be any internal representation, e.g. a
/// non-canonical representation of the identity: small-order point times a clamped scalar), zeroized in place, and the raw
/// bytes of its storage are returned.  The image after `zeroize()` must be one constant per type.
fn zero_rawexplicit(ty: &str, a: &[&str]) -> R {
    arity(a, 2)?;
    let pb = hx::<32>(a[0])?;
    let sb = hx::<32>(a[1])?;
    let raw = match ty {
        "edwards_clamped" => {
            let p: EdwardsPoint = dec_ed(&CompressedEdwardsY(pb))?;
            zeroized_image(p.mul_clamped(sb))
        }
        "edwards_mul" => {
            let p: EdwardsPoint = dec_ed(&CompressedEdwardsY(pb))?;
            zeroized_image(p * Scalar::from_bytes_mod_order(sb))
        }
        "edwards_sub" => {
            // P - decompress(compress(P)) after a multiplication: identity reached by subtraction
            let p: EdwardsPoint = dec_ed(&CompressedEdwardsY(pb))? * Scalar::from_bytes_mod_order(sb);
            let q = dec_ed(&p.compress())?;
            zeroized_image(p - q)
        }
        "ristretto_mul" => {
            let p = dec_ris(&CompressedRistretto(pb))?;
            zeroized_image(p * Scalar::from_bytes_mod_order(sb))
        }
        "scalar_mul" => {
            zeroized_image(Scalar::from_bytes_mod_order(pb) * Scalar::from_bytes_mod_order(sb))
        }
        _ => return Err(BADREQ),
    };
    ok_hex(&raw)
}

pub fn zero_op(op: &str, a: &[&str], dump: bool) -> R {
    if let Some(ty) = op.strip_prefix("zero.rawexplicit.") {
        zero_rawexplicit(ty, a)
    } else if let Some(ty) = op.strip_prefix("zero.drop.") {
        zero_drop(ty, a)
    } else if let Some(ty) = op.strip_prefix("zero.explicit.") {
        zero_explicit(ty, a)
    } else if let Some(alg) = op.strip_prefix("zero.heap.") {
        zero_heap(alg, a, dump)
    } else {
        Err(BADREQ)
    }
}

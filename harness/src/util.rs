//! Parsing / formatting helpers for the line protocol (see /verif/PROTOCOL.md).

use curve25519_dalek::edwards::{CompressedEdwardsY, EdwardsPoint};
use curve25519_dalek::ristretto::{CompressedRistretto, RistrettoPoint};
use curve25519_dalek::scalar::Scalar;
use curve25519_dalek::verif_hooks as vh;
use subtle::Choice;

/// Every way an op can end other than `ok ...` (and other than a panic).
#[derive(Debug, Clone, Copy, PartialEq, Eq)]
pub enum Fail {
    /// `err badreq`
    BadReq,
    /// `err badpoint`
    BadPoint,
    /// `none`
    None,
    /// `err`
    Err,
    /// `skip`
    Skip,
}

/// `Ok(fields)`: the response is `ok` followed by `fields` (each field is
/// pushed with a leading space).
pub type R = Result<String, Fail>;

pub const BADREQ: Fail = Fail::BadReq;

// ---------------------------------------------------------------- parsing

#[inline]
fn nib(c: u8) -> Option<u8> {
    match c {
        b'0'..=b'9' => Some(c - b'0'),
        b'a'..=b'f' => Some(c - b'a' + 10),
        _ => None,
    }
}

/// HEX: lower-case, even length, `-` = empty.
pub fn unhex(s: &str) -> Result<Vec<u8>, Fail> {
    if s == "-" {
        return Ok(Vec::new());
    }
    let b = s.as_bytes();
    if b.is_empty() || b.len() % 2 != 0 {
        return Err(BADREQ);
    }
    let mut out = Vec::with_capacity(b.len() / 2);
    for p in b.chunks_exact(2) {
        out.push((nib(p[0]).ok_or(BADREQ)? << 4) | nib(p[1]).ok_or(BADREQ)?);
    }
    Ok(out)
}

/// HEX of exactly `N` bytes.
pub fn hx<const N: usize>(s: &str) -> Result<[u8; N], Fail> {
    let b = s.as_bytes();
    if b.len() != 2 * N {
        return Err(BADREQ);
    }
    let mut out = [0u8; N];
    for (o, p) in out.iter_mut().zip(b.chunks_exact(2)) {
        *o = (nib(p[0]).ok_or(BADREQ)? << 4) | nib(p[1]).ok_or(BADREQ)?;
    }
    Ok(out)
}

/// INT: decimal digits with an optional leading `-`.
pub fn int(s: &str) -> Result<i128, Fail> {
    let (neg, d) = match s.strip_prefix('-') {
        Some(r) => (true, r),
        None => (false, s),
    };
    if d.is_empty() || d.len() > 39 || !d.bytes().all(|c| c.is_ascii_digit()) {
        return Err(BADREQ);
    }
    let v: i128 = d.parse().map_err(|_| BADREQ)?;
    Ok(if neg { -v } else { v })
}

/// Non-negative INT (up to u128).
pub fn uint(s: &str) -> Result<u128, Fail> {
    if s.is_empty() || s.len() > 39 || !s.bytes().all(|c| c.is_ascii_digit()) {
        return Err(BADREQ);
    }
    s.parse().map_err(|_| BADREQ)
}

/// INT restricted to `lo..=hi`.
pub fn int_in(s: &str, lo: i128, hi: i128) -> Result<i128, Fail> {
    let v = int(s)?;
    if v < lo || v > hi {
        return Err(BADREQ);
    }
    Ok(v)
}

/// A `Choice` argument: INT 0 or 1.
pub fn choice(s: &str) -> Result<Choice, Fail> {
    Ok(Choice::from(int_in(s, 0, 1)? as u8))
}

/// LIST: items separated by `,`; `-` = empty list.
pub fn list(s: &str) -> Result<Vec<&str>, Fail> {
    if s == "-" {
        return Ok(Vec::new());
    }
    if s.is_empty() {
        return Err(BADREQ);
    }
    let v: Vec<&str> = s.split(',').collect();
    if v.iter().any(|i| i.is_empty()) {
        return Err(BADREQ);
    }
    Ok(v)
}

pub fn arity(args: &[&str], n: usize) -> Result<(), Fail> {
    if args.len() == n {
        Ok(())
    } else {
        Err(BADREQ)
    }
}

/// Scalar argument: 32 bytes through `from_bytes_mod_order`.
pub fn sc(s: &str) -> Result<Scalar, Fail> {
    Ok(Scalar::from_bytes_mod_order(hx::<32>(s)?))
}

/// Raw scalar argument: `Scalar { bytes }` without reduction (hook); bit 255
/// set is a malformed request.
pub fn sc_raw(s: &str) -> Result<Scalar, Fail> {
    let b = hx::<32>(s)?;
    if b[31] & 0x80 != 0 {
        return Err(BADREQ);
    }
    Ok(vh::scalar_from_raw_bytes(b))
}

pub fn sc_list(s: &str) -> Result<Vec<Scalar>, Fail> {
    list(s)?.into_iter().map(sc).collect()
}

/// Edwards point argument (hex check only); decompress with `dec_ed`.
pub fn ced(s: &str) -> Result<CompressedEdwardsY, Fail> {
    Ok(CompressedEdwardsY(hx::<32>(s)?))
}

pub fn dec_ed(c: &CompressedEdwardsY) -> Result<EdwardsPoint, Fail> {
    c.decompress().ok_or(Fail::BadPoint)
}

/// Edwards point argument: hex, then decompress (`err badpoint` on failure).
pub fn pt(s: &str) -> Result<EdwardsPoint, Fail> {
    dec_ed(&ced(s)?)
}

pub fn cris(s: &str) -> Result<CompressedRistretto, Fail> {
    Ok(CompressedRistretto(hx::<32>(s)?))
}

pub fn dec_ris(c: &CompressedRistretto) -> Result<RistrettoPoint, Fail> {
    c.decompress().ok_or(Fail::BadPoint)
}

pub fn rpt(s: &str) -> Result<RistrettoPoint, Fail> {
    dec_ris(&cris(s)?)
}

/// LIST of compressed points, `~` allowed iff `allow_absent`.  All hex is
/// checked first (badreq), then every present point is decompressed
/// (badpoint).
pub fn opt_list<C, P>(
    s: &str,
    allow_absent: bool,
    parse: impl Fn(&str) -> Result<C, Fail>,
    dec: impl Fn(&C) -> Result<P, Fail>,
) -> Result<Vec<Option<P>>, Fail> {
    let mut cs = Vec::new();
    for item in list(s)? {
        if item == "~" {
            if !allow_absent {
                return Err(BADREQ);
            }
            cs.push(None);
        } else {
            cs.push(Some(parse(item)?));
        }
    }
    cs.iter()
        .map(|c| match c {
            None => Ok(None),
            Some(c) => dec(c).map(Some),
        })
        .collect()
}

pub fn ed_opt_list(s: &str, allow_absent: bool) -> Result<Vec<Option<EdwardsPoint>>, Fail> {
    opt_list(s, allow_absent, ced, dec_ed)
}

pub fn ed_list(s: &str) -> Result<Vec<EdwardsPoint>, Fail> {
    Ok(ed_opt_list(s, false)?.into_iter().flatten().collect())
}

pub fn ris_opt_list(s: &str, allow_absent: bool) -> Result<Vec<Option<RistrettoPoint>>, Fail> {
    opt_list(s, allow_absent, cris, dec_ris)
}

pub fn ris_list(s: &str) -> Result<Vec<RistrettoPoint>, Fail> {
    Ok(ris_opt_list(s, false)?.into_iter().flatten().collect())
}

/// Field element argument: 32 bytes through `FieldElement::from_bytes` (hook).
pub fn fe(s: &str) -> Result<vh::FeLimbs, Fail> {
    Ok(vh::fe_from_bytes(&hx::<32>(s)?))
}

/// LIST of exactly `N` unsigned INTs converted to limb type `T`.
pub fn limbs<T: TryFrom<u128> + Copy + Default, const N: usize>(s: &str) -> Result<[T; N], Fail> {
    let items = list(s)?;
    if items.len() != N {
        return Err(BADREQ);
    }
    let mut out = [T::default(); N];
    for (o, i) in out.iter_mut().zip(items) {
        *o = T::try_from(uint(i)?).map_err(|_| BADREQ)?;
    }
    Ok(out)
}

// ------------------------------------------------------------- formatting

const HEXD: &[u8; 16] = b"0123456789abcdef";

pub fn hex_into(o: &mut String, b: &[u8]) {
    if b.is_empty() {
        o.push('-');
        return;
    }
    o.reserve(2 * b.len());
    for &x in b {
        o.push(HEXD[(x >> 4) as usize] as char);
        o.push(HEXD[(x & 15) as usize] as char);
    }
}

pub fn hex(b: &[u8]) -> String {
    let mut s = String::new();
    hex_into(&mut s, b);
    s
}

/// Push ` <hex>`.
pub fn push_hex(o: &mut String, b: &[u8]) {
    o.push(' ');
    hex_into(o, b);
}

/// Push ` <int>`.
pub fn push_int<T: core::fmt::Display>(o: &mut String, v: T) {
    use core::fmt::Write;
    let _ = write!(o, " {v}");
}

pub fn push_bool(o: &mut String, b: bool) {
    o.push_str(if b { " 1" } else { " 0" });
}

pub fn push_choice(o: &mut String, c: Choice) {
    push_bool(o, c.unwrap_u8() == 1);
}

/// Push ` a,b,c` (or ` -` when empty).
pub fn push_int_list<T: core::fmt::Display>(o: &mut String, it: impl IntoIterator<Item = T>) {
    use core::fmt::Write;
    o.push(' ');
    let mut first = true;
    for v in it {
        if !first {
            o.push(',');
        }
        first = false;
        let _ = write!(o, "{v}");
    }
    if first {
        o.push('-');
    }
}

/// Push ` hex,hex,...` (or ` -` when empty).
pub fn push_hex_list<B: AsRef<[u8]>>(o: &mut String, it: impl IntoIterator<Item = B>) {
    o.push(' ');
    let mut first = true;
    for v in it {
        if !first {
            o.push(',');
        }
        first = false;
        hex_into(o, v.as_ref());
    }
    if first {
        o.push('-');
    }
}

pub fn push_fe(o: &mut String, l: &vh::FeLimbs) {
    push_hex(o, &vh::fe_as_bytes(l));
}

pub fn push_ed(o: &mut String, p: &EdwardsPoint) {
    push_hex(o, p.compress().as_bytes());
}

pub fn push_ris(o: &mut String, p: &RistrettoPoint) {
    push_hex(o, p.compress().as_bytes());
}

pub fn ok_ed(p: &EdwardsPoint) -> R {
    let mut o = String::new();
    push_ed(&mut o, p);
    Ok(o)
}

pub fn ok_ris(p: &RistrettoPoint) -> R {
    let mut o = String::new();
    push_ris(&mut o, p);
    Ok(o)
}

pub fn ok_hex(b: &[u8]) -> R {
    let mut o = String::new();
    push_hex(&mut o, b);
    Ok(o)
}

pub fn ok_bool(b: bool) -> R {
    let mut o = String::new();
    push_bool(&mut o, b);
    Ok(o)
}

/// An RNG that returns exactly the given 32 bytes (repeating them if more
/// are requested).
pub struct FixedRng(pub [u8; 32], pub usize);

impl FixedRng {
    pub fn new(b: [u8; 32]) -> Self {
        FixedRng(b, 0)
    }
}

impl rand_core::RngCore for FixedRng {
    fn next_u32(&mut self) -> u32 {
        let mut b = [0u8; 4];
        self.fill_bytes(&mut b);
        u32::from_le_bytes(b)
    }
    fn next_u64(&mut self) -> u64 {
        let mut b = [0u8; 8];
        self.fill_bytes(&mut b);
        u64::from_le_bytes(b)
    }
    fn fill_bytes(&mut self, dest: &mut [u8]) {
        for d in dest.iter_mut() {
            *d = self.0[self.1 % 32];
            self.1 += 1;
        }
    }
    fn try_fill_bytes(&mut self, dest: &mut [u8]) -> Result<(), rand_core::Error> {
        self.fill_bytes(dest);
        Ok(())
    }
}

impl rand_core::CryptoRng for FixedRng {}

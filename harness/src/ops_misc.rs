//! `serde.*`, `grp.*`

use crate::util::*;
use curve25519_dalek::verif_hooks as vh;
use curve25519_dalek::edwards::{CompressedEdwardsY, EdwardsPoint, SubgroupPoint};
use curve25519_dalek::montgomery::MontgomeryPoint;
use curve25519_dalek::ristretto::{CompressedRistretto, RistrettoPoint};
use curve25519_dalek::scalar::Scalar;
use ed25519_dalek::{Signature, SigningKey, VerifyingKey};
use ff::{Field, FromUniformBytes, PrimeField};
use group::cofactor::CofactorGroup;
use group::GroupEncoding;
use serde::{de::DeserializeOwned, Serialize};
use subtle::CtOption;

#[derive(Clone, Copy, PartialEq)]
enum Fmt {
    Bincode,
    Json,
}

fn ser<T: Serialize>(f: Fmt, v: &T) -> R {
    let r = match f {
        Fmt::Bincode => bincode::serialize(v).map_err(|_| ()),
        Fmt::Json => serde_json::to_vec(v).map_err(|_| ()),
    };
    match r {
        Ok(b) => ok_hex(&b),
        Err(()) => Err(Fail::Err),
    }
}

fn de<T: DeserializeOwned>(f: Fmt, b: &[u8]) -> Result<T, Fail> {
    match f {
        Fmt::Bincode => bincode::deserialize(b).map_err(|_| Fail::Err),
        Fmt::Json => serde_json::from_slice(b).map_err(|_| Fail::Err),
    }
}

fn n32(b: &[u8]) -> Result<[u8; 32], Fail> {
    b.try_into().map_err(|_| BADREQ)
}

/// `serde.<fmt>.<dir>.<type> HEX`
pub fn serde_op(rest: &str, a: &[&str]) -> R {
    let mut it = rest.split('.');
    let (fmt, dir, ty) = (
        it.next().ok_or(BADREQ)?,
        it.next().ok_or(BADREQ)?,
        it.next().ok_or(BADREQ)?,
    );
    if it.next().is_some() {
        return Err(BADREQ);
    }
    let f = match fmt {
        "bincode" => Fmt::Bincode,
        "json" => Fmt::Json,
        _ => return Err(BADREQ),
    };
    const TYPES: &[&str] = &[
        "scalar",
        "edwards",
        "cedwards",
        "ristretto",
        "cristretto",
        "montgomery",
        "vk",
        "sk",
        "sig",
        "xpub",
        "xstatic",
    ];
    if !TYPES.contains(&ty) {
        return Err(BADREQ);
    }
    arity(a, 1)?;
    let b = unhex(a[0])?;
    match dir {
        "ser" => match ty {
            "scalar" => {
                let s: Option<Scalar> = Scalar::from_canonical_bytes(n32(&b)?).into();
                ser(f, &s.ok_or(BADREQ)?)
            }
            "edwards" => ser(f, &dec_ed(&CompressedEdwardsY(n32(&b)?))?),
            "cedwards" => ser(f, &CompressedEdwardsY(n32(&b)?)),
            "ristretto" => ser(f, &dec_ris(&CompressedRistretto(n32(&b)?))?),
            "cristretto" => ser(f, &CompressedRistretto(n32(&b)?)),
            "montgomery" => ser(f, &MontgomeryPoint(n32(&b)?)),
            "vk" => ser(
                f,
                &VerifyingKey::from_bytes(&n32(&b)?).map_err(|_| Fail::BadPoint)?,
            ),
            "sk" => ser(f, &SigningKey::from_bytes(&n32(&b)?)),
            "sig" => {
                let sb: [u8; 64] = b.as_slice().try_into().map_err(|_| BADREQ)?;
                ser(f, &Signature::from_bytes(&sb))
            }
            "xpub" => ser(f, &x25519_dalek::PublicKey::from(n32(&b)?)),
            _ => ser(f, &x25519_dalek::StaticSecret::from(n32(&b)?)),
        },
        "de" => match ty {
            "scalar" => ok_hex(&de::<Scalar>(f, &b)?.to_bytes()),
            "edwards" => ok_hex(de::<EdwardsPoint>(f, &b)?.compress().as_bytes()),
            "cedwards" => ok_hex(de::<CompressedEdwardsY>(f, &b)?.as_bytes()),
            "ristretto" => ok_hex(de::<RistrettoPoint>(f, &b)?.compress().as_bytes()),
            "cristretto" => ok_hex(de::<CompressedRistretto>(f, &b)?.as_bytes()),
            "montgomery" => ok_hex(de::<MontgomeryPoint>(f, &b)?.as_bytes()),
            "vk" => ok_hex(de::<VerifyingKey>(f, &b)?.as_bytes()),
            "sk" => ok_hex(&de::<SigningKey>(f, &b)?.to_bytes()),
            "sig" => ok_hex(&de::<Signature>(f, &b)?.to_bytes()),
            "xpub" => ok_hex(de::<x25519_dalek::PublicKey>(f, &b)?.as_bytes()),
            _ => ok_hex(&de::<x25519_dalek::StaticSecret>(f, &b)?.to_bytes()),
        },
        _ => Err(BADREQ),
    }
}

fn ct_sc(r: CtOption<Scalar>) -> R {
    match Option::<Scalar>::from(r) {
        Some(s) => ok_hex(s.as_bytes()),
        None => Err(Fail::None),
    }
}

fn strip0x(s: &str) -> &str {
    s.strip_prefix("0x").unwrap_or(s)
}

pub fn grp_op(op: &str, a: &[&str]) -> R {
    match op {
        "sqrt" => {
            arity(a, 1)?;
            ct_sc(<Scalar as Field>::sqrt(&sc(a[0])?))
        }
        "invert" => {
            arity(a, 1)?;
            ct_sc(<Scalar as Field>::invert(&sc(a[0])?))
        }
        "from_repr" => {
            arity(a, 1)?;
            ct_sc(<Scalar as PrimeField>::from_repr(hx::<32>(a[0])?))
        }
        "from_repr_vt" => {
            arity(a, 1)?;
            match <Scalar as PrimeField>::from_repr_vartime(hx::<32>(a[0])?) {
                Some(s) => ok_hex(s.as_bytes()),
                None => Err(Fail::None),
            }
        }
        "consts" => {
            arity(a, 0)?;
            let mut o = String::new();
            o.push(' ');
            o.push_str(strip0x(<Scalar as PrimeField>::MODULUS));
            push_hex(&mut o, <Scalar as PrimeField>::TWO_INV.as_bytes());
            push_hex(
                &mut o,
                <Scalar as PrimeField>::MULTIPLICATIVE_GENERATOR.as_bytes(),
            );
            push_int(&mut o, <Scalar as PrimeField>::S);
            push_hex(&mut o, <Scalar as PrimeField>::ROOT_OF_UNITY.as_bytes());
            push_hex(&mut o, <Scalar as PrimeField>::ROOT_OF_UNITY_INV.as_bytes());
            push_hex(&mut o, <Scalar as PrimeField>::DELTA.as_bytes());
            push_int(&mut o, <Scalar as PrimeField>::NUM_BITS);
            push_int(&mut o, <Scalar as PrimeField>::CAPACITY);
            Ok(o)
        }
        "ed_from_bytes" | "ed_from_bytes_unchecked" => {
            arity(a, 1)?;
            let b = hx::<32>(a[0])?;
            let r = if op == "ed_from_bytes" {
                <EdwardsPoint as GroupEncoding>::from_bytes(&b)
            } else {
                <EdwardsPoint as GroupEncoding>::from_bytes_unchecked(&b)
            };
            match Option::<EdwardsPoint>::from(r) {
                Some(p) => ok_hex(&GroupEncoding::to_bytes(&p)),
                None => Err(Fail::None),
            }
        }
        "sub_from_bytes" => {
            arity(a, 1)?;
            let r = <SubgroupPoint as GroupEncoding>::from_bytes(&hx::<32>(a[0])?);
            match Option::<SubgroupPoint>::from(r) {
                Some(p) => ok_hex(&GroupEncoding::to_bytes(&p)),
                None => Err(Fail::None),
            }
        }
        "ris_from_bytes" => {
            arity(a, 1)?;
            let r = <RistrettoPoint as GroupEncoding>::from_bytes(&hx::<32>(a[0])?);
            match Option::<RistrettoPoint>::from(r) {
                Some(p) => ok_hex(&GroupEncoding::to_bytes(&p)),
                None => Err(Fail::None),
            }
        }
        "into_subgroup" => {
            arity(a, 1)?;
            let p = pt(a[0])?;
            match Option::<SubgroupPoint>::from(CofactorGroup::into_subgroup(p)) {
                Some(q) => ok_hex(&GroupEncoding::to_bytes(&q)),
                None => Err(Fail::None),
            }
        }
        "clear_cofactor" => {
            arity(a, 1)?;
            let p = pt(a[0])?;
            ok_hex(&GroupEncoding::to_bytes(&CofactorGroup::clear_cofactor(&p)))
        }
        "is_torsion_free" => {
            arity(a, 1)?;
            let p = pt(a[0])?;
            let c = CofactorGroup::is_torsion_free(&p);
            ok_bool(c.unwrap_u8() == 1)
        }
        // the `group::Group` trait methods themselves (UFCS, so that no inherent method or other trait is picked)
        "ed_group" => {
            arity(a, 1)?;
            let p = pt(a[0])?;
            let mut o = String::new();
            push_choice(&mut o, <EdwardsPoint as group::Group>::is_identity(&p));
            push_hex(&mut o, &GroupEncoding::to_bytes(&<EdwardsPoint as group::Group>::double(&p)));
            push_hex(&mut o, &GroupEncoding::to_bytes(&<EdwardsPoint as group::Group>::identity()));
            push_hex(&mut o, &GroupEncoding::to_bytes(&<EdwardsPoint as group::Group>::generator()));
            Ok(o)
        }
        "sub_group" => {
            arity(a, 1)?;
            let p = pt(a[0])?;
            match Option::<SubgroupPoint>::from(CofactorGroup::into_subgroup(p)) {
                Some(q) => {
                    let mut o = String::new();
                    push_choice(&mut o, <SubgroupPoint as group::Group>::is_identity(&q));
                    push_hex(&mut o, &GroupEncoding::to_bytes(&<SubgroupPoint as group::Group>::double(&q)));
                    push_hex(&mut o, &GroupEncoding::to_bytes(&<SubgroupPoint as group::Group>::identity()));
                    push_hex(&mut o, &GroupEncoding::to_bytes(&<SubgroupPoint as group::Group>::generator()));
                    Ok(o)
                }
                None => Err(Fail::None),
            }
        }
        // `ris_group R j`: the element encoded by R, held as its j-th coset representative (P + T, T in E[4])
        "ris_group" => {
            arity(a, 2)?;
            let c = CompressedRistretto(hx::<32>(a[0])?);
            let j = int_in(a[1], 0, 3)? as usize;
            match c.decompress() {
                Some(p0) => {
                    let p = vh::ristretto_add_torsion(&p0, j);
                    let mut o = String::new();
                    push_choice(&mut o, <RistrettoPoint as group::Group>::is_identity(&p));
                    push_hex(&mut o, &GroupEncoding::to_bytes(&<RistrettoPoint as group::Group>::double(&p)));
                    push_hex(&mut o, &GroupEncoding::to_bytes(&<RistrettoPoint as group::Group>::identity()));
                    push_hex(&mut o, &GroupEncoding::to_bytes(&<RistrettoPoint as group::Group>::generator()));
                    // CofactorGroup: ristretto255 has prime order, so every representative is torsion-free, is admitted by
                    // `into_subgroup`, and `clear_cofactor` is the identity map
                    push_choice(&mut o, <RistrettoPoint as group::cofactor::CofactorGroup>::is_torsion_free(&p));
                    let sub: Option<RistrettoPoint> = <RistrettoPoint as group::cofactor::CofactorGroup>::into_subgroup(p).into();
                    match sub {
                        Some(q) => push_hex(&mut o, &GroupEncoding::to_bytes(&q)),
                        None => o.push_str(" none"),
                    }
                    push_hex(&mut o, &GroupEncoding::to_bytes(&<RistrettoPoint as group::cofactor::CofactorGroup>::clear_cofactor(&p)));
                    Ok(o)
                }
                None => Err(Fail::None),
            }
        }
        "from_uniform" => {
            arity(a, 1)?;
            ok_hex(<Scalar as FromUniformBytes<64>>::from_uniform_bytes(&hx::<64>(a[0])?).as_bytes())
        }
        "sqrt_ratio" => {
            arity(a, 2)?;
            let (c, r) = <Scalar as Field>::sqrt_ratio(&sc(a[0])?, &sc(a[1])?);
            let mut o = String::new();
            push_choice(&mut o, c);
            push_hex(&mut o, r.as_bytes());
            Ok(o)
        }
        _ => Err(BADREQ),
    }
}

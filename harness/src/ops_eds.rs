//! `eds.*`

use crate::util::*;
use ed25519_dalek::hazmat::{self, ExpandedSecretKey};
use ed25519_dalek::{DigestSigner, Signature, Signer, SigningKey, Verifier, VerifyingKey};
use sha2::{Digest, Sha512};

/// ctx argument of the prehash ops: `~` = None, `-` = Some(empty).
fn ctx_arg(s: &str) -> Result<Option<Vec<u8>>, Fail> {
    if s == "~" {
        Ok(None)
    } else {
        unhex(s).map(Some)
    }
}

/// A verifying key that fails to decode gives plain `err`.
fn vk_or_err(b: &[u8; 32]) -> Result<VerifyingKey, Fail> {
    VerifyingKey::from_bytes(b).map_err(|_| Fail::Err)
}

fn unit<E>(r: Result<(), E>) -> R {
    match r {
        Ok(()) => Ok(String::new()),
        Err(_) => Err(Fail::Err),
    }
}

fn sig_res<E>(r: Result<Signature, E>) -> R {
    match r {
        Ok(s) => ok_hex(&s.to_bytes()),
        Err(_) => Err(Fail::Err),
    }
}

pub fn eds_op(op: &str, a: &[&str]) -> R {
    match op {
        "keygen" => {
            arity(a, 1)?;
            let sk = SigningKey::from_bytes(&hx::<32>(a[0])?);
            ok_hex(sk.verifying_key().as_bytes())
        }
        "to_scalar_bytes" => {
            arity(a, 1)?;
            let sk = SigningKey::from_bytes(&hx::<32>(a[0])?);
            ok_hex(&sk.to_scalar_bytes())
        }
        "to_scalar" => {
            arity(a, 1)?;
            let sk = SigningKey::from_bytes(&hx::<32>(a[0])?);
            ok_hex(sk.to_scalar().as_bytes())
        }
        "expand" => {
            arity(a, 1)?;
            let seed = hx::<32>(a[0])?;
            let esk = ExpandedSecretKey::from(&seed);
            let mut o = String::new();
            push_hex(&mut o, esk.scalar.as_bytes());
            push_hex(&mut o, &esk.hash_prefix);
            Ok(o)
        }
        "sign" => {
            arity(a, 2)?;
            let sk = SigningKey::from_bytes(&hx::<32>(a[0])?);
            let msg = unhex(a[1])?;
            sig_res(sk.try_sign(&msg))
        }
        "sign_ph" => {
            arity(a, 3)?;
            let sk = SigningKey::from_bytes(&hx::<32>(a[0])?);
            let msg = unhex(a[1])?;
            let ctx = ctx_arg(a[2])?;
            sig_res(sk.sign_prehashed(Sha512::new().chain_update(&msg), ctx.as_deref()))
        }
        "sign_ctx" => {
            arity(a, 3)?;
            let sk = SigningKey::from_bytes(&hx::<32>(a[0])?);
            let msg = unhex(a[1])?;
            if a[2] == "~" {
                return Err(BADREQ);
            }
            let ctx = unhex(a[2])?;
            match sk.with_context(&ctx) {
                Ok(c) => sig_res(c.try_sign_digest(Sha512::new().chain_update(&msg))),
                Err(_) => Err(Fail::Err),
            }
        }
        // the hazmat functions instantiated with a SECOND 64-byte digest, `TaggedSha512` = SHA-512 with the tag "alt" absorbed first:
        // which digest a generic helper is instantiated with is observable only with a context digest other than SHA-512
        "raw_sign_alt" => {
            arity(a, 3)?;
            let esk = ExpandedSecretKey::from_bytes(&hx::<64>(a[0])?);
            let msg = unhex(a[1])?;
            let vk = vk_or_err(&hx::<32>(a[2])?)?;
            ok_hex(&hazmat::raw_sign::<TaggedSha512>(&esk, &msg, &vk).to_bytes())
        }
        "raw_verify_alt" => {
            arity(a, 3)?;
            let vk = vk_or_err(&hx::<32>(a[0])?)?;
            let msg = unhex(a[1])?;
            let sig = Signature::from_bytes(&hx::<64>(a[2])?);
            unit(hazmat::raw_verify::<TaggedSha512>(&vk, &msg, &sig))
        }
        "raw_sign_ph_alt" => {
            arity(a, 4)?;
            let esk = ExpandedSecretKey::from_bytes(&hx::<64>(a[0])?);
            let msg = unhex(a[1])?;
            let vk = vk_or_err(&hx::<32>(a[2])?)?;
            let ctx = ctx_arg(a[3])?;
            sig_res(hazmat::raw_sign_prehashed::<TaggedSha512, Sha512>(&esk, Sha512::new().chain_update(&msg), &vk, ctx.as_deref()))
        }
        "raw_verify_ph_alt" => {
            arity(a, 4)?;
            let vk = vk_or_err(&hx::<32>(a[0])?)?;
            let msg = unhex(a[1])?;
            let ctx = ctx_arg(a[2])?;
            let sig = Signature::from_bytes(&hx::<64>(a[3])?);
            unit(hazmat::raw_verify_prehashed::<TaggedSha512, Sha512>(&vk, Sha512::new().chain_update(&msg), ctx.as_deref(), &sig))
        }
        "raw_sign" => {
            arity(a, 3)?;
            let esk = ExpandedSecretKey::from_bytes(&hx::<64>(a[0])?);
            let msg = unhex(a[1])?;
            let vk = vk_or_err(&hx::<32>(a[2])?)?;
            ok_hex(&hazmat::raw_sign::<Sha512>(&esk, &msg, &vk).to_bytes())
        }
        "from_keypair" => {
            arity(a, 1)?;
            match SigningKey::from_keypair_bytes(&hx::<64>(a[0])?) {
                Ok(sk) => ok_hex(sk.verifying_key().as_bytes()),
                Err(_) => Err(Fail::Err),
            }
        }
        "vk" => {
            arity(a, 1)?;
            let vk = vk_or_err(&hx::<32>(a[0])?)?;
            let mut o = String::new();
            push_hex(&mut o, vk.as_bytes());
            push_bool(&mut o, vk.is_weak());
            Ok(o)
        }
        // Only `Signature::from_slice`: `InternalSignature` (the scalar
        // check) is pub(crate) in ed25519-dalek and unreachable from here; it
        // is exercised through `eds.verify*`.
        "sig" => {
            arity(a, 1)?;
            let b = unhex(a[0])?;
            sig_res(Signature::from_slice(&b))
        }
        // the same through the OTHER import paths: key via `TryFrom<&[u8]>`, signature via `Signature::from_slice`
        "vk_slice" => {
            arity(a, 1)?;
            let b = hx::<32>(a[0])?;
            let vk = VerifyingKey::try_from(&b[..]).map_err(|_| Fail::Err)?;
            let mut o = String::new();
            push_hex(&mut o, vk.as_bytes());
            push_bool(&mut o, vk.is_weak());
            Ok(o)
        }
        "verify_slice" | "verify_strict_slice" => {
            arity(a, 3)?;
            let vkb = hx::<32>(a[0])?;
            let msg = unhex(a[1])?;
            let sigb = hx::<64>(a[2])?;
            let sig = Signature::from_slice(&sigb[..]).map_err(|_| Fail::Err)?;
            let vk = VerifyingKey::try_from(&vkb[..]).map_err(|_| Fail::Err)?;
            if op == "verify_slice" {
                unit(vk.verify(&msg, &sig))
            } else {
                unit(vk.verify_strict(&msg, &sig))
            }
        }
        "verify" | "verify_strict" => {
            arity(a, 3)?;
            let vkb = hx::<32>(a[0])?;
            let msg = unhex(a[1])?;
            let sig = Signature::from_bytes(&hx::<64>(a[2])?);
            let vk = vk_or_err(&vkb)?;
            if op == "verify" {
                unit(vk.verify(&msg, &sig))
            } else {
                unit(vk.verify_strict(&msg, &sig))
            }
        }
        "verify_ph" | "verify_ph_strict" => {
            arity(a, 4)?;
            let vkb = hx::<32>(a[0])?;
            let msg = unhex(a[1])?;
            let ctx = ctx_arg(a[2])?;
            let sig = Signature::from_bytes(&hx::<64>(a[3])?);
            let vk = vk_or_err(&vkb)?;
            let d = Sha512::new().chain_update(&msg);
            if op == "verify_ph" {
                unit(vk.verify_prehashed(d, ctx.as_deref(), &sig))
            } else {
                unit(vk.verify_prehashed_strict(d, ctx.as_deref(), &sig))
            }
        }
        "vk_to_montgomery" => {
            arity(a, 1)?;
            let vk = vk_or_err(&hx::<32>(a[0])?)?;
            ok_hex(vk.to_montgomery().as_bytes())
        }
        "batch" | "batch_transcript" => {
            arity(a, 3)?;
            let msgs: Vec<Vec<u8>> = list(a[0])?
                .into_iter()
                .map(unhex)
                .collect::<Result<_, _>>()?;
            let sigs: Vec<Signature> = list(a[1])?
                .into_iter()
                .map(|s| hx::<64>(s).map(|b| Signature::from_bytes(&b)))
                .collect::<Result<_, _>>()?;
            let vkbs: Vec<[u8; 32]> = list(a[2])?
                .into_iter()
                .map(hx::<32>)
                .collect::<Result<_, _>>()?;
            let vks: Vec<VerifyingKey> = vkbs.iter().map(vk_or_err).collect::<Result<_, _>>()?;
            let mrefs: Vec<&[u8]> = msgs.iter().map(|m| m.as_slice()).collect();
            if op == "batch" {
                return unit(ed25519_dalek::verify_batch(&mrefs, &sigs, &vks));
            }
            // `eds.batch_transcript`: the sequence of operations verify_batch
            // performs on its merlin transcript (vendored merlin, log only).
            use std::sync::atomic::Ordering;
            let _ = merlin::take_log();
            merlin::LOG_ENABLED.store(true, Ordering::SeqCst);
            let r = std::panic::catch_unwind(std::panic::AssertUnwindSafe(|| {
                ed25519_dalek::verify_batch(&mrefs, &sigs, &vks)
            }));
            merlin::LOG_ENABLED.store(false, Ordering::SeqCst);
            let log = merlin::take_log();
            let r = match r {
                Ok(r) => r,
                Err(e) => std::panic::resume_unwind(e),
            };
            let mut o = String::new();
            push_bool(&mut o, r.is_ok());
            o.push(' ');
            if log.is_empty() {
                o.push('-');
            }
            for (i, (label, message)) in log.iter().enumerate() {
                if i > 0 {
                    o.push(',');
                }
                hex_into(&mut o, label);
                o.push(':');
                hex_into(&mut o, message);
            }
            Ok(o)
        }
        _ => Err(BADREQ),
    }
}


/// SHA-512 with the tag `b"alt"` absorbed first: a second `Digest<OutputSize = U64>` for the `CtxDigest` parameter of the hazmat
/// functions (`H'(m) = SHA-512("alt" || m)`).
#[derive(Clone)]
pub struct TaggedSha512(Sha512);

impl Default for TaggedSha512 {
    fn default() -> Self {
        let mut h = Sha512::new();
        Digest::update(&mut h, b"alt");
        TaggedSha512(h)
    }
}

mod tagged_impl {
    use super::TaggedSha512;
    use curve25519_dalek::digest::consts::U64;
    use curve25519_dalek::digest::{Digest, FixedOutput, HashMarker, Output, OutputSizeUser, Reset, Update};

    impl OutputSizeUser for TaggedSha512 {
        type OutputSize = U64;
    }
    impl Update for TaggedSha512 {
        fn update(&mut self, data: &[u8]) {
            Digest::update(&mut self.0, data);
        }
    }
    impl FixedOutput for TaggedSha512 {
        fn finalize_into(self, out: &mut Output<Self>) {
            out.copy_from_slice(&self.0.finalize());
        }
    }
    impl Reset for TaggedSha512 {
        fn reset(&mut self) {
            *self = TaggedSha512::default();
        }
    }
    impl HashMarker for TaggedSha512 {}
}

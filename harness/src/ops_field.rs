//! `fe.*`, `felW.*`, `felvW.*`, `vfe.A.*`

use crate::util::*;
use curve25519_dalek::verif_hooks as vh;

pub fn fe_op(op: &str, a: &[&str]) -> R {
    let mut o = String::new();
    match op {
        "roundtrip" => {
            arity(a, 1)?;
            push_fe(&mut o, &fe(a[0])?);
        }
        "add" | "sub" | "mul" => {
            arity(a, 2)?;
            let (x, y) = (fe(a[0])?, fe(a[1])?);
            let r = match op {
                "add" => vh::fe_add(&x, &y),
                "sub" => vh::fe_sub(&x, &y),
                _ => vh::fe_mul(&x, &y),
            };
            push_fe(&mut o, &r);
        }
        "neg" | "square" | "square2" | "invert" => {
            arity(a, 1)?;
            let x = fe(a[0])?;
            let r = match op {
                "neg" => vh::fe_neg(&x),
                "square" => vh::fe_square(&x),
                "square2" => vh::fe_square2(&x),
                _ => vh::fe_invert(&x),
            };
            push_fe(&mut o, &r);
        }
        // private fns in field.rs: not hookable without changing visibility
        "pow_p58" => {
            arity(a, 1)?;
            fe(a[0])?;
            return Err(Fail::Skip);
        }
        "pow22501" => {
            arity(a, 1)?;
            fe(a[0])?;
            return Err(Fail::Skip);
        }
        "pow2k" => {
            arity(a, 2)?;
            let x = fe(a[0])?;
            let k = int_in(a[1], 1, 300)? as u32;
            push_fe(&mut o, &vh::fe_pow2k(&x, k));
        }
        "sqrt_ratio_i" => {
            arity(a, 2)?;
            let (c, r) = vh::fe_sqrt_ratio_i(&fe(a[0])?, &fe(a[1])?);
            push_choice(&mut o, c);
            push_fe(&mut o, &r);
        }
        "invsqrt" => {
            arity(a, 1)?;
            let (c, r) = vh::fe_invsqrt(&fe(a[0])?);
            push_choice(&mut o, c);
            push_fe(&mut o, &r);
        }
        "batch_invert" => {
            arity(a, 1)?;
            let mut v: Vec<vh::FeLimbs> = list(a[0])?.into_iter().map(fe).collect::<Result<_, _>>()?;
            vh::fe_batch_invert(&mut v);
            push_hex_list(&mut o, v.iter().map(vh::fe_as_bytes));
        }
        "is_negative" => {
            arity(a, 1)?;
            push_choice(&mut o, vh::fe_is_negative(&fe(a[0])?));
        }
        "is_zero" => {
            arity(a, 1)?;
            push_choice(&mut o, vh::fe_is_zero(&fe(a[0])?));
        }
        "ct_eq" => {
            arity(a, 2)?;
            push_choice(&mut o, vh::fe_ct_eq(&fe(a[0])?, &fe(a[1])?));
        }
        "cselect" => {
            arity(a, 3)?;
            let (x, y, c) = (fe(a[0])?, fe(a[1])?, choice(a[2])?);
            push_fe(&mut o, &vh::fe_conditional_select(&x, &y, c));
        }
        "cswap" => {
            arity(a, 3)?;
            let (x, y, c) = (fe(a[0])?, fe(a[1])?, choice(a[2])?);
            let (x2, y2) = vh::fe_conditional_swap(&x, &y, c);
            push_fe(&mut o, &x2);
            push_fe(&mut o, &y2);
        }
        "cassign" => {
            arity(a, 3)?;
            let (x, y, c) = (fe(a[0])?, fe(a[1])?, choice(a[2])?);
            push_fe(&mut o, &vh::fe_conditional_assign(&x, &y, c));
        }
        "cnegate" => {
            arity(a, 2)?;
            let (x, c) = (fe(a[0])?, choice(a[1])?);
            push_fe(&mut o, &vh::fe_conditional_negate(&x, c));
        }
        // extra (not compared): named constants
        "const" => {
            arity(a, 1)?;
            push_fe(&mut o, &vh::fe_constant(a[0]).ok_or(BADREQ)?);
        }
        _ => return Err(BADREQ),
    }
    Ok(o)
}

/// `fel51.*`, `fel26.*` (`value == false`: result as limbs) and
/// `felv51.*`, `felv26.*` (`value == true`: result through `as_bytes`).
/// `felF51.*`, `felF26.*` (`fiat == true`): result as limbs, served by the fiat wrapper backends only.
pub fn fel_op(width: u32, value: bool, fiat: bool, op: &str, a: &[&str]) -> R {
    const OPS: &[&str] = &[
        "add", "sub", "mul", "neg", "square", "square2", "reduce", "pow2k", "from_bytes",
        "as_bytes",
    ];
    if !OPS.contains(&op) || (width != 51 && width != 26) {
        return Err(BADREQ);
    }
    if width != vh::FE_RADIX_BITS {
        return Err(Fail::Skip);
    }
    // limb-level results: `fel*` is the serial implementation, `felF*` the fiat wrapper
    if !value && (vh::BACKEND == "fiat") != fiat {
        return Err(Fail::Skip);
    }
    let lim = |s: &str| limbs::<vh::FeLimb, { vh::FE_NLIMBS }>(s);
    let r: vh::FeLimbs = match op {
        "add" | "sub" | "mul" => {
            arity(a, 2)?;
            let (x, y) = (lim(a[0])?, lim(a[1])?);
            match op {
                "add" => vh::fe_add(&x, &y),
                "sub" => vh::fe_sub(&x, &y),
                _ => vh::fe_mul(&x, &y),
            }
        }
        "neg" | "square" | "square2" => {
            arity(a, 1)?;
            let x = lim(a[0])?;
            match op {
                "neg" => vh::fe_neg(&x),
                "square" => vh::fe_square(&x),
                _ => vh::fe_square2(&x),
            }
        }
        // the weak `reduce` is a private fn on every backend
        "reduce" => {
            arity(a, 1)?;
            return Err(Fail::Skip);
        }
        "pow2k" => {
            arity(a, 2)?;
            let x = lim(a[0])?;
            let k = int_in(a[1], 1, 300)? as u32;
            vh::fe_pow2k(&x, k)
        }
        "from_bytes" => {
            arity(a, 1)?;
            vh::fe_from_bytes(&hx::<32>(a[0])?)
        }
        "as_bytes" => {
            arity(a, 1)?;
            return ok_hex(&vh::fe_as_bytes(&lim(a[0])?));
        }
        _ => return Err(BADREQ),
    };
    let mut o = String::new();
    if value {
        push_fe(&mut o, &r);
    } else {
        push_int_list(&mut o, r.iter());
    }
    Ok(o)
}

// ------------------------------------------------------------------ vfe

#[cfg(hv_simd)]
fn lanes4(a: &[&str]) -> Result<vh::Lanes4, Fail> {
    Ok([fe(a[0])?, fe(a[1])?, fe(a[2])?, fe(a[3])?])
}

/// Lanes given as raw `FieldElement51` limbs (`vfel.*`): INT LIST of 5 u64.
#[cfg(hv_simd)]
fn lanes4_limbs(a: &[&str]) -> Result<vh::Lanes4, Fail> {
    let l = |s: &str| limbs::<u64, 5>(s);
    Ok([l(a[0])?, l(a[1])?, l(a[2])?, l(a[3])?])
}

#[cfg(hv_simd)]
fn ok_lanes(l: &vh::Lanes4) -> R {
    let mut o = String::new();
    for x in l {
        push_fe(&mut o, x);
    }
    Ok(o)
}

#[cfg(hv_simd)]
fn consts4(a: &[&str]) -> Result<(u32, u32, u32, u32), Fail> {
    let k = |s: &str| int_in(s, 0, u32::MAX as i128).map(|v| v as u32);
    Ok((k(a[0])?, k(a[1])?, k(a[2])?, k(a[3])?))
}

/// Number of arguments of each `vfe` op (None: unknown op).
fn vfe_arity(op: &str) -> Option<usize> {
    Some(match op {
        "roundtrip" | "square" | "neg" | "reduce" | "diff_sum" | "negate_lazy" => 4,
        "mul" | "add" | "sub" | "mul_negate_lazy" | "mul_diff_sum" => 8,
        "shuffle" => 5,
        "blend" | "cselect" => 9,
        "mul_consts" => 8,
        _ => return None,
    })
}

#[allow(unused_macros)]
macro_rules! vfe_impl {
    ($modname:ident, $square:ident, $lanes4:ident) => {
        |op: &str, a: &[&str]| -> R {
            use vh::$modname as v;
            // None from a hook = CPU lacks the instruction set = skip
            let r: Option<vh::Lanes4> = match op {
                "roundtrip" => v::new_split(&$lanes4(a)?),
                "mul" => v::mul(&$lanes4(a)?, &$lanes4(&a[4..])?),
                // the unreduced product fed straight into negate_lazy / diff_sum, as the point formulas do
                "mul_negate_lazy" => match v::mul(&$lanes4(a)?, &$lanes4(&a[4..])?) {
                    Some(r) => v::negate_lazy(&r),
                    None => None,
                },
                "mul_diff_sum" => match v::mul(&$lanes4(a)?, &$lanes4(&a[4..])?) {
                    Some(r) => v::diff_sum(&r),
                    None => None,
                },
                "square" => v::$square(&$lanes4(a)?),
                "neg" => v::neg(&$lanes4(a)?),
                "negate_lazy" => v::negate_lazy(&$lanes4(a)?),
                "reduce" => v::reduce(&$lanes4(a)?),
                "add" => v::add(&$lanes4(a)?, &$lanes4(&a[4..])?),
                "sub" => v::add_neg(&$lanes4(a)?, &$lanes4(&a[4..])?),
                "diff_sum" => v::diff_sum(&$lanes4(a)?),
                "shuffle" => {
                    let x = $lanes4(a)?;
                    let ctl = int_in(a[4], 0, 9)? as u8;
                    match v::shuffle(&x, ctl) {
                        None => None,
                        Some(None) => return Err(Fail::Skip),
                        Some(Some(r)) => Some(r),
                    }
                }
                "blend" => {
                    let (x, y) = ($lanes4(a)?, $lanes4(&a[4..])?);
                    let ctl = int_in(a[8], 0, 8)? as u8;
                    match v::blend(&x, &y, ctl) {
                        None => None,
                        // this backend's `Lanes` enum lacks that lane set
                        Some(None) => return Err(Fail::Skip),
                        Some(Some(r)) => Some(r),
                    }
                }
                "mul_consts" => {
                    let x = $lanes4(a)?;
                    v::mul_consts(&x, consts4(&a[4..])?)
                }
                "cselect" => {
                    let (x, y) = ($lanes4(a)?, $lanes4(&a[4..])?);
                    v::conditional_select(&x, &y, choice(a[8])?)
                }
                _ => return Err(BADREQ),
            };
            match r {
                Some(l) => ok_lanes(&l),
                None => Err(Fail::Skip),
            }
        }
    };
}

/// `vfe.A.*` (`raw == false`, lanes = 32-byte field elements) and
/// `vfel.A.*` (`raw == true`, lanes = 5 raw u64 limbs, possibly unreduced).
pub fn vfe_op(raw: bool, isa: &str, op: &str, a: &[&str]) -> R {
    if isa != "avx2" && isa != "ifma" {
        return Err(BADREQ);
    }
    arity(a, vfe_arity(op).ok_or(BADREQ)?)?;
    match isa {
        "avx2" => {
            #[cfg(hv_simd)]
            {
                return if raw {
                    (vfe_impl!(avx2, square_and_negate_d, lanes4_limbs))(op, a)
                } else {
                    (vfe_impl!(avx2, square_and_negate_d, lanes4))(op, a)
                };
            }
        }
        _ => {
            #[cfg(hv_ifma)]
            {
                return if raw {
                    (vfe_impl!(ifma, square, lanes4_limbs))(op, a)
                } else {
                    (vfe_impl!(ifma, square, lanes4))(op, a)
                };
            }
        }
    }
    #[allow(unreachable_code)]
    {
        // validate what can be validated without the backend, then skip
        for x in a.iter().take(4) {
            if raw {
                limbs::<u64, 5>(x)?;
            } else {
                hx::<32>(x)?;
            }
        }
        Err(Fail::Skip)
    }
}

import Dalek.Props.C02.Api
import Dalek.Props.C04.Algorithms
import Dalek.Props.C07.Conversions
import Dalek.Proofs.RisBatchModel
import Dalek.Gen.Norm.Clamp.clamp_integer
import Dalek.Spec.Ed25519
/-!
# C15 — the mathematical facts the panic-site table relies on (`Dalek.Model.PanicTable`, class `provedBy`)

Each theorem below discharges the table entries that name it:

* `elligator_on_curve` — `nonspec_map_to_curve`'s `.expect(..)` on the Elligator output (proved in C07);
* `batch_invert_acc_nonzero` — `assert!(!acc.is_zero())` of `FieldElement::batch_invert` (and the scalar analogue,
  the `debug_assert!` of `Scalar::batch_invert`, for non-zero inputs);
* `scalar_invariant_high_bit_clear` — `debug_assert!(self[31] <= 127)` of `Scalar::as_radix_16`;
* `verify_batch_sizes_equal` — the three `assert_eq!`s on the size hints in `optional_multiscalar_mul`, reached
  from `verify_batch`;
* `optional_some_of_all_some` — the two `.expect("should return some point")` of the provided trait methods.

The statements are about the models named in each doc comment; what ties those models to the source is stated
there.
-/
set_option exponentiation.threshold 600

namespace Dalek.Props.C15.Facts
open Dalek.IR Dalek.Model.Contracts

/-! ## `elligator_on_curve` -/

/-- `EdwardsPoint::nonspec_map_to_curve`: for every field element `r_0` and sign bit,
`elligator_encode(r_0).to_edwards(sign)` is `Some` (on the executable specification `Dalek.Spec`, to which the
translated formulas are tied by `Dalek.Props.C07.elligator_encode_eq_spec` / `to_edwards_eq_spec`). -/
theorem elligator_on_curve (r0 : Nat) (sign : Bool) :
    Dalek.Spec.toEdwards (Dalek.Spec.elligatorEncode r0) sign ≠ none :=
  Dalek.Props.C07.elligator_on_curve r0 sign

/-! ## `batch_invert_acc_nonzero` -/

section field
variable {K : Type} [MulZeroClass K] [NoZeroDivisors K] [DecidableEq K]

/-- the accumulator of the first pass of `FieldElement::batch_invert` over any domain:
`acc.conditional_assign(&(&acc * input), !input.is_zero())` -/
def accSkipZeros : List K → K → K
  | [], acc => acc
  | x :: xs, acc => accSkipZeros xs (if x = 0 then acc else acc * x)

/-- in a ring without zero divisors (e.g. the field `ZMod p`) the product of the non-zero inputs is non-zero -/
theorem accSkipZeros_ne_zero : ∀ (xs : List K) (acc : K), acc ≠ 0 → accSkipZeros xs acc ≠ 0
  | [], _, h => h
  | x :: xs, acc, h => by
      simp only [accSkipZeros]
      apply accSkipZeros_ne_zero xs
      split
      · exact h
      · exact mul_ne_zero h ‹_›

end field

/-- over `ZMod p`, starting from `FieldElement::ONE` -/
theorem batch_invert_acc_nonzero_zmod (xs : List (ZMod (2 ^ 255 - 19))) : accSkipZeros xs 1 ≠ 0 :=
  accSkipZeros_ne_zero xs 1 one_ne_zero

/-- **`FieldElement::batch_invert`: `assert!(bool::from(!acc.is_zero()))` never fires**, for EVERY input slice
(zeros included): on the hand model `Dalek.Model.RistrettoDalek.batchFwd` of the first pass (field.rs:173-177; the
model used for `double_and_compress_batch` in C09) the final accumulator is non-zero modulo `p`. -/
theorem batch_invert_acc_nonzero (xs : List Nat) :
    (Dalek.Model.RistrettoDalek.batchFwd xs 1).2 % Dalek.Spec.P ≠ 0 := by
  have h := Dalek.Proofs.Ris.batchFwd_ne_zero xs 1 (by simp)
  exact fun h0 => h ((Dalek.Bridge.cast_eq_zero_iff _).2 h0)

/-- the scalar analogue, `debug_assert!(acc.pack() != Scalar::ZERO)` of `Scalar::batch_invert` (scalar.rs:815):
for canonical NON-ZERO inputs the packed accumulator of `Dalek.Model.ScalarApi.batchInvert` is not `Scalar::ZERO`
(`ZMod l` is a field).  (This site is classified `documentedContract`: zero inputs violate the documented
precondition.) -/
theorem batch_invert_acc_nonzero_scalar (inputs : List (List Nat))
    (hc : ∀ b ∈ inputs, Dalek.Proofs.ScalarApi.Canonical b)
    (h0 : ∀ b ∈ inputs, Dalek.Model.FieldBytes.leVal b ≠ 0) :
    Dalek.Model.ScalarApi.batchInvertAccPacked inputs ≠ Dalek.Gen.Consts.ScalarRs.ZERO := by
  open Dalek.Proofs.ScalarApi in
  intro hz
  have h := batchInvert_acc (forall2_isSc_of_canonical hc)
  rw [hz] at h
  have hv : (0 : F) = _ := ZERO_isSc.2.symm.trans h.2
  have hp : (inputs.map (fun b => ((Dalek.Model.FieldBytes.leVal b : Nat) : F))).prod ≠ 0 := by
    apply List.prod_ne_zero
    intro hm
    obtain ⟨b, hb, hb0⟩ := List.mem_map.1 hm
    exact cast_ne_zero (h0 b hb) (hc b hb).2 hb0
  exact mul_ne_zero hp Rm_ne_zero hv.symm

/-! ## `scalar_invariant_high_bit_clear` -/

/-- **Scalar invariant #1 (`bytes[31] <= 127`)**, the condition of `debug_assert!(self[31] <= 127)` in
`Scalar::as_radix_16`: every canonical scalar has it, hence (by `Dalek.Props.C02.Api.canonical_invariant`) every
scalar produced by a constructor or operator of the API model (`from_bytes_mod_order[_wide]`, `from_hash`,
`from_canonical_bytes`, `From<uN>`, `ZERO`, `ONE`, `+ − * neg`, `Sum`, `Product`, `invert`, `batch_invert`); and the
only other way to build a `Scalar`, `Scalar { bytes: clamp_integer(b) }` (`mul_clamped`, `mul_base_clamped`;
`from_bits` masks the same bit), has it for ALL 32-byte inputs (translated kernel `Dalek.Gen.Clamp.clamp_integer`). -/
theorem scalar_invariant_high_bit_clear :
    (∀ b, Dalek.Proofs.ScalarApi.Canonical b → b.getD 31 0 ≤ 127) ∧
    (∀ b, EnvIn b (bytes 32) → (Dalek.Model.ScalarApi.fromBytesModOrder b).getD 31 0 ≤ 127) ∧
    (∀ b, EnvIn b (bytes 64) → (Dalek.Model.ScalarApi.fromBytesModOrderWide b).getD 31 0 ≤ 127) ∧
    (∀ b s, EnvIn b (bytes 32) → Dalek.Model.ScalarApi.fromCanonicalBytes b = some s → s.getD 31 0 ≤ 127) ∧
    (∀ b, EnvIn b (bytes 32) → (Dalek.Gen.Clamp.clamp_integer.evalW b).getD 31 0 ≤ 127) := by
  have key : ∀ b, Dalek.Proofs.ScalarApi.Canonical b → b.getD 31 0 ≤ 127 := fun b hb => by
    have := hb.byte31; omega
  obtain ⟨c1, c2, -, c4, -⟩ := Dalek.Props.C02.Api.canonical_invariant
  refine ⟨key, fun b hb => key _ (c1 b hb), fun b hb => key _ (c2 b hb), fun b s hb hs => key _ (c4 b s hb hs), ?_⟩
  intro b hb
  obtain ⟨outs, -, hW, hpost, -⟩ :=
    Prog.norm_sound _ _ _ _ Dalek.Gen.Norm.Clamp.clamp_integer_norm_ok b hb
  subst hW
  obtain ⟨x, hx, hm⟩ := EnvIn_get hpost (i := 31) (t := ⟨0, 127, 0⟩) (by decide +kernel)
  rw [List.getD_eq_getElem?_getD, hx]
  exact hm.2.1

/-! ## `verify_batch_sizes_equal` -/

/-- `Iterator::size_hint`: `(lower, upper)` -/
abbrev SizeHint := Nat × Option Nat

/-- `usize::MAX` on the 64-bit targets -/
def usizeMax : Nat := 2 ^ 64 - 1

/-- `Once` -/
def shOnce : SizeHint := (1, some 1)
/-- `slice::Iter` over `n` elements; `Cloned` and `Map` forward the hint of the inner iterator -/
def shSlice (n : Nat) : SizeHint := (n, some n)
/-- `Zip::size_hint` (core): the minimum of the lower bounds; the minimum of the upper bounds that exist -/
def shZip (a b : SizeHint) : SizeHint :=
  (min a.1 b.1,
   match a.2, b.2 with
   | some x, some y => some (min x y)
   | some x, none => some x
   | none, some y => some y
   | none, none => none)
/-- `Chain::size_hint` (core): `lower = a.saturating_add(b)`, `upper = a.checked_add(b)` -/
def shChain (a b : SizeHint) : SizeHint :=
  (min (a.1 + b.1) usizeMax,
   match a.2, b.2 with
   | some x, some y => if x + y ≤ usizeMax then some (x + y) else none
   | _, _ => none)

/-- the `scalars` argument of `verify_batch`'s call (batch.rs:229):
`once(-B_coefficient).chain(zs.iter().cloned()).chain(zhrams)` with
`zhrams = hrams.iter().zip(zs.iter()).map(..)`; `zs`, `hrams` are `Vec`s collected from maps over
`signatures` resp. `0..signatures.len()`, so both have `nSigs` elements -/
def batchScalarsHint (nSigs : Nat) : SizeHint :=
  shChain (shChain shOnce (shSlice nSigs)) (shZip (shSlice nSigs) (shSlice nSigs))

/-- the `points` argument (batch.rs:230): `B.chain(Rs).chain(As)` with `Rs = signatures.iter().map(..)` and
`As = verifying_keys.iter().map(..)` -/
def batchPointsHint (nSigs nKeys : Nat) : SizeHint :=
  shChain (shChain shOnce (shSlice nSigs)) (shSlice nKeys)

/-- **`verify_batch` never trips the three `assert_eq!`s of `optional_multiscalar_mul`**
(`assert_eq!(s_lo, p_lo)`, `assert_eq!(s_hi, Some(s_lo))`, `assert_eq!(p_hi, Some(p_lo))`, edwards.rs): past the
length check at the entry of `verify_batch` (`signatures.len() = messages.len() = verifying_keys.len() = n`,
otherwise `Err`), both iterators have the exact size hint `(2n+1, Some(2n+1))`.  `n ≤ 2^57` holds for every slice
of 64-byte `Signature`s (a slice occupies at most `isize::MAX` bytes).  Model: the `size_hint` algebra of the core
iterator adaptors above, composed as in batch.rs:217-231 (hand-transcribed). -/
theorem verify_batch_sizes_equal (nSigs nMsgs nKeys : Nat)
    (hcheck : ¬ (nSigs ≠ nMsgs ∨ nSigs ≠ nKeys ∨ nKeys ≠ nMsgs)) (hn : nSigs ≤ 2 ^ 57) :
    let s := batchScalarsHint nSigs
    let p := batchPointsHint nSigs nKeys
    s.1 = p.1 ∧ s.2 = some s.1 ∧ p.2 = some p.1 ∧ s.1 = 2 * nSigs + 1 := by
  have hk : nKeys = nSigs := by omega
  rw [hk]
  have h1 : 1 + nSigs ≤ usizeMax := by unfold usizeMax; omega
  have h2 : 1 + nSigs + nSigs ≤ usizeMax := by unfold usizeMax; omega
  have e1 : min (1 + nSigs) usizeMax = 1 + nSigs := Nat.min_eq_left h1
  have e2 : min (1 + nSigs + nSigs) usizeMax = 1 + nSigs + nSigs := Nat.min_eq_left h2
  simp only [batchScalarsHint, batchPointsHint, shChain, shOnce, shSlice, shZip, Nat.min_self, e1, e2, h1, h2,
    if_true]
  exact ⟨trivial, trivial, trivial, by omega⟩

/-- the same fact on lists: the two argument sequences have the same number of elements `2n+1` -/
theorem verify_batch_lengths_equal {S P Sig Key : Type} (signatures : List Sig) (keys : List Key)
    (hlen : signatures.length = keys.length)
    (negB : S) (z : Sig → S) (hram : Nat → S) (mul : S → S → S) (B : P) (R : Sig → P) (A : Key → P) :
    let zs := signatures.map z
    let hrams := (List.range signatures.length).map hram
    ([negB] ++ zs ++ List.zipWith mul hrams zs).length = ([B] ++ signatures.map R ++ keys.map A).length ∧
      ([negB] ++ zs ++ List.zipWith mul hrams zs).length = 2 * signatures.length + 1 := by
  simp only [List.length_append, List.length_map, List.length_zipWith, List.length_range, List.length_cons,
    List.length_nil, Nat.min_self]
  omega

/-- and the model of `verify_batch` returns `false` (= `Err`) without reaching the call when the lengths differ -/
theorem verify_batch_len_mismatch (ops : Dalek.Spec.Ed25519.Ops) (legacy : Bool) (msgs sigs vks : List (List UInt8))
    (h : msgs.length ≠ sigs.length ∨ sigs.length ≠ vks.length) :
    Dalek.Spec.Ed25519.verifyBatchWith ops legacy msgs sigs vks = false := by
  unfold Dalek.Spec.Ed25519.verifyBatchWith
  rw [if_pos]
  rcases h with h | h <;> simp [h]

/-! ## `optional_some_of_all_some` -/

section msm
open Dalek.Model.ScalarMul Dalek.Model.Recode Dalek.Proofs.ScalarMul Dalek.Props.C04.Algorithms
variable {G : Type} [AddCommGroup G]

/-- **the provided methods' `.expect("should return some point")` never fire** (traits.rs:258 and 378): when
every point is wrapped in `Some` — which is what `vartime_multiscalar_mul` and `vartime_mixed_multiscalar_mul`
do — `optional_multiscalar_mul` (any dispatch thresholds: Straus or Pippenger with `w = 6, 7, 8`) and
`optional_mixed_multiscalar_mul` (precomputed Straus) return `Some(point)`, not `None`.  On the hand models
`Dalek.Model.ScalarMul` (C04); `Panics`-level `none` (the length `assert`s) is excluded by the length hypothesis,
which for the first is the documented contract of the trait. -/
theorem optional_some_of_all_some (t190 t500 t800 : ℕ) (scalars : List (List UInt8)) (points : List G)
    (hs : ∀ b ∈ scalars, Scalar255 b) (hlen : scalars.length = points.length) :
    (∃ Q, optionalMultiscalarMulWith groupOps t190 t500 t800 scalars (points.map some) = some (some Q)) ∧
    (∀ (staticPoints : List G) (staticScalars : List (List UInt8)),
      (∀ b ∈ staticScalars, Scalar255 b) →
      optionalMixedMultiscalarMul groupOps (precomputationNew groupOps staticPoints) staticScalars scalars
        (points.map some) ≠ some none) := by
  have hlen' : scalars.length = (points.map some).length := by rw [List.length_map, hlen]
  have hnone : (none : Option G) ∉ points.map some := by simp
  obtain ⟨h1, h2⟩ := Dalek.Props.C04.Algorithms.optional_none_iff t190 t500 t800 scalars (points.map some) hs hlen'
  refine ⟨?_, fun sp ss hss h => hnone ((h2 sp ss hss).1 h)⟩
  rw [Dalek.Props.C04.Algorithms.dispatch_spec _ _ _ _ _ hs, if_pos hlen',
    Dalek.Props.C04.Algorithms.collect_some]
  exact ⟨_, rfl⟩

/-- consequently the provided methods themselves do not panic (restating
`Dalek.Props.C04.Algorithms.vartime_multiscalar_mul_spec` / `vartime_mixed_multiscalar_mul_spec`) -/
theorem vartime_methods_no_panic (scalars : List (List UInt8)) (points : List G)
    (hs : ∀ b ∈ scalars, Scalar255 b) (hlen : scalars.length = points.length) :
    vartimeMultiscalarMul groupOps scalars points ≠ none ∧
    (∀ (staticPoints : List G) (staticScalars : List (List UInt8)),
      (∀ b ∈ staticScalars, Scalar255 b) → staticScalars.length ≤ staticPoints.length →
      vartimeMixedMultiscalarMul groupOps (precomputationNew groupOps staticPoints) staticScalars scalars points
        ≠ none) := by
  refine ⟨?_, fun sp ss hss hle => ?_⟩
  · rw [Dalek.Props.C04.Algorithms.vartime_multiscalar_mul_spec scalars points hs hlen]; simp
  · rw [Dalek.Props.C04.Algorithms.vartime_mixed_multiscalar_mul_spec sp ss scalars points hss hs hle hlen.symm]
    simp

end msm

/-! ## non-vacuity and axiom audit -/

example : ¬ ((3 : Nat) ≠ 3 ∨ (3 : Nat) ≠ 3 ∨ (3 : Nat) ≠ 3) ∧ (3 : Nat) ≤ 2 ^ 57 := by decide
example : batchScalarsHint 3 = (7, some 7) ∧ batchPointsHint 3 3 = (7, some 7) := by decide +kernel
/-- the size-hint model has teeth: with one key missing the first `assert_eq!` would fire -/
example : (batchScalarsHint 3).1 ≠ (batchPointsHint 3 2).1 := by decide +kernel

/-- info: 'Dalek.Props.C15.Facts.elligator_on_curve' depends on axioms: [propext, Classical.choice, Quot.sound] -/
#guard_msgs in #print axioms elligator_on_curve
/--
info: 'Dalek.Props.C15.Facts.batch_invert_acc_nonzero' depends on axioms: [propext, Classical.choice, Quot.sound]
-/
#guard_msgs in #print axioms batch_invert_acc_nonzero
/--
info: 'Dalek.Props.C15.Facts.batch_invert_acc_nonzero_scalar' depends on axioms: [propext, Classical.choice, Quot.sound]
-/
#guard_msgs in #print axioms batch_invert_acc_nonzero_scalar
/--
info: 'Dalek.Props.C15.Facts.scalar_invariant_high_bit_clear' depends on axioms: [propext, Classical.choice, Quot.sound]
-/
#guard_msgs in #print axioms scalar_invariant_high_bit_clear
/--
info: 'Dalek.Props.C15.Facts.verify_batch_sizes_equal' depends on axioms: [propext, Classical.choice, Quot.sound]
-/
#guard_msgs in #print axioms verify_batch_sizes_equal
/--
info: 'Dalek.Props.C15.Facts.optional_some_of_all_some' depends on axioms: [propext, Classical.choice, Quot.sound]
-/
#guard_msgs in #print axioms optional_some_of_all_some

end Dalek.Props.C15.Facts

import Dalek.Gen.Inventory
import Dalek.Model.PanicTable

/-!
# C15 — untrusted input never panics: every panic site of the source is classified

Lean functions are total, so "the model does not panic" carries no information.  The content of C15 on the
Lean side is an **inventory argument**: the translator regenerates, on every run, the list
`Dalek.Gen.Inventory.panicSites` of every syntactic panic site of the non-test code of `curve25519-dalek`,
`ed25519-dalek` and `x25519-dalek`; `Dalek.Model.PanicTable.table` assigns a hand-written, reviewed `Discharge`
to each of them; and the theorems below state that

* `all_sites_classified` — **every** regenerated site has an entry (so a new `unwrap`, `expect`, `assert!`,
  non-literal index, `copy_from_slice`, … anywhere in the non-test code breaks this theorem until it has been
  read and classified), and
* `no_unknown_sites` — no site is classified `unknown`.

What this does **not** prove: the reasons in the table are prose, checked by a human reader, not by Lean; entries
of class `provedBy "TODO:…"` name a precise mathematical fact whose Lean proof is still owed (`todoFacts`);
`arithmeticC11` entries defer to the bound contracts of C01/C02/C11.  The dynamic half of C15 (every decoder on
every length, all verify variants, the exceptional points of the Elligator / birational maps, under
`catch_unwind` in the `checked` profile) is the correspondence run of the check.
-/

namespace Dalek.Props.C15

open Dalek.Gen.Inventory Dalek.Model.PanicTable

/-- **Every panic site of the non-test source has a reviewed discharge.**  Keyed by
`(file, enclosing fn, kind, normalised text, occurrence)` through the injective numeric `key`; line numbers play
no role. -/
theorem all_sites_classified : ∀ s ∈ panicSites, (lookup s).isSome = true := by
  decide +kernel

/-- **No site is left without a safety argument.** -/
theorem no_unknown_sites : ∀ s ∈ panicSites, ∀ d, lookup s = some d → d.isUnknown = false := by
  decide +kernel

/-- The inventory scanned every source file (no file was skipped because it could not be tokenised). -/
theorem inventory_complete : scanErrors = [] := by decide +kernel

/-- The statements are not vacuous: the inventory is non-empty and, e.g., the Elligator `expect` is in it. -/
example : 0 < panicSites.length ∧
    (panicSites.any fun s => s.key == sitekey% "curve25519-dalek/src/edwards.rs" "EdwardsPoint::nonspec_map_to_curve"
      "expect" "E1_opt.expect(\"Montgomery conversion to Edwards point in Elligator failed\")") = true := by
  decide +kernel

/-- `lookup` fails for a site that is not in the table (the theorem has teeth). -/
example : lookupKey (sitekey% "curve25519-dalek/src/edwards.rs" "CompressedEdwardsY::from_slice" "unwrap"
    "bytes.try_into().unwrap()") 0 = none := by
  decide +kernel

/-! ## Evidence -/

/-- `(site, class: reason)` for every site, in source order (for the evidence file). -/
def siteReport : List (String × String) :=
  panicSites.map fun s =>
    (s.file ++ ":" ++ toString s.line ++ " " ++ s.func ++ " [" ++ s.kind ++ "] " ++ s.text,
     match lookup s with
     | some d => d.className ++ ": " ++ d.reason
     | none => "UNCLASSIFIED")

/-- number of sites per discharge class -/
def classCounts : List (String × Nat) :=
  let classes := ["guardedBy", "arithmeticC11", "documentedContract", "unreachableFromUntrusted", "provedBy",
    "provedBy(TODO)", "unknown", "UNCLASSIFIED"]
  classes.map fun c =>
    (c, (panicSites.filter fun s =>
      (match lookup s with | some d => d.className | none => "UNCLASSIFIED") == c).length)

/-- the mathematical facts the table relies on that are not yet proved in Lean (`provedBy "TODO:…"`) -/
def todoFacts : List String :=
  (table.filterMap fun e =>
    match e.discharge with
    | .provedBy t _ => if t.startsWith "TODO:" then some t else none
    | _ => none).eraseDups

/-- table entries that no longer correspond to any site of the source (stale after a source change; harmless,
reported for table hygiene) -/
def staleEntries : List String :=
  (table.filter fun e => !(panicSites.any fun s => s.key == e.key)).map fun e =>
    e.file ++ " " ++ e.func ++ " [" ++ e.kind ++ "] " ++ e.text

end Dalek.Props.C15

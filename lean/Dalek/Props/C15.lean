import Dalek.Props.C15.Sites

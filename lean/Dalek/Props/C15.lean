import Dalek.Props.C15.Sites
import Dalek.Props.C15.Facts

import Dalek.Proofs.RisRoundTrip
import Dalek.Props.C06.Decode
import Dalek.Props.C06.Encode
import Dalek.Props.C06.Group
/-!
# C06 — `DECODE ∘ ENCODE`, injectivity of ENCODE on cosets, canonical encodings (property theorems)

Together with `encode_decode` (`Props/C06/Decode.lean`): DECODE accepts exactly the encodings of (cosets of) points,
and the 32-byte strings accepted by DECODE are in bijection with the cosets `Q + E[4]`, `Q` in the even subgroup,
that they decode to.
-/
namespace Dalek.Props.C06

open Dalek.IR Dalek.Spec Dalek.Model Dalek.Proofs Dalek.Proofs.Ris
open Dalek.Bridge (Ed ERep Rep Canon)

/-- **`DECODE ∘ ENCODE`.**  The encoding of any internal representative `e` of a point `Q` of the even subgroup is
accepted by DECODE, and decodes to a canonical point of the same coset `Q + E[4]` (the representative with
`x ≥ 0`, `x y ≥ 0`). -/
theorem decode_encode {e : EPt} {Q : Ed} (he : ERep e Q) (heven : ∃ R : Ed, Q = 2 • R) :
    ∃ (p : Pt) (T4 : Ed), Ristretto.decode (Ristretto.encodeExt e.X e.Y e.Z e.T) = some p ∧ 4 • T4 = 0 ∧
      Rep p (Q + T4) ∧ Canon p :=
  decode_encodeExt he heven

/-- the decoded point compares equal (EQUALS) to every affine representative of the encoded point -/
theorem decode_encode_equals {q : Pt} {Q : Ed} (hq : Rep q Q) (heven : ∃ R : Ed, Q = 2 • R) :
    ∃ p : Pt, Ristretto.decode (Ristretto.encode q) = some p ∧ Ristretto.equals q p = true := by
  obtain ⟨p, T4, hd, hT, hp, -⟩ := decode_encodeExt (repExt_of_rep hq) heven
  exact ⟨p, hd, (equals_iff_same_coset hq hp).2 ⟨T4, hT, rfl⟩⟩

/-- **Different elements encode differently**: if two points of the even subgroup have the same encoding, they
lie in the same coset of `E[4]` (so, by `encode_torsion_invariant`, equality of encodings IS equality of cosets). -/
theorem encode_injective {e e' : EPt} {Q Q' : Ed} (he : ERep e Q) (he' : ERep e' Q')
    (heven : ∃ R : Ed, Q = 2 • R) (heven' : ∃ R : Ed, Q' = 2 • R)
    (h : Ristretto.encodeExt e.X e.Y e.Z e.T = Ristretto.encodeExt e'.X e'.Y e'.Z e'.T) :
    ∃ T4 : Ed, 4 • T4 = 0 ∧ Q' = Q + T4 :=
  encodeExt_injective he he' heven heven' h

/-- equality of encodings ⟺ EQUALS ⟺ same coset, on the even subgroup -/
theorem encode_eq_iff_equals {p q : Pt} {Pp Qq : Ed} (hp : Rep p Pp) (hq : Rep q Qq)
    (hevenp : ∃ R : Ed, Pp = 2 • R) (hevenq : ∃ R : Ed, Qq = 2 • R) :
    Ristretto.encode p = Ristretto.encode q ↔ Ristretto.equals p q = true := by
  rw [equals_iff_same_coset hp hq]
  constructor
  · intro h
    rw [encode_def, encode_def] at h
    exact encodeExt_injective (repExt_of_rep hp) (repExt_of_rep hq) hevenp hevenq h
  · rintro ⟨T4, hT, rfl⟩
    exact (encode_torsion_invariant_affine hp hq hT hevenp).symm

/-- Decoded points satisfy the condition under which all the coset theorems hold: `(1 − y²) x² y²` is a square
(as for every point of the even subgroup, `isSquare_encW_even`; here `1 − y² = (2s/(1+s²))²`). -/
theorem decode_square {b : List UInt8} {p : Pt} (h : Ristretto.decode b = some p) :
    ∃ Q : Ed, Rep p Q ∧ IsSquare (encW Q.x Q.y) := by
  have hp := decode_eq_some h
  obtain ⟨-, -, -, hsq, -, -⟩ := (decode_accept_iff b).1 (by rw [h]; rfl)
  rw [← wasSquare_iff] at hsq
  obtain ⟨-, -, ⟨Q, hQ⟩, -⟩ := decode_valid h
  refine ⟨Q, hQ, ?_⟩
  have := dec_encW_square (decI_fst_eq_one hsq)
  rw [← cast_sDecX, ← cast_sDecY] at this
  rw [← hQ.1, ← hQ.2, hp]
  exact this

/-- **Every representative of a decoded element re-encodes to the input bytes**: if `b` decodes to `p` (denoting `Q`)
and `e'` is any extended representation of `Q + T4`, `T4 ∈ E[4]`, then ENCODE of `e'` is `b`. -/
theorem encode_any_representative {b : List UInt8} {p : Pt} {Q T4 : Ed} {e' : EPt}
    (h : Ristretto.decode b = some p) (hQ : Rep p Q) (hT : 4 • T4 = 0) (he' : ERep e' (Q + T4)) :
    Ristretto.encodeExt e'.X e'.Y e'.Z e'.T = b := by
  obtain ⟨Q', hQ', hsq⟩ := decode_square h
  have hQQ : Q' = Q := by
    ext
    · rw [← hQ'.1, ← hQ.1]
    · rw [← hQ'.2, ← hQ.2]
  subst hQQ
  rw [encodeExt_coset_sq (repExt_of_rep hQ') he' hT hsq, ← encode_def]
  exact encode_decode h

/-- **Rust side of `DECODE ∘ ENCODE`**: for a canonical valid internal representative `p` of a point `Q` of the even
subgroup, `p.compress().decompress()` succeeds and returns a valid representative `q` of the same coset, which
compares equal (`==`) to `p`. -/
theorem decompress_compress {p : RistrettoDalek.RPt} {Q : Ed} (hc : CanonR p) (hp : ERep (toEPt p) Q)
    (heven : ∃ R : Ed, Q = 2 • R) :
    ∃ (q : RistrettoDalek.RPt) (T4 : Ed), RistrettoDalek.decompress (RistrettoDalek.compress p) = some q ∧
      4 • T4 = 0 ∧ ERep (toEPt q) (Q + T4) ∧ RistrettoDalek.ctEq p q = true := by
  obtain ⟨X, Y, Z, T⟩ := p
  obtain ⟨h1, h2, h3, h4⟩ := hc
  obtain ⟨p', T4, hd, hT, hp', hcp'⟩ := decode_encodeExt (x := X) (y := Y) (z := Z) (t := T) hp heven
  have hq : ERep (toEPt (p'.x, p'.y, 1, fmul p'.x p'.y)) (Q + T4) := repExt_of_rep hp'
  refine ⟨(p'.x, p'.y, 1, fmul p'.x p'.y), T4, ?_, hT, hq, ?_⟩
  · rw [encode_eq_rfc h1 h2 h3 h4, decode_eq_rfc, hd]; rfl
  · exact (ct_eq_iff_same_coset ⟨h1, h2, h3, h4⟩ ⟨hcp'.1, hcp'.2, by norm_num, Bridge.fmul_lt _ _⟩ hp hq).2
      ⟨T4, hT, rfl⟩

/-- the basepoint and its double round-trip (kernel evaluation; `2B` is in the even subgroup) -/
example : (Ristretto.decode (Ristretto.encode (Pt.double B))).isSome = true := by decide +kernel

/-- info: 'Dalek.Props.C06.decompress_compress' depends on axioms: [propext, Classical.choice, Quot.sound] -/
#guard_msgs in #print axioms decompress_compress
/-- info: 'Dalek.Props.C06.encode_any_representative' depends on axioms: [propext, Classical.choice, Quot.sound] -/
#guard_msgs in #print axioms encode_any_representative
/-- info: 'Dalek.Props.C06.decode_encode' depends on axioms: [propext, Classical.choice, Quot.sound] -/
#guard_msgs in #print axioms decode_encode
/-- info: 'Dalek.Props.C06.encode_injective' depends on axioms: [propext, Classical.choice, Quot.sound] -/
#guard_msgs in #print axioms encode_injective
/-- info: 'Dalek.Props.C06.encode_eq_iff_equals' depends on axioms: [propext, Classical.choice, Quot.sound] -/
#guard_msgs in #print axioms encode_eq_iff_equals

end Dalek.Props.C06

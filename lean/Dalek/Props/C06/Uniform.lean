import Dalek.Proofs.RisUniform
import Dalek.Props.C06.Rfc
/-!
# C06 — the one-way map: MAP lands on the curve, `from_uniform_bytes` is RFC 9496 §4.3.4 (property theorems)

`toEPt (X, Y, Z, T)` is the extended point `Dalek.Model.EPt`; `EPt.Valid e` says that `e` denotes a point of the
group `Ed` of the Ed25519 curve (`Z ≠ 0`, `(X/Z, Y/Z)` on the curve, `X Y = Z T`: the validity invariant of
`EdwardsPoint`); `EPt.toAffine` is the canonical affine point `(X/Z, Y/Z)`.
-/
namespace Dalek.Props.C06

open Dalek.IR Dalek.Spec Dalek.Model Dalek.Proofs Dalek.Proofs.Ris
open Dalek.Bridge (Ed ERep Rep Canon)

/-- **MAP lands on the curve**: for every field element `t`, RFC 9496 MAP (`Spec.Ristretto.mapExt`, which
`elligator_ristretto_flavor` computes: `map_eq_rfc`) returns a valid extended point — both denominators of the
Jacobi-quartic-to-Edwards conversion are nonzero and the curve equation holds. -/
theorem map_valid (t : Nat) : (toEPt (Ristretto.mapExt t)).Valid := mapExt_valid t

/-- the same for the Rust function, on every canonical `r_0` -/
theorem elligator_valid {t : Nat} (ht : t < P) : (toEPt (RistrettoDalek.elligator t)).Valid := by
  rw [map_eq_rfc ht]; exact map_valid t

/-- **`from_uniform_bytes`.**  For every byte string `b` (64 bytes in Rust): the Rust computation (two `from_bytes`,
two translated Elligator maps, translated extended-coordinates Edwards addition) returns a valid extended point
whose affine point is the RFC 9496 element-derivation function `MAP(b[0..32]) + MAP(b[32..64])`
(`Spec.Ristretto.fromUniformBytes`: affine complete addition law). -/
theorem from_uniform_eq_rfc (b : List UInt8) :
    (toEPt (RistrettoDalek.fromUniformBytes b)).Valid ∧
      (toEPt (RistrettoDalek.fromUniformBytes b)).toAffine = Ristretto.fromUniformBytes b := by
  unfold RistrettoDalek.fromUniformBytes Ristretto.fromUniformBytes
  dsimp only
  rw [map_eq_rfc (Bridge.feFromBytes_lt _), map_eq_rfc (Bridge.feFromBytes_lt _)]
  obtain ⟨Q1, h1⟩ := mapExt_valid (feFromBytes (List.take 32 b))
  obtain ⟨Q2, h2⟩ := mapExt_valid (feFromBytes (List.drop 32 b))
  have hadd := edwardsAdd_erep (mapExt_lt _) (mapExt_lt _) h1 h2
  refine ⟨⟨_, hadd⟩, ?_⟩
  rw [map_eq_toAffine, map_eq_toAffine]
  exact Bridge.Rep.unique (Bridge.rep_toAffine hadd)
    (Bridge.rep_add (Bridge.rep_toAffine h1) (Bridge.rep_toAffine h2))
    (Bridge.canon_toAffine _) (Bridge.canon_add _ _)

/-- info: 'Dalek.Props.C06.map_valid' depends on axioms: [propext, Classical.choice, Quot.sound] -/
#guard_msgs in #print axioms map_valid
/-- info: 'Dalek.Props.C06.from_uniform_eq_rfc' depends on axioms: [propext, Classical.choice, Quot.sound] -/
#guard_msgs in #print axioms from_uniform_eq_rfc

end Dalek.Props.C06

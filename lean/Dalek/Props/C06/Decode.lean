import Dalek.Proofs.RisSpec
import Dalek.Proofs.RisAlgebra
import Dalek.Props.C06.Rfc
/-!
# C06 — DECODE: the rejection conditions, validity of decoded points, and the round trip (property theorems)

Statements about the executable specification `Spec.Ristretto.decode` (RFC 9496 §4.3.1); they transfer to the
Rust `CompressedRistretto::decompress` by `decode_eq_rfc` (the `*_dalek` corollaries below).
`sDecX s`, `sDecY s` (`Proofs/RisSpec.lean`) name the coordinates `x`, `y` the RFC computes from `s`;
`decV`, `decI` … (`Proofs/RisFormulas.lean`) are the same quantities in the field `Fp`.
-/
namespace Dalek.Props.C06

open Dalek.IR Dalek.Spec Dalek.Model Dalek.Proofs Dalek.Proofs.Ris
open Dalek.Bridge (Ed Rep Canon)
open Dalek.FieldFacts (d)

/-- **The five rejection conditions, exactly.**  DECODE accepts `b` iff `b` has 32 bytes and, for the
little-endian integer `s` of all 256 bits,
1. `s < p` (canonical; in particular bit 255 is clear),
2. `s` is non-negative (even),
3. `v u2²` is a nonzero square,
4. `t = x y` is non-negative,
5. `y ≠ 0`. -/
theorem decode_accept_iff (b : List UInt8) :
    (Ristretto.decode b).isSome = true ↔
      b.length = 32 ∧ leToNat b < P ∧ isNeg (leToNat b) = false ∧
        (radicand (leToNat b : Fp) ≠ 0 ∧ IsSquare (radicand (leToNat b : Fp))) ∧
        isNeg (fmul (sDecX (leToNat b)) (sDecY (leToNat b))) = false ∧ sDecY (leToNat b) ≠ 0 := by
  rw [decode_unfold, ← wasSquare_iff]
  generalize leToNat b = s
  by_cases h1 : b.length = 32
  swap
  · have : (b.length != 32) = true := by rw [bne_iff_ne]; exact h1
    simp only [this, Bool.true_or, if_true, Option.isSome_none, Bool.false_eq_true, false_iff]
    exact fun h => h1 h.1
  have h1' : (b.length != 32) = false := by rw [h1]; rfl
  by_cases h2 : s < P
  swap
  · have : decide (s ≥ P) = true := by rw [decide_eq_true_iff]; omega
    simp only [this, Bool.or_true, Bool.true_or, if_true, Option.isSome_none, Bool.false_eq_true, false_iff]
    exact fun h => h2 h.2.1
  have h2' : decide (s ≥ P) = false := by rw [decide_eq_false_iff_not]; omega
  simp only [h1', h2', Bool.false_or]
  cases isNeg s <;> cases (sqrtRatioM1 1 (sDecW s)).1 <;> cases isNeg (fmul (sDecX s) (sDecY s)) <;>
    by_cases h5 : sDecY s = 0 <;> simp [h1, h2, h5]

/-- **Decoded points are valid**: if DECODE accepts, the result is a canonical point ON THE CURVE
(it denotes an element `Q` of the group `Ed` of the Ed25519 curve), with `x ≥ 0`, `t = x y ≥ 0` and `y ≠ 0`. -/
theorem decode_valid {b : List UInt8} {p : Pt} (h : Ristretto.decode b = some p) :
    Canon p ∧ onCurve p = true ∧ (∃ Q : Ed, Rep p Q) ∧
      isNeg p.x = false ∧ isNeg (fmul p.x p.y) = false ∧ p.y ≠ 0 := by
  have hp := decode_eq_some h
  have hacc := (decode_accept_iff b).1 (by rw [h]; rfl)
  obtain ⟨-, hs, -, hsq, ht, hy⟩ := hacc
  rw [← wasSquare_iff] at hsq
  have hok : (decI ((leToNat b : Nat) : Fp)).1 = 1 := decI_fst_eq_one hsq
  have hcurve := dec_onCurve hok
  rw [← cast_sDecX, ← cast_sDecY] at hcurve
  subst hp
  have hon : onCurve (⟨sDecX (leToNat b), sDecY (leToNat b)⟩ : Pt) = true :=
    (Bridge.onCurve_iff _).2 hcurve
  refine ⟨⟨sDecX_lt _, sDecY_lt _⟩, hon, ⟨Bridge.toEd _ hon, Bridge.rep_toEd _ hon⟩, ?_, ht, hy⟩
  exact Bridge.isNeg_fabs _

/-- **Round trip `ENCODE ∘ DECODE`**: an accepted string is the encoding of the point it decodes to.  (So accepted
encodings are canonical: two different accepted strings decode to points with different encodings.) -/
theorem encode_decode {b : List UInt8} {p : Pt} (h : Ristretto.decode b = some p) :
    Ristretto.encode p = b := by
  have hp := decode_eq_some h
  have hacc := (decode_accept_iff b).1 (by rw [h]; rfl)
  obtain ⟨hlen, hs, hneg, hsq, ht, hy⟩ := hacc
  rw [← wasSquare_iff] at hsq
  subst hp
  unfold Ristretto.encode
  rw [encodeExt_unfold]
  dsimp only
  have hs' : ¬ fpIsNeg ((leToNat b : Nat) : Fp) := by
    rw [← isNeg_eq_fp, hneg]; exact Bool.false_ne_true
  have hok : (decI ((leToNat b : Nat) : Fp)).1 = 1 := decI_fst_eq_one hsq
  have hT : ((fmul (sDecX (leToNat b)) (sDecY (leToNat b)) : Nat) : Fp) = decT (leToNat b : Fp) := by
    rw [Bridge.cast_fmul, cast_sDecX, cast_sDecY]; rfl
  have ht' : ¬ fpIsNeg (decT ((leToNat b : Nat) : Fp)) := by
    rw [← hT, ← isNeg_eq_fp, ht]; exact Bool.false_ne_true
  have hy' : decY ((leToNat b : Nat) : Fp) ≠ 0 := by
    rw [← cast_sDecY, Ne, Bridge.cast_eq_zero_of_lt (sDecY_lt _)]; exact hy
  have key := encS_dec hs' hok ht' hy'
  have hcast : ((sEncS (sDecX (leToNat b)) (sDecY (leToNat b)) 1
      (fmul (sDecX (leToNat b)) (sDecY (leToNat b))) : Nat) : Fp) = ((leToNat b : Nat) : Fp) := by
    rw [cast_sEncS, cast_sDecX, cast_sDecY, hT, Nat.cast_one]; exact key
  rw [Bridge.eq_of_cast_eq (sEncS_lt ..) hs hcast]
  have h1 := Bridge.feToBytes_feFromBytes hlen hs
  rwa [feFromBytes_of_lt hs] at h1

/-- DECODE is injective on accepted strings (different accepted strings are different group elements' encodings). -/
theorem decode_injective {b b' : List UInt8} {p : Pt} (h : Ristretto.decode b = some p)
    (h' : Ristretto.decode b' = some p) : b = b' := by
  rw [← encode_decode h, ← encode_decode h']

/-! ### The same for the Rust `decompress` / `compress` (through `decode_eq_rfc`, `encode_eq_rfc`) -/

/-- `CompressedRistretto::decompress` accepts exactly under the five conditions of `decode_accept_iff`. -/
theorem decompress_accept_iff (b : List UInt8) :
    (RistrettoDalek.decompress b).isSome = true ↔
      b.length = 32 ∧ leToNat b < P ∧ isNeg (leToNat b) = false ∧
        (radicand (leToNat b : Fp) ≠ 0 ∧ IsSquare (radicand (leToNat b : Fp))) ∧
        isNeg (fmul (sDecX (leToNat b)) (sDecY (leToNat b))) = false ∧ sDecY (leToNat b) ≠ 0 := by
  rw [decode_eq_rfc, Option.isSome_map]; exact decode_accept_iff b

/-- `decompress(b) = Some(P)` ⟹ `P.compress() = b` (Rust side of the round trip). -/
theorem compress_decompress {b : List UInt8} {q : RistrettoDalek.RPt} (h : RistrettoDalek.decompress b = some q) :
    RistrettoDalek.compress q = b := by
  rw [decode_eq_rfc] at h
  cases hd : Ristretto.decode b with
  | none => rw [hd] at h; cases h
  | some p =>
    rw [hd] at h
    have hq : q = (p.x, p.y, 1, fmul p.x p.y) := (Option.some.inj h).symm
    obtain ⟨⟨hx, hy⟩, -⟩ := decode_valid hd
    rw [hq, encode_eq_rfc hx hy (by norm_num) (Bridge.fmul_lt _ _)]
    exact encode_decode hd

/-! ### Every rejection class is inhabited, independently of the others; and so is acceptance
(kernel evaluation of the executable specification) -/

/-- all five conditions hold for `s = 4` -/
example : (Ristretto.decode (natToLe 4 32)).isSome = true := by decide +kernel
/-- only 1 fails: `s = p` (the non-canonical encoding of `0`) -/
example : Ristretto.decode (natToLe P 32) = none ∧ (Ristretto.decode (natToLe 0 32)).isSome = true := by
  decide +kernel
/-- only 2 fails: `s = 3` is negative -/
example : Ristretto.decode (natToLe 3 32) = none ∧ (sqrtRatioM1 1 (sDecW 3)).1 = true ∧
    isNeg (fmul (sDecX 3) (sDecY 3)) = false ∧ sDecY 3 ≠ 0 := by decide +kernel
/-- only 3 fails: `s = 14`, not a square -/
example : Ristretto.decode (natToLe 14 32) = none ∧ isNeg 14 = false ∧ (sqrtRatioM1 1 (sDecW 14)).1 = false ∧
    isNeg (fmul (sDecX 14) (sDecY 14)) = false ∧ sDecY 14 ≠ 0 := by decide +kernel
/-- only 4 fails: `s = 2`, `t` negative -/
example : Ristretto.decode (natToLe 2 32) = none ∧ isNeg 2 = false ∧ (sqrtRatioM1 1 (sDecW 2)).1 = true ∧
    isNeg (fmul (sDecX 2) (sDecY 2)) = true ∧ sDecY 2 ≠ 0 := by decide +kernel
/-- only 5 fails: `s = p − 1`, `y = 0` -/
example : Ristretto.decode (natToLe (P - 1) 32) = none ∧ isNeg (P - 1) = false ∧
    (sqrtRatioM1 1 (sDecW (P - 1))).1 = true ∧ isNeg (fmul (sDecX (P - 1)) (sDecY (P - 1))) = false ∧
    sDecY (P - 1) = 0 := by decide +kernel

/-! ### Axiom audit -/

/-- info: 'Dalek.Props.C06.decode_eq_rfc' depends on axioms: [propext, Classical.choice, Quot.sound] -/
#guard_msgs in #print axioms decode_eq_rfc
/-- info: 'Dalek.Props.C06.encode_eq_rfc' depends on axioms: [propext, Classical.choice, Quot.sound] -/
#guard_msgs in #print axioms encode_eq_rfc
/-- info: 'Dalek.Props.C06.equals_eq_rfc' depends on axioms: [propext, Classical.choice, Quot.sound] -/
#guard_msgs in #print axioms equals_eq_rfc
/-- info: 'Dalek.Props.C06.map_eq_rfc' depends on axioms: [propext, Classical.choice, Quot.sound] -/
#guard_msgs in #print axioms map_eq_rfc
/-- info: 'Dalek.Props.C06.decode_accept_iff' depends on axioms: [propext, Classical.choice, Quot.sound] -/
#guard_msgs in #print axioms decode_accept_iff
/-- info: 'Dalek.Props.C06.decode_valid' depends on axioms: [propext, Classical.choice, Quot.sound] -/
#guard_msgs in #print axioms decode_valid
/-- info: 'Dalek.Props.C06.encode_decode' depends on axioms: [propext, Classical.choice, Quot.sound] -/
#guard_msgs in #print axioms encode_decode
/-- info: 'Dalek.Props.C06.compress_decompress' depends on axioms: [propext, Classical.choice, Quot.sound] -/
#guard_msgs in #print axioms compress_decompress

end Dalek.Props.C06

import Dalek.Proofs.RisEven
import Dalek.Props.C06.RoundTrip
import Dalek.Props.C06.Uniform
/-!
# C06 — every reachable `RistrettoPoint` lies in the even subgroup `2E` (property theorems)

The coset theorems (`encode_torsion_invariant`, `decode_encode`, `encode_injective`, …) assume that the represented
point is in the even subgroup (`∃ R, Q = 2 • R`).  This is the invariant of `RistrettoPoint`: it holds for the outputs
of the three constructors (DECODE, MAP / `from_uniform_bytes`, and the basepoint, which dalek defines as a point of the
prime-order subgroup), and it is preserved by the group operations, which are the Edwards operations on the inner
point (`2R + 2R' = 2(R + R')`, `−(2R) = 2(−R)`, `n(2R) = 2(nR)`).
The proof is an explicit halving (`Proofs/RisEven.lean`, `even_of_s`).
-/
namespace Dalek.Props.C06

open Dalek.IR Dalek.Spec Dalek.Model Dalek.Proofs Dalek.Proofs.Ris
open Dalek.Bridge (Ed ERep Rep Canon)

/-- **DECODE returns points of the even subgroup.** -/
theorem decode_even {b : List UInt8} {p : Pt} (h : Ristretto.decode b = some p) :
    ∃ Q R : Ed, Rep p Q ∧ Q = 2 • R := by
  have hp := decode_eq_some h
  obtain ⟨-, -, -, hsq, -, -⟩ := (decode_accept_iff b).1 (by rw [h]; rfl)
  rw [← wasSquare_iff] at hsq
  obtain ⟨-, -, ⟨Q, hQ⟩, -⟩ := decode_valid h
  have hy : Q.y = decY ((leToNat b : Nat) : Fp) := by rw [← hQ.2, hp]; exact cast_sDecY _
  obtain ⟨R, hR⟩ := dec_even (decI_fst_eq_one hsq) hy
  exact ⟨Q, R, hQ, hR⟩

/-- **MAP returns (valid extended representations of) points of the even subgroup.** -/
theorem map_even (t : Nat) : ∃ Q R : Ed, ERep (toEPt (Ristretto.mapExt t)) Q ∧ Q = 2 • R :=
  mapExt_valid_even t

/-- the even subgroup is closed under the group operations (the Ristretto operations are the Edwards operations on
the internal representative) -/
theorem even_closed {Q Q' : Ed} (h : ∃ R : Ed, Q = 2 • R) (h' : ∃ R : Ed, Q' = 2 • R) (n : Nat) :
    (∃ R : Ed, Q + Q' = 2 • R) ∧ (∃ R : Ed, Q - Q' = 2 • R) ∧ (∃ R : Ed, -Q = 2 • R) ∧
      (∃ R : Ed, n • Q = 2 • R) := by
  obtain ⟨R, rfl⟩ := h
  obtain ⟨R', rfl⟩ := h'
  exact ⟨⟨R + R', (smul_add 2 R R').symm⟩, ⟨R - R', (smul_sub 2 R R').symm⟩, ⟨-R, (smul_neg 2 R).symm⟩,
    ⟨n • R, smul_comm n 2 R⟩⟩

/-- **`from_uniform_bytes` returns a valid representative of a point of the even subgroup.** -/
theorem from_uniform_even (b : List UInt8) :
    ∃ Q R : Ed, ERep (toEPt (RistrettoDalek.fromUniformBytes b)) Q ∧ Q = 2 • R := by
  unfold RistrettoDalek.fromUniformBytes
  dsimp only
  rw [map_eq_rfc (Bridge.feFromBytes_lt _), map_eq_rfc (Bridge.feFromBytes_lt _)]
  obtain ⟨Q1, R1, h1, e1⟩ := mapExt_valid_even (feFromBytes (List.take 32 b))
  obtain ⟨Q2, R2, h2, e2⟩ := mapExt_valid_even (feFromBytes (List.drop 32 b))
  have hadd := edwardsAdd_erep (mapExt_lt _) (mapExt_lt _) h1 h2
  exact ⟨Q1 + Q2, R1 + R2, hadd, by rw [e1, e2, smul_add]⟩

/-- Consequently a decoded element, re-encoded through ANY of its representatives (after any torsion translation),
gives back the input; and decoding its encoding succeeds (`decode_encode`) — the hypotheses of the coset theorems
are satisfied by everything DECODE returns. -/
theorem decode_then_decode_encode {b : List UInt8} {p : Pt} (h : Ristretto.decode b = some p) :
    Ristretto.decode (Ristretto.encode p) = some p := by
  rw [encode_decode h]; exact h

/-- info: 'Dalek.Props.C06.decode_even' depends on axioms: [propext, Classical.choice, Quot.sound] -/
#guard_msgs in #print axioms decode_even
/-- info: 'Dalek.Props.C06.map_even' depends on axioms: [propext, Classical.choice, Quot.sound] -/
#guard_msgs in #print axioms map_even
/-- info: 'Dalek.Props.C06.from_uniform_even' depends on axioms: [propext, Classical.choice, Quot.sound] -/
#guard_msgs in #print axioms from_uniform_even

end Dalek.Props.C06

import Dalek.Proofs.RisSpec
/-!
# C06 — the Ristretto formulas of `ristretto.rs` compute the RFC 9496 functions (property theorems)

Left-hand sides: the hand model `Dalek.Model.RistrettoDalek` (byte-level wrappers and early returns of
`ristretto.rs`) around the field formulas `Dalek.Gen.AlgRistretto.*` TRANSLATED from the Rust source on every run
and executed over canonical naturals by `natOps` (this is what the model executable runs in the differential
test).  Right-hand sides: the executable transcription `Dalek.Spec.Ristretto` of RFC 9496 §4.3.
Internal representatives are quadruples `(X, Y, Z, T)` of canonical field elements (`< p`), as in Rust
(`FieldElement`s are compared / serialised through their canonical representative).
-/
namespace Dalek.Props.C06

open Dalek.IR Dalek.Spec Dalek.Model Dalek.Proofs Dalek.Proofs.Ris

/-- **DECODE.** For every byte string `b`: `CompressedRistretto::decompress` (canonicity check by re-encoding,
sign of `s`, translated `step_2`, final `ok & !t_is_negative & !y_is_zero`) accepts exactly when RFC 9496 DECODE
does, and returns the RFC's point `(x, y)` in extended coordinates `(x, y, 1, x y)`. -/
theorem decode_eq_rfc (b : List UInt8) :
    RistrettoDalek.decompress b =
      (Ristretto.decode b).map (fun p => (p.x, p.y, 1, fmul p.x p.y)) := by
  rw [decode_unfold]
  unfold RistrettoDalek.decompress RistrettoDalek.step1
  by_cases hlen : b.length = 32
  swap
  · have h : (b.length != 32) = true := by rw [bne_iff_ne]; exact hlen
    simp only [h, Bool.true_or, if_true, Option.map_none]
  have h : (b.length != 32) = false := by rw [hlen]; rfl
  simp only [h, Bool.false_or, Bool.false_eq_true, if_false]
  by_cases hs : leToNat b < P
  swap
  · have h1 : (feToBytes (feFromBytes b) == b) = false := by
      rw [← Bool.not_eq_true, canonical_iff hlen]; exact hs
    have h2 : decide (leToNat b ≥ P) = true := by rw [decide_eq_true_iff]; omega
    simp only [h1, h2, Bool.not_false, Bool.true_or, if_true, Option.map_none]
  have h1 : (feToBytes (leToNat b) == b) = true := by
    have := (canonical_iff hlen).2 hs
    rwa [feFromBytes_of_lt hs] at this
  have h2 : decide (leToNat b ≥ P) = false := by rw [decide_eq_false_iff_not]; omega
  rw [feFromBytes_of_lt hs]
  simp only [h1, h2, Bool.not_true, Bool.false_or]
  cases hneg : isNeg (leToNat b)
  swap
  · simp only [if_true, Option.map_none]
  simp only [Bool.false_eq_true, if_false, step2_eq hs]
  cases (sqrtRatioM1 1 (sDecW (leToNat b))).1 <;> cases isNeg (fmul (sDecX (leToNat b)) (sDecY (leToNat b))) <;>
    cases sDecY (leToNat b) == 0 <;> simp [b2n]

/-- **ENCODE.** `RistrettoPoint::compress` of any quadruple of canonical field elements is RFC 9496 ENCODE
(`Spec.Ristretto.encodeExt`) of it. -/
theorem encode_eq_rfc {X Y Z T : Nat} (hX : X < P) (hY : Y < P) (hZ : Z < P) (hT : T < P) :
    RistrettoDalek.compress (X, Y, Z, T) = Ristretto.encodeExt X Y Z T := by
  unfold RistrettoDalek.compress
  rw [compressS_eq hX hY hZ hT, encodeExt_unfold]

/-- **EQUALS.** `RistrettoPoint::ct_eq` / `==` is RFC 9496 EQUALS (`x1 y2 = y1 x2 ∨ y1 y2 = x1 x2` on the
internal representatives; `Z`, `T` are not used). -/
theorem equals_eq_rfc {X1 Y1 Z1 T1 X2 Y2 Z2 T2 : Nat} (h1 : X1 < P ∧ Y1 < P ∧ Z1 < P ∧ T1 < P)
    (h2 : X2 < P ∧ Y2 < P ∧ Z2 < P ∧ T2 < P) :
    RistrettoDalek.ctEq (X1, Y1, Z1, T1) (X2, Y2, Z2, T2) = Ristretto.equals ⟨X1, Y1⟩ ⟨X2, Y2⟩ :=
  ctEq_eq h1 h2

/-- **MAP.** `elligator_ristretto_flavor(r_0)` is RFC 9496 MAP (`Spec.Ristretto.mapExt`), coordinate by
coordinate, for every canonical `r_0`. -/
theorem map_eq_rfc {t : Nat} (ht : t < P) : RistrettoDalek.elligator t = Ristretto.mapExt t :=
  elligator_eq ht

end Dalek.Props.C06

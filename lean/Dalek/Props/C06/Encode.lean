import Dalek.Proofs.RisBatchModel
import Dalek.Props.C06.Rfc
/-!
# C06 — ENCODE is constant on cosets of `E[4]`; batched double-and-compress (property theorems)

`ERep e Q`: the extended point `e = (X:Y:Z:T)` (any `Z ≠ 0`) denotes the curve point `Q : Ed`.
The internal representative of a Ristretto element always lies in the even subgroup `2E` (`∃ R, Q = 2 • R`);
this is the hypothesis `heven` below (it makes `(1 − y²) x² y²` a square: `isSquare_encW_even`).
-/
namespace Dalek.Props.C06

open Dalek.IR Dalek.Spec Dalek.Model Dalek.Proofs Dalek.Proofs.Ris
open Dalek.Bridge (Ed ERep Rep Canon)

/-- **ENCODE depends only on the coset `Q + E[4]`** (and not on the projective representation): if `e` denotes a
point `Q` of the even subgroup and `e'` denotes `Q + T4` with `4 • T4 = 0`, then RFC 9496 ENCODE
(`Spec.Ristretto.encodeExt`, which `RistrettoPoint::compress` computes: `encode_eq_rfc`) returns the same 32 bytes
for `e'` and `e`. -/
theorem encode_torsion_invariant {e e' : EPt} {Q T4 : Ed} (he : ERep e Q) (he' : ERep e' (Q + T4))
    (hT : 4 • T4 = 0) (heven : ∃ R : Ed, Q = 2 • R) :
    Ristretto.encodeExt e'.X e'.Y e'.Z e'.T = Ristretto.encodeExt e.X e.Y e.Z e.T :=
  encodeExt_coset he he' hT heven

/-- In particular: all four representatives `Q`, `Q + (0,−1)`, `Q ± (i,0)` of an element encode identically. -/
theorem encode_four_representatives {e e1 e2 e3 : EPt} {Q : Ed} (he : ERep e Q) (heven : ∃ R : Ed, Q = 2 • R)
    (h1 : ERep e1 (Q + tors2)) (h2 : ERep e2 (Q + tors4)) (h3 : ERep e3 (Q + -tors4)) :
    Ristretto.encodeExt e1.X e1.Y e1.Z e1.T = Ristretto.encodeExt e.X e.Y e.Z e.T ∧
    Ristretto.encodeExt e2.X e2.Y e2.Z e2.T = Ristretto.encodeExt e.X e.Y e.Z e.T ∧
    Ristretto.encodeExt e3.X e3.Y e3.Z e3.T = Ristretto.encodeExt e.X e.Y e.Z e.T :=
  ⟨encode_torsion_invariant he h1 ((isE4_iff _).1 (Or.inr (Or.inl rfl))) heven,
   encode_torsion_invariant he h2 ((isE4_iff _).1 (Or.inr (Or.inr (Or.inl rfl)))) heven,
   encode_torsion_invariant he h3 ((isE4_iff _).1 (Or.inr (Or.inr (Or.inr rfl)))) heven⟩

/-- the affine form: `Spec.Ristretto.encode` on specification points -/
theorem encode_torsion_invariant_affine {p q : Pt} {Q T4 : Ed} (hp : Rep p Q) (hq : Rep q (Q + T4))
    (hT : 4 • T4 = 0) (heven : ∃ R : Ed, Q = 2 • R) : Ristretto.encode q = Ristretto.encode p := by
  rw [encode_def, encode_def]
  exact encodeExt_coset (repExt_of_rep hp) (repExt_of_rep hq) hT heven

/-- The Rust `compress` on canonical valid internal representatives of `Q` and `Q + T4`. -/
theorem compress_torsion_invariant {p p' : RistrettoDalek.RPt} {Q T4 : Ed} (hc : CanonR p) (hc' : CanonR p')
    (hp : ERep (toEPt p) Q) (hp' : ERep (toEPt p') (Q + T4)) (hT : 4 • T4 = 0) (heven : ∃ R : Ed, Q = 2 • R) :
    RistrettoDalek.compress p' = RistrettoDalek.compress p := by
  obtain ⟨X, Y, Z, T⟩ := p
  obtain ⟨X', Y', Z', T'⟩ := p'
  obtain ⟨h1, h2, h3, h4⟩ := hc
  obtain ⟨h1', h2', h3', h4'⟩ := hc'
  rw [encode_eq_rfc h1 h2 h3 h4, encode_eq_rfc h1' h2' h3' h4']
  exact encodeExt_coset hp hp' hT heven

/-- **Batched double-and-compress.**  For every list of canonical valid internal representatives, the model of
`RistrettoPoint::double_and_compress_batch` (translated `BatchCompressState::from`, hand model of `batch_invert`
— Montgomery's trick with zero skipping —, translated per-point closure, `as_bytes`) returns, point by point,
RFC 9496 ENCODE of the doubled point (`Spec`: affine doubling of the affine point). -/
theorem batch_double_compress (ps : List RistrettoDalek.RPt)
    (hps : ∀ p ∈ ps, CanonR p ∧ (toEPt p).Valid) :
    RistrettoDalek.doubleAndCompressBatch ps =
      ps.map (fun p => Ristretto.encode (Pt.double (toEPt p).toAffine)) := by
  rw [doubleAndCompressBatch_eq ps (fun p hp => (hps p hp).1)]
  apply List.map_congr_left
  intro p hp
  obtain ⟨R, hR⟩ := (hps p hp).2
  exact batchSFp_eq hR

/-- … which is what the Rust documentation promises: `double_and_compress_batch([P…])[i] = (Pᵢ + Pᵢ).compress()`
(translated Edwards addition, translated `compress`). -/
theorem batch_double_compress_dalek (ps : List RistrettoDalek.RPt)
    (hps : ∀ p ∈ ps, CanonR p ∧ (toEPt p).Valid) :
    RistrettoDalek.doubleAndCompressBatch ps =
      ps.map (fun p => RistrettoDalek.compress (RistrettoDalek.edwardsAdd p p)) := by
  rw [batch_double_compress ps hps]
  apply List.map_congr_left
  intro p hp
  obtain ⟨hc, R, hR⟩ := hps p hp
  have hadd := edwardsAdd_erep hc hc hR hR
  have hlt := edwardsAdd_lt hc hc
  have hq : Rep (Pt.double (toEPt p).toAffine) (R + R) := by
    rw [← two_nsmul]; exact Bridge.rep_double (Bridge.rep_toAffine hR)
  generalize RistrettoDalek.edwardsAdd p p = r at hadd hlt
  obtain ⟨X, Y, Z, T⟩ := r
  obtain ⟨h1, h2, h3, h4⟩ := hlt
  rw [encode_eq_rfc h1 h2 h3 h4, encode_def]
  have hadd' : Dalek.Edwards.RepExt (R + R + 0) (X : Fp) (Y : Fp) (Z : Fp) (T : Fp) := by
    rw [add_zero]; exact hadd
  exact (encodeExt_coset (repExt_of_rep hq) hadd' (smul_zero 4) ⟨R, (two_nsmul R).symm⟩).symm

/-! ### The hypotheses are satisfiable -/

/-- `2B` is a valid point of the even subgroup, with an extended representation -/
example : ∃ (e : EPt) (Q : Ed), ERep e Q ∧ ∃ R : Ed, Q = 2 • R :=
  ⟨EPt.ofAffine (Pt.double B), 2 • Bridge.Bpt, Bridge.erep_ofAffine (Bridge.rep_double Bridge.rep_B),
    Bridge.Bpt, rfl⟩

/-- a canonical valid internal representative (the identity `(0 : 1 : 1 : 0)`) -/
example : CanonR (0, 1, 1, 0) ∧ (toEPt (0, 1, 1, 0)).Valid :=
  ⟨by unfold CanonR; decide, ⟨0, Bridge.erep_zero⟩⟩

/-- the batch function on a concrete list (kernel evaluation): identity and `B`; compare RFC 9496 A.1 `2B` -/
example : RistrettoDalek.doubleAndCompressBatch [(0, 1, 1, 0), (B.x, B.y, 1, fmul B.x B.y)] =
    [Ristretto.encode Pt.zero, Ristretto.encode (Pt.double B)] := by decide +kernel

/-- info: 'Dalek.Props.C06.encode_torsion_invariant' depends on axioms: [propext, Classical.choice, Quot.sound] -/
#guard_msgs in #print axioms encode_torsion_invariant
/-- info: 'Dalek.Props.C06.batch_double_compress' depends on axioms: [propext, Classical.choice, Quot.sound] -/
#guard_msgs in #print axioms batch_double_compress
/-- info: 'Dalek.Props.C06.batch_double_compress_dalek' depends on axioms: [propext, Classical.choice, Quot.sound] -/
#guard_msgs in #print axioms batch_double_compress_dalek

end Dalek.Props.C06

import Dalek.Props.C03.Formulas
import Dalek.Proofs.OptRel
/-!
# C03 — the validity invariant along arbitrary histories of point operations

A *history* is a list of operations, each appending one `EdwardsPoint` to a growing register file
(operands are indices of earlier results): `decompress` (field part) / `identity` / basepoint constant /
`add` / `sub` / `neg` / `double` / `mul_by_pow_2`.  It is evaluated

* concretely (`runC`), every operation being the TRANSLATED formula (`Dalek.Gen.AlgEdwards.*`,
  `Dalek.Gen.AlgCurve.*`, regenerated from the Rust source) run by `zmodOps` on lists `[X, Y, Z, T]`;
  only the control structure around the formulas is modelled by hand: the `if is_valid_y_coord` of
  `decompress`, and the loop of `mul_by_pow_2` (`as_projective`, then `k-1` × (`double`,
  `as_projective`), then `double`, `as_extended`, with `debug_assert!(k > 0)`);
* abstractly (`runA`) in the group `Ed`.

`valid_invariant`: the two evaluations are defined for the same histories, and then EVERY value of the
concrete register file — i.e. every intermediate `EdwardsPoint` — satisfies `RepExt` of the
corresponding abstract point (on the curve, `Z ≠ 0`, `XY = ZT`), and passes `is_valid`.
-/
namespace Dalek.Props.C03.History

open Dalek.IR Dalek.Proofs Dalek.Gen
open Dalek.Edwards
open Dalek.Bridge (Ed edParams edParams_d Bpt)
open Dalek.FieldFacts (d)

/-- `l = [X, Y, Z, T]` is a valid `EdwardsPoint` for `P` -/
def RepL (P : Ed) (l : List Fp) : Prop := ∃ X Y Z T, l = [X, Y, Z, T] ∧ RepExt P X Y Z T

/-- `l = [X, Y, Z]` is a `ProjectivePoint` for `P` -/
def RepProjL (P : Ed) (l : List Fp) : Prop := ∃ X Y Z, l = [X, Y, Z] ∧ RepProj P X Y Z

/-! ## Concrete operations (translated formulas) -/

noncomputable def cIdentity : List Fp := AProg.run zmodOps AlgEdwards.identity []
noncomputable def cAdd (a b : List Fp) : List Fp := AProg.run zmodOps AlgEdwards.add (a ++ b)
noncomputable def cSub (a b : List Fp) : List Fp := AProg.run zmodOps AlgEdwards.sub (a ++ b)
noncomputable def cNeg (a : List Fp) : List Fp := AProg.run zmodOps AlgEdwards.neg a
noncomputable def cDouble (a : List Fp) : List Fp := AProg.run zmodOps AlgEdwards.double a

/-- `constants::ED25519_BASEPOINT_POINT` (serial u64 limbs from the regenerated constant table) -/
noncomputable def cBasepoint : List Fp :=
  Dalek.Gen.Consts.U64.ED25519_BASEPOINT_POINT.map (fun l => ((Dalek.Model.val51Nat l : Nat) : Fp))

/-- one round `s.double().as_projective()` of the loop of `mul_by_pow_2` -/
noncomputable def cDoubleProj (s : List Fp) : List Fp :=
  AProg.run zmodOps AlgCurve.CompletedPoint_as_projective
    (AProg.run zmodOps AlgCurve.ProjectivePoint_double s)

/-- `EdwardsPoint::mul_by_pow_2(k)` for `k > 0` -/
noncomputable def cMulByPow2 (a : List Fp) (k : Nat) : List Fp :=
  AProg.run zmodOps AlgCurve.CompletedPoint_as_extended
    (AProg.run zmodOps AlgCurve.ProjectivePoint_double
      (cDoubleProj^[k - 1] (AProg.run zmodOps AlgEdwards.as_projective a)))

/-- `CompressedEdwardsY::decompress` on the decoded `y` and the sign bit `s` (field part) -/
noncomputable def cDecompress (y s : Fp) : Option (List Fp) :=
  let o := AProg.run zmodOps AlgEdwards.decompress_step_1 [y]
  if o.getD 0 0 ≠ 0 then
    some (AProg.run zmodOps AlgEdwards.decompress_step_2 [o.getD 1 0, o.getD 2 0, o.getD 3 0, s])
  else none

/-! ## Abstract operations -/

/-- the point with ordinate `y` and the sign of `x` requested by `s` (`s` ignored when `x = 0`), if any -/
noncomputable def decompressEd (y s : Fp) : Option Ed :=
  if h : (sqrtRatioFp (y ^ 2 - 1) (d * y ^ 2 + 1)).1 = 1 then
    some ⟨if s = 0 then (sqrtRatioFp (y ^ 2 - 1) (d * y ^ 2 + 1)).2
          else -(sqrtRatioFp (y ^ 2 - 1) (d * y ^ 2 + 1)).2, y, by
      have hr := decompress_root_onCurve h
      rw [edParams_d]
      by_cases hs : s = 0
      · rw [if_pos hs]; exact hr
      · rw [if_neg hs]; unfold onCurve at hr ⊢; linear_combination hr⟩
  else none

/-- `decompressEd` is characterised by: defined iff `y` is the ordinate of a curve point; the result has
ordinate `y` and, unless its `x` is `0`, the sign of `x` is the one requested. -/
theorem decompressEd_none_iff (y s : Fp) : decompressEd y s = none ↔ ¬ ∃ x, onCurve d x y := by
  unfold decompressEd
  rw [← decompress_flag_iff]
  split <;> simp [*]

theorem decompressEd_some {y s : Fp} {Q : Ed} (h : decompressEd y s = some Q) :
    Q.y = y ∧ (Q.x ≠ 0 → (fpIsNeg Q.x ↔ s ≠ 0)) := by
  unfold decompressEd at h
  split at h
  · rename_i hok
    have hQ := (Option.some.inj h).symm
    subst hQ
    refine ⟨rfl, ?_⟩
    have hneg := sqrtRatioFp_not_isNeg (y ^ 2 - 1) (d * y ^ 2 + 1)
    show (if s = 0 then (sqrtRatioFp (y ^ 2 - 1) (d * y ^ 2 + 1)).2
        else -(sqrtRatioFp (y ^ 2 - 1) (d * y ^ 2 + 1)).2) ≠ 0 →
      (fpIsNeg (if s = 0 then (sqrtRatioFp (y ^ 2 - 1) (d * y ^ 2 + 1)).2
        else -(sqrtRatioFp (y ^ 2 - 1) (d * y ^ 2 + 1)).2) ↔ s ≠ 0)
    generalize (sqrtRatioFp (y ^ 2 - 1) (d * y ^ 2 + 1)).2 = r at hneg ⊢
    by_cases hs : s = 0
    · simp only [if_pos hs]; intro _
      exact ⟨fun h' => absurd h' hneg, fun h' => absurd hs h'⟩
    · simp only [if_neg hs]; intro h0
      have hr0 : r ≠ 0 := fun e => h0 (by rw [e, neg_zero])
      exact ⟨fun _ => hs, fun _ => (fpIsNeg_neg hr0).2 hneg⟩
  · cases h

/-! ## Histories -/

inductive Op where
  | decompress (y s : Fp)
  | identity
  | basepoint
  | add (i j : Nat)
  | sub (i j : Nat)
  | neg (i : Nat)
  | double (i : Nat)
  | mulByPow2 (i k : Nat)

/-- one concrete step: the new `EdwardsPoint`, or `none` (decompression failure, dangling index, `k = 0`) -/
noncomputable def stepC (st : List (List Fp)) : Op → Option (List Fp)
  | .decompress y s => cDecompress y s
  | .identity => some cIdentity
  | .basepoint => some cBasepoint
  | .add i j => st[i]?.bind fun a => st[j]?.bind fun b => some (cAdd a b)
  | .sub i j => st[i]?.bind fun a => st[j]?.bind fun b => some (cSub a b)
  | .neg i => st[i]?.bind fun a => some (cNeg a)
  | .double i => st[i]?.bind fun a => some (cDouble a)
  | .mulByPow2 i k => if k = 0 then none else st[i]?.bind fun a => some (cMulByPow2 a k)

/-- one abstract step -/
noncomputable def stepA (st : List Ed) : Op → Option Ed
  | .decompress y s => decompressEd y s
  | .identity => some 0
  | .basepoint => some Bpt
  | .add i j => st[i]?.bind fun a => st[j]?.bind fun b => some (a + b)
  | .sub i j => st[i]?.bind fun a => st[j]?.bind fun b => some (a - b)
  | .neg i => st[i]?.bind fun a => some (-a)
  | .double i => st[i]?.bind fun a => some (2 • a)
  | .mulByPow2 i k => if k = 0 then none else st[i]?.bind fun a => some (2 ^ k • a)

/-- run a history: every operation appends its result to the register file -/
noncomputable def runC : List Op → List (List Fp) → Option (List (List Fp))
  | [], st => some st
  | op :: ops, st => (stepC st op).bind fun v => runC ops (st ++ [v])

noncomputable def runA : List Op → List Ed → Option (List Ed)
  | [], st => some st
  | op :: ops, st => (stepA st op).bind fun v => runA ops (st ++ [v])

/-! ## Each concrete operation refines the abstract one -/

theorem cIdentity_rep : RepL 0 cIdentity := identity_spec

theorem cAdd_rep {P Q : Ed} {a b : List Fp} (ha : RepL P a) (hb : RepL Q b) : RepL (P + Q) (cAdd a b) := by
  obtain ⟨X1, Y1, Z1, T1, rfl, hP⟩ := ha
  obtain ⟨X2, Y2, Z2, T2, rfl, hQ⟩ := hb
  exact add_spec hP hQ

theorem cSub_rep {P Q : Ed} {a b : List Fp} (ha : RepL P a) (hb : RepL Q b) : RepL (P - Q) (cSub a b) := by
  obtain ⟨X1, Y1, Z1, T1, rfl, hP⟩ := ha
  obtain ⟨X2, Y2, Z2, T2, rfl, hQ⟩ := hb
  exact sub_spec hP hQ

theorem cNeg_rep {P : Ed} {a : List Fp} (ha : RepL P a) : RepL (-P) (cNeg a) := by
  obtain ⟨X, Y, Z, T, rfl, hP⟩ := ha
  exact neg_spec hP

theorem cDouble_rep {P : Ed} {a : List Fp} (ha : RepL P a) : RepL (2 • P) (cDouble a) := by
  obtain ⟨X, Y, Z, T, rfl, hP⟩ := ha
  exact double_spec hP

theorem cBasepoint_rep : RepL Bpt cBasepoint := by
  have hx : Dalek.Model.val51Nat (Dalek.Gen.Consts.U64.ED25519_BASEPOINT_POINT.getD 0 []) = Dalek.Spec.B.x := by
    decide +kernel
  have hy : Dalek.Model.val51Nat (Dalek.Gen.Consts.U64.ED25519_BASEPOINT_POINT.getD 1 []) = Dalek.Spec.B.y := by
    decide +kernel
  have hz : Dalek.Model.val51Nat (Dalek.Gen.Consts.U64.ED25519_BASEPOINT_POINT.getD 2 []) = 1 := by
    decide +kernel
  have ht : Dalek.Model.val51Nat (Dalek.Gen.Consts.U64.ED25519_BASEPOINT_POINT.getD 3 []) % Dalek.Spec.P
      = (Dalek.Spec.B.x * Dalek.Spec.B.y) % Dalek.Spec.P := by
    decide +kernel
  have hlen : Dalek.Gen.Consts.U64.ED25519_BASEPOINT_POINT.length = 4 := by decide
  have hl : cBasepoint = [((Dalek.Spec.B.x : Nat) : Fp), ((Dalek.Spec.B.y : Nat) : Fp), 1,
      ((Dalek.Spec.B.x : Nat) : Fp) * ((Dalek.Spec.B.y : Nat) : Fp)] := by
    unfold cBasepoint
    match h : Dalek.Gen.Consts.U64.ED25519_BASEPOINT_POINT, hlen with
    | [a, b, c, e], _ =>
      rw [h] at hx hy hz ht
      simp only [List.getD_cons_zero, List.getD_cons_succ] at hx hy hz ht
      simp only [List.map_cons, List.map_nil, hx, hy, hz, Nat.cast_one]
      rw [natCast_eq_of_mod ht, Nat.cast_mul]
  rw [hl]
  exact ⟨_, _, _, _, rfl, repExt_affine Bpt⟩

theorem cDoubleProj_rep {P : Ed} {s : List Fp} (hs : RepProjL P s) : RepProjL (2 • P) (cDoubleProj s) := by
  obtain ⟨X, Y, Z, rfl, hP⟩ := hs
  obtain ⟨X', Y', Z', T', h1, hC⟩ := ProjectivePoint_double_spec hP
  unfold cDoubleProj
  rw [h1]
  exact CompletedPoint_as_projective_spec hC

theorem cDoubleProj_iterate_rep {P : Ed} (n : Nat) {s : List Fp} (hs : RepProjL P s) :
    RepProjL (2 ^ n • P) (cDoubleProj^[n] s) := by
  induction n generalizing P s with
  | zero => simpa using hs
  | succ n ih =>
    rw [Function.iterate_succ_apply]
    have := ih (cDoubleProj_rep hs)
    rwa [← mul_nsmul', ← pow_succ] at this

theorem cMulByPow2_rep {P : Ed} {a : List Fp} {k : Nat} (hk : k ≠ 0) (ha : RepL P a) :
    RepL (2 ^ k • P) (cMulByPow2 a k) := by
  obtain ⟨X, Y, Z, T, rfl, hP⟩ := ha
  have h0 : RepProjL P (AProg.run zmodOps AlgEdwards.as_projective [X, Y, Z, T]) := as_projective_spec hP
  obtain ⟨X1, Y1, Z1, h1, hP1⟩ := cDoubleProj_iterate_rep (k - 1) h0
  obtain ⟨X2, Y2, Z2, T2, h2, hC⟩ := ProjectivePoint_double_spec hP1
  unfold cMulByPow2
  rw [h1, h2]
  have e : 2 ^ k • P = 2 • 2 ^ (k - 1) • P := by
    rw [← mul_nsmul', ← pow_succ', Nat.sub_add_cancel (Nat.pos_of_ne_zero hk)]
  rw [e]
  exact CompletedPoint_as_extended_spec hC

theorem decompress_rel (y s : Fp) : OptRel RepL (decompressEd y s) (cDecompress y s) := by
  have h1 : AProg.run zmodOps AlgEdwards.decompress_step_1 [y] =
      [(sqrtRatioFp (y ^ 2 - 1) (d * y ^ 2 + 1)).1, (sqrtRatioFp (y ^ 2 - 1) (d * y ^ 2 + 1)).2, y, 1] := by
    rw [AlgEdwards.decompress_step_1_sh_ok, decompress_step_1_sh_eq]
  unfold cDecompress decompressEd
  rw [h1]
  simp only [List.getD_cons_zero, List.getD_cons_succ]
  rcases sqrtRatioFp_flag (y ^ 2 - 1) (d * y ^ 2 + 1) with h0 | h0
  · have hn1 : ¬ (sqrtRatioFp (y ^ 2 - 1) (d * y ^ 2 + 1)).1 = 1 := by rw [h0]; exact zero_ne_one
    have hn0 : ¬ (sqrtRatioFp (y ^ 2 - 1) (d * y ^ 2 + 1)).1 ≠ 0 := fun h => h h0
    rw [dif_neg hn1, if_neg hn0]
    trivial
  · have hne : (sqrtRatioFp (y ^ 2 - 1) (d * y ^ 2 + 1)).1 ≠ 0 := by rw [h0]; exact one_ne_zero
    rw [dif_pos h0, if_pos hne]
    rw [AlgEdwards.decompress_step_2_sh_ok, decompress_step_2_sh_eq]
    refine ⟨_, _, _, _, rfl, one_ne_zero, ?_, ?_, ?_⟩
    · show (if s = 0 then _ else _) = _ / 1; rw [div_one]
    · show y = y / 1; rw [div_one]
    · rw [one_mul]

/-! ## The invariant -/

theorem step_rel {as : List Ed} {cs : List (List Fp)} (h : List.Forall₂ RepL as cs) (op : Op) :
    OptRel RepL (stepA as op) (stepC cs op) := by
  cases op with
  | decompress y s => exact decompress_rel y s
  | identity => exact cIdentity_rep
  | basepoint => exact cBasepoint_rep
  | add i j =>
    exact (forall₂_getElem? h i).bind fun a a' ha =>
      (forall₂_getElem? h j).bind fun b b' hb => cAdd_rep ha hb
  | sub i j =>
    exact (forall₂_getElem? h i).bind fun a a' ha =>
      (forall₂_getElem? h j).bind fun b b' hb => cSub_rep ha hb
  | neg i => exact (forall₂_getElem? h i).bind fun a a' ha => cNeg_rep ha
  | double i => exact (forall₂_getElem? h i).bind fun a a' ha => cDouble_rep ha
  | mulByPow2 i k =>
    unfold stepA stepC
    by_cases hk : k = 0
    · simp only [if_pos hk]; trivial
    · simp only [if_neg hk]
      exact (forall₂_getElem? h i).bind fun a a' ha => cMulByPow2_rep hk ha

theorem run_rel (ops : List Op) {as : List Ed} {cs : List (List Fp)} (h : List.Forall₂ RepL as cs) :
    OptRel (List.Forall₂ RepL) (runA ops as) (runC ops cs) := by
  induction ops generalizing as cs with
  | nil => exact h
  | cons op ops ih =>
    unfold runA runC
    exact (step_rel h op).bind fun a c hac => ih (forall₂_snoc h hac)

/-- **Validity invariant.**  For every history of point operations, the concrete evaluation with the
translated formulas is defined iff the abstract evaluation in the group is, and then every value of the
concrete register file (every intermediate `EdwardsPoint`) is a valid extended representation
(`Z ≠ 0`, on the curve, `XY = ZT`) of the corresponding abstract point. -/
theorem valid_invariant (ops : List Op) :
    OptRel (List.Forall₂ RepL) (runA ops []) (runC ops []) :=
  run_rel ops .nil

/-- Consequence, in the direction "the code ran": all intermediate points are valid, and pass the
translated `is_valid` check. -/
theorem valid_invariant_is_valid {ops : List Op} {cs : List (List Fp)} (h : runC ops [] = some cs) :
    ∃ as, runA ops [] = some as ∧ List.Forall₂ RepL as cs ∧
      ∀ c ∈ cs, AProg.run zmodOps AlgEdwards.is_valid c = [1] := by
  have hr := valid_invariant ops
  rw [h] at hr
  obtain ⟨as, ha, hrel⟩ := hr.of_some_right
  refine ⟨as, ha, hrel, ?_⟩
  intro c hc
  have : ∀ (as : List Ed) (cs : List (List Fp)), List.Forall₂ RepL as cs → ∀ c ∈ cs, ∃ P, RepL P c := by
    intro as cs hrel
    induction hrel with
    | nil => intro c hc; cases hc
    | cons hab _ ih =>
      intro c hc
      rcases List.mem_cons.1 hc with rfl | hc
      · exact ⟨_, hab⟩
      · exact ih c hc
  obtain ⟨P, X, Y, Z, T, rfl, hP⟩ := this as cs hrel c hc
  exact is_valid_spec hP

/-- The invariant is not vacuous: a history using every operation runs
(`B`, `0`, `B + 0`, `2(B+0)`, `-(…)`, `… - B`, `[2^3](…)`). -/
example : ∃ cs, runC [.basepoint, .identity, .add 0 1, .double 2, .neg 3, .sub 4 0, .mulByPow2 5 3] [] = some cs := by
  have h := valid_invariant [.basepoint, .identity, .add 0 1, .double 2, .neg 3, .sub 4 0, .mulByPow2 5 3]
  have ha : ∃ as, runA [.basepoint, .identity, .add 0 1, .double 2, .neg 3, .sub 4 0, .mulByPow2 5 3] [] = some as := by
    simp [runA, stepA]
  obtain ⟨as, ha⟩ := ha
  rw [ha] at h
  obtain ⟨cs, hc, -⟩ := h.of_some_left
  exact ⟨cs, hc⟩

/-- info: 'Dalek.Props.C03.History.valid_invariant' depends on axioms: [propext, Classical.choice, Quot.sound] -/
#guard_msgs in #print axioms valid_invariant

/-- info: 'Dalek.Props.C03.History.valid_invariant_is_valid' depends on axioms: [propext, Classical.choice, Quot.sound] -/
#guard_msgs in #print axioms valid_invariant_is_valid

end Dalek.Props.C03.History

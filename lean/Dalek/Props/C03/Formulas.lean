import Dalek.Proofs.AlgCurveLemmas
import Dalek.Proofs.AlgEdwardsLemmas
import Dalek.Gen.AlgCurveSh
import Dalek.Gen.AlgEdwardsSh
/-!
# C03 — the curve formulas compute the group law of the Ed25519 curve (property theorems)

Statements are about the AlgIR programs `Dalek.Gen.AlgCurve.*` / `Dalek.Gen.AlgEdwards.*` REGENERATED from
`curve25519-dalek/src/backend/serial/curve_models/mod.rs` and `curve25519-dalek/src/edwards.rs` on every
run, interpreted in the field `Fp = ZMod (2^255-19)` by `zmodOps` (`run_natOps_eq_val` ties this
interpretation to the executable one over canonical naturals).

`Ed = EdPoint edParams` is the commutative group of the curve `-x² + y² = 1 + d x² y²` over `Fp`.
Representation predicates: `RepExt P X Y Z T` (`EdwardsPoint`: `Z ≠ 0`, `x = X/Z`, `y = Y/Z`, `XY = ZT`;
this is the validity invariant of `EdwardsPoint`), `RepProj` (`ProjectivePoint`), `RepCompleted`
(`CompletedPoint`: `Z, T ≠ 0`, `x = X/Z`, `y = Y/T`), `RepPNiels` (`ProjectiveNielsPoint`),
`RepANiels` (`AffineNielsPoint`).  Each theorem: inputs representing points ⟹ the outputs represent the
result of the group operation.
-/
namespace Dalek.Props.C03

open Dalek.IR Dalek.Proofs Dalek.Gen
open Dalek.Edwards
open Dalek.Bridge (Ed edParams edParams_d)
open Dalek.FieldFacts (d)

/-! ## `curve_models`: mixed additions, doubling, conversions -/

/-- `&EdwardsPoint + &ProjectiveNielsPoint` computes `P + Q` (as a `CompletedPoint`). -/
theorem add_ProjectiveNielsPoint_spec {P Q : Ed} {X1 Y1 Z1 T1 Yp Ym Z2 T2d : Fp}
    (hP : RepExt P X1 Y1 Z1 T1) (hQ : RepPNiels Q Yp Ym Z2 T2d) :
    ∃ X Y Z T, AProg.run zmodOps AlgCurve.add_ProjectiveNielsPoint [X1, Y1, Z1, T1, Yp, Ym, Z2, T2d]
      = [X, Y, Z, T] ∧ RepCompleted (P + Q) X Y Z T := by
  obtain ⟨X2, Y2, T2, hQ, rfl, rfl, rfl⟩ := hQ
  rw [AlgCurve.add_ProjectiveNielsPoint_sh_ok]
  simp only [AlgCurve.add_ProjectiveNielsPoint_sh, zmodOps_add, zmodOps_sub, zmodOps_mul]
  refine ⟨_, _, _, _, rfl, ?_⟩
  have h := add_projectiveNiels hP hQ
  simp only [edParams_d] at h
  exact h.of_eq (by ring) (by ring) (by ring) (by ring)

/-- `&EdwardsPoint - &ProjectiveNielsPoint` computes `P - Q`. -/
theorem sub_ProjectiveNielsPoint_spec {P Q : Ed} {X1 Y1 Z1 T1 Yp Ym Z2 T2d : Fp}
    (hP : RepExt P X1 Y1 Z1 T1) (hQ : RepPNiels Q Yp Ym Z2 T2d) :
    ∃ X Y Z T, AProg.run zmodOps AlgCurve.sub_ProjectiveNielsPoint [X1, Y1, Z1, T1, Yp, Ym, Z2, T2d]
      = [X, Y, Z, T] ∧ RepCompleted (P - Q) X Y Z T := by
  obtain ⟨X2, Y2, T2, hQ, rfl, rfl, rfl⟩ := hQ
  rw [AlgCurve.sub_ProjectiveNielsPoint_sh_ok]
  simp only [AlgCurve.sub_ProjectiveNielsPoint_sh, zmodOps_add, zmodOps_sub, zmodOps_mul]
  refine ⟨_, _, _, _, rfl, ?_⟩
  have h := sub_projectiveNiels hP hQ
  simp only [edParams_d] at h
  exact h.of_eq (by ring) (by ring) (by ring) (by ring)

/-- `&EdwardsPoint + &AffineNielsPoint` computes `P + Q`. -/
theorem add_AffineNielsPoint_spec {P Q : Ed} {X1 Y1 Z1 T1 yp ym xy2d : Fp}
    (hP : RepExt P X1 Y1 Z1 T1) (hQ : RepANiels Q yp ym xy2d) :
    ∃ X Y Z T, AProg.run zmodOps AlgCurve.add_AffineNielsPoint [X1, Y1, Z1, T1, yp, ym, xy2d]
      = [X, Y, Z, T] ∧ RepCompleted (P + Q) X Y Z T := by
  obtain ⟨rfl, rfl, rfl⟩ := hQ
  rw [AlgCurve.add_AffineNielsPoint_sh_ok]
  simp only [AlgCurve.add_AffineNielsPoint_sh, zmodOps_add, zmodOps_sub, zmodOps_mul]
  refine ⟨_, _, _, _, rfl, ?_⟩
  have h := add_affineNiels (Q := Q) hP
  simp only [edParams_d] at h
  exact h.of_eq (by ring) (by ring) (by ring) (by ring)

/-- `&EdwardsPoint - &AffineNielsPoint` computes `P - Q`. -/
theorem sub_AffineNielsPoint_spec {P Q : Ed} {X1 Y1 Z1 T1 yp ym xy2d : Fp}
    (hP : RepExt P X1 Y1 Z1 T1) (hQ : RepANiels Q yp ym xy2d) :
    ∃ X Y Z T, AProg.run zmodOps AlgCurve.sub_AffineNielsPoint [X1, Y1, Z1, T1, yp, ym, xy2d]
      = [X, Y, Z, T] ∧ RepCompleted (P - Q) X Y Z T := by
  obtain ⟨rfl, rfl, rfl⟩ := hQ
  rw [AlgCurve.sub_AffineNielsPoint_sh_ok]
  simp only [AlgCurve.sub_AffineNielsPoint_sh, zmodOps_add, zmodOps_sub, zmodOps_mul]
  refine ⟨_, _, _, _, rfl, ?_⟩
  have h := sub_affineNiels (Q := Q) hP
  simp only [edParams_d] at h
  exact h.of_eq (by ring) (by ring) (by ring) (by ring)

/-- `ProjectivePoint::double` computes `2 • P` (as a `CompletedPoint`). -/
theorem ProjectivePoint_double_spec {P : Ed} {X Y Z : Fp} (hP : RepProj P X Y Z) :
    ∃ X' Y' Z' T', AProg.run zmodOps AlgCurve.ProjectivePoint_double [X, Y, Z] = [X', Y', Z', T'] ∧
      RepCompleted (2 • P) X' Y' Z' T' := by
  rw [AlgCurve.ProjectivePoint_double_sh_ok]
  simp only [AlgCurve.ProjectivePoint_double_sh, zmodOps_add, zmodOps_sub, zmodOps_square,
    zmodOps_square2]
  refine ⟨_, _, _, _, rfl, ?_⟩
  have h := double_projective_nsmul hP
  exact h.of_eq (by ring) (by ring) (by ring) (by ring)

/-- `CompletedPoint::as_extended`. -/
theorem CompletedPoint_as_extended_spec {P : Ed} {X Y Z T : Fp} (hP : RepCompleted P X Y Z T) :
    ∃ X' Y' Z' T', AProg.run zmodOps AlgCurve.CompletedPoint_as_extended [X, Y, Z, T] = [X', Y', Z', T'] ∧
      RepExt P X' Y' Z' T' := by
  rw [AlgCurve.CompletedPoint_as_extended_sh_ok]
  simp only [AlgCurve.CompletedPoint_as_extended_sh, zmodOps_mul]
  exact ⟨_, _, _, _, rfl, hP.as_extended⟩

/-- `CompletedPoint::as_projective`. -/
theorem CompletedPoint_as_projective_spec {P : Ed} {X Y Z T : Fp} (hP : RepCompleted P X Y Z T) :
    ∃ X' Y' Z', AProg.run zmodOps AlgCurve.CompletedPoint_as_projective [X, Y, Z, T] = [X', Y', Z'] ∧
      RepProj P X' Y' Z' := by
  rw [AlgCurve.CompletedPoint_as_projective_sh_ok]
  simp only [AlgCurve.CompletedPoint_as_projective_sh, zmodOps_mul]
  exact ⟨_, _, _, rfl, hP.as_projective⟩

/-- `ProjectivePoint::as_extended`. -/
theorem ProjectivePoint_as_extended_spec {P : Ed} {X Y Z : Fp} (hP : RepProj P X Y Z) :
    ∃ X' Y' Z' T', AProg.run zmodOps AlgCurve.ProjectivePoint_as_extended [X, Y, Z] = [X', Y', Z', T'] ∧
      RepExt P X' Y' Z' T' := by
  rw [AlgCurve.ProjectivePoint_as_extended_sh_ok]
  simp only [AlgCurve.ProjectivePoint_as_extended_sh, zmodOps_mul, zmodOps_square]
  refine ⟨_, _, _, _, rfl, ?_⟩
  have h := hP.as_extended
  exact h.of_eq (by ring) (by ring) (by ring) (by ring)

/-- `EdwardsPoint::as_projective` (drops `T`). -/
theorem as_projective_spec {P : Ed} {X Y Z T : Fp} (hP : RepExt P X Y Z T) :
    ∃ X' Y' Z', AProg.run zmodOps AlgEdwards.as_projective [X, Y, Z, T] = [X', Y', Z'] ∧
      RepProj P X' Y' Z' := by
  rw [AlgEdwards.as_projective_sh_ok]
  exact ⟨_, _, _, rfl, hP.toProj⟩

/-- `EdwardsPoint::as_projective_niels`. -/
theorem as_projective_niels_spec {P : Ed} {X Y Z T : Fp} (hP : RepExt P X Y Z T) :
    ∃ Yp Ym Z' T2d, AProg.run zmodOps AlgEdwards.as_projective_niels [X, Y, Z, T] = [Yp, Ym, Z', T2d] ∧
      RepPNiels P Yp Ym Z' T2d := by
  rw [AlgEdwards.as_projective_niels_sh_ok]
  simp only [AlgEdwards.as_projective_niels_sh, zmodOps_add, zmodOps_sub, zmodOps_mul, const_EDWARDS_D2]
  exact ⟨_, _, _, _, rfl, hP.toPNiels⟩

/-! ## Negation, identities, conditional selection -/

/-- `-&EdwardsPoint`. -/
theorem neg_spec {P : Ed} {X Y Z T : Fp} (hP : RepExt P X Y Z T) :
    ∃ X' Y' Z' T', AProg.run zmodOps AlgEdwards.neg [X, Y, Z, T] = [X', Y', Z', T'] ∧
      RepExt (-P) X' Y' Z' T' := by
  rw [AlgEdwards.neg_sh_ok]
  simp only [AlgEdwards.neg_sh, zmodOps_neg]
  exact ⟨_, _, _, _, rfl, hP.neg⟩

/-- `-&ProjectiveNielsPoint` (swap `Y+X`/`Y−X`, negate `T2d`). -/
theorem ProjectiveNielsPoint_neg_spec {P : Ed} {Yp Ym Z T2d : Fp} (hP : RepPNiels P Yp Ym Z T2d) :
    ∃ Yp' Ym' Z' T2d', AProg.run zmodOps AlgCurve.ProjectiveNielsPoint_neg [Yp, Ym, Z, T2d]
      = [Yp', Ym', Z', T2d'] ∧ RepPNiels (-P) Yp' Ym' Z' T2d' := by
  obtain ⟨X, Y, T, hP, rfl, rfl, rfl⟩ := hP
  rw [AlgCurve.ProjectiveNielsPoint_neg_sh_ok]
  simp only [AlgCurve.ProjectiveNielsPoint_neg_sh, zmodOps_neg]
  exact ⟨_, _, _, _, rfl, -X, Y, -T, hP.neg, by ring, by ring, by ring⟩

/-- `-&AffineNielsPoint`. -/
theorem AffineNielsPoint_neg_spec {P : Ed} {yp ym xy2d : Fp} (hP : RepANiels P yp ym xy2d) :
    ∃ yp' ym' xy2d', AProg.run zmodOps AlgCurve.AffineNielsPoint_neg [yp, ym, xy2d] = [yp', ym', xy2d'] ∧
      RepANiels (-P) yp' ym' xy2d' := by
  obtain ⟨rfl, rfl, rfl⟩ := hP
  rw [AlgCurve.AffineNielsPoint_neg_sh_ok]
  simp only [AlgCurve.AffineNielsPoint_neg_sh, zmodOps_neg]
  refine ⟨_, _, _, rfl, ?_, ?_, ?_⟩ <;> simp only [EdPoint.neg_x, EdPoint.neg_y] <;> ring

/-- `EdwardsPoint::identity()` represents `0`. -/
theorem identity_spec :
    ∃ X Y Z T, AProg.run zmodOps AlgEdwards.identity [] = [X, Y, Z, T] ∧ RepExt (0 : Ed) X Y Z T := by
  rw [AlgEdwards.identity_sh_ok]
  simp only [AlgEdwards.identity_sh, const_ZERO, const_ONE]
  exact ⟨_, _, _, _, rfl, repExt_zero⟩

/-- `ProjectivePoint::identity()` represents `0`. -/
theorem ProjectivePoint_identity_spec :
    ∃ X Y Z, AProg.run zmodOps AlgCurve.ProjectivePoint_identity [] = [X, Y, Z] ∧
      RepProj (0 : Ed) X Y Z := by
  rw [AlgCurve.ProjectivePoint_identity_sh_ok]
  simp only [AlgCurve.ProjectivePoint_identity_sh, const_ZERO, const_ONE]
  exact ⟨_, _, _, rfl, (repExt_zero (c := edParams)).toProj⟩

/-- `ProjectiveNielsPoint::identity()` represents `0`. -/
theorem ProjectiveNielsPoint_identity_spec :
    ∃ Yp Ym Z T2d, AProg.run zmodOps AlgCurve.ProjectiveNielsPoint_identity [] = [Yp, Ym, Z, T2d] ∧
      RepPNiels (0 : Ed) Yp Ym Z T2d := by
  rw [AlgCurve.ProjectiveNielsPoint_identity_sh_ok]
  simp only [AlgCurve.ProjectiveNielsPoint_identity_sh, const_ZERO, const_ONE]
  exact ⟨_, _, _, _, rfl, 0, 1, 0, repExt_zero, by ring, by ring, by ring⟩

/-- `AffineNielsPoint::identity()` represents `0`. -/
theorem AffineNielsPoint_identity_spec :
    ∃ yp ym xy2d, AProg.run zmodOps AlgCurve.AffineNielsPoint_identity [] = [yp, ym, xy2d] ∧
      RepANiels (0 : Ed) yp ym xy2d := by
  rw [AlgCurve.AffineNielsPoint_identity_sh_ok]
  simp only [AlgCurve.AffineNielsPoint_identity_sh, const_ZERO, const_ONE]
  refine ⟨_, _, _, rfl, ?_, ?_, ?_⟩ <;> simp only [EdPoint.zero_x, EdPoint.zero_y] <;> ring

/-- `EdwardsPoint::conditional_select(a, b, choice)`: `a` if `choice = 0`, else `b`. -/
theorem conditional_select_spec {P Q : Ed} {X1 Y1 Z1 T1 X2 Y2 Z2 T2 : Fp} (c : Fp)
    (hP : RepExt P X1 Y1 Z1 T1) (hQ : RepExt Q X2 Y2 Z2 T2) :
    ∃ X Y Z T, AProg.run zmodOps AlgEdwards.conditional_select [X1, Y1, Z1, T1, X2, Y2, Z2, T2, c]
      = [X, Y, Z, T] ∧ RepExt (if c = 0 then P else Q) X Y Z T := by
  rw [AlgEdwards.conditional_select_sh_ok]
  simp only [AlgEdwards.conditional_select_sh, zmodOps_csel]
  refine ⟨_, _, _, _, rfl, ?_⟩
  by_cases h : c = 0
  · simp only [if_pos h]; exact hP
  · simp only [if_neg h]; exact hQ

/-- `ProjectiveNielsPoint::conditional_select`. -/
theorem ProjectiveNielsPoint_conditional_select_spec {P Q : Ed} {a0 a1 a2 a3 b0 b1 b2 b3 : Fp} (c : Fp)
    (hP : RepPNiels P a0 a1 a2 a3) (hQ : RepPNiels Q b0 b1 b2 b3) :
    ∃ Yp Ym Z T2d, AProg.run zmodOps AlgCurve.ProjectiveNielsPoint_conditional_select
      [a0, a1, a2, a3, b0, b1, b2, b3, c] = [Yp, Ym, Z, T2d] ∧
      RepPNiels (if c = 0 then P else Q) Yp Ym Z T2d := by
  rw [AlgCurve.ProjectiveNielsPoint_conditional_select_sh_ok]
  simp only [AlgCurve.ProjectiveNielsPoint_conditional_select_sh, zmodOps_csel]
  refine ⟨_, _, _, _, rfl, ?_⟩
  by_cases h : c = 0
  · simp only [if_pos h]; exact hP
  · simp only [if_neg h]; exact hQ

/-- `ProjectiveNielsPoint::conditional_assign`. -/
theorem ProjectiveNielsPoint_conditional_assign_spec {P Q : Ed} {a0 a1 a2 a3 b0 b1 b2 b3 : Fp} (c : Fp)
    (hP : RepPNiels P a0 a1 a2 a3) (hQ : RepPNiels Q b0 b1 b2 b3) :
    ∃ Yp Ym Z T2d, AProg.run zmodOps AlgCurve.ProjectiveNielsPoint_conditional_assign
      [a0, a1, a2, a3, b0, b1, b2, b3, c] = [Yp, Ym, Z, T2d] ∧
      RepPNiels (if c = 0 then P else Q) Yp Ym Z T2d := by
  rw [AlgCurve.ProjectiveNielsPoint_conditional_assign_sh_ok]
  simp only [AlgCurve.ProjectiveNielsPoint_conditional_assign_sh, zmodOps_csel]
  refine ⟨_, _, _, _, rfl, ?_⟩
  by_cases h : c = 0
  · simp only [if_pos h]; exact hP
  · simp only [if_neg h]; exact hQ

/-- `AffineNielsPoint::conditional_select`. -/
theorem AffineNielsPoint_conditional_select_spec {P Q : Ed} {a0 a1 a2 b0 b1 b2 : Fp} (c : Fp)
    (hP : RepANiels P a0 a1 a2) (hQ : RepANiels Q b0 b1 b2) :
    ∃ yp ym xy2d, AProg.run zmodOps AlgCurve.AffineNielsPoint_conditional_select
      [a0, a1, a2, b0, b1, b2, c] = [yp, ym, xy2d] ∧
      RepANiels (if c = 0 then P else Q) yp ym xy2d := by
  rw [AlgCurve.AffineNielsPoint_conditional_select_sh_ok]
  simp only [AlgCurve.AffineNielsPoint_conditional_select_sh, zmodOps_csel]
  refine ⟨_, _, _, rfl, ?_⟩
  by_cases h : c = 0
  · simp only [if_pos h]; exact hP
  · simp only [if_neg h]; exact hQ

/-- `AffineNielsPoint::conditional_assign`. -/
theorem AffineNielsPoint_conditional_assign_spec {P Q : Ed} {a0 a1 a2 b0 b1 b2 : Fp} (c : Fp)
    (hP : RepANiels P a0 a1 a2) (hQ : RepANiels Q b0 b1 b2) :
    ∃ yp ym xy2d, AProg.run zmodOps AlgCurve.AffineNielsPoint_conditional_assign
      [a0, a1, a2, b0, b1, b2, c] = [yp, ym, xy2d] ∧
      RepANiels (if c = 0 then P else Q) yp ym xy2d := by
  rw [AlgCurve.AffineNielsPoint_conditional_assign_sh_ok]
  simp only [AlgCurve.AffineNielsPoint_conditional_assign_sh, zmodOps_csel]
  refine ⟨_, _, _, rfl, ?_⟩
  by_cases h : c = 0
  · simp only [if_pos h]; exact hP
  · simp only [if_neg h]; exact hQ

/-! ## The composed `EdwardsPoint` operations preserve the validity invariant `RepExt` -/

/-- `EdwardsPoint::double` computes `2 • P`; the output is again a valid extended point. -/
theorem double_spec {P : Ed} {X Y Z T : Fp} (hP : RepExt P X Y Z T) :
    ∃ X' Y' Z' T', AProg.run zmodOps AlgEdwards.double [X, Y, Z, T] = [X', Y', Z', T'] ∧
      RepExt (2 • P) X' Y' Z' T' := by
  rw [AlgEdwards.double_sh_ok]
  simp only [AlgEdwards.double_sh, zmodOps_add, zmodOps_sub, zmodOps_mul, zmodOps_square,
    zmodOps_square2]
  refine ⟨_, _, _, _, rfl, ?_⟩
  have h := (double_projective_nsmul hP.toProj).as_extended
  exact h.of_eq (by ring) (by ring) (by ring) (by ring)

/-- `&EdwardsPoint + &EdwardsPoint` computes `P + Q`; the output is again a valid extended point. -/
theorem add_spec {P Q : Ed} {X1 Y1 Z1 T1 X2 Y2 Z2 T2 : Fp}
    (hP : RepExt P X1 Y1 Z1 T1) (hQ : RepExt Q X2 Y2 Z2 T2) :
    ∃ X Y Z T, AProg.run zmodOps AlgEdwards.add [X1, Y1, Z1, T1, X2, Y2, Z2, T2] = [X, Y, Z, T] ∧
      RepExt (P + Q) X Y Z T := by
  rw [AlgEdwards.add_sh_ok]
  simp only [AlgEdwards.add_sh, zmodOps_add, zmodOps_sub, zmodOps_mul, const_EDWARDS_D2]
  refine ⟨_, _, _, _, rfl, ?_⟩
  have h := (add_projectiveNiels hP hQ).as_extended
  simp only [edParams_d] at h
  exact h.of_eq (by ring) (by ring) (by ring) (by ring)

/-- `&EdwardsPoint - &EdwardsPoint` computes `P - Q`; the output is again a valid extended point. -/
theorem sub_spec {P Q : Ed} {X1 Y1 Z1 T1 X2 Y2 Z2 T2 : Fp}
    (hP : RepExt P X1 Y1 Z1 T1) (hQ : RepExt Q X2 Y2 Z2 T2) :
    ∃ X Y Z T, AProg.run zmodOps AlgEdwards.sub [X1, Y1, Z1, T1, X2, Y2, Z2, T2] = [X, Y, Z, T] ∧
      RepExt (P - Q) X Y Z T := by
  rw [AlgEdwards.sub_sh_ok]
  simp only [AlgEdwards.sub_sh, zmodOps_add, zmodOps_sub, zmodOps_mul, const_EDWARDS_D2]
  refine ⟨_, _, _, _, rfl, ?_⟩
  have h := (sub_projectiveNiels hP hQ).as_extended
  simp only [edParams_d] at h
  exact h.of_eq (by ring) (by ring) (by ring) (by ring)

/-! ## Equality and validity tests -/

/-- `EdwardsPoint::ct_eq` decides equality of the represented points. -/
theorem ct_eq_spec {P Q : Ed} {X1 Y1 Z1 T1 X2 Y2 Z2 T2 : Fp}
    (hP : RepExt P X1 Y1 Z1 T1) (hQ : RepExt Q X2 Y2 Z2 T2) :
    AProg.run zmodOps AlgEdwards.ct_eq [X1, Y1, Z1, T1, X2, Y2, Z2, T2] = [c2f (P = Q)] := by
  rw [AlgEdwards.ct_eq_sh_ok]
  simp only [AlgEdwards.ct_eq_sh, zmodOps_mul, zmodOps_ctEq, zmodOps_cand, c2f_ne_zero_iff]
  refine congrArg (fun a => [a]) (c2f_congr ?_)
  rw [RepProj.eq_iff hP.toProj hQ.toProj]

/-- `EdwardsPoint::is_valid` returns `1` on every valid extended point. -/
theorem is_valid_spec {P : Ed} {X Y Z T : Fp} (hP : RepExt P X Y Z T) :
    AProg.run zmodOps AlgEdwards.is_valid [X, Y, Z, T] = [1] := by
  rw [AlgEdwards.is_valid_sh_ok]
  simp only [AlgEdwards.is_valid_sh, zmodOps_mul, zmodOps_ctEq, zmodOps_cand, zmodOps_square,
    zmodOps_add, zmodOps_sub, const_EDWARDS_D, c2f_ne_zero_iff]
  refine congrArg (fun a => [a]) (c2f_true ⟨hP.toProj.curve_eq, hP.2.2.2⟩)

/-- Converse: when `Z ≠ 0`, `is_valid = 1` only for quadruples representing a curve point. -/
theorem is_valid_iff {X Y Z T : Fp} (hZ : Z ≠ 0) :
    AProg.run zmodOps AlgEdwards.is_valid [X, Y, Z, T] = [1] ↔ ∃ P : Ed, RepExt P X Y Z T := by
  constructor
  · rw [AlgEdwards.is_valid_sh_ok]
    simp only [AlgEdwards.is_valid_sh, zmodOps_mul, zmodOps_ctEq, zmodOps_cand, zmodOps_square,
      zmodOps_add, zmodOps_sub, const_EDWARDS_D, c2f_ne_zero_iff]
    intro h
    have h1 := (c2f_eq_one_iff.1 (List.head_eq_of_cons_eq h))
    obtain ⟨P, hP⟩ := exists_repProj hZ h1.1
    exact ⟨P, hP.1, hP.2.1, hP.2.2, h1.2⟩
  · rintro ⟨P, hP⟩; exact is_valid_spec hP

/-- `ProjectivePoint::is_valid` returns `1` on every represented point. -/
theorem ProjectivePoint_is_valid_spec {P : Ed} {X Y Z : Fp} (hP : RepProj P X Y Z) :
    AProg.run zmodOps AlgCurve.ProjectivePoint_is_valid [X, Y, Z] = [1] := by
  rw [AlgCurve.ProjectivePoint_is_valid_sh_ok]
  simp only [AlgCurve.ProjectivePoint_is_valid_sh, zmodOps_mul, zmodOps_ctEq, zmodOps_square,
    zmodOps_add, zmodOps_sub, const_EDWARDS_D]
  refine congrArg (fun a => [a]) (c2f_true hP.curve_eq)

/-! ## Formulas containing the inversion chain: `compress`, `to_montgomery`, `as_affine_niels` -/

/-- `EdwardsPoint::compress` (field part; the byte packing is modelled by hand): the encoded value is
the affine `y` of the point and the sign bit is `is_negative(x)`. -/
theorem compress_spec {P : Ed} {X Y Z T : Fp} (hP : RepExt P X Y Z T) :
    AProg.run zmodOps AlgEdwards.compress [X, Y, Z, T] = [P.y, c2f (fpIsNeg P.x)] := by
  rw [AlgEdwards.compress_sh_ok, compress_sh_eq, hP.x_eq, hP.y_eq]

/-- `EdwardsPoint::to_montgomery` (field part): `u = (1 + y)/(1 − y)`; for `y = 1` (the identity) the
inverse of `0` is `0` and the result is `u = 0` (also the value of `(1+y)/(1-y)` in Lean, `x/0 = 0`). -/
theorem to_montgomery_spec {P : Ed} {X Y Z T : Fp} (hP : RepExt P X Y Z T) :
    AProg.run zmodOps AlgEdwards.to_montgomery [X, Y, Z, T] = [(1 + P.y) / (1 - P.y)] := by
  rw [AlgEdwards.to_montgomery_sh_ok, to_montgomery_sh_eq, montgomery_u_eq hP.1, hP.2.2.1]

/-- The exceptional case of `to_montgomery` made explicit: `y = 1` gives `u = 0`. -/
theorem to_montgomery_identity {P : Ed} {X Y Z T : Fp} (hP : RepExt P X Y Z T) (hy : P.y = 1) :
    AProg.run zmodOps AlgEdwards.to_montgomery [X, Y, Z, T] = [0] := by
  rw [to_montgomery_spec hP, hy, sub_self, div_zero]

/-- `EdwardsPoint::as_affine_niels`. -/
theorem as_affine_niels_spec {P : Ed} {X Y Z T : Fp} (hP : RepExt P X Y Z T) :
    ∃ yp ym xy2d, AProg.run zmodOps AlgEdwards.as_affine_niels [X, Y, Z, T] = [yp, ym, xy2d] ∧
      RepANiels P yp ym xy2d := by
  rw [AlgEdwards.as_affine_niels_sh_ok, as_affine_niels_sh_eq, hP.x_eq, hP.y_eq]
  exact ⟨_, _, _, rfl, rfl, rfl, rfl⟩

/-! ## Decompression (field part: `decompress::step_1`, `decompress::step_2`) -/

/-- `decompress::step_1` on the decoded `y`: returns `(is_valid_y_coord, X, Y, Z) = (ok, r, y, 1)` where
`ok` is a choice, `ok = 1` iff `y` is the ordinate of a curve point, `r` is non-negative, and if
`ok = 1` then `(r, y)` is on the curve. -/
theorem decompress_step_1_spec (y : Fp) :
    ∃ ok r, AProg.run zmodOps AlgEdwards.decompress_step_1 [y] = [ok, r, y, 1] ∧
      (ok = 0 ∨ ok = 1) ∧ ¬ fpIsNeg r ∧ (ok = 1 ↔ ∃ x, onCurve d x y) ∧ (ok = 1 → onCurve d r y) := by
  refine ⟨_, _, ?_, sqrtRatioFp_flag _ _, sqrtRatioFp_not_isNeg _ _, decompress_flag_iff y,
    decompress_root_onCurve⟩
  rw [AlgEdwards.decompress_step_1_sh_ok, decompress_step_1_sh_eq]

/-- `decompress::step_2` on a non-negative root `r` with `(r, y)` on the curve and the sign bit `s`
(a choice): `X` is negated iff `s ≠ 0`, `T = X·Y`; the result is a valid extended point `Q` with
`Q.y = y`, `Q.x = ±r`, and — unless `Q.x = 0`, in which case the sign bit is ignored — the sign of
`Q.x` is the requested one. -/
theorem decompress_step_2_spec {r y : Fp} (s : Fp) (hr : onCurve d r y) (hneg : ¬ fpIsNeg r) :
    ∃ Q : Ed, Q.y = y ∧ Q.x = (if s = 0 then r else -r) ∧
      (Q.x ≠ 0 → (fpIsNeg Q.x ↔ s ≠ 0)) ∧
      ∃ X Y Z T, AProg.run zmodOps AlgEdwards.decompress_step_2 [r, y, 1, s] = [X, Y, Z, T] ∧
        RepExt Q X Y Z T := by
  have hon : onCurve edParams.d (if s = 0 then r else -r) y := by
    rw [edParams_d]
    by_cases h : s = 0
    · rw [if_pos h]; exact hr
    · rw [if_neg h]; unfold onCurve at hr ⊢; linear_combination hr
  refine ⟨⟨_, y, hon⟩, rfl, rfl, ?_, ?_⟩
  · show (if s = 0 then r else -r) ≠ 0 → (fpIsNeg (if s = 0 then r else -r) ↔ s ≠ 0)
    by_cases h : s = 0
    · simp only [if_pos h]; intro _
      exact ⟨fun h' => absurd h' hneg, fun h' => absurd h h'⟩
    · simp only [if_neg h]; intro h0
      have hr0 : r ≠ 0 := fun e => h0 (by rw [e, neg_zero])
      exact ⟨fun _ => h, fun _ => (fpIsNeg_neg hr0).2 hneg⟩
  · rw [AlgEdwards.decompress_step_2_sh_ok, decompress_step_2_sh_eq]
    refine ⟨_, _, _, _, rfl, one_ne_zero, ?_, ?_, ?_⟩
    · show (if s = 0 then r else -r) = _ / 1; rw [div_one]
    · show y = y / 1; rw [div_one]
    · rw [one_mul]

/-- **Decompression, both steps**: for the decoded `y` and sign bit `s`, `step_1` accepts iff `y` is the
ordinate of a curve point, and then `step_2` returns a valid `EdwardsPoint` for the point with that `y`
and the requested sign of `x` (for `x = 0` the sign bit is ignored). -/
theorem decompress_spec (y s : Fp) :
    ∃ ok r, AProg.run zmodOps AlgEdwards.decompress_step_1 [y] = [ok, r, y, 1] ∧
      (ok = 0 ∨ ok = 1) ∧ (ok = 1 ↔ ∃ x, onCurve d x y) ∧
      (ok = 1 → ∃ Q : Ed, Q.y = y ∧ (Q.x ≠ 0 → (fpIsNeg Q.x ↔ s ≠ 0)) ∧
        ∃ X Y Z T, AProg.run zmodOps AlgEdwards.decompress_step_2 [r, y, 1, s] = [X, Y, Z, T] ∧
          RepExt Q X Y Z T) := by
  obtain ⟨ok, r, h1, h2, h3, h4, h5⟩ := decompress_step_1_spec y
  refine ⟨ok, r, h1, h2, h4, fun h => ?_⟩
  obtain ⟨Q, hy, -, hs, hrep⟩ := decompress_step_2_spec s (h5 h) h3
  exact ⟨Q, hy, hs, hrep⟩

/-- **Agreement with the executable specification `Spec.decompress`** (which `Bridge.decompress_some`,
`decompress_none_iff`, `decompress_complete` characterise): on the field element decoded from the bytes
`b` and the sign bit of `b`, the translated steps reject exactly when `Spec.decompress b = none`, and
otherwise return the extended coordinates `(x : y : 1 : x·y)` of the specification's point. -/
theorem decompress_eq_spec (b : List UInt8) :
    ∃ ok r, AProg.run zmodOps AlgEdwards.decompress_step_1 [((Spec.feFromBytes b : Nat) : Fp)]
        = [ok, r, ((Spec.feFromBytes b : Nat) : Fp), 1] ∧
      (Spec.decompress b = none → ok = 0) ∧
      (∀ p, Spec.decompress b = some p → ok = 1 ∧
        AProg.run zmodOps AlgEdwards.decompress_step_2
            [r, ((Spec.feFromBytes b : Nat) : Fp), 1, c2f (Spec.signBit b = true)]
          = [(p.x : Fp), (p.y : Fp), 1, (p.x : Fp) * (p.y : Fp)] ∧
        ∃ h : Spec.onCurve p = true,
          RepExt (Bridge.toEd p h) (p.x : Fp) (p.y : Fp) 1 ((p.x : Fp) * (p.y : Fp))) := by
  have hu : ((Bridge.decU b : Nat) : Fp) = ((Spec.feFromBytes b : Nat) : Fp) ^ 2 - 1 := Bridge.cast_decU b
  have hv : ((Bridge.decV b : Nat) : Fp) = d * ((Spec.feFromBytes b : Nat) : Fp) ^ 2 + 1 := Bridge.cast_decV b
  have huv : (((Spec.feFromBytes b : Nat) : Fp) ^ 2 - 1).val = Bridge.decU b := by
    rw [← hu, Bridge.val_cast, Nat.mod_eq_of_lt (show Bridge.decU b < Spec.P from Bridge.fsub_lt _ _)]
  have hvv : (d * ((Spec.feFromBytes b : Nat) : Fp) ^ 2 + 1).val = Bridge.decV b := by
    rw [← hv, Bridge.val_cast, Nat.mod_eq_of_lt (show Bridge.decV b < Spec.P from Bridge.fadd_lt _ _)]
  refine ⟨(sqrtRatioFp (((Spec.feFromBytes b : Nat) : Fp) ^ 2 - 1)
      (d * ((Spec.feFromBytes b : Nat) : Fp) ^ 2 + 1)).1,
    (sqrtRatioFp (((Spec.feFromBytes b : Nat) : Fp) ^ 2 - 1)
      (d * ((Spec.feFromBytes b : Nat) : Fp) ^ 2 + 1)).2, ?_, ?_, ?_⟩
  · rw [AlgEdwards.decompress_step_1_sh_ok, decompress_step_1_sh_eq]
  · intro hnone
    rw [sqrtRatioFp_fst, huv, hvv]
    rw [Bridge.decompress_unfold] at hnone
    by_cases hok : (Spec.sqrtRatioM1 (Bridge.decU b) (Bridge.decV b)).1 = true
    · rw [if_pos hok] at hnone; cases hnone
    · exact c2f_false hok
  · intro p hp
    obtain ⟨hon, -⟩ := Bridge.decompress_some hp
    rw [Bridge.decompress_unfold] at hp
    by_cases hok : (Spec.sqrtRatioM1 (Bridge.decU b) (Bridge.decV b)).1 = true
    · rw [if_pos hok] at hp
      have hp' := (Option.some.inj hp).symm
      have hx : (p.x : Fp) = if c2f (Spec.signBit b = true) = 0 then
          (((Spec.sqrtRatioM1 (Bridge.decU b) (Bridge.decV b)).2 : Nat) : Fp)
          else -(((Spec.sqrtRatioM1 (Bridge.decU b) (Bridge.decV b)).2 : Nat) : Fp) := by
        rw [hp']
        by_cases hs : Spec.signBit b = true
        · simp only [if_pos hs, c2f_true hs, one_ne_zero, if_false, Bridge.cast_fneg]
        · simp only [if_neg hs, c2f_false hs, if_true]
      have hy : (p.y : Fp) = ((Spec.feFromBytes b : Nat) : Fp) := by rw [hp']
      refine ⟨?_, ?_, hon, ?_⟩
      · rw [sqrtRatioFp_fst, huv, hvv]; exact c2f_true hok
      · rw [AlgEdwards.decompress_step_2_sh_ok, decompress_step_2_sh_eq, sqrtRatioFp_snd, huv, hvv,
          ← hx, ← hy]
      · exact Dalek.Edwards.repExt_affine (Bridge.toEd p hon)
    · rw [if_neg hok] at hp; cases hp

/-! ### The hypotheses are satisfiable -/

/-- `(0 : 1 : 1 : 0)` is a valid extended point, so none of the theorems above is vacuous. -/
example : RepExt (0 : Ed) 0 1 1 0 := repExt_zero


/-! ### Axiom audit -/

/-- info: 'Dalek.Props.C03.add_ProjectiveNielsPoint_spec' depends on axioms: [propext, Classical.choice, Quot.sound] -/
#guard_msgs in #print axioms add_ProjectiveNielsPoint_spec

/-- info: 'Dalek.Props.C03.sub_ProjectiveNielsPoint_spec' depends on axioms: [propext, Classical.choice, Quot.sound] -/
#guard_msgs in #print axioms sub_ProjectiveNielsPoint_spec

/-- info: 'Dalek.Props.C03.add_AffineNielsPoint_spec' depends on axioms: [propext, Classical.choice, Quot.sound] -/
#guard_msgs in #print axioms add_AffineNielsPoint_spec

/-- info: 'Dalek.Props.C03.sub_AffineNielsPoint_spec' depends on axioms: [propext, Classical.choice, Quot.sound] -/
#guard_msgs in #print axioms sub_AffineNielsPoint_spec

/-- info: 'Dalek.Props.C03.ProjectivePoint_double_spec' depends on axioms: [propext, Classical.choice, Quot.sound] -/
#guard_msgs in #print axioms ProjectivePoint_double_spec

/-- info: 'Dalek.Props.C03.double_spec' depends on axioms: [propext, Classical.choice, Quot.sound] -/
#guard_msgs in #print axioms double_spec

/-- info: 'Dalek.Props.C03.add_spec' depends on axioms: [propext, Classical.choice, Quot.sound] -/
#guard_msgs in #print axioms add_spec

/-- info: 'Dalek.Props.C03.sub_spec' depends on axioms: [propext, Classical.choice, Quot.sound] -/
#guard_msgs in #print axioms sub_spec

/-- info: 'Dalek.Props.C03.ct_eq_spec' depends on axioms: [propext, Classical.choice, Quot.sound] -/
#guard_msgs in #print axioms ct_eq_spec

/-- info: 'Dalek.Props.C03.is_valid_iff' depends on axioms: [propext, Classical.choice, Quot.sound] -/
#guard_msgs in #print axioms is_valid_iff

/-- info: 'Dalek.Props.C03.compress_spec' depends on axioms: [propext, Classical.choice, Quot.sound] -/
#guard_msgs in #print axioms compress_spec

/-- info: 'Dalek.Props.C03.to_montgomery_spec' depends on axioms: [propext, Classical.choice, Quot.sound] -/
#guard_msgs in #print axioms to_montgomery_spec

/-- info: 'Dalek.Props.C03.as_affine_niels_spec' depends on axioms: [propext, Classical.choice, Quot.sound] -/
#guard_msgs in #print axioms as_affine_niels_spec

/-- info: 'Dalek.Props.C03.decompress_spec' depends on axioms: [propext, Classical.choice, Quot.sound] -/
#guard_msgs in #print axioms decompress_spec

/-- info: 'Dalek.Props.C03.decompress_eq_spec' depends on axioms: [propext, Classical.choice, Quot.sound] -/
#guard_msgs in #print axioms decompress_eq_spec

end Dalek.Props.C03

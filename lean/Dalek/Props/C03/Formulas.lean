import Dalek.Proofs.AlgCurveLemmas
import Dalek.Gen.AlgCurveSh
import Dalek.Gen.AlgEdwardsSh
/-!
# C03 — the curve formulas compute the group law of the Ed25519 curve (property theorems)

Statements are about the AlgIR programs `Dalek.Gen.AlgCurve.*` / `Dalek.Gen.AlgEdwards.*` REGENERATED from
`curve25519-dalek/src/backend/serial/curve_models/mod.rs` and `curve25519-dalek/src/edwards.rs` on every
run, interpreted in the field `Fp = ZMod (2^255-19)` by `zmodOps` (`run_natOps_eq_val` ties this
interpretation to the executable one over canonical naturals).

`Ed = EdPoint edParams` is the commutative group of the curve `-x² + y² = 1 + d x² y²` over `Fp`.
Representation predicates: `RepExt P X Y Z T` (`EdwardsPoint`: `Z ≠ 0`, `x = X/Z`, `y = Y/Z`, `XY = ZT`;
this is the validity invariant of `EdwardsPoint`), `RepProj` (`ProjectivePoint`), `RepCompleted`
(`CompletedPoint`: `Z, T ≠ 0`, `x = X/Z`, `y = Y/T`), `RepPNiels` (`ProjectiveNielsPoint`),
`RepANiels` (`AffineNielsPoint`).  Each theorem: inputs representing points ⟹ the outputs represent the
result of the group operation.
-/
namespace Dalek.Props.C03

open Dalek.IR Dalek.Proofs Dalek.Gen
open Dalek.Edwards
open Dalek.Bridge (Ed edParams edParams_d)
open Dalek.FieldFacts (d)

/-! ## `curve_models`: mixed additions, doubling, conversions -/

/-- `&EdwardsPoint + &ProjectiveNielsPoint` computes `P + Q` (as a `CompletedPoint`). -/
theorem add_ProjectiveNielsPoint_spec {P Q : Ed} {X1 Y1 Z1 T1 Yp Ym Z2 T2d : Fp}
    (hP : RepExt P X1 Y1 Z1 T1) (hQ : RepPNiels Q Yp Ym Z2 T2d) :
    ∃ X Y Z T, AProg.run zmodOps AlgCurve.add_ProjectiveNielsPoint [X1, Y1, Z1, T1, Yp, Ym, Z2, T2d]
      = [X, Y, Z, T] ∧ RepCompleted (P + Q) X Y Z T := by
  obtain ⟨X2, Y2, T2, hQ, rfl, rfl, rfl⟩ := hQ
  rw [AlgCurve.add_ProjectiveNielsPoint_sh_ok]
  simp only [AlgCurve.add_ProjectiveNielsPoint_sh, zmodOps_add, zmodOps_sub, zmodOps_mul]
  refine ⟨_, _, _, _, rfl, ?_⟩
  have h := add_projectiveNiels hP hQ
  simp only [edParams_d] at h
  exact h.of_eq (by ring) (by ring) (by ring) (by ring)

/-- `&EdwardsPoint - &ProjectiveNielsPoint` computes `P - Q`. -/
theorem sub_ProjectiveNielsPoint_spec {P Q : Ed} {X1 Y1 Z1 T1 Yp Ym Z2 T2d : Fp}
    (hP : RepExt P X1 Y1 Z1 T1) (hQ : RepPNiels Q Yp Ym Z2 T2d) :
    ∃ X Y Z T, AProg.run zmodOps AlgCurve.sub_ProjectiveNielsPoint [X1, Y1, Z1, T1, Yp, Ym, Z2, T2d]
      = [X, Y, Z, T] ∧ RepCompleted (P - Q) X Y Z T := by
  obtain ⟨X2, Y2, T2, hQ, rfl, rfl, rfl⟩ := hQ
  rw [AlgCurve.sub_ProjectiveNielsPoint_sh_ok]
  simp only [AlgCurve.sub_ProjectiveNielsPoint_sh, zmodOps_add, zmodOps_sub, zmodOps_mul]
  refine ⟨_, _, _, _, rfl, ?_⟩
  have h := sub_projectiveNiels hP hQ
  simp only [edParams_d] at h
  exact h.of_eq (by ring) (by ring) (by ring) (by ring)

/-- `&EdwardsPoint + &AffineNielsPoint` computes `P + Q`. -/
theorem add_AffineNielsPoint_spec {P Q : Ed} {X1 Y1 Z1 T1 yp ym xy2d : Fp}
    (hP : RepExt P X1 Y1 Z1 T1) (hQ : RepANiels Q yp ym xy2d) :
    ∃ X Y Z T, AProg.run zmodOps AlgCurve.add_AffineNielsPoint [X1, Y1, Z1, T1, yp, ym, xy2d]
      = [X, Y, Z, T] ∧ RepCompleted (P + Q) X Y Z T := by
  obtain ⟨rfl, rfl, rfl⟩ := hQ
  rw [AlgCurve.add_AffineNielsPoint_sh_ok]
  simp only [AlgCurve.add_AffineNielsPoint_sh, zmodOps_add, zmodOps_sub, zmodOps_mul]
  refine ⟨_, _, _, _, rfl, ?_⟩
  have h := add_affineNiels (Q := Q) hP
  simp only [edParams_d] at h
  exact h.of_eq (by ring) (by ring) (by ring) (by ring)

/-- `&EdwardsPoint - &AffineNielsPoint` computes `P - Q`. -/
theorem sub_AffineNielsPoint_spec {P Q : Ed} {X1 Y1 Z1 T1 yp ym xy2d : Fp}
    (hP : RepExt P X1 Y1 Z1 T1) (hQ : RepANiels Q yp ym xy2d) :
    ∃ X Y Z T, AProg.run zmodOps AlgCurve.sub_AffineNielsPoint [X1, Y1, Z1, T1, yp, ym, xy2d]
      = [X, Y, Z, T] ∧ RepCompleted (P - Q) X Y Z T := by
  obtain ⟨rfl, rfl, rfl⟩ := hQ
  rw [AlgCurve.sub_AffineNielsPoint_sh_ok]
  simp only [AlgCurve.sub_AffineNielsPoint_sh, zmodOps_add, zmodOps_sub, zmodOps_mul]
  refine ⟨_, _, _, _, rfl, ?_⟩
  have h := sub_affineNiels (Q := Q) hP
  simp only [edParams_d] at h
  exact h.of_eq (by ring) (by ring) (by ring) (by ring)

/-- `ProjectivePoint::double` computes `2 • P` (as a `CompletedPoint`). -/
theorem ProjectivePoint_double_spec {P : Ed} {X Y Z : Fp} (hP : RepProj P X Y Z) :
    ∃ X' Y' Z' T', AProg.run zmodOps AlgCurve.ProjectivePoint_double [X, Y, Z] = [X', Y', Z', T'] ∧
      RepCompleted (2 • P) X' Y' Z' T' := by
  rw [AlgCurve.ProjectivePoint_double_sh_ok]
  simp only [AlgCurve.ProjectivePoint_double_sh, zmodOps_add, zmodOps_sub, zmodOps_square,
    zmodOps_square2]
  refine ⟨_, _, _, _, rfl, ?_⟩
  have h := double_projective_nsmul hP
  exact h.of_eq (by ring) (by ring) (by ring) (by ring)

/-- `CompletedPoint::as_extended`. -/
theorem CompletedPoint_as_extended_spec {P : Ed} {X Y Z T : Fp} (hP : RepCompleted P X Y Z T) :
    ∃ X' Y' Z' T', AProg.run zmodOps AlgCurve.CompletedPoint_as_extended [X, Y, Z, T] = [X', Y', Z', T'] ∧
      RepExt P X' Y' Z' T' := by
  rw [AlgCurve.CompletedPoint_as_extended_sh_ok]
  simp only [AlgCurve.CompletedPoint_as_extended_sh, zmodOps_mul]
  exact ⟨_, _, _, _, rfl, hP.as_extended⟩

/-- `CompletedPoint::as_projective`. -/
theorem CompletedPoint_as_projective_spec {P : Ed} {X Y Z T : Fp} (hP : RepCompleted P X Y Z T) :
    ∃ X' Y' Z', AProg.run zmodOps AlgCurve.CompletedPoint_as_projective [X, Y, Z, T] = [X', Y', Z'] ∧
      RepProj P X' Y' Z' := by
  rw [AlgCurve.CompletedPoint_as_projective_sh_ok]
  simp only [AlgCurve.CompletedPoint_as_projective_sh, zmodOps_mul]
  exact ⟨_, _, _, rfl, hP.as_projective⟩

/-- `ProjectivePoint::as_extended`. -/
theorem ProjectivePoint_as_extended_spec {P : Ed} {X Y Z : Fp} (hP : RepProj P X Y Z) :
    ∃ X' Y' Z' T', AProg.run zmodOps AlgCurve.ProjectivePoint_as_extended [X, Y, Z] = [X', Y', Z', T'] ∧
      RepExt P X' Y' Z' T' := by
  rw [AlgCurve.ProjectivePoint_as_extended_sh_ok]
  simp only [AlgCurve.ProjectivePoint_as_extended_sh, zmodOps_mul, zmodOps_square]
  refine ⟨_, _, _, _, rfl, ?_⟩
  have h := hP.as_extended
  exact h.of_eq (by ring) (by ring) (by ring) (by ring)

/-- `EdwardsPoint::as_projective` (drops `T`). -/
theorem as_projective_spec {P : Ed} {X Y Z T : Fp} (hP : RepExt P X Y Z T) :
    ∃ X' Y' Z', AProg.run zmodOps AlgEdwards.as_projective [X, Y, Z, T] = [X', Y', Z'] ∧
      RepProj P X' Y' Z' := by
  rw [AlgEdwards.as_projective_sh_ok]
  exact ⟨_, _, _, rfl, hP.toProj⟩

/-- `EdwardsPoint::as_projective_niels`. -/
theorem as_projective_niels_spec {P : Ed} {X Y Z T : Fp} (hP : RepExt P X Y Z T) :
    ∃ Yp Ym Z' T2d, AProg.run zmodOps AlgEdwards.as_projective_niels [X, Y, Z, T] = [Yp, Ym, Z', T2d] ∧
      RepPNiels P Yp Ym Z' T2d := by
  rw [AlgEdwards.as_projective_niels_sh_ok]
  simp only [AlgEdwards.as_projective_niels_sh, zmodOps_add, zmodOps_sub, zmodOps_mul, const_EDWARDS_D2]
  exact ⟨_, _, _, _, rfl, hP.toPNiels⟩

/-! ## Negation, identities, conditional selection -/

/-- `-&EdwardsPoint`. -/
theorem neg_spec {P : Ed} {X Y Z T : Fp} (hP : RepExt P X Y Z T) :
    ∃ X' Y' Z' T', AProg.run zmodOps AlgEdwards.neg [X, Y, Z, T] = [X', Y', Z', T'] ∧
      RepExt (-P) X' Y' Z' T' := by
  rw [AlgEdwards.neg_sh_ok]
  simp only [AlgEdwards.neg_sh, zmodOps_neg]
  exact ⟨_, _, _, _, rfl, hP.neg⟩

/-- `-&ProjectiveNielsPoint` (swap `Y+X`/`Y−X`, negate `T2d`). -/
theorem ProjectiveNielsPoint_neg_spec {P : Ed} {Yp Ym Z T2d : Fp} (hP : RepPNiels P Yp Ym Z T2d) :
    ∃ Yp' Ym' Z' T2d', AProg.run zmodOps AlgCurve.ProjectiveNielsPoint_neg [Yp, Ym, Z, T2d]
      = [Yp', Ym', Z', T2d'] ∧ RepPNiels (-P) Yp' Ym' Z' T2d' := by
  obtain ⟨X, Y, T, hP, rfl, rfl, rfl⟩ := hP
  rw [AlgCurve.ProjectiveNielsPoint_neg_sh_ok]
  simp only [AlgCurve.ProjectiveNielsPoint_neg_sh, zmodOps_neg]
  exact ⟨_, _, _, _, rfl, -X, Y, -T, hP.neg, by ring, by ring, by ring⟩

/-- `-&AffineNielsPoint`. -/
theorem AffineNielsPoint_neg_spec {P : Ed} {yp ym xy2d : Fp} (hP : RepANiels P yp ym xy2d) :
    ∃ yp' ym' xy2d', AProg.run zmodOps AlgCurve.AffineNielsPoint_neg [yp, ym, xy2d] = [yp', ym', xy2d'] ∧
      RepANiels (-P) yp' ym' xy2d' := by
  obtain ⟨rfl, rfl, rfl⟩ := hP
  rw [AlgCurve.AffineNielsPoint_neg_sh_ok]
  simp only [AlgCurve.AffineNielsPoint_neg_sh, zmodOps_neg]
  refine ⟨_, _, _, rfl, ?_, ?_, ?_⟩ <;> simp only [EdPoint.neg_x, EdPoint.neg_y] <;> ring

/-- `EdwardsPoint::identity()` represents `0`. -/
theorem identity_spec :
    ∃ X Y Z T, AProg.run zmodOps AlgEdwards.identity [] = [X, Y, Z, T] ∧ RepExt (0 : Ed) X Y Z T := by
  rw [AlgEdwards.identity_sh_ok]
  simp only [AlgEdwards.identity_sh, const_ZERO, const_ONE]
  exact ⟨_, _, _, _, rfl, repExt_zero⟩

/-- `ProjectivePoint::identity()` represents `0`. -/
theorem ProjectivePoint_identity_spec :
    ∃ X Y Z, AProg.run zmodOps AlgCurve.ProjectivePoint_identity [] = [X, Y, Z] ∧
      RepProj (0 : Ed) X Y Z := by
  rw [AlgCurve.ProjectivePoint_identity_sh_ok]
  simp only [AlgCurve.ProjectivePoint_identity_sh, const_ZERO, const_ONE]
  exact ⟨_, _, _, rfl, (repExt_zero (c := edParams)).toProj⟩

/-- `ProjectiveNielsPoint::identity()` represents `0`. -/
theorem ProjectiveNielsPoint_identity_spec :
    ∃ Yp Ym Z T2d, AProg.run zmodOps AlgCurve.ProjectiveNielsPoint_identity [] = [Yp, Ym, Z, T2d] ∧
      RepPNiels (0 : Ed) Yp Ym Z T2d := by
  rw [AlgCurve.ProjectiveNielsPoint_identity_sh_ok]
  simp only [AlgCurve.ProjectiveNielsPoint_identity_sh, const_ZERO, const_ONE]
  exact ⟨_, _, _, _, rfl, 0, 1, 0, repExt_zero, by ring, by ring, by ring⟩

/-- `AffineNielsPoint::identity()` represents `0`. -/
theorem AffineNielsPoint_identity_spec :
    ∃ yp ym xy2d, AProg.run zmodOps AlgCurve.AffineNielsPoint_identity [] = [yp, ym, xy2d] ∧
      RepANiels (0 : Ed) yp ym xy2d := by
  rw [AlgCurve.AffineNielsPoint_identity_sh_ok]
  simp only [AlgCurve.AffineNielsPoint_identity_sh, const_ZERO, const_ONE]
  refine ⟨_, _, _, rfl, ?_, ?_, ?_⟩ <;> simp only [EdPoint.zero_x, EdPoint.zero_y] <;> ring

/-- `EdwardsPoint::conditional_select(a, b, choice)`: `a` if `choice = 0`, else `b`. -/
theorem conditional_select_spec {P Q : Ed} {X1 Y1 Z1 T1 X2 Y2 Z2 T2 : Fp} (c : Fp)
    (hP : RepExt P X1 Y1 Z1 T1) (hQ : RepExt Q X2 Y2 Z2 T2) :
    ∃ X Y Z T, AProg.run zmodOps AlgEdwards.conditional_select [X1, Y1, Z1, T1, X2, Y2, Z2, T2, c]
      = [X, Y, Z, T] ∧ RepExt (if c = 0 then P else Q) X Y Z T := by
  rw [AlgEdwards.conditional_select_sh_ok]
  simp only [AlgEdwards.conditional_select_sh, zmodOps_csel]
  refine ⟨_, _, _, _, rfl, ?_⟩
  by_cases h : c = 0
  · simp only [if_pos h]; exact hP
  · simp only [if_neg h]; exact hQ

/-- `ProjectiveNielsPoint::conditional_select`. -/
theorem ProjectiveNielsPoint_conditional_select_spec {P Q : Ed} {a0 a1 a2 a3 b0 b1 b2 b3 : Fp} (c : Fp)
    (hP : RepPNiels P a0 a1 a2 a3) (hQ : RepPNiels Q b0 b1 b2 b3) :
    ∃ Yp Ym Z T2d, AProg.run zmodOps AlgCurve.ProjectiveNielsPoint_conditional_select
      [a0, a1, a2, a3, b0, b1, b2, b3, c] = [Yp, Ym, Z, T2d] ∧
      RepPNiels (if c = 0 then P else Q) Yp Ym Z T2d := by
  rw [AlgCurve.ProjectiveNielsPoint_conditional_select_sh_ok]
  simp only [AlgCurve.ProjectiveNielsPoint_conditional_select_sh, zmodOps_csel]
  refine ⟨_, _, _, _, rfl, ?_⟩
  by_cases h : c = 0
  · simp only [if_pos h]; exact hP
  · simp only [if_neg h]; exact hQ

/-- `ProjectiveNielsPoint::conditional_assign`. -/
theorem ProjectiveNielsPoint_conditional_assign_spec {P Q : Ed} {a0 a1 a2 a3 b0 b1 b2 b3 : Fp} (c : Fp)
    (hP : RepPNiels P a0 a1 a2 a3) (hQ : RepPNiels Q b0 b1 b2 b3) :
    ∃ Yp Ym Z T2d, AProg.run zmodOps AlgCurve.ProjectiveNielsPoint_conditional_assign
      [a0, a1, a2, a3, b0, b1, b2, b3, c] = [Yp, Ym, Z, T2d] ∧
      RepPNiels (if c = 0 then P else Q) Yp Ym Z T2d := by
  rw [AlgCurve.ProjectiveNielsPoint_conditional_assign_sh_ok]
  simp only [AlgCurve.ProjectiveNielsPoint_conditional_assign_sh, zmodOps_csel]
  refine ⟨_, _, _, _, rfl, ?_⟩
  by_cases h : c = 0
  · simp only [if_pos h]; exact hP
  · simp only [if_neg h]; exact hQ

/-- `AffineNielsPoint::conditional_select`. -/
theorem AffineNielsPoint_conditional_select_spec {P Q : Ed} {a0 a1 a2 b0 b1 b2 : Fp} (c : Fp)
    (hP : RepANiels P a0 a1 a2) (hQ : RepANiels Q b0 b1 b2) :
    ∃ yp ym xy2d, AProg.run zmodOps AlgCurve.AffineNielsPoint_conditional_select
      [a0, a1, a2, b0, b1, b2, c] = [yp, ym, xy2d] ∧
      RepANiels (if c = 0 then P else Q) yp ym xy2d := by
  rw [AlgCurve.AffineNielsPoint_conditional_select_sh_ok]
  simp only [AlgCurve.AffineNielsPoint_conditional_select_sh, zmodOps_csel]
  refine ⟨_, _, _, rfl, ?_⟩
  by_cases h : c = 0
  · simp only [if_pos h]; exact hP
  · simp only [if_neg h]; exact hQ

/-- `AffineNielsPoint::conditional_assign`. -/
theorem AffineNielsPoint_conditional_assign_spec {P Q : Ed} {a0 a1 a2 b0 b1 b2 : Fp} (c : Fp)
    (hP : RepANiels P a0 a1 a2) (hQ : RepANiels Q b0 b1 b2) :
    ∃ yp ym xy2d, AProg.run zmodOps AlgCurve.AffineNielsPoint_conditional_assign
      [a0, a1, a2, b0, b1, b2, c] = [yp, ym, xy2d] ∧
      RepANiels (if c = 0 then P else Q) yp ym xy2d := by
  rw [AlgCurve.AffineNielsPoint_conditional_assign_sh_ok]
  simp only [AlgCurve.AffineNielsPoint_conditional_assign_sh, zmodOps_csel]
  refine ⟨_, _, _, rfl, ?_⟩
  by_cases h : c = 0
  · simp only [if_pos h]; exact hP
  · simp only [if_neg h]; exact hQ

/-! ## The composed `EdwardsPoint` operations preserve the validity invariant `RepExt` -/

/-- `EdwardsPoint::double` computes `2 • P`; the output is again a valid extended point. -/
theorem double_spec {P : Ed} {X Y Z T : Fp} (hP : RepExt P X Y Z T) :
    ∃ X' Y' Z' T', AProg.run zmodOps AlgEdwards.double [X, Y, Z, T] = [X', Y', Z', T'] ∧
      RepExt (2 • P) X' Y' Z' T' := by
  rw [AlgEdwards.double_sh_ok]
  simp only [AlgEdwards.double_sh, zmodOps_add, zmodOps_sub, zmodOps_mul, zmodOps_square,
    zmodOps_square2]
  refine ⟨_, _, _, _, rfl, ?_⟩
  have h := (double_projective_nsmul hP.toProj).as_extended
  exact h.of_eq (by ring) (by ring) (by ring) (by ring)

/-- `&EdwardsPoint + &EdwardsPoint` computes `P + Q`; the output is again a valid extended point. -/
theorem add_spec {P Q : Ed} {X1 Y1 Z1 T1 X2 Y2 Z2 T2 : Fp}
    (hP : RepExt P X1 Y1 Z1 T1) (hQ : RepExt Q X2 Y2 Z2 T2) :
    ∃ X Y Z T, AProg.run zmodOps AlgEdwards.add [X1, Y1, Z1, T1, X2, Y2, Z2, T2] = [X, Y, Z, T] ∧
      RepExt (P + Q) X Y Z T := by
  rw [AlgEdwards.add_sh_ok]
  simp only [AlgEdwards.add_sh, zmodOps_add, zmodOps_sub, zmodOps_mul, const_EDWARDS_D2]
  refine ⟨_, _, _, _, rfl, ?_⟩
  have h := (add_projectiveNiels hP hQ).as_extended
  simp only [edParams_d] at h
  exact h.of_eq (by ring) (by ring) (by ring) (by ring)

/-- `&EdwardsPoint - &EdwardsPoint` computes `P - Q`; the output is again a valid extended point. -/
theorem sub_spec {P Q : Ed} {X1 Y1 Z1 T1 X2 Y2 Z2 T2 : Fp}
    (hP : RepExt P X1 Y1 Z1 T1) (hQ : RepExt Q X2 Y2 Z2 T2) :
    ∃ X Y Z T, AProg.run zmodOps AlgEdwards.sub [X1, Y1, Z1, T1, X2, Y2, Z2, T2] = [X, Y, Z, T] ∧
      RepExt (P - Q) X Y Z T := by
  rw [AlgEdwards.sub_sh_ok]
  simp only [AlgEdwards.sub_sh, zmodOps_add, zmodOps_sub, zmodOps_mul, const_EDWARDS_D2]
  refine ⟨_, _, _, _, rfl, ?_⟩
  have h := (sub_projectiveNiels hP hQ).as_extended
  simp only [edParams_d] at h
  exact h.of_eq (by ring) (by ring) (by ring) (by ring)

/-! ## Equality and validity tests -/

/-- `EdwardsPoint::ct_eq` decides equality of the represented points. -/
theorem ct_eq_spec {P Q : Ed} {X1 Y1 Z1 T1 X2 Y2 Z2 T2 : Fp}
    (hP : RepExt P X1 Y1 Z1 T1) (hQ : RepExt Q X2 Y2 Z2 T2) :
    AProg.run zmodOps AlgEdwards.ct_eq [X1, Y1, Z1, T1, X2, Y2, Z2, T2] = [c2f (P = Q)] := by
  rw [AlgEdwards.ct_eq_sh_ok]
  simp only [AlgEdwards.ct_eq_sh, zmodOps_mul, zmodOps_ctEq, zmodOps_cand, c2f_ne_zero_iff]
  refine congrArg (fun a => [a]) (c2f_congr ?_)
  rw [RepProj.eq_iff hP.toProj hQ.toProj]

/-- `EdwardsPoint::is_valid` returns `1` on every valid extended point. -/
theorem is_valid_spec {P : Ed} {X Y Z T : Fp} (hP : RepExt P X Y Z T) :
    AProg.run zmodOps AlgEdwards.is_valid [X, Y, Z, T] = [1] := by
  rw [AlgEdwards.is_valid_sh_ok]
  simp only [AlgEdwards.is_valid_sh, zmodOps_mul, zmodOps_ctEq, zmodOps_cand, zmodOps_square,
    zmodOps_add, zmodOps_sub, const_EDWARDS_D, c2f_ne_zero_iff]
  refine congrArg (fun a => [a]) (c2f_true ⟨hP.toProj.curve_eq, hP.2.2.2⟩)

/-- Converse: when `Z ≠ 0`, `is_valid = 1` only for quadruples representing a curve point. -/
theorem is_valid_iff {X Y Z T : Fp} (hZ : Z ≠ 0) :
    AProg.run zmodOps AlgEdwards.is_valid [X, Y, Z, T] = [1] ↔ ∃ P : Ed, RepExt P X Y Z T := by
  constructor
  · rw [AlgEdwards.is_valid_sh_ok]
    simp only [AlgEdwards.is_valid_sh, zmodOps_mul, zmodOps_ctEq, zmodOps_cand, zmodOps_square,
      zmodOps_add, zmodOps_sub, const_EDWARDS_D, c2f_ne_zero_iff]
    intro h
    have h1 := (c2f_eq_one_iff.1 (List.head_eq_of_cons_eq h))
    obtain ⟨P, hP⟩ := exists_repProj hZ h1.1
    exact ⟨P, hP.1, hP.2.1, hP.2.2, h1.2⟩
  · rintro ⟨P, hP⟩; exact is_valid_spec hP

/-- `ProjectivePoint::is_valid` returns `1` on every represented point. -/
theorem ProjectivePoint_is_valid_spec {P : Ed} {X Y Z : Fp} (hP : RepProj P X Y Z) :
    AProg.run zmodOps AlgCurve.ProjectivePoint_is_valid [X, Y, Z] = [1] := by
  rw [AlgCurve.ProjectivePoint_is_valid_sh_ok]
  simp only [AlgCurve.ProjectivePoint_is_valid_sh, zmodOps_mul, zmodOps_ctEq, zmodOps_square,
    zmodOps_add, zmodOps_sub, const_EDWARDS_D]
  refine congrArg (fun a => [a]) (c2f_true hP.curve_eq)

/-! ### The hypotheses are satisfiable -/

/-- `(0 : 1 : 1 : 0)` is a valid extended point, so none of the theorems above is vacuous. -/
example : RepExt (0 : Ed) 0 1 1 0 := repExt_zero

end Dalek.Props.C03

import Dalek.Proofs.VecEdwards
import Dalek.Gen.AlgAvx2EdwardsSh
import Dalek.Gen.AlgIfmaEdwardsSh
/-!
# C03 — the PARALLEL (4-lane vector) point formulas compute the group law (property theorems)

Statements are about the AlgIR programs `Dalek.Gen.AlgAvx2Edwards.*` / `Dalek.Gen.AlgIfmaEdwards.*`
REGENERATED from `curve25519-dalek/src/backend/vector/avx2/edwards.rs` and
`curve25519-dalek/src/backend/vector/ifma/edwards.rs` on every run by LANE SCALARISATION (a vector value
`FieldElement2625x4` / `F51x4…` = four field variables, the lanes A, B, C, D; shuffles/blends are
renamings of lanes; the limb-level behaviour of the vector field arithmetic is covered by
`Dalek.Gen.Avx2Field` / `Dalek.Gen.IfmaField`, property C01/C05).  The programs are interpreted in the
field `Fp = ZMod (2^255-19)` by `zmodOpsV`: `zmodOps` with the constant table extended by the three `u32`
lane multipliers `121666`, `243330`, `243332` (`Proofs.avx2_constNames_eq` / `Proofs.ifma_constNames_eq`
tie the table layout to the generated code, `Proofs.constV_*` give the values).

Representation predicates (`Ed` = the group of the Ed25519 curve):
* vector `ExtendedPoint` with lanes `(A,B,C,D) = (X,Y,Z,T)`: `RepExt P X Y Z T`, the SAME predicate as
  for the serial `EdwardsPoint` (`Z ≠ 0`, `x = X/Z`, `y = Y/Z`, `XY = ZT`);
* vector `CachedPoint` with lanes `(a,b,c,e)`: `RepCached Q a b c e`, i.e.
  `(a,b,c,e) = (121666·(Y−X), 121666·(Y+X), 2·121666·Z, −2·121665·T)` for an extended representative
  `(X:Y:Z:T)` of `Q`.
Each theorem: inputs representing points ⟹ the outputs represent the result of the group operation.
-/
-- the simp sets below are FIXED lemma sets shared by both backends (robust against harmless reshaping of
-- the generated code); not every lemma is needed by every item
set_option linter.unusedSimpArgs false

namespace Dalek.Props.C03.Vector

open Dalek.IR Dalek.Proofs Dalek.Gen
open Dalek.Edwards
open Dalek.Bridge (Ed edParams edParams_d)

/-! ## The AVX2 backend (`backend/vector/avx2/edwards.rs`) -/

namespace Avx2

/-- `ExtendedPoint::from(EdwardsPoint)`: the lanes `(A,B,C,D)` are `(X,Y,Z,T)`; the same point. -/
theorem ExtendedPoint_from_EdwardsPoint_spec {P : Ed} {X Y Z T : Fp} (hP : RepExt P X Y Z T) :
    ∃ A B C D, AProg.run zmodOpsV AlgAvx2Edwards.ExtendedPoint_from_EdwardsPoint [X, Y, Z, T] = [A, B, C, D] ∧
      RepExt P A B C D := by
  rw [AlgAvx2Edwards.ExtendedPoint_from_EdwardsPoint_sh_ok]
  exact ⟨_, _, _, _, rfl, hP⟩

/-- `EdwardsPoint::from(ExtendedPoint)`: `(X,Y,Z,T)` are the lanes `(A,B,C,D)`; the same point. -/
theorem EdwardsPoint_from_ExtendedPoint_spec {P : Ed} {A B C D : Fp} (hP : RepExt P A B C D) :
    ∃ X Y Z T, AProg.run zmodOpsV AlgAvx2Edwards.EdwardsPoint_from_ExtendedPoint [A, B, C, D] = [X, Y, Z, T] ∧
      RepExt P X Y Z T := by
  rw [AlgAvx2Edwards.EdwardsPoint_from_ExtendedPoint_sh_ok]
  exact ⟨_, _, _, _, rfl, hP⟩

/-- `CachedPoint::from(ExtendedPoint)` produces a valid cached point for the same group element. -/
theorem CachedPoint_from_ExtendedPoint_spec {P : Ed} {X Y Z T : Fp} (hP : RepExt P X Y Z T) :
    ∃ a b c e, AProg.run zmodOpsV AlgAvx2Edwards.CachedPoint_from_ExtendedPoint [X, Y, Z, T] = [a, b, c, e] ∧
      RepCached P a b c e := by
  rw [AlgAvx2Edwards.CachedPoint_from_ExtendedPoint_sh_ok]
  simp only [AlgAvx2Edwards.CachedPoint_from_ExtendedPoint_sh, zmodOpsV_add, zmodOpsV_sub, zmodOpsV_mul,
    zmodOpsV_neg, constV_121666, constV_243330, constV_243332]
  refine ⟨_, _, _, _, rfl, ?_⟩
  exact hP.toCached.of_eq (by ring) (by ring) (by ring) (by ring)

/-- `ExtendedPoint::double` computes `2 • P`; the output is again a valid extended point. -/
theorem ExtendedPoint_double_spec {P : Ed} {X Y Z T : Fp} (hP : RepExt P X Y Z T) :
    ∃ X' Y' Z' T', AProg.run zmodOpsV AlgAvx2Edwards.ExtendedPoint_double [X, Y, Z, T] = [X', Y', Z', T'] ∧
      RepExt (2 • P) X' Y' Z' T' := by
  rw [AlgAvx2Edwards.ExtendedPoint_double_sh_ok]
  simp only [AlgAvx2Edwards.ExtendedPoint_double_sh, zmodOpsV_add, zmodOpsV_sub, zmodOpsV_mul, zmodOpsV_neg,
    zmodOpsV_square, constV_ZERO]
  refine ⟨_, _, _, _, rfl, ?_⟩
  exact (double_vec hP).of_eq (by ring) (by ring) (by ring) (by ring)

/-- One iteration of the loop of `ExtendedPoint::mul_by_pow_2` computes `2 • P`. -/
theorem ExtendedPoint_mul_by_pow_2_body_spec {P : Ed} {X Y Z T : Fp} (hP : RepExt P X Y Z T) :
    ∃ X' Y' Z' T', AProg.run zmodOpsV AlgAvx2Edwards.ExtendedPoint_mul_by_pow_2_body [X, Y, Z, T]
      = [X', Y', Z', T'] ∧ RepExt (2 • P) X' Y' Z' T' := by
  rw [AlgAvx2Edwards.ExtendedPoint_mul_by_pow_2_body_sh_ok]
  simp only [AlgAvx2Edwards.ExtendedPoint_mul_by_pow_2_body_sh, zmodOpsV_add, zmodOpsV_sub, zmodOpsV_mul,
    zmodOpsV_neg, zmodOpsV_square, constV_ZERO]
  refine ⟨_, _, _, _, rfl, ?_⟩
  exact (double_vec hP).of_eq (by ring) (by ring) (by ring) (by ring)

/-- `ExtendedPoint::mul_by_pow_2(k)` = `k` iterations of its loop body (the trip count `k` is not part
of the translated item; the iteration is `Nat.iterate` of the run of the body): computes `2 ^ k • P`. -/
theorem ExtendedPoint_mul_by_pow_2_spec (k : Nat) {P : Ed} {X Y Z T : Fp} (hP : RepExt P X Y Z T) :
    ∃ X' Y' Z' T', (AProg.run zmodOpsV AlgAvx2Edwards.ExtendedPoint_mul_by_pow_2_body)^[k] [X, Y, Z, T]
      = [X', Y', Z', T'] ∧ RepExt (2 ^ k • P) X' Y' Z' T' :=
  iterate_double_rep (fun h => ExtendedPoint_mul_by_pow_2_body_spec h) k hP

/-- `&ExtendedPoint + &CachedPoint` computes `P + Q`; the output is again a valid extended point. -/
theorem ExtendedPoint_add_CachedPoint_spec {P Q : Ed} {X1 Y1 Z1 T1 a b c e : Fp}
    (hP : RepExt P X1 Y1 Z1 T1) (hQ : RepCached Q a b c e) :
    ∃ X Y Z T, AProg.run zmodOpsV AlgAvx2Edwards.ExtendedPoint_add_CachedPoint [X1, Y1, Z1, T1, a, b, c, e]
      = [X, Y, Z, T] ∧ RepExt (P + Q) X Y Z T := by
  rw [AlgAvx2Edwards.ExtendedPoint_add_CachedPoint_sh_ok]
  simp only [AlgAvx2Edwards.ExtendedPoint_add_CachedPoint_sh, zmodOpsV_add, zmodOpsV_sub, zmodOpsV_mul,
    zmodOpsV_neg]
  refine ⟨_, _, _, _, rfl, ?_⟩
  exact (add_cached hP hQ).of_eq (by ring) (by ring) (by ring) (by ring)

/-- `&ExtendedPoint - &CachedPoint` computes `P - Q`; the output is again a valid extended point. -/
theorem ExtendedPoint_sub_CachedPoint_spec {P Q : Ed} {X1 Y1 Z1 T1 a b c e : Fp}
    (hP : RepExt P X1 Y1 Z1 T1) (hQ : RepCached Q a b c e) :
    ∃ X Y Z T, AProg.run zmodOpsV AlgAvx2Edwards.ExtendedPoint_sub_CachedPoint [X1, Y1, Z1, T1, a, b, c, e]
      = [X, Y, Z, T] ∧ RepExt (P - Q) X Y Z T := by
  rw [AlgAvx2Edwards.ExtendedPoint_sub_CachedPoint_sh_ok]
  simp only [AlgAvx2Edwards.ExtendedPoint_sub_CachedPoint_sh, zmodOpsV_add, zmodOpsV_sub, zmodOpsV_mul,
    zmodOpsV_neg]
  refine ⟨_, _, _, _, rfl, ?_⟩
  exact (sub_cached hP hQ).of_eq (by ring) (by ring) (by ring) (by ring)

/-- `-&CachedPoint` (swap lanes A and B, negate lane D) is a valid cached point for `-Q`. -/
theorem CachedPoint_neg_spec {Q : Ed} {a b c e : Fp} (hQ : RepCached Q a b c e) :
    ∃ a' b' c' e', AProg.run zmodOpsV AlgAvx2Edwards.CachedPoint_neg [a, b, c, e] = [a', b', c', e'] ∧
      RepCached (-Q) a' b' c' e' := by
  rw [AlgAvx2Edwards.CachedPoint_neg_sh_ok]
  simp only [AlgAvx2Edwards.CachedPoint_neg_sh, zmodOpsV_neg]
  exact ⟨_, _, _, _, rfl, hQ.neg⟩

/-- `ExtendedPoint::identity()` (the constant `EXTENDEDPOINT_IDENTITY`) represents `0`. -/
theorem ExtendedPoint_identity_spec :
    ∃ X Y Z T, AProg.run zmodOpsV AlgAvx2Edwards.ExtendedPoint_identity [] = [X, Y, Z, T] ∧
      RepExt (0 : Ed) X Y Z T := by
  rw [AlgAvx2Edwards.ExtendedPoint_identity_sh_ok]
  simp only [AlgAvx2Edwards.ExtendedPoint_identity_sh, constV_ZERO, constV_ONE]
  exact ⟨_, _, _, _, rfl, repExt_zero⟩

/-- `CachedPoint::identity()` (the constant `CACHEDPOINT_IDENTITY`) is a valid cached point for `0`. -/
theorem CachedPoint_identity_spec :
    ∃ a b c e, AProg.run zmodOpsV AlgAvx2Edwards.CachedPoint_identity [] = [a, b, c, e] ∧
      RepCached (0 : Ed) a b c e := by
  rw [AlgAvx2Edwards.CachedPoint_identity_sh_ok]
  simp only [AlgAvx2Edwards.CachedPoint_identity_sh, constV_ZERO, constV_121666, constV_243332]
  exact ⟨_, _, _, _, rfl, repCached_zero⟩

/-- `ExtendedPoint::conditional_select(a, b, choice)`: the first operand if `choice = 0`, else the second. -/
theorem ExtendedPoint_conditional_select_spec {P Q : Ed} {X1 Y1 Z1 T1 X2 Y2 Z2 T2 : Fp} (c : Fp)
    (hP : RepExt P X1 Y1 Z1 T1) (hQ : RepExt Q X2 Y2 Z2 T2) :
    ∃ X Y Z T, AProg.run zmodOpsV AlgAvx2Edwards.ExtendedPoint_conditional_select
      [X1, Y1, Z1, T1, X2, Y2, Z2, T2, c] = [X, Y, Z, T] ∧ RepExt (if c = 0 then P else Q) X Y Z T := by
  rw [AlgAvx2Edwards.ExtendedPoint_conditional_select_sh_ok]
  simp only [AlgAvx2Edwards.ExtendedPoint_conditional_select_sh, zmodOpsV_csel]
  refine ⟨_, _, _, _, rfl, ?_⟩
  by_cases h : c = 0
  · simp only [if_pos h]; exact hP
  · simp only [if_neg h]; exact hQ

/-- `ExtendedPoint::conditional_assign(other, choice)`: the first operand if `choice = 0`, else the second. -/
theorem ExtendedPoint_conditional_assign_spec {P Q : Ed} {X1 Y1 Z1 T1 X2 Y2 Z2 T2 : Fp} (c : Fp)
    (hP : RepExt P X1 Y1 Z1 T1) (hQ : RepExt Q X2 Y2 Z2 T2) :
    ∃ X Y Z T, AProg.run zmodOpsV AlgAvx2Edwards.ExtendedPoint_conditional_assign
      [X1, Y1, Z1, T1, X2, Y2, Z2, T2, c] = [X, Y, Z, T] ∧ RepExt (if c = 0 then P else Q) X Y Z T := by
  rw [AlgAvx2Edwards.ExtendedPoint_conditional_assign_sh_ok]
  simp only [AlgAvx2Edwards.ExtendedPoint_conditional_assign_sh, zmodOpsV_csel]
  refine ⟨_, _, _, _, rfl, ?_⟩
  by_cases h : c = 0
  · simp only [if_pos h]; exact hP
  · simp only [if_neg h]; exact hQ

/-- `CachedPoint::conditional_select(a, b, choice)`: the first operand if `choice = 0`, else the second. -/
theorem CachedPoint_conditional_select_spec {P Q : Ed} {a0 a1 a2 a3 b0 b1 b2 b3 : Fp} (c : Fp)
    (hP : RepCached P a0 a1 a2 a3) (hQ : RepCached Q b0 b1 b2 b3) :
    ∃ a b c' e, AProg.run zmodOpsV AlgAvx2Edwards.CachedPoint_conditional_select
      [a0, a1, a2, a3, b0, b1, b2, b3, c] = [a, b, c', e] ∧
      RepCached (if c = 0 then P else Q) a b c' e := by
  rw [AlgAvx2Edwards.CachedPoint_conditional_select_sh_ok]
  simp only [AlgAvx2Edwards.CachedPoint_conditional_select_sh, zmodOpsV_csel]
  refine ⟨_, _, _, _, rfl, ?_⟩
  by_cases h : c = 0
  · simp only [if_pos h]; exact hP
  · simp only [if_neg h]; exact hQ

/-- `CachedPoint::conditional_assign(other, choice)`: the first operand if `choice = 0`, else the second. -/
theorem CachedPoint_conditional_assign_spec {P Q : Ed} {a0 a1 a2 a3 b0 b1 b2 b3 : Fp} (c : Fp)
    (hP : RepCached P a0 a1 a2 a3) (hQ : RepCached Q b0 b1 b2 b3) :
    ∃ a b c' e, AProg.run zmodOpsV AlgAvx2Edwards.CachedPoint_conditional_assign
      [a0, a1, a2, a3, b0, b1, b2, b3, c] = [a, b, c', e] ∧
      RepCached (if c = 0 then P else Q) a b c' e := by
  rw [AlgAvx2Edwards.CachedPoint_conditional_assign_sh_ok]
  simp only [AlgAvx2Edwards.CachedPoint_conditional_assign_sh, zmodOpsV_csel]
  refine ⟨_, _, _, _, rfl, ?_⟩
  by_cases h : c = 0
  · simp only [if_pos h]; exact hP
  · simp only [if_neg h]; exact hQ

/-- Round trip `EdwardsPoint → ExtendedPoint → CachedPoint`, then `&ExtendedPoint + &CachedPoint`:
for valid extended inputs the vector pipeline computes `P + Q` (the composition used by the vector
scalar-multiplication code). -/
theorem add_via_cached_spec {P Q : Ed} {X1 Y1 Z1 T1 X2 Y2 Z2 T2 : Fp}
    (hP : RepExt P X1 Y1 Z1 T1) (hQ : RepExt Q X2 Y2 Z2 T2) :
    ∃ X Y Z T, AProg.run zmodOpsV AlgAvx2Edwards.ExtendedPoint_add_CachedPoint
        ([X1, Y1, Z1, T1] ++ AProg.run zmodOpsV AlgAvx2Edwards.CachedPoint_from_ExtendedPoint [X2, Y2, Z2, T2])
      = [X, Y, Z, T] ∧ RepExt (P + Q) X Y Z T := by
  obtain ⟨a, b, c, e, hc, hQ'⟩ := CachedPoint_from_ExtendedPoint_spec hQ
  rw [hc]
  exact ExtendedPoint_add_CachedPoint_spec hP hQ'

/-- Same for subtraction. -/
theorem sub_via_cached_spec {P Q : Ed} {X1 Y1 Z1 T1 X2 Y2 Z2 T2 : Fp}
    (hP : RepExt P X1 Y1 Z1 T1) (hQ : RepExt Q X2 Y2 Z2 T2) :
    ∃ X Y Z T, AProg.run zmodOpsV AlgAvx2Edwards.ExtendedPoint_sub_CachedPoint
        ([X1, Y1, Z1, T1] ++ AProg.run zmodOpsV AlgAvx2Edwards.CachedPoint_from_ExtendedPoint [X2, Y2, Z2, T2])
      = [X, Y, Z, T] ∧ RepExt (P - Q) X Y Z T := by
  obtain ⟨a, b, c, e, hc, hQ'⟩ := CachedPoint_from_ExtendedPoint_spec hQ
  rw [hc]
  exact ExtendedPoint_sub_CachedPoint_spec hP hQ'

end Avx2

/-! ## The IFMA backend (`backend/vector/ifma/edwards.rs`) -/

namespace Ifma

/-- `ExtendedPoint::from(EdwardsPoint)`: the lanes `(A,B,C,D)` are `(X,Y,Z,T)`; the same point. -/
theorem ExtendedPoint_from_EdwardsPoint_spec {P : Ed} {X Y Z T : Fp} (hP : RepExt P X Y Z T) :
    ∃ A B C D, AProg.run zmodOpsV AlgIfmaEdwards.ExtendedPoint_from_EdwardsPoint [X, Y, Z, T] = [A, B, C, D] ∧
      RepExt P A B C D := by
  rw [AlgIfmaEdwards.ExtendedPoint_from_EdwardsPoint_sh_ok]
  exact ⟨_, _, _, _, rfl, hP⟩

/-- `EdwardsPoint::from(ExtendedPoint)`: `(X,Y,Z,T)` are the lanes `(A,B,C,D)`; the same point. -/
theorem EdwardsPoint_from_ExtendedPoint_spec {P : Ed} {A B C D : Fp} (hP : RepExt P A B C D) :
    ∃ X Y Z T, AProg.run zmodOpsV AlgIfmaEdwards.EdwardsPoint_from_ExtendedPoint [A, B, C, D] = [X, Y, Z, T] ∧
      RepExt P X Y Z T := by
  rw [AlgIfmaEdwards.EdwardsPoint_from_ExtendedPoint_sh_ok]
  exact ⟨_, _, _, _, rfl, hP⟩

/-- `CachedPoint::from(ExtendedPoint)` produces a valid cached point for the same group element. -/
theorem CachedPoint_from_ExtendedPoint_spec {P : Ed} {X Y Z T : Fp} (hP : RepExt P X Y Z T) :
    ∃ a b c e, AProg.run zmodOpsV AlgIfmaEdwards.CachedPoint_from_ExtendedPoint [X, Y, Z, T] = [a, b, c, e] ∧
      RepCached P a b c e := by
  rw [AlgIfmaEdwards.CachedPoint_from_ExtendedPoint_sh_ok]
  simp only [AlgIfmaEdwards.CachedPoint_from_ExtendedPoint_sh, zmodOpsV_add, zmodOpsV_sub, zmodOpsV_mul,
    zmodOpsV_neg, constV_121666, constV_243330, constV_243332]
  refine ⟨_, _, _, _, rfl, ?_⟩
  exact hP.toCached.of_eq (by ring) (by ring) (by ring) (by ring)

/-- `ExtendedPoint::double` computes `2 • P`; the output is again a valid extended point. -/
theorem ExtendedPoint_double_spec {P : Ed} {X Y Z T : Fp} (hP : RepExt P X Y Z T) :
    ∃ X' Y' Z' T', AProg.run zmodOpsV AlgIfmaEdwards.ExtendedPoint_double [X, Y, Z, T] = [X', Y', Z', T'] ∧
      RepExt (2 • P) X' Y' Z' T' := by
  rw [AlgIfmaEdwards.ExtendedPoint_double_sh_ok]
  simp only [AlgIfmaEdwards.ExtendedPoint_double_sh, zmodOpsV_add, zmodOpsV_sub, zmodOpsV_mul, zmodOpsV_neg,
    zmodOpsV_square, constV_ZERO]
  refine ⟨_, _, _, _, rfl, ?_⟩
  exact (double_vec hP).of_eq (by ring) (by ring) (by ring) (by ring)

/-- One iteration of the loop of `ExtendedPoint::mul_by_pow_2` computes `2 • P`. -/
theorem ExtendedPoint_mul_by_pow_2_body_spec {P : Ed} {X Y Z T : Fp} (hP : RepExt P X Y Z T) :
    ∃ X' Y' Z' T', AProg.run zmodOpsV AlgIfmaEdwards.ExtendedPoint_mul_by_pow_2_body [X, Y, Z, T]
      = [X', Y', Z', T'] ∧ RepExt (2 • P) X' Y' Z' T' := by
  rw [AlgIfmaEdwards.ExtendedPoint_mul_by_pow_2_body_sh_ok]
  simp only [AlgIfmaEdwards.ExtendedPoint_mul_by_pow_2_body_sh, zmodOpsV_add, zmodOpsV_sub, zmodOpsV_mul,
    zmodOpsV_neg, zmodOpsV_square, constV_ZERO]
  refine ⟨_, _, _, _, rfl, ?_⟩
  exact (double_vec hP).of_eq (by ring) (by ring) (by ring) (by ring)

/-- `ExtendedPoint::mul_by_pow_2(k)` = `k` iterations of its loop body (the trip count `k` is not part
of the translated item; the iteration is `Nat.iterate` of the run of the body): computes `2 ^ k • P`. -/
theorem ExtendedPoint_mul_by_pow_2_spec (k : Nat) {P : Ed} {X Y Z T : Fp} (hP : RepExt P X Y Z T) :
    ∃ X' Y' Z' T', (AProg.run zmodOpsV AlgIfmaEdwards.ExtendedPoint_mul_by_pow_2_body)^[k] [X, Y, Z, T]
      = [X', Y', Z', T'] ∧ RepExt (2 ^ k • P) X' Y' Z' T' :=
  iterate_double_rep (fun h => ExtendedPoint_mul_by_pow_2_body_spec h) k hP

/-- `&ExtendedPoint + &CachedPoint` computes `P + Q`; the output is again a valid extended point. -/
theorem ExtendedPoint_add_CachedPoint_spec {P Q : Ed} {X1 Y1 Z1 T1 a b c e : Fp}
    (hP : RepExt P X1 Y1 Z1 T1) (hQ : RepCached Q a b c e) :
    ∃ X Y Z T, AProg.run zmodOpsV AlgIfmaEdwards.ExtendedPoint_add_CachedPoint [X1, Y1, Z1, T1, a, b, c, e]
      = [X, Y, Z, T] ∧ RepExt (P + Q) X Y Z T := by
  rw [AlgIfmaEdwards.ExtendedPoint_add_CachedPoint_sh_ok]
  simp only [AlgIfmaEdwards.ExtendedPoint_add_CachedPoint_sh, zmodOpsV_add, zmodOpsV_sub, zmodOpsV_mul,
    zmodOpsV_neg]
  refine ⟨_, _, _, _, rfl, ?_⟩
  exact (add_cached hP hQ).of_eq (by ring) (by ring) (by ring) (by ring)

/-- `&ExtendedPoint - &CachedPoint` computes `P - Q`; the output is again a valid extended point. -/
theorem ExtendedPoint_sub_CachedPoint_spec {P Q : Ed} {X1 Y1 Z1 T1 a b c e : Fp}
    (hP : RepExt P X1 Y1 Z1 T1) (hQ : RepCached Q a b c e) :
    ∃ X Y Z T, AProg.run zmodOpsV AlgIfmaEdwards.ExtendedPoint_sub_CachedPoint [X1, Y1, Z1, T1, a, b, c, e]
      = [X, Y, Z, T] ∧ RepExt (P - Q) X Y Z T := by
  rw [AlgIfmaEdwards.ExtendedPoint_sub_CachedPoint_sh_ok]
  simp only [AlgIfmaEdwards.ExtendedPoint_sub_CachedPoint_sh, zmodOpsV_add, zmodOpsV_sub, zmodOpsV_mul,
    zmodOpsV_neg]
  refine ⟨_, _, _, _, rfl, ?_⟩
  exact (sub_cached hP hQ).of_eq (by ring) (by ring) (by ring) (by ring)

/-- `-&CachedPoint` (swap lanes A and B, negate lane D) is a valid cached point for `-Q`. -/
theorem CachedPoint_neg_spec {Q : Ed} {a b c e : Fp} (hQ : RepCached Q a b c e) :
    ∃ a' b' c' e', AProg.run zmodOpsV AlgIfmaEdwards.CachedPoint_neg [a, b, c, e] = [a', b', c', e'] ∧
      RepCached (-Q) a' b' c' e' := by
  rw [AlgIfmaEdwards.CachedPoint_neg_sh_ok]
  simp only [AlgIfmaEdwards.CachedPoint_neg_sh, zmodOpsV_neg]
  exact ⟨_, _, _, _, rfl, hQ.neg⟩

/-- `ExtendedPoint::identity()` (the constant `EXTENDEDPOINT_IDENTITY`) represents `0`. -/
theorem ExtendedPoint_identity_spec :
    ∃ X Y Z T, AProg.run zmodOpsV AlgIfmaEdwards.ExtendedPoint_identity [] = [X, Y, Z, T] ∧
      RepExt (0 : Ed) X Y Z T := by
  rw [AlgIfmaEdwards.ExtendedPoint_identity_sh_ok]
  simp only [AlgIfmaEdwards.ExtendedPoint_identity_sh, constV_ZERO, constV_ONE]
  exact ⟨_, _, _, _, rfl, repExt_zero⟩

/-- `CachedPoint::identity()` (the constant `CACHEDPOINT_IDENTITY`) is a valid cached point for `0`. -/
theorem CachedPoint_identity_spec :
    ∃ a b c e, AProg.run zmodOpsV AlgIfmaEdwards.CachedPoint_identity [] = [a, b, c, e] ∧
      RepCached (0 : Ed) a b c e := by
  rw [AlgIfmaEdwards.CachedPoint_identity_sh_ok]
  simp only [AlgIfmaEdwards.CachedPoint_identity_sh, constV_ZERO, constV_121666, constV_243332]
  exact ⟨_, _, _, _, rfl, repCached_zero⟩

/-- `CachedPoint::conditional_select(a, b, choice)`: the first operand if `choice = 0`, else the second. -/
theorem CachedPoint_conditional_select_spec {P Q : Ed} {a0 a1 a2 a3 b0 b1 b2 b3 : Fp} (c : Fp)
    (hP : RepCached P a0 a1 a2 a3) (hQ : RepCached Q b0 b1 b2 b3) :
    ∃ a b c' e, AProg.run zmodOpsV AlgIfmaEdwards.CachedPoint_conditional_select
      [a0, a1, a2, a3, b0, b1, b2, b3, c] = [a, b, c', e] ∧
      RepCached (if c = 0 then P else Q) a b c' e := by
  rw [AlgIfmaEdwards.CachedPoint_conditional_select_sh_ok]
  simp only [AlgIfmaEdwards.CachedPoint_conditional_select_sh, zmodOpsV_csel]
  refine ⟨_, _, _, _, rfl, ?_⟩
  by_cases h : c = 0
  · simp only [if_pos h]; exact hP
  · simp only [if_neg h]; exact hQ

/-- `CachedPoint::conditional_assign(other, choice)`: the first operand if `choice = 0`, else the second. -/
theorem CachedPoint_conditional_assign_spec {P Q : Ed} {a0 a1 a2 a3 b0 b1 b2 b3 : Fp} (c : Fp)
    (hP : RepCached P a0 a1 a2 a3) (hQ : RepCached Q b0 b1 b2 b3) :
    ∃ a b c' e, AProg.run zmodOpsV AlgIfmaEdwards.CachedPoint_conditional_assign
      [a0, a1, a2, a3, b0, b1, b2, b3, c] = [a, b, c', e] ∧
      RepCached (if c = 0 then P else Q) a b c' e := by
  rw [AlgIfmaEdwards.CachedPoint_conditional_assign_sh_ok]
  simp only [AlgIfmaEdwards.CachedPoint_conditional_assign_sh, zmodOpsV_csel]
  refine ⟨_, _, _, _, rfl, ?_⟩
  by_cases h : c = 0
  · simp only [if_pos h]; exact hP
  · simp only [if_neg h]; exact hQ

/-- Round trip `EdwardsPoint → ExtendedPoint → CachedPoint`, then `&ExtendedPoint + &CachedPoint`:
for valid extended inputs the vector pipeline computes `P + Q` (the composition used by the vector
scalar-multiplication code). -/
theorem add_via_cached_spec {P Q : Ed} {X1 Y1 Z1 T1 X2 Y2 Z2 T2 : Fp}
    (hP : RepExt P X1 Y1 Z1 T1) (hQ : RepExt Q X2 Y2 Z2 T2) :
    ∃ X Y Z T, AProg.run zmodOpsV AlgIfmaEdwards.ExtendedPoint_add_CachedPoint
        ([X1, Y1, Z1, T1] ++ AProg.run zmodOpsV AlgIfmaEdwards.CachedPoint_from_ExtendedPoint [X2, Y2, Z2, T2])
      = [X, Y, Z, T] ∧ RepExt (P + Q) X Y Z T := by
  obtain ⟨a, b, c, e, hc, hQ'⟩ := CachedPoint_from_ExtendedPoint_spec hQ
  rw [hc]
  exact ExtendedPoint_add_CachedPoint_spec hP hQ'

/-- Same for subtraction. -/
theorem sub_via_cached_spec {P Q : Ed} {X1 Y1 Z1 T1 X2 Y2 Z2 T2 : Fp}
    (hP : RepExt P X1 Y1 Z1 T1) (hQ : RepExt Q X2 Y2 Z2 T2) :
    ∃ X Y Z T, AProg.run zmodOpsV AlgIfmaEdwards.ExtendedPoint_sub_CachedPoint
        ([X1, Y1, Z1, T1] ++ AProg.run zmodOpsV AlgIfmaEdwards.CachedPoint_from_ExtendedPoint [X2, Y2, Z2, T2])
      = [X, Y, Z, T] ∧ RepExt (P - Q) X Y Z T := by
  obtain ⟨a, b, c, e, hc, hQ'⟩ := CachedPoint_from_ExtendedPoint_spec hQ
  rw [hc]
  exact ExtendedPoint_sub_CachedPoint_spec hP hQ'

end Ifma

/-! ### The hypotheses are satisfiable -/

/-- `(0 : 1 : 1 : 0)` is a valid vector `ExtendedPoint` and `(121666, 121666, 243332, 0)` a valid vector
`CachedPoint` (both for the identity), so none of the theorems above is vacuous. -/
example : RepExt (0 : Ed) 0 1 1 0 ∧ RepCached (0 : Ed) 121666 121666 243332 0 :=
  ⟨repExt_zero, repCached_zero⟩

/-- Every extended representative has a cached form (so `RepCached` is satisfiable for every point). -/
example (Q : Ed) : ∃ a b c e, RepCached Q a b c e :=
  ⟨_, _, _, _, (repExt_affine Q).toCached⟩

/-! ### Axiom audit -/

/-- info: 'Dalek.Props.C03.Vector.Avx2.ExtendedPoint_from_EdwardsPoint_spec' depends on axioms: [propext, Classical.choice, Quot.sound] -/
#guard_msgs (whitespace := lax) in #print axioms Avx2.ExtendedPoint_from_EdwardsPoint_spec

/-- info: 'Dalek.Props.C03.Vector.Avx2.EdwardsPoint_from_ExtendedPoint_spec' depends on axioms: [propext, Classical.choice, Quot.sound] -/
#guard_msgs (whitespace := lax) in #print axioms Avx2.EdwardsPoint_from_ExtendedPoint_spec

/-- info: 'Dalek.Props.C03.Vector.Avx2.CachedPoint_from_ExtendedPoint_spec' depends on axioms: [propext, Classical.choice, Quot.sound] -/
#guard_msgs (whitespace := lax) in #print axioms Avx2.CachedPoint_from_ExtendedPoint_spec

/-- info: 'Dalek.Props.C03.Vector.Avx2.ExtendedPoint_double_spec' depends on axioms: [propext, Classical.choice, Quot.sound] -/
#guard_msgs (whitespace := lax) in #print axioms Avx2.ExtendedPoint_double_spec

/-- info: 'Dalek.Props.C03.Vector.Avx2.ExtendedPoint_mul_by_pow_2_body_spec' depends on axioms: [propext, Classical.choice, Quot.sound] -/
#guard_msgs (whitespace := lax) in #print axioms Avx2.ExtendedPoint_mul_by_pow_2_body_spec

/-- info: 'Dalek.Props.C03.Vector.Avx2.ExtendedPoint_mul_by_pow_2_spec' depends on axioms: [propext, Classical.choice, Quot.sound] -/
#guard_msgs (whitespace := lax) in #print axioms Avx2.ExtendedPoint_mul_by_pow_2_spec

/-- info: 'Dalek.Props.C03.Vector.Avx2.ExtendedPoint_add_CachedPoint_spec' depends on axioms: [propext, Classical.choice, Quot.sound] -/
#guard_msgs (whitespace := lax) in #print axioms Avx2.ExtendedPoint_add_CachedPoint_spec

/-- info: 'Dalek.Props.C03.Vector.Avx2.ExtendedPoint_sub_CachedPoint_spec' depends on axioms: [propext, Classical.choice, Quot.sound] -/
#guard_msgs (whitespace := lax) in #print axioms Avx2.ExtendedPoint_sub_CachedPoint_spec

/-- info: 'Dalek.Props.C03.Vector.Avx2.CachedPoint_neg_spec' depends on axioms: [propext, Classical.choice, Quot.sound] -/
#guard_msgs (whitespace := lax) in #print axioms Avx2.CachedPoint_neg_spec

/-- info: 'Dalek.Props.C03.Vector.Avx2.ExtendedPoint_identity_spec' depends on axioms: [propext, Classical.choice, Quot.sound] -/
#guard_msgs (whitespace := lax) in #print axioms Avx2.ExtendedPoint_identity_spec

/-- info: 'Dalek.Props.C03.Vector.Avx2.CachedPoint_identity_spec' depends on axioms: [propext, Classical.choice, Quot.sound] -/
#guard_msgs (whitespace := lax) in #print axioms Avx2.CachedPoint_identity_spec

/-- info: 'Dalek.Props.C03.Vector.Avx2.CachedPoint_conditional_select_spec' depends on axioms: [propext, Classical.choice, Quot.sound] -/
#guard_msgs (whitespace := lax) in #print axioms Avx2.CachedPoint_conditional_select_spec

/-- info: 'Dalek.Props.C03.Vector.Avx2.CachedPoint_conditional_assign_spec' depends on axioms: [propext, Classical.choice, Quot.sound] -/
#guard_msgs (whitespace := lax) in #print axioms Avx2.CachedPoint_conditional_assign_spec

/-- info: 'Dalek.Props.C03.Vector.Avx2.add_via_cached_spec' depends on axioms: [propext, Classical.choice, Quot.sound] -/
#guard_msgs (whitespace := lax) in #print axioms Avx2.add_via_cached_spec

/-- info: 'Dalek.Props.C03.Vector.Avx2.sub_via_cached_spec' depends on axioms: [propext, Classical.choice, Quot.sound] -/
#guard_msgs (whitespace := lax) in #print axioms Avx2.sub_via_cached_spec

/-- info: 'Dalek.Props.C03.Vector.Avx2.ExtendedPoint_conditional_select_spec' depends on axioms: [propext, Classical.choice, Quot.sound] -/
#guard_msgs (whitespace := lax) in #print axioms Avx2.ExtendedPoint_conditional_select_spec

/-- info: 'Dalek.Props.C03.Vector.Avx2.ExtendedPoint_conditional_assign_spec' depends on axioms: [propext, Classical.choice, Quot.sound] -/
#guard_msgs (whitespace := lax) in #print axioms Avx2.ExtendedPoint_conditional_assign_spec

/-- info: 'Dalek.Props.C03.Vector.Ifma.ExtendedPoint_from_EdwardsPoint_spec' depends on axioms: [propext, Classical.choice, Quot.sound] -/
#guard_msgs (whitespace := lax) in #print axioms Ifma.ExtendedPoint_from_EdwardsPoint_spec

/-- info: 'Dalek.Props.C03.Vector.Ifma.EdwardsPoint_from_ExtendedPoint_spec' depends on axioms: [propext, Classical.choice, Quot.sound] -/
#guard_msgs (whitespace := lax) in #print axioms Ifma.EdwardsPoint_from_ExtendedPoint_spec

/-- info: 'Dalek.Props.C03.Vector.Ifma.CachedPoint_from_ExtendedPoint_spec' depends on axioms: [propext, Classical.choice, Quot.sound] -/
#guard_msgs (whitespace := lax) in #print axioms Ifma.CachedPoint_from_ExtendedPoint_spec

/-- info: 'Dalek.Props.C03.Vector.Ifma.ExtendedPoint_double_spec' depends on axioms: [propext, Classical.choice, Quot.sound] -/
#guard_msgs (whitespace := lax) in #print axioms Ifma.ExtendedPoint_double_spec

/-- info: 'Dalek.Props.C03.Vector.Ifma.ExtendedPoint_mul_by_pow_2_body_spec' depends on axioms: [propext, Classical.choice, Quot.sound] -/
#guard_msgs (whitespace := lax) in #print axioms Ifma.ExtendedPoint_mul_by_pow_2_body_spec

/-- info: 'Dalek.Props.C03.Vector.Ifma.ExtendedPoint_mul_by_pow_2_spec' depends on axioms: [propext, Classical.choice, Quot.sound] -/
#guard_msgs (whitespace := lax) in #print axioms Ifma.ExtendedPoint_mul_by_pow_2_spec

/-- info: 'Dalek.Props.C03.Vector.Ifma.ExtendedPoint_add_CachedPoint_spec' depends on axioms: [propext, Classical.choice, Quot.sound] -/
#guard_msgs (whitespace := lax) in #print axioms Ifma.ExtendedPoint_add_CachedPoint_spec

/-- info: 'Dalek.Props.C03.Vector.Ifma.ExtendedPoint_sub_CachedPoint_spec' depends on axioms: [propext, Classical.choice, Quot.sound] -/
#guard_msgs (whitespace := lax) in #print axioms Ifma.ExtendedPoint_sub_CachedPoint_spec

/-- info: 'Dalek.Props.C03.Vector.Ifma.CachedPoint_neg_spec' depends on axioms: [propext, Classical.choice, Quot.sound] -/
#guard_msgs (whitespace := lax) in #print axioms Ifma.CachedPoint_neg_spec

/-- info: 'Dalek.Props.C03.Vector.Ifma.ExtendedPoint_identity_spec' depends on axioms: [propext, Classical.choice, Quot.sound] -/
#guard_msgs (whitespace := lax) in #print axioms Ifma.ExtendedPoint_identity_spec

/-- info: 'Dalek.Props.C03.Vector.Ifma.CachedPoint_identity_spec' depends on axioms: [propext, Classical.choice, Quot.sound] -/
#guard_msgs (whitespace := lax) in #print axioms Ifma.CachedPoint_identity_spec

/-- info: 'Dalek.Props.C03.Vector.Ifma.CachedPoint_conditional_select_spec' depends on axioms: [propext, Classical.choice, Quot.sound] -/
#guard_msgs (whitespace := lax) in #print axioms Ifma.CachedPoint_conditional_select_spec

/-- info: 'Dalek.Props.C03.Vector.Ifma.CachedPoint_conditional_assign_spec' depends on axioms: [propext, Classical.choice, Quot.sound] -/
#guard_msgs (whitespace := lax) in #print axioms Ifma.CachedPoint_conditional_assign_spec

/-- info: 'Dalek.Props.C03.Vector.Ifma.add_via_cached_spec' depends on axioms: [propext, Classical.choice, Quot.sound] -/
#guard_msgs (whitespace := lax) in #print axioms Ifma.add_via_cached_spec

/-- info: 'Dalek.Props.C03.Vector.Ifma.sub_via_cached_spec' depends on axioms: [propext, Classical.choice, Quot.sound] -/
#guard_msgs (whitespace := lax) in #print axioms Ifma.sub_via_cached_spec

end Dalek.Props.C03.Vector

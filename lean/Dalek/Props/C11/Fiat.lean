import Dalek.IR.LimbSound
import Dalek.Gen.Norm.All
import Dalek.Props.C01.FiatHistory51
import Dalek.Props.C01.FiatHistory26
/-!
# C11 — the fiat backends: no overflow in any wrapper kernel, and along every chain of operations

Kernel level: for every translated wrapper method of `fiat_u64/field.rs` / `fiat_u32/field.rs` (fiat-crypto functions inlined)
and every input inside fiat's documented bounds, the overflow-checked semantics does not panic and equals the release
semantics (`Prog.norm_sound` applied to the kernel-evaluated analysis).  History level: `fiat51_never_panics` /
`fiat26_never_panics` — every expression over the field operations, evaluated on tight inputs, is panic-free in a checked build
and returns the same limbs as the release build (corollaries of `fiat51_expr` / `fiat26_expr`: tight is an inductive invariant).
-/
namespace Dalek.Props.C11.Fiat
open Dalek.IR Dalek.Model.Contracts Dalek.Props.C01 Dalek.Props.C01.FiatExpr

theorem FiatField51_add_safe (ins : List Nat) (hin : EnvIn ins FiatField51.pre_add) :
    ∃ outs, Dalek.Gen.FiatField51.add.evalC ins = some outs ∧ Dalek.Gen.FiatField51.add.evalW ins = outs ∧
      EnvIn outs Dalek.Gen.Norm.FiatField51.add_post := by
  obtain ⟨outs, h1, h2, h3, _⟩ := Prog.norm_sound _ _ _ _ Dalek.Gen.Norm.FiatField51.add_norm_ok ins hin
  exact ⟨outs, h1, h2, h3⟩

theorem FiatField51_add_ref_safe (ins : List Nat) (hin : EnvIn ins FiatField51.pre_add_ref) :
    ∃ outs, Dalek.Gen.FiatField51.add_ref.evalC ins = some outs ∧ Dalek.Gen.FiatField51.add_ref.evalW ins = outs ∧
      EnvIn outs Dalek.Gen.Norm.FiatField51.add_ref_post := by
  obtain ⟨outs, h1, h2, h3, _⟩ := Prog.norm_sound _ _ _ _ Dalek.Gen.Norm.FiatField51.add_ref_norm_ok ins hin
  exact ⟨outs, h1, h2, h3⟩

theorem FiatField51_sub_safe (ins : List Nat) (hin : EnvIn ins FiatField51.pre_sub) :
    ∃ outs, Dalek.Gen.FiatField51.sub.evalC ins = some outs ∧ Dalek.Gen.FiatField51.sub.evalW ins = outs ∧
      EnvIn outs Dalek.Gen.Norm.FiatField51.sub_post := by
  obtain ⟨outs, h1, h2, h3, _⟩ := Prog.norm_sound _ _ _ _ Dalek.Gen.Norm.FiatField51.sub_norm_ok ins hin
  exact ⟨outs, h1, h2, h3⟩

theorem FiatField51_sub_assign_safe (ins : List Nat) (hin : EnvIn ins FiatField51.pre_sub_assign) :
    ∃ outs, Dalek.Gen.FiatField51.sub_assign.evalC ins = some outs ∧ Dalek.Gen.FiatField51.sub_assign.evalW ins = outs ∧
      EnvIn outs Dalek.Gen.Norm.FiatField51.sub_assign_post := by
  obtain ⟨outs, h1, h2, h3, _⟩ := Prog.norm_sound _ _ _ _ Dalek.Gen.Norm.FiatField51.sub_assign_norm_ok ins hin
  exact ⟨outs, h1, h2, h3⟩

theorem FiatField51_mul_safe (ins : List Nat) (hin : EnvIn ins FiatField51.pre_mul) :
    ∃ outs, Dalek.Gen.FiatField51.mul.evalC ins = some outs ∧ Dalek.Gen.FiatField51.mul.evalW ins = outs ∧
      EnvIn outs Dalek.Gen.Norm.FiatField51.mul_post := by
  obtain ⟨outs, h1, h2, h3, _⟩ := Prog.norm_sound _ _ _ _ Dalek.Gen.Norm.FiatField51.mul_norm_ok ins hin
  exact ⟨outs, h1, h2, h3⟩

theorem FiatField51_mul_assign_safe (ins : List Nat) (hin : EnvIn ins FiatField51.pre_mul_assign) :
    ∃ outs, Dalek.Gen.FiatField51.mul_assign.evalC ins = some outs ∧ Dalek.Gen.FiatField51.mul_assign.evalW ins = outs ∧
      EnvIn outs Dalek.Gen.Norm.FiatField51.mul_assign_post := by
  obtain ⟨outs, h1, h2, h3, _⟩ := Prog.norm_sound _ _ _ _ Dalek.Gen.Norm.FiatField51.mul_assign_norm_ok ins hin
  exact ⟨outs, h1, h2, h3⟩

theorem FiatField51_neg_safe (ins : List Nat) (hin : EnvIn ins FiatField51.pre_neg) :
    ∃ outs, Dalek.Gen.FiatField51.neg.evalC ins = some outs ∧ Dalek.Gen.FiatField51.neg.evalW ins = outs ∧
      EnvIn outs Dalek.Gen.Norm.FiatField51.neg_post := by
  obtain ⟨outs, h1, h2, h3, _⟩ := Prog.norm_sound _ _ _ _ Dalek.Gen.Norm.FiatField51.neg_norm_ok ins hin
  exact ⟨outs, h1, h2, h3⟩

theorem FiatField51_reduce_safe (ins : List Nat) (hin : EnvIn ins FiatField51.pre_reduce) :
    ∃ outs, Dalek.Gen.FiatField51.reduce.evalC ins = some outs ∧ Dalek.Gen.FiatField51.reduce.evalW ins = outs ∧
      EnvIn outs Dalek.Gen.Norm.FiatField51.reduce_post := by
  obtain ⟨outs, h1, h2, h3, _⟩ := Prog.norm_sound _ _ _ _ Dalek.Gen.Norm.FiatField51.reduce_norm_ok ins hin
  exact ⟨outs, h1, h2, h3⟩

theorem FiatField51_from_bytes_safe (ins : List Nat) (hin : EnvIn ins FiatField51.pre_from_bytes) :
    ∃ outs, Dalek.Gen.FiatField51.from_bytes.evalC ins = some outs ∧ Dalek.Gen.FiatField51.from_bytes.evalW ins = outs ∧
      EnvIn outs Dalek.Gen.Norm.FiatField51.from_bytes_post := by
  obtain ⟨outs, h1, h2, h3, _⟩ := Prog.norm_sound _ _ _ _ Dalek.Gen.Norm.FiatField51.from_bytes_norm_ok ins hin
  exact ⟨outs, h1, h2, h3⟩

theorem FiatField51_as_bytes_safe (ins : List Nat) (hin : EnvIn ins FiatField51.pre_as_bytes) :
    ∃ outs, Dalek.Gen.FiatField51.as_bytes.evalC ins = some outs ∧ Dalek.Gen.FiatField51.as_bytes.evalW ins = outs ∧
      EnvIn outs Dalek.Gen.Norm.FiatField51.as_bytes_post := by
  obtain ⟨outs, h1, h2, h3, _⟩ := Prog.norm_sound _ _ _ _ Dalek.Gen.Norm.FiatField51.as_bytes_norm_ok ins hin
  exact ⟨outs, h1, h2, h3⟩

theorem FiatField51_square_safe (ins : List Nat) (hin : EnvIn ins FiatField51.pre_square) :
    ∃ outs, Dalek.Gen.FiatField51.square.evalC ins = some outs ∧ Dalek.Gen.FiatField51.square.evalW ins = outs ∧
      EnvIn outs Dalek.Gen.Norm.FiatField51.square_post := by
  obtain ⟨outs, h1, h2, h3, _⟩ := Prog.norm_sound _ _ _ _ Dalek.Gen.Norm.FiatField51.square_norm_ok ins hin
  exact ⟨outs, h1, h2, h3⟩

theorem FiatField51_square2_safe (ins : List Nat) (hin : EnvIn ins FiatField51.pre_square2) :
    ∃ outs, Dalek.Gen.FiatField51.square2.evalC ins = some outs ∧ Dalek.Gen.FiatField51.square2.evalW ins = outs ∧
      EnvIn outs Dalek.Gen.Norm.FiatField51.square2_post := by
  obtain ⟨outs, h1, h2, h3, _⟩ := Prog.norm_sound _ _ _ _ Dalek.Gen.Norm.FiatField51.square2_norm_ok ins hin
  exact ⟨outs, h1, h2, h3⟩

theorem FiatField51_pow2k_body_safe (ins : List Nat) (hin : EnvIn ins FiatField51.pre_pow2k_body) :
    ∃ outs, Dalek.Gen.FiatField51.pow2k_body.evalC ins = some outs ∧ Dalek.Gen.FiatField51.pow2k_body.evalW ins = outs ∧
      EnvIn outs Dalek.Gen.Norm.FiatField51.pow2k_body_post := by
  obtain ⟨outs, h1, h2, h3, _⟩ := Prog.norm_sound _ _ _ _ Dalek.Gen.Norm.FiatField51.pow2k_body_norm_ok ins hin
  exact ⟨outs, h1, h2, h3⟩

theorem FiatField51_conditional_select_safe (ins : List Nat) (hin : EnvIn ins FiatField51.pre_conditional_select) :
    ∃ outs, Dalek.Gen.FiatField51.conditional_select.evalC ins = some outs ∧ Dalek.Gen.FiatField51.conditional_select.evalW ins = outs ∧
      EnvIn outs Dalek.Gen.Norm.FiatField51.conditional_select_post := by
  obtain ⟨outs, h1, h2, h3, _⟩ := Prog.norm_sound _ _ _ _ Dalek.Gen.Norm.FiatField51.conditional_select_norm_ok ins hin
  exact ⟨outs, h1, h2, h3⟩

theorem FiatField51_conditional_assign_safe (ins : List Nat) (hin : EnvIn ins FiatField51.pre_conditional_assign) :
    ∃ outs, Dalek.Gen.FiatField51.conditional_assign.evalC ins = some outs ∧ Dalek.Gen.FiatField51.conditional_assign.evalW ins = outs ∧
      EnvIn outs Dalek.Gen.Norm.FiatField51.conditional_assign_post := by
  obtain ⟨outs, h1, h2, h3, _⟩ := Prog.norm_sound _ _ _ _ Dalek.Gen.Norm.FiatField51.conditional_assign_norm_ok ins hin
  exact ⟨outs, h1, h2, h3⟩

theorem FiatField26_add_safe (ins : List Nat) (hin : EnvIn ins FiatField26.pre_add) :
    ∃ outs, Dalek.Gen.FiatField26.add.evalC ins = some outs ∧ Dalek.Gen.FiatField26.add.evalW ins = outs ∧
      EnvIn outs Dalek.Gen.Norm.FiatField26.add_post := by
  obtain ⟨outs, h1, h2, h3, _⟩ := Prog.norm_sound _ _ _ _ Dalek.Gen.Norm.FiatField26.add_norm_ok ins hin
  exact ⟨outs, h1, h2, h3⟩

theorem FiatField26_add_ref_safe (ins : List Nat) (hin : EnvIn ins FiatField26.pre_add_ref) :
    ∃ outs, Dalek.Gen.FiatField26.add_ref.evalC ins = some outs ∧ Dalek.Gen.FiatField26.add_ref.evalW ins = outs ∧
      EnvIn outs Dalek.Gen.Norm.FiatField26.add_ref_post := by
  obtain ⟨outs, h1, h2, h3, _⟩ := Prog.norm_sound _ _ _ _ Dalek.Gen.Norm.FiatField26.add_ref_norm_ok ins hin
  exact ⟨outs, h1, h2, h3⟩

theorem FiatField26_sub_safe (ins : List Nat) (hin : EnvIn ins FiatField26.pre_sub) :
    ∃ outs, Dalek.Gen.FiatField26.sub.evalC ins = some outs ∧ Dalek.Gen.FiatField26.sub.evalW ins = outs ∧
      EnvIn outs Dalek.Gen.Norm.FiatField26.sub_post := by
  obtain ⟨outs, h1, h2, h3, _⟩ := Prog.norm_sound _ _ _ _ Dalek.Gen.Norm.FiatField26.sub_norm_ok ins hin
  exact ⟨outs, h1, h2, h3⟩

theorem FiatField26_sub_assign_safe (ins : List Nat) (hin : EnvIn ins FiatField26.pre_sub_assign) :
    ∃ outs, Dalek.Gen.FiatField26.sub_assign.evalC ins = some outs ∧ Dalek.Gen.FiatField26.sub_assign.evalW ins = outs ∧
      EnvIn outs Dalek.Gen.Norm.FiatField26.sub_assign_post := by
  obtain ⟨outs, h1, h2, h3, _⟩ := Prog.norm_sound _ _ _ _ Dalek.Gen.Norm.FiatField26.sub_assign_norm_ok ins hin
  exact ⟨outs, h1, h2, h3⟩

theorem FiatField26_mul_safe (ins : List Nat) (hin : EnvIn ins FiatField26.pre_mul) :
    ∃ outs, Dalek.Gen.FiatField26.mul.evalC ins = some outs ∧ Dalek.Gen.FiatField26.mul.evalW ins = outs ∧
      EnvIn outs Dalek.Gen.Norm.FiatField26.mul_post := by
  obtain ⟨outs, h1, h2, h3, _⟩ := Prog.norm_sound _ _ _ _ Dalek.Gen.Norm.FiatField26.mul_norm_ok ins hin
  exact ⟨outs, h1, h2, h3⟩

theorem FiatField26_mul_assign_safe (ins : List Nat) (hin : EnvIn ins FiatField26.pre_mul_assign) :
    ∃ outs, Dalek.Gen.FiatField26.mul_assign.evalC ins = some outs ∧ Dalek.Gen.FiatField26.mul_assign.evalW ins = outs ∧
      EnvIn outs Dalek.Gen.Norm.FiatField26.mul_assign_post := by
  obtain ⟨outs, h1, h2, h3, _⟩ := Prog.norm_sound _ _ _ _ Dalek.Gen.Norm.FiatField26.mul_assign_norm_ok ins hin
  exact ⟨outs, h1, h2, h3⟩

theorem FiatField26_neg_safe (ins : List Nat) (hin : EnvIn ins FiatField26.pre_neg) :
    ∃ outs, Dalek.Gen.FiatField26.neg.evalC ins = some outs ∧ Dalek.Gen.FiatField26.neg.evalW ins = outs ∧
      EnvIn outs Dalek.Gen.Norm.FiatField26.neg_post := by
  obtain ⟨outs, h1, h2, h3, _⟩ := Prog.norm_sound _ _ _ _ Dalek.Gen.Norm.FiatField26.neg_norm_ok ins hin
  exact ⟨outs, h1, h2, h3⟩

theorem FiatField26_from_bytes_safe (ins : List Nat) (hin : EnvIn ins FiatField26.pre_from_bytes) :
    ∃ outs, Dalek.Gen.FiatField26.from_bytes.evalC ins = some outs ∧ Dalek.Gen.FiatField26.from_bytes.evalW ins = outs ∧
      EnvIn outs Dalek.Gen.Norm.FiatField26.from_bytes_post := by
  obtain ⟨outs, h1, h2, h3, _⟩ := Prog.norm_sound _ _ _ _ Dalek.Gen.Norm.FiatField26.from_bytes_norm_ok ins hin
  exact ⟨outs, h1, h2, h3⟩

theorem FiatField26_as_bytes_safe (ins : List Nat) (hin : EnvIn ins FiatField26.pre_as_bytes) :
    ∃ outs, Dalek.Gen.FiatField26.as_bytes.evalC ins = some outs ∧ Dalek.Gen.FiatField26.as_bytes.evalW ins = outs ∧
      EnvIn outs Dalek.Gen.Norm.FiatField26.as_bytes_post := by
  obtain ⟨outs, h1, h2, h3, _⟩ := Prog.norm_sound _ _ _ _ Dalek.Gen.Norm.FiatField26.as_bytes_norm_ok ins hin
  exact ⟨outs, h1, h2, h3⟩

theorem FiatField26_square_safe (ins : List Nat) (hin : EnvIn ins FiatField26.pre_square) :
    ∃ outs, Dalek.Gen.FiatField26.square.evalC ins = some outs ∧ Dalek.Gen.FiatField26.square.evalW ins = outs ∧
      EnvIn outs Dalek.Gen.Norm.FiatField26.square_post := by
  obtain ⟨outs, h1, h2, h3, _⟩ := Prog.norm_sound _ _ _ _ Dalek.Gen.Norm.FiatField26.square_norm_ok ins hin
  exact ⟨outs, h1, h2, h3⟩

theorem FiatField26_square2_safe (ins : List Nat) (hin : EnvIn ins FiatField26.pre_square2) :
    ∃ outs, Dalek.Gen.FiatField26.square2.evalC ins = some outs ∧ Dalek.Gen.FiatField26.square2.evalW ins = outs ∧
      EnvIn outs Dalek.Gen.Norm.FiatField26.square2_post := by
  obtain ⟨outs, h1, h2, h3, _⟩ := Prog.norm_sound _ _ _ _ Dalek.Gen.Norm.FiatField26.square2_norm_ok ins hin
  exact ⟨outs, h1, h2, h3⟩

theorem FiatField26_pow2k_body_safe (ins : List Nat) (hin : EnvIn ins FiatField26.pre_pow2k_body) :
    ∃ outs, Dalek.Gen.FiatField26.pow2k_body.evalC ins = some outs ∧ Dalek.Gen.FiatField26.pow2k_body.evalW ins = outs ∧
      EnvIn outs Dalek.Gen.Norm.FiatField26.pow2k_body_post := by
  obtain ⟨outs, h1, h2, h3, _⟩ := Prog.norm_sound _ _ _ _ Dalek.Gen.Norm.FiatField26.pow2k_body_norm_ok ins hin
  exact ⟨outs, h1, h2, h3⟩

theorem FiatField26_conditional_select_safe (ins : List Nat) (hin : EnvIn ins FiatField26.pre_conditional_select) :
    ∃ outs, Dalek.Gen.FiatField26.conditional_select.evalC ins = some outs ∧ Dalek.Gen.FiatField26.conditional_select.evalW ins = outs ∧
      EnvIn outs Dalek.Gen.Norm.FiatField26.conditional_select_post := by
  obtain ⟨outs, h1, h2, h3, _⟩ := Prog.norm_sound _ _ _ _ Dalek.Gen.Norm.FiatField26.conditional_select_norm_ok ins hin
  exact ⟨outs, h1, h2, h3⟩

theorem FiatField26_conditional_assign_safe (ins : List Nat) (hin : EnvIn ins FiatField26.pre_conditional_assign) :
    ∃ outs, Dalek.Gen.FiatField26.conditional_assign.evalC ins = some outs ∧ Dalek.Gen.FiatField26.conditional_assign.evalW ins = outs ∧
      EnvIn outs Dalek.Gen.Norm.FiatField26.conditional_assign_post := by
  obtain ⟨outs, h1, h2, h3, _⟩ := Prog.norm_sound _ _ _ _ Dalek.Gen.Norm.FiatField26.conditional_assign_norm_ok ins hin
  exact ⟨outs, h1, h2, h3⟩

/-- every chain of fiat u64 field operations on tight inputs: a checked build does not panic and agrees with release -/
theorem fiat51_never_panics (env : List (List Nat)) (henv : ∀ l ∈ env, EnvIn l Fiat51.tightOut) (e : FExpr)
    (hs : e.scoped env.length) : Fiat51.evalC env e = some (Fiat51.evalW env e) := by
  obtain ⟨out, hC, hW, _, _⟩ := Fiat51.fiat51_expr env henv e hs
  rw [hC, hW]

/-- every chain of fiat u32 field operations on tight inputs: a checked build does not panic and agrees with release -/
theorem fiat26_never_panics (env : List (List Nat)) (henv : ∀ l ∈ env, EnvIn l Fiat26.tightOut) (e : FExpr)
    (hs : e.scoped env.length) : Fiat26.evalC env e = some (Fiat26.evalW env e) := by
  obtain ⟨out, hC, hW, _, _⟩ := Fiat26.fiat26_expr env henv e hs
  rw [hC, hW]

/-- the contract is not decorative: for ARBITRARY u32 limbs the analysis of the regenerated u32 `mul` wrapper fails (its
`u32 × 19` and 64-bit accumulations can overflow outside fiat's bounds) -/
example : Prog.norm Dalek.Gen.FiatField26.mul (List.replicate 20 (ub (2 ^ 32 - 1))) = none := by decide +kernel

end Dalek.Props.C11.Fiat

import Dalek.IR.LimbSound
import Dalek.Gen.Norm.All
/-!
# C11 — no limb overflow in any translated kernel (property theorems, kernel level)

For every kernel regenerated from the Rust source and every input inside its bound contract
(`Dalek.Model.Contracts.<Mod>.pre_<k>`, the documented headroom), the semantics WITH overflow checks and
debug assertions (`evalC`) does not panic and returns exactly what the wrapping release semantics (`evalW`)
returns, and the outputs satisfy the analysed post-condition `<k>_post`.
One theorem per kernel; each is `Prog.norm_sound` applied to the kernel-evaluated analysis `<k>_norm_ok`.
-/
namespace Dalek.Props.C11.Kernels
open Dalek.IR Dalek.Model.Contracts

theorem Field51_add_safe (ins : List Nat) (hin : EnvIn ins Field51.pre_add) :
    ∃ outs, Dalek.Gen.Field51.add.evalC ins = some outs ∧ Dalek.Gen.Field51.add.evalW ins = outs ∧
      EnvIn outs Dalek.Gen.Norm.Field51.add_post := by
  obtain ⟨outs, h1, h2, h3, _⟩ := Prog.norm_sound _ _ _ _ Dalek.Gen.Norm.Field51.add_norm_ok ins hin
  exact ⟨outs, h1, h2, h3⟩

theorem Field51_sub_safe (ins : List Nat) (hin : EnvIn ins Field51.pre_sub) :
    ∃ outs, Dalek.Gen.Field51.sub.evalC ins = some outs ∧ Dalek.Gen.Field51.sub.evalW ins = outs ∧
      EnvIn outs Dalek.Gen.Norm.Field51.sub_post := by
  obtain ⟨outs, h1, h2, h3, _⟩ := Prog.norm_sound _ _ _ _ Dalek.Gen.Norm.Field51.sub_norm_ok ins hin
  exact ⟨outs, h1, h2, h3⟩

theorem Field51_mul_safe (ins : List Nat) (hin : EnvIn ins Field51.pre_mul) :
    ∃ outs, Dalek.Gen.Field51.mul.evalC ins = some outs ∧ Dalek.Gen.Field51.mul.evalW ins = outs ∧
      EnvIn outs Dalek.Gen.Norm.Field51.mul_post := by
  obtain ⟨outs, h1, h2, h3, _⟩ := Prog.norm_sound _ _ _ _ Dalek.Gen.Norm.Field51.mul_norm_ok ins hin
  exact ⟨outs, h1, h2, h3⟩

theorem Field51_neg_safe (ins : List Nat) (hin : EnvIn ins Field51.pre_neg) :
    ∃ outs, Dalek.Gen.Field51.neg.evalC ins = some outs ∧ Dalek.Gen.Field51.neg.evalW ins = outs ∧
      EnvIn outs Dalek.Gen.Norm.Field51.neg_post := by
  obtain ⟨outs, h1, h2, h3, _⟩ := Prog.norm_sound _ _ _ _ Dalek.Gen.Norm.Field51.neg_norm_ok ins hin
  exact ⟨outs, h1, h2, h3⟩

theorem Field51_reduce_safe (ins : List Nat) (hin : EnvIn ins Field51.pre_reduce) :
    ∃ outs, Dalek.Gen.Field51.reduce.evalC ins = some outs ∧ Dalek.Gen.Field51.reduce.evalW ins = outs ∧
      EnvIn outs Dalek.Gen.Norm.Field51.reduce_post := by
  obtain ⟨outs, h1, h2, h3, _⟩ := Prog.norm_sound _ _ _ _ Dalek.Gen.Norm.Field51.reduce_norm_ok ins hin
  exact ⟨outs, h1, h2, h3⟩

theorem Field51_from_bytes_safe (ins : List Nat) (hin : EnvIn ins Field51.pre_from_bytes) :
    ∃ outs, Dalek.Gen.Field51.from_bytes.evalC ins = some outs ∧ Dalek.Gen.Field51.from_bytes.evalW ins = outs ∧
      EnvIn outs Dalek.Gen.Norm.Field51.from_bytes_post := by
  obtain ⟨outs, h1, h2, h3, _⟩ := Prog.norm_sound _ _ _ _ Dalek.Gen.Norm.Field51.from_bytes_norm_ok ins hin
  exact ⟨outs, h1, h2, h3⟩

theorem Field51_as_bytes_safe (ins : List Nat) (hin : EnvIn ins Field51.pre_as_bytes) :
    ∃ outs, Dalek.Gen.Field51.as_bytes.evalC ins = some outs ∧ Dalek.Gen.Field51.as_bytes.evalW ins = outs ∧
      EnvIn outs Dalek.Gen.Norm.Field51.as_bytes_post := by
  obtain ⟨outs, h1, h2, h3, _⟩ := Prog.norm_sound _ _ _ _ Dalek.Gen.Norm.Field51.as_bytes_norm_ok ins hin
  exact ⟨outs, h1, h2, h3⟩

theorem Field51_pow2k_body_safe (ins : List Nat) (hin : EnvIn ins Field51.pre_pow2k_body) :
    ∃ outs, Dalek.Gen.Field51.pow2k_body.evalC ins = some outs ∧ Dalek.Gen.Field51.pow2k_body.evalW ins = outs ∧
      EnvIn outs Dalek.Gen.Norm.Field51.pow2k_body_post := by
  obtain ⟨outs, h1, h2, h3, _⟩ := Prog.norm_sound _ _ _ _ Dalek.Gen.Norm.Field51.pow2k_body_norm_ok ins hin
  exact ⟨outs, h1, h2, h3⟩

theorem Field51_square2_tail_safe (ins : List Nat) (hin : EnvIn ins Field51.pre_square2_tail) :
    ∃ outs, Dalek.Gen.Field51.square2_tail.evalC ins = some outs ∧ Dalek.Gen.Field51.square2_tail.evalW ins = outs ∧
      EnvIn outs Dalek.Gen.Norm.Field51.square2_tail_post := by
  obtain ⟨outs, h1, h2, h3, _⟩ := Prog.norm_sound _ _ _ _ Dalek.Gen.Norm.Field51.square2_tail_norm_ok ins hin
  exact ⟨outs, h1, h2, h3⟩

theorem Field26_add_safe (ins : List Nat) (hin : EnvIn ins Field26.pre_add) :
    ∃ outs, Dalek.Gen.Field26.add.evalC ins = some outs ∧ Dalek.Gen.Field26.add.evalW ins = outs ∧
      EnvIn outs Dalek.Gen.Norm.Field26.add_post := by
  obtain ⟨outs, h1, h2, h3, _⟩ := Prog.norm_sound _ _ _ _ Dalek.Gen.Norm.Field26.add_norm_ok ins hin
  exact ⟨outs, h1, h2, h3⟩

theorem Field26_sub_safe (ins : List Nat) (hin : EnvIn ins Field26.pre_sub) :
    ∃ outs, Dalek.Gen.Field26.sub.evalC ins = some outs ∧ Dalek.Gen.Field26.sub.evalW ins = outs ∧
      EnvIn outs Dalek.Gen.Norm.Field26.sub_post := by
  obtain ⟨outs, h1, h2, h3, _⟩ := Prog.norm_sound _ _ _ _ Dalek.Gen.Norm.Field26.sub_norm_ok ins hin
  exact ⟨outs, h1, h2, h3⟩

theorem Field26_mul_safe (ins : List Nat) (hin : EnvIn ins Field26.pre_mul) :
    ∃ outs, Dalek.Gen.Field26.mul.evalC ins = some outs ∧ Dalek.Gen.Field26.mul.evalW ins = outs ∧
      EnvIn outs Dalek.Gen.Norm.Field26.mul_post := by
  obtain ⟨outs, h1, h2, h3, _⟩ := Prog.norm_sound _ _ _ _ Dalek.Gen.Norm.Field26.mul_norm_ok ins hin
  exact ⟨outs, h1, h2, h3⟩

theorem Field26_neg_safe (ins : List Nat) (hin : EnvIn ins Field26.pre_neg) :
    ∃ outs, Dalek.Gen.Field26.neg.evalC ins = some outs ∧ Dalek.Gen.Field26.neg.evalW ins = outs ∧
      EnvIn outs Dalek.Gen.Norm.Field26.neg_post := by
  obtain ⟨outs, h1, h2, h3, _⟩ := Prog.norm_sound _ _ _ _ Dalek.Gen.Norm.Field26.neg_norm_ok ins hin
  exact ⟨outs, h1, h2, h3⟩

theorem Field26_reduce_safe (ins : List Nat) (hin : EnvIn ins Field26.pre_reduce) :
    ∃ outs, Dalek.Gen.Field26.reduce.evalC ins = some outs ∧ Dalek.Gen.Field26.reduce.evalW ins = outs ∧
      EnvIn outs Dalek.Gen.Norm.Field26.reduce_post := by
  obtain ⟨outs, h1, h2, h3, _⟩ := Prog.norm_sound _ _ _ _ Dalek.Gen.Norm.Field26.reduce_norm_ok ins hin
  exact ⟨outs, h1, h2, h3⟩

theorem Field26_from_bytes_safe (ins : List Nat) (hin : EnvIn ins Field26.pre_from_bytes) :
    ∃ outs, Dalek.Gen.Field26.from_bytes.evalC ins = some outs ∧ Dalek.Gen.Field26.from_bytes.evalW ins = outs ∧
      EnvIn outs Dalek.Gen.Norm.Field26.from_bytes_post := by
  obtain ⟨outs, h1, h2, h3, _⟩ := Prog.norm_sound _ _ _ _ Dalek.Gen.Norm.Field26.from_bytes_norm_ok ins hin
  exact ⟨outs, h1, h2, h3⟩

theorem Field26_as_bytes_safe (ins : List Nat) (hin : EnvIn ins Field26.pre_as_bytes) :
    ∃ outs, Dalek.Gen.Field26.as_bytes.evalC ins = some outs ∧ Dalek.Gen.Field26.as_bytes.evalW ins = outs ∧
      EnvIn outs Dalek.Gen.Norm.Field26.as_bytes_post := by
  obtain ⟨outs, h1, h2, h3, _⟩ := Prog.norm_sound _ _ _ _ Dalek.Gen.Norm.Field26.as_bytes_norm_ok ins hin
  exact ⟨outs, h1, h2, h3⟩

theorem Field26_square_inner_safe (ins : List Nat) (hin : EnvIn ins Field26.pre_square_inner) :
    ∃ outs, Dalek.Gen.Field26.square_inner.evalC ins = some outs ∧ Dalek.Gen.Field26.square_inner.evalW ins = outs ∧
      EnvIn outs Dalek.Gen.Norm.Field26.square_inner_post := by
  obtain ⟨outs, h1, h2, h3, _⟩ := Prog.norm_sound _ _ _ _ Dalek.Gen.Norm.Field26.square_inner_norm_ok ins hin
  exact ⟨outs, h1, h2, h3⟩

theorem Field26_square_safe (ins : List Nat) (hin : EnvIn ins Field26.pre_square) :
    ∃ outs, Dalek.Gen.Field26.square.evalC ins = some outs ∧ Dalek.Gen.Field26.square.evalW ins = outs ∧
      EnvIn outs Dalek.Gen.Norm.Field26.square_post := by
  obtain ⟨outs, h1, h2, h3, _⟩ := Prog.norm_sound _ _ _ _ Dalek.Gen.Norm.Field26.square_norm_ok ins hin
  exact ⟨outs, h1, h2, h3⟩

theorem Field26_square2_safe (ins : List Nat) (hin : EnvIn ins Field26.pre_square2) :
    ∃ outs, Dalek.Gen.Field26.square2.evalC ins = some outs ∧ Dalek.Gen.Field26.square2.evalW ins = outs ∧
      EnvIn outs Dalek.Gen.Norm.Field26.square2_post := by
  obtain ⟨outs, h1, h2, h3, _⟩ := Prog.norm_sound _ _ _ _ Dalek.Gen.Norm.Field26.square2_norm_ok ins hin
  exact ⟨outs, h1, h2, h3⟩

theorem Field26_pow2k_body_safe (ins : List Nat) (hin : EnvIn ins Field26.pre_pow2k_body) :
    ∃ outs, Dalek.Gen.Field26.pow2k_body.evalC ins = some outs ∧ Dalek.Gen.Field26.pow2k_body.evalW ins = outs ∧
      EnvIn outs Dalek.Gen.Norm.Field26.pow2k_body_post := by
  obtain ⟨outs, h1, h2, h3, _⟩ := Prog.norm_sound _ _ _ _ Dalek.Gen.Norm.Field26.pow2k_body_norm_ok ins hin
  exact ⟨outs, h1, h2, h3⟩

theorem Scalar52_from_bytes_safe (ins : List Nat) (hin : EnvIn ins Scalar52.pre_from_bytes) :
    ∃ outs, Dalek.Gen.Scalar52.from_bytes.evalC ins = some outs ∧ Dalek.Gen.Scalar52.from_bytes.evalW ins = outs ∧
      EnvIn outs Dalek.Gen.Norm.Scalar52.from_bytes_post := by
  obtain ⟨outs, h1, h2, h3, _⟩ := Prog.norm_sound _ _ _ _ Dalek.Gen.Norm.Scalar52.from_bytes_norm_ok ins hin
  exact ⟨outs, h1, h2, h3⟩

theorem Scalar52_from_bytes_wide_safe (ins : List Nat) (hin : EnvIn ins Scalar52.pre_from_bytes_wide) :
    ∃ outs, Dalek.Gen.Scalar52.from_bytes_wide.evalC ins = some outs ∧ Dalek.Gen.Scalar52.from_bytes_wide.evalW ins = outs ∧
      EnvIn outs Dalek.Gen.Norm.Scalar52.from_bytes_wide_post := by
  obtain ⟨outs, h1, h2, h3, _⟩ := Prog.norm_sound _ _ _ _ Dalek.Gen.Norm.Scalar52.from_bytes_wide_norm_ok ins hin
  exact ⟨outs, h1, h2, h3⟩

theorem Scalar52_as_bytes_safe (ins : List Nat) (hin : EnvIn ins Scalar52.pre_as_bytes) :
    ∃ outs, Dalek.Gen.Scalar52.as_bytes.evalC ins = some outs ∧ Dalek.Gen.Scalar52.as_bytes.evalW ins = outs ∧
      EnvIn outs Dalek.Gen.Norm.Scalar52.as_bytes_post := by
  obtain ⟨outs, h1, h2, h3, _⟩ := Prog.norm_sound _ _ _ _ Dalek.Gen.Norm.Scalar52.as_bytes_norm_ok ins hin
  exact ⟨outs, h1, h2, h3⟩

theorem Scalar52_add_safe (ins : List Nat) (hin : EnvIn ins Scalar52.pre_add) :
    ∃ outs, Dalek.Gen.Scalar52.add.evalC ins = some outs ∧ Dalek.Gen.Scalar52.add.evalW ins = outs ∧
      EnvIn outs Dalek.Gen.Norm.Scalar52.add_post := by
  obtain ⟨outs, h1, h2, h3, _⟩ := Prog.norm_sound _ _ _ _ Dalek.Gen.Norm.Scalar52.add_norm_ok ins hin
  exact ⟨outs, h1, h2, h3⟩

theorem Scalar52_sub_safe (ins : List Nat) (hin : EnvIn ins Scalar52.pre_sub) :
    ∃ outs, Dalek.Gen.Scalar52.sub.evalC ins = some outs ∧ Dalek.Gen.Scalar52.sub.evalW ins = outs ∧
      EnvIn outs Dalek.Gen.Norm.Scalar52.sub_post := by
  obtain ⟨outs, h1, h2, h3, _⟩ := Prog.norm_sound _ _ _ _ Dalek.Gen.Norm.Scalar52.sub_norm_ok ins hin
  exact ⟨outs, h1, h2, h3⟩

theorem Scalar52_mul_internal_safe (ins : List Nat) (hin : EnvIn ins Scalar52.pre_mul_internal) :
    ∃ outs, Dalek.Gen.Scalar52.mul_internal.evalC ins = some outs ∧ Dalek.Gen.Scalar52.mul_internal.evalW ins = outs ∧
      EnvIn outs Dalek.Gen.Norm.Scalar52.mul_internal_post := by
  obtain ⟨outs, h1, h2, h3, _⟩ := Prog.norm_sound _ _ _ _ Dalek.Gen.Norm.Scalar52.mul_internal_norm_ok ins hin
  exact ⟨outs, h1, h2, h3⟩

theorem Scalar52_square_internal_safe (ins : List Nat) (hin : EnvIn ins Scalar52.pre_square_internal) :
    ∃ outs, Dalek.Gen.Scalar52.square_internal.evalC ins = some outs ∧ Dalek.Gen.Scalar52.square_internal.evalW ins = outs ∧
      EnvIn outs Dalek.Gen.Norm.Scalar52.square_internal_post := by
  obtain ⟨outs, h1, h2, h3, _⟩ := Prog.norm_sound _ _ _ _ Dalek.Gen.Norm.Scalar52.square_internal_norm_ok ins hin
  exact ⟨outs, h1, h2, h3⟩

theorem Scalar52_montgomery_reduce_safe (ins : List Nat) (hin : EnvIn ins Scalar52.pre_montgomery_reduce) :
    ∃ outs, Dalek.Gen.Scalar52.montgomery_reduce.evalC ins = some outs ∧ Dalek.Gen.Scalar52.montgomery_reduce.evalW ins = outs ∧
      EnvIn outs Dalek.Gen.Norm.Scalar52.montgomery_reduce_post := by
  obtain ⟨outs, h1, h2, h3, _⟩ := Prog.norm_sound _ _ _ _ Dalek.Gen.Norm.Scalar52.montgomery_reduce_norm_ok ins hin
  exact ⟨outs, h1, h2, h3⟩

theorem Scalar52_mul_safe (ins : List Nat) (hin : EnvIn ins Scalar52.pre_mul) :
    ∃ outs, Dalek.Gen.Scalar52.mul.evalC ins = some outs ∧ Dalek.Gen.Scalar52.mul.evalW ins = outs ∧
      EnvIn outs Dalek.Gen.Norm.Scalar52.mul_post := by
  obtain ⟨outs, h1, h2, h3, _⟩ := Prog.norm_sound _ _ _ _ Dalek.Gen.Norm.Scalar52.mul_norm_ok ins hin
  exact ⟨outs, h1, h2, h3⟩

theorem Scalar52_square_safe (ins : List Nat) (hin : EnvIn ins Scalar52.pre_square) :
    ∃ outs, Dalek.Gen.Scalar52.square.evalC ins = some outs ∧ Dalek.Gen.Scalar52.square.evalW ins = outs ∧
      EnvIn outs Dalek.Gen.Norm.Scalar52.square_post := by
  obtain ⟨outs, h1, h2, h3, _⟩ := Prog.norm_sound _ _ _ _ Dalek.Gen.Norm.Scalar52.square_norm_ok ins hin
  exact ⟨outs, h1, h2, h3⟩

theorem Scalar52_montgomery_mul_safe (ins : List Nat) (hin : EnvIn ins Scalar52.pre_montgomery_mul) :
    ∃ outs, Dalek.Gen.Scalar52.montgomery_mul.evalC ins = some outs ∧ Dalek.Gen.Scalar52.montgomery_mul.evalW ins = outs ∧
      EnvIn outs Dalek.Gen.Norm.Scalar52.montgomery_mul_post := by
  obtain ⟨outs, h1, h2, h3, _⟩ := Prog.norm_sound _ _ _ _ Dalek.Gen.Norm.Scalar52.montgomery_mul_norm_ok ins hin
  exact ⟨outs, h1, h2, h3⟩

theorem Scalar52_montgomery_square_safe (ins : List Nat) (hin : EnvIn ins Scalar52.pre_montgomery_square) :
    ∃ outs, Dalek.Gen.Scalar52.montgomery_square.evalC ins = some outs ∧ Dalek.Gen.Scalar52.montgomery_square.evalW ins = outs ∧
      EnvIn outs Dalek.Gen.Norm.Scalar52.montgomery_square_post := by
  obtain ⟨outs, h1, h2, h3, _⟩ := Prog.norm_sound _ _ _ _ Dalek.Gen.Norm.Scalar52.montgomery_square_norm_ok ins hin
  exact ⟨outs, h1, h2, h3⟩

theorem Scalar52_as_montgomery_safe (ins : List Nat) (hin : EnvIn ins Scalar52.pre_as_montgomery) :
    ∃ outs, Dalek.Gen.Scalar52.as_montgomery.evalC ins = some outs ∧ Dalek.Gen.Scalar52.as_montgomery.evalW ins = outs ∧
      EnvIn outs Dalek.Gen.Norm.Scalar52.as_montgomery_post := by
  obtain ⟨outs, h1, h2, h3, _⟩ := Prog.norm_sound _ _ _ _ Dalek.Gen.Norm.Scalar52.as_montgomery_norm_ok ins hin
  exact ⟨outs, h1, h2, h3⟩

theorem Scalar52_from_montgomery_safe (ins : List Nat) (hin : EnvIn ins Scalar52.pre_from_montgomery) :
    ∃ outs, Dalek.Gen.Scalar52.from_montgomery.evalC ins = some outs ∧ Dalek.Gen.Scalar52.from_montgomery.evalW ins = outs ∧
      EnvIn outs Dalek.Gen.Norm.Scalar52.from_montgomery_post := by
  obtain ⟨outs, h1, h2, h3, _⟩ := Prog.norm_sound _ _ _ _ Dalek.Gen.Norm.Scalar52.from_montgomery_norm_ok ins hin
  exact ⟨outs, h1, h2, h3⟩

theorem Scalar29_from_bytes_safe (ins : List Nat) (hin : EnvIn ins Scalar29.pre_from_bytes) :
    ∃ outs, Dalek.Gen.Scalar29.from_bytes.evalC ins = some outs ∧ Dalek.Gen.Scalar29.from_bytes.evalW ins = outs ∧
      EnvIn outs Dalek.Gen.Norm.Scalar29.from_bytes_post := by
  obtain ⟨outs, h1, h2, h3, _⟩ := Prog.norm_sound _ _ _ _ Dalek.Gen.Norm.Scalar29.from_bytes_norm_ok ins hin
  exact ⟨outs, h1, h2, h3⟩

theorem Scalar29_as_bytes_safe (ins : List Nat) (hin : EnvIn ins Scalar29.pre_as_bytes) :
    ∃ outs, Dalek.Gen.Scalar29.as_bytes.evalC ins = some outs ∧ Dalek.Gen.Scalar29.as_bytes.evalW ins = outs ∧
      EnvIn outs Dalek.Gen.Norm.Scalar29.as_bytes_post := by
  obtain ⟨outs, h1, h2, h3, _⟩ := Prog.norm_sound _ _ _ _ Dalek.Gen.Norm.Scalar29.as_bytes_norm_ok ins hin
  exact ⟨outs, h1, h2, h3⟩

theorem Scalar29_add_safe (ins : List Nat) (hin : EnvIn ins Scalar29.pre_add) :
    ∃ outs, Dalek.Gen.Scalar29.add.evalC ins = some outs ∧ Dalek.Gen.Scalar29.add.evalW ins = outs ∧
      EnvIn outs Dalek.Gen.Norm.Scalar29.add_post := by
  obtain ⟨outs, h1, h2, h3, _⟩ := Prog.norm_sound _ _ _ _ Dalek.Gen.Norm.Scalar29.add_norm_ok ins hin
  exact ⟨outs, h1, h2, h3⟩

theorem Scalar29_sub_safe (ins : List Nat) (hin : EnvIn ins Scalar29.pre_sub) :
    ∃ outs, Dalek.Gen.Scalar29.sub.evalC ins = some outs ∧ Dalek.Gen.Scalar29.sub.evalW ins = outs ∧
      EnvIn outs Dalek.Gen.Norm.Scalar29.sub_post := by
  obtain ⟨outs, h1, h2, h3, _⟩ := Prog.norm_sound _ _ _ _ Dalek.Gen.Norm.Scalar29.sub_norm_ok ins hin
  exact ⟨outs, h1, h2, h3⟩

theorem Scalar29_mul_internal_safe (ins : List Nat) (hin : EnvIn ins Scalar29.pre_mul_internal) :
    ∃ outs, Dalek.Gen.Scalar29.mul_internal.evalC ins = some outs ∧ Dalek.Gen.Scalar29.mul_internal.evalW ins = outs ∧
      EnvIn outs Dalek.Gen.Norm.Scalar29.mul_internal_post := by
  obtain ⟨outs, h1, h2, h3, _⟩ := Prog.norm_sound _ _ _ _ Dalek.Gen.Norm.Scalar29.mul_internal_norm_ok ins hin
  exact ⟨outs, h1, h2, h3⟩

theorem Scalar29_square_internal_safe (ins : List Nat) (hin : EnvIn ins Scalar29.pre_square_internal) :
    ∃ outs, Dalek.Gen.Scalar29.square_internal.evalC ins = some outs ∧ Dalek.Gen.Scalar29.square_internal.evalW ins = outs ∧
      EnvIn outs Dalek.Gen.Norm.Scalar29.square_internal_post := by
  obtain ⟨outs, h1, h2, h3, _⟩ := Prog.norm_sound _ _ _ _ Dalek.Gen.Norm.Scalar29.square_internal_norm_ok ins hin
  exact ⟨outs, h1, h2, h3⟩

theorem Scalar29_montgomery_reduce_safe (ins : List Nat) (hin : EnvIn ins Scalar29.pre_montgomery_reduce) :
    ∃ outs, Dalek.Gen.Scalar29.montgomery_reduce.evalC ins = some outs ∧ Dalek.Gen.Scalar29.montgomery_reduce.evalW ins = outs ∧
      EnvIn outs Dalek.Gen.Norm.Scalar29.montgomery_reduce_post := by
  obtain ⟨outs, h1, h2, h3, _⟩ := Prog.norm_sound _ _ _ _ Dalek.Gen.Norm.Scalar29.montgomery_reduce_norm_ok ins hin
  exact ⟨outs, h1, h2, h3⟩

theorem Scalar29_montgomery_square_safe (ins : List Nat) (hin : EnvIn ins Scalar29.pre_montgomery_square) :
    ∃ outs, Dalek.Gen.Scalar29.montgomery_square.evalC ins = some outs ∧ Dalek.Gen.Scalar29.montgomery_square.evalW ins = outs ∧
      EnvIn outs Dalek.Gen.Norm.Scalar29.montgomery_square_post := by
  obtain ⟨outs, h1, h2, h3, _⟩ := Prog.norm_sound _ _ _ _ Dalek.Gen.Norm.Scalar29.montgomery_square_norm_ok ins hin
  exact ⟨outs, h1, h2, h3⟩

theorem Scalar29_from_montgomery_safe (ins : List Nat) (hin : EnvIn ins Scalar29.pre_from_montgomery) :
    ∃ outs, Dalek.Gen.Scalar29.from_montgomery.evalC ins = some outs ∧ Dalek.Gen.Scalar29.from_montgomery.evalW ins = outs ∧
      EnvIn outs Dalek.Gen.Norm.Scalar29.from_montgomery_post := by
  obtain ⟨outs, h1, h2, h3, _⟩ := Prog.norm_sound _ _ _ _ Dalek.Gen.Norm.Scalar29.from_montgomery_norm_ok ins hin
  exact ⟨outs, h1, h2, h3⟩

theorem Clamp_clamp_integer_safe (ins : List Nat) (hin : EnvIn ins Clamp.pre_clamp_integer) :
    ∃ outs, Dalek.Gen.Clamp.clamp_integer.evalC ins = some outs ∧ Dalek.Gen.Clamp.clamp_integer.evalW ins = outs ∧
      EnvIn outs Dalek.Gen.Norm.Clamp.clamp_integer_post := by
  obtain ⟨outs, h1, h2, h3, _⟩ := Prog.norm_sound _ _ _ _ Dalek.Gen.Norm.Clamp.clamp_integer_norm_ok ins hin
  exact ⟨outs, h1, h2, h3⟩

/-- non-vacuity: the all-limbs-at-the-bound inputs are inside the contracts -/
example : EnvIn (List.replicate 10 (2 ^ 54 - 1)) Field51.pre_mul := by decide +kernel
example : EnvIn (List.replicate 9 (5 * (2 ^ 52 - 1) * (2 ^ 52 - 1))) Scalar52.pre_montgomery_reduce := by decide +kernel

end Dalek.Props.C11.Kernels

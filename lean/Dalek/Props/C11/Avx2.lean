import Dalek.IR.LimbSound
import Dalek.Gen.Norm.Avx2Field
import Dalek.Proofs.Avx2Field.Defs
/-!
# C11 — no lane overflow in the AVX2 vector field backend (property theorems, kernel level)

Statements are about `Dalek.Gen.Avx2Field.*`: the LimbIR programs REGENERATED on every run from
`curve25519-dalek/src/backend/vector/avx2/field.rs` by lane scalarisation (a `FieldElement2625x4 = [u32x8; 5]` is 40
u32 lanes; every SIMD lane operation is one LimbIR statement at the lane's width, so `evalC` panics exactly when some
u32 / u64 LANE would wrap -- a stronger notion than the debug build of the Rust code, whose SIMD intrinsics wrap
silently).

For every kernel and every input inside its bound contract `Dalek.Model.Contracts.Avx2Field.pre_<k>` (the DOCUMENTED
pre-condition written as an interval vector, see the doc comments there and §"documentation vs. analysis" below):
the lane-checked semantics `evalC` does not fail and agrees with the wrapping semantics `evalW`, and the outputs
satisfy the analysed post-condition `<k>_post` (`<k>_safe`) and the DOCUMENTED post-condition (`<k>_doc_post`).

Excess notation of the source: a vector is "bounded with `b`" if even limbs are `< 2^(26+b)` and odd limbs `< 2^(25+b)`;
`lanes num den` is that bound with `2^b` replaced by the decimal fraction `num/den ≤ 2^b`.
-/
namespace Dalek.Props.C11.Avx2
open Dalek.IR Dalek.Model.Contracts

theorem new_safe (ins : List Nat) (hin : EnvIn ins Avx2Field.pre_new) :
    ∃ outs, Dalek.Gen.Avx2Field.new.evalC ins = some outs ∧ Dalek.Gen.Avx2Field.new.evalW ins = outs ∧
      EnvIn outs Dalek.Gen.Norm.Avx2Field.new_post := by
  obtain ⟨outs, h1, h2, h3, _⟩ := Prog.norm_sound _ _ _ _ Dalek.Gen.Norm.Avx2Field.new_norm_ok ins hin
  exact ⟨outs, h1, h2, h3⟩

theorem split_safe (ins : List Nat) (hin : EnvIn ins Avx2Field.pre_split) :
    ∃ outs, Dalek.Gen.Avx2Field.split.evalC ins = some outs ∧ Dalek.Gen.Avx2Field.split.evalW ins = outs ∧
      EnvIn outs Dalek.Gen.Norm.Avx2Field.split_post := by
  obtain ⟨outs, h1, h2, h3, _⟩ := Prog.norm_sound _ _ _ _ Dalek.Gen.Norm.Avx2Field.split_norm_ok ins hin
  exact ⟨outs, h1, h2, h3⟩

theorem negate_lazy_safe (ins : List Nat) (hin : EnvIn ins Avx2Field.pre_negate_lazy) :
    ∃ outs, Dalek.Gen.Avx2Field.negate_lazy.evalC ins = some outs ∧ Dalek.Gen.Avx2Field.negate_lazy.evalW ins = outs ∧
      EnvIn outs Dalek.Gen.Norm.Avx2Field.negate_lazy_post := by
  obtain ⟨outs, h1, h2, h3, _⟩ := Prog.norm_sound _ _ _ _ Dalek.Gen.Norm.Avx2Field.negate_lazy_norm_ok ins hin
  exact ⟨outs, h1, h2, h3⟩

theorem diff_sum_safe (ins : List Nat) (hin : EnvIn ins Avx2Field.pre_diff_sum) :
    ∃ outs, Dalek.Gen.Avx2Field.diff_sum.evalC ins = some outs ∧ Dalek.Gen.Avx2Field.diff_sum.evalW ins = outs ∧
      EnvIn outs Dalek.Gen.Norm.Avx2Field.diff_sum_post := by
  obtain ⟨outs, h1, h2, h3, _⟩ := Prog.norm_sound _ _ _ _ Dalek.Gen.Norm.Avx2Field.diff_sum_norm_ok ins hin
  exact ⟨outs, h1, h2, h3⟩

theorem reduce_safe (ins : List Nat) (hin : EnvIn ins Avx2Field.pre_reduce) :
    ∃ outs, Dalek.Gen.Avx2Field.reduce.evalC ins = some outs ∧ Dalek.Gen.Avx2Field.reduce.evalW ins = outs ∧
      EnvIn outs Dalek.Gen.Norm.Avx2Field.reduce_post := by
  obtain ⟨outs, h1, h2, h3, _⟩ := Prog.norm_sound _ _ _ _ Dalek.Gen.Norm.Avx2Field.reduce_norm_ok ins hin
  exact ⟨outs, h1, h2, h3⟩

theorem neg_safe (ins : List Nat) (hin : EnvIn ins Avx2Field.pre_neg) :
    ∃ outs, Dalek.Gen.Avx2Field.neg.evalC ins = some outs ∧ Dalek.Gen.Avx2Field.neg.evalW ins = outs ∧
      EnvIn outs Dalek.Gen.Norm.Avx2Field.neg_post := by
  obtain ⟨outs, h1, h2, h3, _⟩ := Prog.norm_sound _ _ _ _ Dalek.Gen.Norm.Avx2Field.neg_norm_ok ins hin
  exact ⟨outs, h1, h2, h3⟩

theorem add_safe (ins : List Nat) (hin : EnvIn ins Avx2Field.pre_add) :
    ∃ outs, Dalek.Gen.Avx2Field.add.evalC ins = some outs ∧ Dalek.Gen.Avx2Field.add.evalW ins = outs ∧
      EnvIn outs Dalek.Gen.Norm.Avx2Field.add_post := by
  obtain ⟨outs, h1, h2, h3, _⟩ := Prog.norm_sound _ _ _ _ Dalek.Gen.Norm.Avx2Field.add_norm_ok ins hin
  exact ⟨outs, h1, h2, h3⟩

theorem mul_consts_safe (ins : List Nat) (hin : EnvIn ins Avx2Field.pre_mul_consts) :
    ∃ outs, Dalek.Gen.Avx2Field.mul_consts.evalC ins = some outs ∧ Dalek.Gen.Avx2Field.mul_consts.evalW ins = outs ∧
      EnvIn outs Dalek.Gen.Norm.Avx2Field.mul_consts_post := by
  obtain ⟨outs, h1, h2, h3, _⟩ := Prog.norm_sound _ _ _ _ Dalek.Gen.Norm.Avx2Field.mul_consts_norm_ok ins hin
  exact ⟨outs, h1, h2, h3⟩

theorem square_and_negate_D_safe (ins : List Nat) (hin : EnvIn ins Avx2Field.pre_square_and_negate_D) :
    ∃ outs, Dalek.Gen.Avx2Field.square_and_negate_D.evalC ins = some outs ∧ Dalek.Gen.Avx2Field.square_and_negate_D.evalW ins = outs ∧
      EnvIn outs Dalek.Gen.Norm.Avx2Field.square_and_negate_D_post := by
  obtain ⟨outs, h1, h2, h3, _⟩ := Prog.norm_sound _ _ _ _ Dalek.Gen.Norm.Avx2Field.square_and_negate_D_norm_ok ins hin
  exact ⟨outs, h1, h2, h3⟩

theorem mul_safe (ins : List Nat) (hin : EnvIn ins Avx2Field.pre_mul) :
    ∃ outs, Dalek.Gen.Avx2Field.mul.evalC ins = some outs ∧ Dalek.Gen.Avx2Field.mul.evalW ins = outs ∧
      EnvIn outs Dalek.Gen.Norm.Avx2Field.mul_post := by
  obtain ⟨outs, h1, h2, h3, _⟩ := Prog.norm_sound _ _ _ _ Dalek.Gen.Norm.Avx2Field.mul_norm_ok ins hin
  exact ⟨outs, h1, h2, h3⟩

theorem reduce64_safe (ins : List Nat) (hin : EnvIn ins Avx2Field.pre_reduce64) :
    ∃ outs, Dalek.Gen.Avx2Field.reduce64.evalC ins = some outs ∧ Dalek.Gen.Avx2Field.reduce64.evalW ins = outs ∧
      EnvIn outs Dalek.Gen.Norm.Avx2Field.reduce64_post := by
  obtain ⟨outs, h1, h2, h3, _⟩ := Prog.norm_sound _ _ _ _ Dalek.Gen.Norm.Avx2Field.reduce64_norm_ok ins hin
  exact ⟨outs, h1, h2, h3⟩

theorem conditional_select_safe (ins : List Nat) (hin : EnvIn ins Avx2Field.pre_conditional_select) :
    ∃ outs, Dalek.Gen.Avx2Field.conditional_select.evalC ins = some outs ∧ Dalek.Gen.Avx2Field.conditional_select.evalW ins = outs ∧
      EnvIn outs Dalek.Gen.Norm.Avx2Field.conditional_select_post := by
  obtain ⟨outs, h1, h2, h3, _⟩ := Prog.norm_sound _ _ _ _ Dalek.Gen.Norm.Avx2Field.conditional_select_norm_ok ins hin
  exact ⟨outs, h1, h2, h3⟩

theorem conditional_assign_safe (ins : List Nat) (hin : EnvIn ins Avx2Field.pre_conditional_assign) :
    ∃ outs, Dalek.Gen.Avx2Field.conditional_assign.evalC ins = some outs ∧ Dalek.Gen.Avx2Field.conditional_assign.evalW ins = outs ∧
      EnvIn outs Dalek.Gen.Norm.Avx2Field.conditional_assign_post := by
  obtain ⟨outs, h1, h2, h3, _⟩ := Prog.norm_sound _ _ _ _ Dalek.Gen.Norm.Avx2Field.conditional_assign_norm_ok ins hin
  exact ⟨outs, h1, h2, h3⟩

theorem shuffle_AAAA_safe (ins : List Nat) (hin : EnvIn ins Avx2Field.pre_shuffle_AAAA) :
    ∃ outs, Dalek.Gen.Avx2Field.shuffle_AAAA.evalC ins = some outs ∧ Dalek.Gen.Avx2Field.shuffle_AAAA.evalW ins = outs ∧
      EnvIn outs Dalek.Gen.Norm.Avx2Field.shuffle_AAAA_post := by
  obtain ⟨outs, h1, h2, h3, _⟩ := Prog.norm_sound _ _ _ _ Dalek.Gen.Norm.Avx2Field.shuffle_AAAA_norm_ok ins hin
  exact ⟨outs, h1, h2, h3⟩

theorem shuffle_BBBB_safe (ins : List Nat) (hin : EnvIn ins Avx2Field.pre_shuffle_BBBB) :
    ∃ outs, Dalek.Gen.Avx2Field.shuffle_BBBB.evalC ins = some outs ∧ Dalek.Gen.Avx2Field.shuffle_BBBB.evalW ins = outs ∧
      EnvIn outs Dalek.Gen.Norm.Avx2Field.shuffle_BBBB_post := by
  obtain ⟨outs, h1, h2, h3, _⟩ := Prog.norm_sound _ _ _ _ Dalek.Gen.Norm.Avx2Field.shuffle_BBBB_norm_ok ins hin
  exact ⟨outs, h1, h2, h3⟩

theorem shuffle_CACA_safe (ins : List Nat) (hin : EnvIn ins Avx2Field.pre_shuffle_CACA) :
    ∃ outs, Dalek.Gen.Avx2Field.shuffle_CACA.evalC ins = some outs ∧ Dalek.Gen.Avx2Field.shuffle_CACA.evalW ins = outs ∧
      EnvIn outs Dalek.Gen.Norm.Avx2Field.shuffle_CACA_post := by
  obtain ⟨outs, h1, h2, h3, _⟩ := Prog.norm_sound _ _ _ _ Dalek.Gen.Norm.Avx2Field.shuffle_CACA_norm_ok ins hin
  exact ⟨outs, h1, h2, h3⟩

theorem shuffle_DBBD_safe (ins : List Nat) (hin : EnvIn ins Avx2Field.pre_shuffle_DBBD) :
    ∃ outs, Dalek.Gen.Avx2Field.shuffle_DBBD.evalC ins = some outs ∧ Dalek.Gen.Avx2Field.shuffle_DBBD.evalW ins = outs ∧
      EnvIn outs Dalek.Gen.Norm.Avx2Field.shuffle_DBBD_post := by
  obtain ⟨outs, h1, h2, h3, _⟩ := Prog.norm_sound _ _ _ _ Dalek.Gen.Norm.Avx2Field.shuffle_DBBD_norm_ok ins hin
  exact ⟨outs, h1, h2, h3⟩

theorem shuffle_ADDA_safe (ins : List Nat) (hin : EnvIn ins Avx2Field.pre_shuffle_ADDA) :
    ∃ outs, Dalek.Gen.Avx2Field.shuffle_ADDA.evalC ins = some outs ∧ Dalek.Gen.Avx2Field.shuffle_ADDA.evalW ins = outs ∧
      EnvIn outs Dalek.Gen.Norm.Avx2Field.shuffle_ADDA_post := by
  obtain ⟨outs, h1, h2, h3, _⟩ := Prog.norm_sound _ _ _ _ Dalek.Gen.Norm.Avx2Field.shuffle_ADDA_norm_ok ins hin
  exact ⟨outs, h1, h2, h3⟩

theorem shuffle_CBCB_safe (ins : List Nat) (hin : EnvIn ins Avx2Field.pre_shuffle_CBCB) :
    ∃ outs, Dalek.Gen.Avx2Field.shuffle_CBCB.evalC ins = some outs ∧ Dalek.Gen.Avx2Field.shuffle_CBCB.evalW ins = outs ∧
      EnvIn outs Dalek.Gen.Norm.Avx2Field.shuffle_CBCB_post := by
  obtain ⟨outs, h1, h2, h3, _⟩ := Prog.norm_sound _ _ _ _ Dalek.Gen.Norm.Avx2Field.shuffle_CBCB_norm_ok ins hin
  exact ⟨outs, h1, h2, h3⟩

theorem shuffle_ABAB_safe (ins : List Nat) (hin : EnvIn ins Avx2Field.pre_shuffle_ABAB) :
    ∃ outs, Dalek.Gen.Avx2Field.shuffle_ABAB.evalC ins = some outs ∧ Dalek.Gen.Avx2Field.shuffle_ABAB.evalW ins = outs ∧
      EnvIn outs Dalek.Gen.Norm.Avx2Field.shuffle_ABAB_post := by
  obtain ⟨outs, h1, h2, h3, _⟩ := Prog.norm_sound _ _ _ _ Dalek.Gen.Norm.Avx2Field.shuffle_ABAB_norm_ok ins hin
  exact ⟨outs, h1, h2, h3⟩

theorem shuffle_BADC_safe (ins : List Nat) (hin : EnvIn ins Avx2Field.pre_shuffle_BADC) :
    ∃ outs, Dalek.Gen.Avx2Field.shuffle_BADC.evalC ins = some outs ∧ Dalek.Gen.Avx2Field.shuffle_BADC.evalW ins = outs ∧
      EnvIn outs Dalek.Gen.Norm.Avx2Field.shuffle_BADC_post := by
  obtain ⟨outs, h1, h2, h3, _⟩ := Prog.norm_sound _ _ _ _ Dalek.Gen.Norm.Avx2Field.shuffle_BADC_norm_ok ins hin
  exact ⟨outs, h1, h2, h3⟩

theorem shuffle_BACD_safe (ins : List Nat) (hin : EnvIn ins Avx2Field.pre_shuffle_BACD) :
    ∃ outs, Dalek.Gen.Avx2Field.shuffle_BACD.evalC ins = some outs ∧ Dalek.Gen.Avx2Field.shuffle_BACD.evalW ins = outs ∧
      EnvIn outs Dalek.Gen.Norm.Avx2Field.shuffle_BACD_post := by
  obtain ⟨outs, h1, h2, h3, _⟩ := Prog.norm_sound _ _ _ _ Dalek.Gen.Norm.Avx2Field.shuffle_BACD_norm_ok ins hin
  exact ⟨outs, h1, h2, h3⟩

theorem shuffle_ABDC_safe (ins : List Nat) (hin : EnvIn ins Avx2Field.pre_shuffle_ABDC) :
    ∃ outs, Dalek.Gen.Avx2Field.shuffle_ABDC.evalC ins = some outs ∧ Dalek.Gen.Avx2Field.shuffle_ABDC.evalW ins = outs ∧
      EnvIn outs Dalek.Gen.Norm.Avx2Field.shuffle_ABDC_post := by
  obtain ⟨outs, h1, h2, h3, _⟩ := Prog.norm_sound _ _ _ _ Dalek.Gen.Norm.Avx2Field.shuffle_ABDC_norm_ok ins hin
  exact ⟨outs, h1, h2, h3⟩

theorem blend_C_safe (ins : List Nat) (hin : EnvIn ins Avx2Field.pre_blend_C) :
    ∃ outs, Dalek.Gen.Avx2Field.blend_C.evalC ins = some outs ∧ Dalek.Gen.Avx2Field.blend_C.evalW ins = outs ∧
      EnvIn outs Dalek.Gen.Norm.Avx2Field.blend_C_post := by
  obtain ⟨outs, h1, h2, h3, _⟩ := Prog.norm_sound _ _ _ _ Dalek.Gen.Norm.Avx2Field.blend_C_norm_ok ins hin
  exact ⟨outs, h1, h2, h3⟩

theorem blend_D_safe (ins : List Nat) (hin : EnvIn ins Avx2Field.pre_blend_D) :
    ∃ outs, Dalek.Gen.Avx2Field.blend_D.evalC ins = some outs ∧ Dalek.Gen.Avx2Field.blend_D.evalW ins = outs ∧
      EnvIn outs Dalek.Gen.Norm.Avx2Field.blend_D_post := by
  obtain ⟨outs, h1, h2, h3, _⟩ := Prog.norm_sound _ _ _ _ Dalek.Gen.Norm.Avx2Field.blend_D_norm_ok ins hin
  exact ⟨outs, h1, h2, h3⟩

theorem blend_AB_safe (ins : List Nat) (hin : EnvIn ins Avx2Field.pre_blend_AB) :
    ∃ outs, Dalek.Gen.Avx2Field.blend_AB.evalC ins = some outs ∧ Dalek.Gen.Avx2Field.blend_AB.evalW ins = outs ∧
      EnvIn outs Dalek.Gen.Norm.Avx2Field.blend_AB_post := by
  obtain ⟨outs, h1, h2, h3, _⟩ := Prog.norm_sound _ _ _ _ Dalek.Gen.Norm.Avx2Field.blend_AB_norm_ok ins hin
  exact ⟨outs, h1, h2, h3⟩

theorem blend_AC_safe (ins : List Nat) (hin : EnvIn ins Avx2Field.pre_blend_AC) :
    ∃ outs, Dalek.Gen.Avx2Field.blend_AC.evalC ins = some outs ∧ Dalek.Gen.Avx2Field.blend_AC.evalW ins = outs ∧
      EnvIn outs Dalek.Gen.Norm.Avx2Field.blend_AC_post := by
  obtain ⟨outs, h1, h2, h3, _⟩ := Prog.norm_sound _ _ _ _ Dalek.Gen.Norm.Avx2Field.blend_AC_norm_ok ins hin
  exact ⟨outs, h1, h2, h3⟩

theorem blend_CD_safe (ins : List Nat) (hin : EnvIn ins Avx2Field.pre_blend_CD) :
    ∃ outs, Dalek.Gen.Avx2Field.blend_CD.evalC ins = some outs ∧ Dalek.Gen.Avx2Field.blend_CD.evalW ins = outs ∧
      EnvIn outs Dalek.Gen.Norm.Avx2Field.blend_CD_post := by
  obtain ⟨outs, h1, h2, h3, _⟩ := Prog.norm_sound _ _ _ _ Dalek.Gen.Norm.Avx2Field.blend_CD_norm_ok ins hin
  exact ⟨outs, h1, h2, h3⟩

theorem blend_AD_safe (ins : List Nat) (hin : EnvIn ins Avx2Field.pre_blend_AD) :
    ∃ outs, Dalek.Gen.Avx2Field.blend_AD.evalC ins = some outs ∧ Dalek.Gen.Avx2Field.blend_AD.evalW ins = outs ∧
      EnvIn outs Dalek.Gen.Norm.Avx2Field.blend_AD_post := by
  obtain ⟨outs, h1, h2, h3, _⟩ := Prog.norm_sound _ _ _ _ Dalek.Gen.Norm.Avx2Field.blend_AD_norm_ok ins hin
  exact ⟨outs, h1, h2, h3⟩

theorem blend_BC_safe (ins : List Nat) (hin : EnvIn ins Avx2Field.pre_blend_BC) :
    ∃ outs, Dalek.Gen.Avx2Field.blend_BC.evalC ins = some outs ∧ Dalek.Gen.Avx2Field.blend_BC.evalW ins = outs ∧
      EnvIn outs Dalek.Gen.Norm.Avx2Field.blend_BC_post := by
  obtain ⟨outs, h1, h2, h3, _⟩ := Prog.norm_sound _ _ _ _ Dalek.Gen.Norm.Avx2Field.blend_BC_norm_ok ins hin
  exact ⟨outs, h1, h2, h3⟩

theorem blend_ABCD_safe (ins : List Nat) (hin : EnvIn ins Avx2Field.pre_blend_ABCD) :
    ∃ outs, Dalek.Gen.Avx2Field.blend_ABCD.evalC ins = some outs ∧ Dalek.Gen.Avx2Field.blend_ABCD.evalW ins = outs ∧
      EnvIn outs Dalek.Gen.Norm.Avx2Field.blend_ABCD_post := by
  obtain ⟨outs, h1, h2, h3, _⟩ := Prog.norm_sound _ _ _ _ Dalek.Gen.Norm.Avx2Field.blend_ABCD_norm_ok ins hin
  exact ⟨outs, h1, h2, h3⟩

/-! ## documented post-conditions -/

open Dalek.Proofs.Avx2Field (b0002 b007 b1 b16)

/-- `new`: four `FieldElement51` with limbs `< 2^54` ↦ vector bounded with `b < 0.0002` -/
theorem new_doc_post (ins : List Nat) (hin : EnvIn ins Avx2Field.pre_new) :
    ∃ outs, Dalek.Gen.Avx2Field.new.evalC ins = some outs ∧ Dalek.Gen.Avx2Field.new.evalW ins = outs ∧
      EnvIn outs b0002 := by
  obtain ⟨outs, h1, h2, h3⟩ := new_safe ins hin
  exact ⟨outs, h1, h2, EnvIn_of_itvsLe h3 (by decide +kernel)⟩

/-- `reduce`: ANY forty u32 lanes ↦ `b < 0.0002` -/
theorem reduce_doc_post (ins : List Nat) (hin : EnvIn ins Avx2Field.pre_reduce) :
    ∃ outs, Dalek.Gen.Avx2Field.reduce.evalC ins = some outs ∧ Dalek.Gen.Avx2Field.reduce.evalW ins = outs ∧
      EnvIn outs b0002 := by
  obtain ⟨outs, h1, h2, h3⟩ := reduce_safe ins hin
  exact ⟨outs, h1, h2, EnvIn_of_itvsLe h3 (by decide +kernel)⟩

/-- `-x`: every lane `≤` the lane of `(16p,16p,16p,16p)` ↦ `b < 0.0002` -/
theorem neg_doc_post (ins : List Nat) (hin : EnvIn ins Avx2Field.pre_neg) :
    ∃ outs, Dalek.Gen.Avx2Field.neg.evalC ins = some outs ∧ Dalek.Gen.Avx2Field.neg.evalW ins = outs ∧
      EnvIn outs b0002 := by
  obtain ⟨outs, h1, h2, h3⟩ := neg_safe ins hin
  exact ⟨outs, h1, h2, EnvIn_of_itvsLe h3 (by decide +kernel)⟩

/-- `negate_lazy`: `b < 0.999` ↦ `b < 1` -/
theorem negate_lazy_doc_post (ins : List Nat) (hin : EnvIn ins Avx2Field.pre_negate_lazy) :
    ∃ outs, Dalek.Gen.Avx2Field.negate_lazy.evalC ins = some outs ∧ Dalek.Gen.Avx2Field.negate_lazy.evalW ins = outs ∧
      EnvIn outs b1 := by
  obtain ⟨outs, h1, h2, h3⟩ := negate_lazy_safe ins hin
  exact ⟨outs, h1, h2, EnvIn_of_itvsLe h3 (by decide +kernel)⟩

/-- `diff_sum`: `b < 0.01` ↦ `b < 1.6` -/
theorem diff_sum_doc_post (ins : List Nat) (hin : EnvIn ins Avx2Field.pre_diff_sum) :
    ∃ outs, Dalek.Gen.Avx2Field.diff_sum.evalC ins = some outs ∧ Dalek.Gen.Avx2Field.diff_sum.evalW ins = outs ∧
      EnvIn outs b16 := by
  obtain ⟨outs, h1, h2, h3⟩ := diff_sum_safe ins hin
  exact ⟨outs, h1, h2, EnvIn_of_itvsLe h3 (by decide +kernel)⟩

/-- `&x * &y`: `b_x < 2.5`, `b_y < 1.75` ↦ `b < 0.007` -/
theorem mul_doc_post (ins : List Nat) (hin : EnvIn ins Avx2Field.pre_mul) :
    ∃ outs, Dalek.Gen.Avx2Field.mul.evalC ins = some outs ∧ Dalek.Gen.Avx2Field.mul.evalW ins = outs ∧
      EnvIn outs b007 := by
  obtain ⟨outs, h1, h2, h3⟩ := mul_safe ins hin
  exact ⟨outs, h1, h2, EnvIn_of_itvsLe h3 (by decide +kernel)⟩

/-- `square_and_negate_D`: `b < 1.5` ↦ `b < 0.007` -/
theorem square_and_negate_D_doc_post (ins : List Nat) (hin : EnvIn ins Avx2Field.pre_square_and_negate_D) :
    ∃ outs, Dalek.Gen.Avx2Field.square_and_negate_D.evalC ins = some outs ∧ Dalek.Gen.Avx2Field.square_and_negate_D.evalW ins = outs ∧
      EnvIn outs b007 := by
  obtain ⟨outs, h1, h2, h3⟩ := square_and_negate_D_safe ins hin
  exact ⟨outs, h1, h2, EnvIn_of_itvsLe h3 (by decide +kernel)⟩

/-- `x * (s0,s1,s2,s3)`: any u32 lanes, scalars `< 2^31` ↦ `b < 0.007` -/
theorem mul_consts_doc_post (ins : List Nat) (hin : EnvIn ins Avx2Field.pre_mul_consts) :
    ∃ outs, Dalek.Gen.Avx2Field.mul_consts.evalC ins = some outs ∧ Dalek.Gen.Avx2Field.mul_consts.evalW ins = outs ∧
      EnvIn outs b007 := by
  obtain ⟨outs, h1, h2, h3⟩ := mul_consts_safe ins hin
  exact ⟨outs, h1, h2, EnvIn_of_itvsLe h3 (by decide +kernel)⟩

/-- `reduce64`: wide coefficients `≤ 2^64 - 2^39` ↦ `b < 0.007` -/
theorem reduce64_doc_post (ins : List Nat) (hin : EnvIn ins Avx2Field.pre_reduce64) :
    ∃ outs, Dalek.Gen.Avx2Field.reduce64.evalC ins = some outs ∧ Dalek.Gen.Avx2Field.reduce64.evalW ins = outs ∧
      EnvIn outs b007 := by
  obtain ⟨outs, h1, h2, h3⟩ := reduce64_safe ins hin
  exact ⟨outs, h1, h2, EnvIn_of_itvsLe h3 (by decide +kernel)⟩

/-- `split`: any forty u32 lanes ↦ four `FieldElement51` with limbs `< 2^59` -/
theorem split_doc_post (ins : List Nat) (hin : EnvIn ins Avx2Field.pre_split) :
    ∃ outs, Dalek.Gen.Avx2Field.split.evalC ins = some outs ∧ Dalek.Gen.Avx2Field.split.evalW ins = outs ∧
      EnvIn outs (rep 20 (ub (2 ^ 59 - 1))) := by
  obtain ⟨outs, h1, h2, h3⟩ := split_safe ins hin
  exact ⟨outs, h1, h2, EnvIn_of_itvsLe h3 (by decide +kernel)⟩

/-! ## the post-conditions chain into the pre-conditions (the bounds the point formulas rely on) -/

/-- a reduced product (`b < 0.007`) is an admissible operand of everything: either operand of `mul`,
`square_and_negate_D`, `negate_lazy`, `diff_sum`, `neg`; a `diff_sum` result (`b < 1.6`) is an admissible
SECOND operand of `mul` (`b < 1.75`), a `negate_lazy` result (`b < 1`) of `square_and_negate_D` (`b < 1.5`) -/
theorem post_pre_chain :
    itvsLe (b007 ++ b007) Avx2Field.pre_mul = true ∧ itvsLe b007 Avx2Field.pre_square_and_negate_D = true ∧
    itvsLe b007 Avx2Field.pre_negate_lazy = true ∧ itvsLe b007 Avx2Field.pre_diff_sum = true ∧
    itvsLe b007 Avx2Field.pre_neg = true ∧ itvsLe (b007 ++ b16) Avx2Field.pre_mul = true ∧
    itvsLe b1 Avx2Field.pre_square_and_negate_D = true ∧ itvsLe b0002 b007 = true := by decide +kernel

/-! ## documentation vs. analysis -/

/-- generic form of `<k>_safe` for an alternative contract: the analyser accepts `pre` -/
theorem safe_of_norm (p : Prog) (pre : List Itv) (h : (p.norm pre).isSome = true) (ins : List Nat)
    (hin : EnvIn ins pre) : ∃ outs, p.evalC ins = some outs ∧ p.evalW ins = outs := by
  obtain ⟨⟨q, post⟩, e⟩ := Option.isSome_iff_exists.mp h
  obtain ⟨outs, h1, h2, _⟩ := Prog.norm_sound _ _ _ _ e ins hin
  exact ⟨outs, h1, h2⟩

/-- `Neg::neg` documents the pre-condition `b < 4.0`.  That is NOT sufficient: `16p − x` needs `x ≤ 16p` lane-wise,
and the lanes of `16p` are `2^30 − 304`, `2^30 − 16`, `2^29 − 16`, all `< 2^(26+4)` resp. `2^(25+4)`.  Witness: lane 0
equal to `2^30 − 1` (inside `b < 4.0`), all other lanes 0: the lane subtraction wraps (`evalC = none`) and the wrapping
(= real) semantics returns a vector whose element A is NOT the negation of the input (it is off by `2^32`). -/
theorem neg_documented_bound_insufficient :
    let ins : List Nat := (2 ^ 30 - 1) :: List.replicate 39 0
    EnvIn ins (Avx2Field.lanes 16 1) ∧ Dalek.Gen.Avx2Field.neg.evalC ins = none ∧
    (Dalek.Proofs.Field26.rep26 (Dalek.Proofs.Avx2Field.lane .A (toZ (Dalek.Gen.Avx2Field.neg.evalW ins)))
      + Dalek.Proofs.Field26.rep26 (Dalek.Proofs.Avx2Field.lane .A (toZ ins))) % ((2 ^ 255 - 19 : Nat) : Int) ≠ 0 := by
  decide +kernel

/-- ... while every excess up to `b < 3.99` (`2^3.99 = 15.889…`; indeed up to `b < 3.9999995`) is inside the exact
contract `pre_neg`, and so is everything the point formulas feed into `neg` -/
theorem neg_b399_ok : itvsLe (Avx2Field.lanes 15889 1000) Avx2Field.pre_neg = true := by decide +kernel

/-- `negate_lazy` / `diff_sum`: the exact requirement is lane `≤` lane of `(2p,2p,2p,2p)`; the documented `b < 0.999`
resp. `b < 0.01` are inside it (`b < 1` is not: `2^27 − 1 > 2^27 − 38`).  [The source comment justifying this says
"the smallest limb of 2*p is 67108845"; 67108845 `= 2^26 − 19` is the smallest limb of `p`, the smallest even limb of
`2p` is 134217690.  The conclusion is unaffected.] -/
theorem negate_lazy_exact :
    let p2 := Avx2Field.leVecs [Dalek.Gen.Consts.Avx2.P_TIMES_2_LO, Dalek.Gen.Consts.Avx2.P_TIMES_2_HI,
      Dalek.Gen.Consts.Avx2.P_TIMES_2_HI, Dalek.Gen.Consts.Avx2.P_TIMES_2_HI, Dalek.Gen.Consts.Avx2.P_TIMES_2_HI]
    (Dalek.Gen.Avx2Field.negate_lazy.norm p2).isSome = true ∧ (Dalek.Gen.Avx2Field.diff_sum.norm p2).isSome = true ∧
    itvsLe Avx2Field.pre_negate_lazy p2 = true ∧ itvsLe Avx2Field.pre_diff_sum p2 = true ∧
    (Dalek.Gen.Avx2Field.negate_lazy.norm (Avx2Field.lanes 2 1)).isSome = false := by decide +kernel

/-- `reduce64` has no documented pre-condition and its comments argue with `z[i] < 2^64`; but arbitrary u64 lanes
make the carry additions wrap: the carry chain needs `z[i] ≤ 2^64 − 2^39` (the contract).  Witness: `z[0] = z[1] =
2^64 − 1` in element A. -/
theorem reduce64_needs_headroom :
    Dalek.Gen.Avx2Field.reduce64.evalC ((2 ^ 64 - 1) :: 0 :: 0 :: 0 :: (2 ^ 64 - 1) :: List.replicate 35 0) = none ∧
    (Dalek.Gen.Avx2Field.reduce64.norm (rep 40 (ub (2 ^ 64 - 1)))).isSome = false := by decide +kernel

/-- `Mul<(u32,u32,u32,u32)>` ("small constants", no documented bound): arbitrary u32 scalars on arbitrary u32 lanes
wrap inside `reduce64`; scalars `< 2^31` (the contract) or lanes with `b < 5` and scalars `≤ 2^32 − 256` do not -/
theorem mul_consts_headroom :
    Dalek.Gen.Avx2Field.mul_consts.evalC (List.replicate 44 (2 ^ 32 - 1)) = none ∧
    (Dalek.Gen.Avx2Field.mul_consts.norm (Avx2Field.lanes 32 1 ++ rep 4 (ub (2 ^ 32 - 1)))).isSome = true ∧
    (Dalek.Gen.Avx2Field.mul_consts.norm (Avx2Field.anyU32 ++ rep 4 (ub (2 ^ 32 - 256)))).isSome = true := by
  decide +kernel

/-- `new`: the analysis also passes for `FieldElement51` limbs `< 2^58` (from `2^58` on, the `as u32` of the high half
`x >> 26` truncates: still no lane wrap, but a wrong value) -/
theorem new_headroom : (Dalek.Gen.Avx2Field.new.norm (rep 20 (ub (2 ^ 58 - 1)))).isSome = true := by decide +kernel

/-- `mul`: the source remarks that the bound `b_x < 2.5` "is slightly sloppy" since `b_y < 1.75` is needed anyway;
indeed the analysis passes with `(b_x, b_y) < (3.0, 1.75)` (and fails with `b_x < 3.58`, `2^3.58 = 11.96`) -/
theorem mul_bx_headroom :
    (Dalek.Gen.Avx2Field.mul.norm (Avx2Field.lanes 8 1 ++ Avx2Field.lanes 3363 1000)).isSome = true ∧
    (Dalek.Gen.Avx2Field.mul.norm (Avx2Field.lanes 12 1 ++ Avx2Field.lanes 3363 1000)).isSome = false := by
  decide +kernel

/-- `square_and_negate_D`: the documented `b < 1.5` is conservative (it compares every `z_i` with the smallest limb
of `p·2^37`, which is only subtracted from the odd, smaller, `z_i`): no lane wraps up to `b < 1.75`; at `b < 2` the
D-lane subtraction can wrap -/
theorem square_headroom :
    (Dalek.Gen.Avx2Field.square_and_negate_D.norm (Avx2Field.lanes 3363 1000)).isSome = true ∧
    (Dalek.Gen.Avx2Field.square_and_negate_D.norm (Avx2Field.lanes 4 1)).isSome = false := by decide +kernel

/-! Non-vacuity: the all-lanes-at-the-bound inputs are inside the contracts. -/
example : EnvIn (Avx2Field.pre_new.map (·.hi)) Avx2Field.pre_new := by decide +kernel
example : EnvIn (Avx2Field.pre_negate_lazy.map (·.hi)) Avx2Field.pre_negate_lazy := by decide +kernel
example : EnvIn (Avx2Field.pre_diff_sum.map (·.hi)) Avx2Field.pre_diff_sum := by decide +kernel
example : EnvIn (Avx2Field.pre_reduce.map (·.hi)) Avx2Field.pre_reduce := by decide +kernel
example : EnvIn (Avx2Field.pre_neg.map (·.hi)) Avx2Field.pre_neg := by decide +kernel
example : EnvIn (Avx2Field.pre_add.map (·.hi)) Avx2Field.pre_add := by decide +kernel
example : EnvIn (Avx2Field.pre_mul_consts.map (·.hi)) Avx2Field.pre_mul_consts := by decide +kernel
example : EnvIn (Avx2Field.pre_square_and_negate_D.map (·.hi)) Avx2Field.pre_square_and_negate_D := by decide +kernel
example : EnvIn (Avx2Field.pre_mul.map (·.hi)) Avx2Field.pre_mul := by decide +kernel
example : EnvIn (Avx2Field.pre_reduce64.map (·.hi)) Avx2Field.pre_reduce64 := by decide +kernel
example : EnvIn (Avx2Field.pre_conditional_select.map (·.hi)) Avx2Field.pre_conditional_select := by decide +kernel
example : EnvIn (Avx2Field.pre_blend_AB.map (·.hi)) Avx2Field.pre_blend_AB := by decide +kernel
example : EnvIn (Avx2Field.pre_shuffle_BADC.map (·.hi)) Avx2Field.pre_shuffle_BADC := by decide +kernel
example : EnvIn (Avx2Field.pre_split.map (·.hi)) Avx2Field.pre_split := by decide +kernel

end Dalek.Props.C11.Avx2
